"""Connection lifecycle of the SQLite stores -> lean/WfModel/GenSqliteConn.lean.

Re-read from /repo's current `sqlite_workflow_store.py`, `sqlite_state_store.py`
(and the concrete methods `SqliteWorkflowStore` inherits from
`abstract_workflow_store.py`) on every run.  For both classes the extractor

* finds the *provider* (`_connect`), and which connection it hands out when the
  object has a shared connection (single-connection mode) and when it has not;
* finds every *section function* (a method that obtains a connection: through
  the provider as `with self._connect() as c` / `c = self._connect()` /
  `contextlib.closing(...)`, by `sqlite3.connect` directly, or by using the
  shared attribute itself) and symbolically executes its body twice -- once for
  an object that has the shared connection, once for one that has not -- with
  the provider, `contextlib.closing`, and helper methods that are handed the
  connection (`_release(conn)`, `_save_state(state, conn)`) inlined, mode tests
  (`self._single_connection`, `self._shared_conn is not None`,
  `conn is not self._shared_conn`, `should_close = conn is None`) evaluated, and
  all normal paths enumerated.  From the event sequences (acquire, DML, commit,
  close, call that may raise) it derives, per mode: closes on the normal path,
  closes on the exception path, every DML committed, commit on the exception
  path, an exception can leave uncommitted changes;
* lists every public method with the section functions it can reach.

Shapes the extractor cannot classify are counted in `unknowns` (the Lean table
check requires 0) and explained in the notes.
"""
from __future__ import annotations

import ast
import re
import os
from typing import Any

from ..boot import repo_path

LEAN_MODULE = "GenSqliteConn"
BASE = "packages/llama-agents-server/src/llama_agents/server/_store/"
WS_SRC = BASE + "sqlite/sqlite_workflow_store.py"
SS_SRC = BASE + "sqlite/sqlite_state_store.py"
ABS_SRC = BASE + "abstract_workflow_store.py"
CLASSES = [(0, "ws", "SqliteWorkflowStore", WS_SRC), (1, "ss", "SqliteStateStore", SS_SRC)]
PROVIDER = "_connect"
OPENERS = ("_open_nolock",)
READ_VERBS = {"SELECT", "PRAGMA", "EXPLAIN", "WITH"}
DML_VERBS = {"INSERT", "UPDATE", "DELETE", "REPLACE"}
EXEC_ATTRS = {"execute", "executemany", "executescript"}
SAFE_ATTRS = {"cursor", "fetchone", "fetchall", "fetchmany", "isoformat", "append", "extend", "join", "get"}
SAFE_NAMES = {"tuple", "int", "len", "list", "str", "type", "isinstance", "bool"}
MAX_PATHS = 256
MAX_DEPTH = 4


# --------------------------------------------------------------------------
# class information


class Cls:
    def __init__(self, idx: int, tag: str, name: str, rel: str, notes: list[str]):
        self.idx, self.tag, self.name, self.rel = idx, tag, name, rel
        self.methods: dict[str, ast.AST] = {}
        self.inherited: dict[str, ast.AST] = {}
        self.shared_attr: str | None = None
        self.mode_attr: str | None = None  # boolean attribute set from the ctor's single_connection parameter
        self.module_funcs: set[str] = set()
        self.module_defs: dict[str, ast.AST] = {}
        self.unknowns = 0
        self.notes = notes
        try:
            tree = ast.parse(open(repo_path(rel)).read())
        except (OSError, SyntaxError) as e:
            self.unknown(f"cannot parse {rel}: {e!r}")
            return
        self.module_defs: dict[str, ast.AST] = {}
        for n in tree.body:
            if isinstance(n, (ast.FunctionDef, ast.AsyncFunctionDef)):
                self.module_defs[n.name] = n
            if isinstance(n, ast.ClassDef) and n.name == name:
                for f in n.body:
                    if isinstance(f, (ast.FunctionDef, ast.AsyncFunctionDef)):
                        self.methods[f.name] = f
        if not self.methods:
            self.unknown(f"class {name} not found in {rel}")
        self._find_attrs()

    def unknown(self, what: str) -> None:
        self.unknowns += 1
        self.notes.append(f"gen/sqlite_conn: {what}")

    def _find_attrs(self) -> None:
        init = self.methods.get("__init__")
        if init is None:
            self.unknown(f"{self.name}.__init__ not found")
            return
        params = {a.arg: (ast.unparse(a.annotation) if a.annotation is not None else "")
                  for a in init.args.args + init.args.kwonlyargs}
        cands: list[str] = []
        for n in ast.walk(init):
            tgt = val = None
            if isinstance(n, ast.Assign) and len(n.targets) == 1:
                tgt, val = n.targets[0], n.value
            elif isinstance(n, ast.AnnAssign):
                tgt, val = n.target, n.value
                if _is_self_attr(tgt) and "Connection" in ast.unparse(n.annotation):
                    cands.append(tgt.attr)  # type: ignore[union-attr]
            if tgt is None or val is None or not _is_self_attr(tgt):
                continue
            if isinstance(val, ast.Name) and "Connection" in params.get(val.id, ""):
                cands.append(tgt.attr)  # type: ignore[union-attr]
            if isinstance(val, ast.Name) and val.id == "single_connection":
                self.mode_attr = tgt.attr  # type: ignore[union-attr]
            if _is_open_call(val):
                cands.append(tgt.attr)  # type: ignore[union-attr]
        uniq = sorted(set(cands))
        if len(uniq) == 1:
            self.shared_attr = uniq[0]
        else:
            self.unknown(f"{self.name}: expected exactly one shared-connection attribute, found {uniq}")

    def all_methods(self) -> dict[str, ast.AST]:
        d = dict(self.inherited)
        d.update(self.methods)
        return d


def _is_self_attr(n: ast.AST | None, attr: str | None = None) -> bool:
    return (isinstance(n, ast.Attribute) and isinstance(n.value, ast.Name) and n.value.id == "self"
            and (attr is None or n.attr == attr))


def _is_open_call(n: ast.AST | None) -> bool:
    """sqlite3.connect(...) / self._open_nolock(...) / Cls._open_nolock(...)"""
    if not isinstance(n, ast.Call) or not isinstance(n.func, ast.Attribute):
        return False
    f = n.func
    if f.attr == "connect" and isinstance(f.value, ast.Name) and f.value.id == "sqlite3":
        return True
    return f.attr in OPENERS


def _is_class_call(c: ast.Call) -> str | None:
    """`SqliteStateStore(...)` / `cls(...)`: the (syntactic) class being constructed."""
    f = c.func
    name = f.id if isinstance(f, ast.Name) else (f.attr if isinstance(f, ast.Attribute) else None)
    if name == "cls" or (name and name[:1].isupper()):
        return name
    return None


def _decorators(fn: ast.AST) -> list[str]:
    return [ast.unparse(d) for d in getattr(fn, "decorator_list", [])]


def _yields_connection(fn: ast.AST) -> bool:
    """A context-manager method that obtains a connection (provider call / sqlite3.connect) and yields a name."""
    has_acq = any((isinstance(n, ast.Call) and (_is_open_call(n) or _is_self_attr(n.func, PROVIDER))) for n in ast.walk(fn))
    has_yield = any(isinstance(n, ast.Yield) and isinstance(n.value, (ast.Name, ast.Attribute)) for n in ast.walk(fn))
    return has_acq and has_yield


def _is_ctx_provider(fn: ast.AST) -> bool:
    return any(d.split(".")[-1] == "contextmanager" for d in _decorators(fn))


# --------------------------------------------------------------------------
# symbolic execution of one method body in one mode


class Path:
    __slots__ = ("ev", "end")

    def __init__(self, ev: list[tuple] | None = None, end: str | None = None):
        self.ev = ev or []
        self.end = end  # None = still running, "ret", "raise"

    def fork(self) -> "Path":
        return Path(list(self.ev), self.end)


class Env:
    def __init__(self, cls: Cls, has_shared: bool, fn_name: str):
        self.cls = cls
        self.has_shared = has_shared
        self.fn_name = fn_name
        self.conn: dict[str, str] = {}  # variable -> 'shared' | 'fresh' | 'none'
        self.flags: dict[str, bool] = {}
        self.strs: dict[str, str] = {}  # variable -> SQL verb
        self.err: list[tuple] = []  # events located in finally blocks / except handlers
        self.depth = 0
        self.in_err = 0


def _sql_verb(node: ast.AST, env: Env) -> str | None:
    if isinstance(node, ast.Constant) and isinstance(node.value, str):
        w = node.value.strip().split()
        return w[0].upper().rstrip(";") if w else None
    if isinstance(node, ast.JoinedStr) and node.values:
        return _sql_verb(node.values[0], env)
    if isinstance(node, ast.BinOp) and isinstance(node.op, ast.Add):
        return _sql_verb(node.left, env)
    if isinstance(node, ast.Name):
        return env.strs.get(node.id)
    return None


class Walker:
    def __init__(self, cls: Cls):
        self.cls = cls

    # ---- expression classification -------------------------------------
    def conn_of(self, e: ast.AST | None, env: Env) -> str | None:
        """'shared' | 'fresh' | 'none' for expressions known to denote a connection (or None)."""
        if e is None:
            return None
        if isinstance(e, ast.Name):
            return env.conn.get(e.id)
        if self.cls.shared_attr and _is_self_attr(e, self.cls.shared_attr):
            return "shared" if env.has_shared else "none"
        if isinstance(e, ast.Constant) and e.value is None:
            return "none"
        return None

    def evaltest(self, t: ast.AST, env: Env) -> bool | None:
        if isinstance(t, ast.Name) and t.id in env.flags:
            return env.flags[t.id]
        if isinstance(t, ast.UnaryOp) and isinstance(t.op, ast.Not):
            v = self.evaltest(t.operand, env)
            return None if v is None else (not v)
        if isinstance(t, ast.BoolOp):
            vals = [self.evaltest(v, env) for v in t.values]
            if isinstance(t.op, ast.And):
                if any(v is False for v in vals):
                    return False
                return True if all(v is True for v in vals) else None
            if any(v is True for v in vals):
                return True
            return False if all(v is False for v in vals) else None
        if self.cls.mode_attr and _is_self_attr(t, self.cls.mode_attr):
            return env.has_shared
        if isinstance(t, ast.Compare) and len(t.ops) == 1 and isinstance(t.ops[0], (ast.Is, ast.IsNot)):
            a, b = self.conn_of(t.left, env), self.conn_of(t.comparators[0], env)
            if a is None or b is None:
                return None
            if "none" in (a, b):
                same = a == b
            elif a == "shared" and b == "shared":
                same = True
            elif a != b:
                same = False
            else:  # fresh vs fresh: the same variable is identical, otherwise unknown
                same = True if ast.unparse(t.left) == ast.unparse(t.comparators[0]) else None  # type: ignore[assignment]
                if same is None:
                    return None
            return same if isinstance(t.ops[0], ast.Is) else (not same)
        c = self.conn_of(t, env)
        if c is not None:  # truthiness of a connection expression
            return c != "none"
        return None

    # ---- statements ------------------------------------------------------
    def emit(self, paths: list[Path], ev: tuple, env: Env) -> None:
        if env.in_err:
            env.err.append(ev)
            return
        for p in paths:
            if p.end is None:
                p.ev.append(ev)

    def calls_in(self, e: ast.AST | None, paths: list[Path], env: Env) -> str | None:
        """Record the events of every call inside expression `e`; returns the connection class the
        expression evaluates to when it is an acquisition."""
        if e is None:
            return None
        result: str | None = None
        # evaluate inner calls first (arguments before the call)
        calls = [n for n in ast.walk(e) if isinstance(n, ast.Call)]
        calls.sort(key=lambda n: (getattr(n, "end_lineno", 0), getattr(n, "end_col_offset", 0)))
        for c in calls:
            r = self.one_call(c, paths, env)
            if c is e or (isinstance(e, ast.Await) and c is e.value):
                result = r
        return result

    def passes_conn(self, c: ast.Call, env: Env) -> tuple[int | None, str | None, str | None]:
        """If a connection is passed as an argument: (position, keyword, class)."""
        for i, a in enumerate(c.args):
            k = self.conn_of(a, env)
            if k in ("shared", "fresh"):
                return i, None, k
        for kw in c.keywords:
            k = self.conn_of(kw.value, env)
            if k in ("shared", "fresh"):
                return None, kw.arg, k
        return None, None, None

    def one_call(self, c: ast.Call, paths: list[Path], env: Env) -> str | None:
        f = c.func
        cls = self.cls
        methods = cls.all_methods()
        if _is_open_call(c):
            self.emit(paths, ("acq", "fresh", "own"), env)
            return "fresh"
        if isinstance(f, ast.Attribute):
            recv_conn = self.conn_of(f.value, env)
            if f.attr in EXEC_ATTRS:
                verb = _sql_verb(c.args[0], env) if c.args else None
                if f.attr == "executescript":
                    self.emit(paths, ("dml",), env)
                    self.emit(paths, ("commit",), env)  # executescript commits a pending transaction first; scripts carry their own BEGIN/COMMIT
                elif verb in READ_VERBS:
                    self.emit(paths, ("read",), env)
                elif verb in DML_VERBS:
                    self.emit(paths, ("dml",), env)
                else:
                    cls.unknown(f"{cls.name}.{env.fn_name}: cannot classify SQL of {ast.unparse(c)[:60]!r}; treated as DML")
                    self.emit(paths, ("dml",), env)
                if recv_conn == "shared" and not any(e[0] == "acq" for p in paths for e in p.ev):
                    pass
                return None
            if f.attr == "commit" and not c.args:
                self.emit(paths, ("commit",), env)
                return None
            if f.attr == "rollback" and not c.args:
                self.emit(paths, ("rollback",), env)
                return None
            if f.attr == "close" and not c.args:
                if recv_conn in ("shared", "fresh"):
                    self.emit(paths, ("close", recv_conn), env)
                elif recv_conn is None and not (isinstance(f.value, ast.Name) and "cur" in f.value.id.lower()):
                    cls.unknown(f"{cls.name}.{env.fn_name}: close() on an unclassified object {ast.unparse(f.value)!r}")
                return None
            if _is_self_attr(f) and f.attr in methods:
                callee = methods[f.attr]
                if f.attr == PROVIDER and not _is_ctx_provider(callee):
                    return self.inline_plain_provider(callee, paths, env)
                if f.attr == PROVIDER:
                    cls.unknown(f"{cls.name}.{env.fn_name}: context-manager provider called outside a with statement")
                    return None
                pos, kw, k = self.passes_conn(c, env)
                if k is not None:
                    self.inline_helper(callee, c, pos, kw, k, paths, env)
                    return None
                self.emit(paths, ("callsec", f.attr), env)
                return None
            if f.attr in SAFE_ATTRS:
                return None
        pos, kw, k = self.passes_conn(c, env)
        if k is not None and _is_class_call(c):
            return None  # a constructor that is handed the connection stores it; using it is analysed in that class
        if k is not None:
            # an external function is handed the connection (the migration runner): it writes and commits on it
            self.emit(paths, ("dml",), env)
            self.emit(paths, ("commit",), env)
            self.emit(paths, ("gap",), env)
            return None
        if isinstance(f, ast.Name) and f.id in SAFE_NAMES:
            return None
        self.emit(paths, ("gap",), env)
        return None

    def inline_plain_provider(self, prov: ast.AST, paths: list[Path], env: Env) -> str | None:
        """`c = self._connect()` with a provider that returns the connection."""
        sub = Env(self.cls, env.has_shared, env.fn_name)
        sub.depth = env.depth + 1
        ps = self.walk(prov.body, [Path()], sub)  # type: ignore[attr-defined]
        kinds = set()
        for p in ps:
            for e in p.ev:
                if e[0] == "returns":
                    kinds.add(e[1])
        if len(kinds) != 1 or None in kinds:
            self.cls.unknown(f"{self.cls.name}.{PROVIDER}: cannot tell which connection it returns (has_shared={env.has_shared}): {sorted(map(str, kinds))}")
            return None
        kind = kinds.pop()
        self.emit(paths, ("acq", kind, "provider"), env)
        return kind

    def inline_helper(self, callee: ast.AST, c: ast.Call, pos: int | None, kw: str | None, kind: str,
                      paths: list[Path], env: Env) -> None:
        if env.depth >= MAX_DEPTH:
            self.cls.unknown(f"{self.cls.name}.{env.fn_name}: helper inlining too deep at {callee.name}")  # type: ignore[attr-defined]
            return
        args = [a.arg for a in callee.args.args]  # type: ignore[attr-defined]
        if args and args[0] == "self":
            args = args[1:]
        pname = kw if kw is not None else (args[pos] if pos is not None and pos < len(args) else None)
        if pname is None:
            self.cls.unknown(f"{self.cls.name}.{env.fn_name}: cannot bind the connection argument of {callee.name}")  # type: ignore[attr-defined]
            return
        sub = Env(self.cls, env.has_shared, env.fn_name)
        sub.depth = env.depth + 1
        sub.conn[pname] = kind
        sub.in_err = env.in_err
        sub.err = env.err
        live = [p for p in paths if p.end is None]
        done = [p for p in paths if p.end is not None]
        out = self.walk(callee.body, live, sub)  # type: ignore[attr-defined]
        for p in out:
            if p.end == "ret":
                p.end = None  # returning from the helper continues the caller
        paths[:] = done + out

    def walk(self, stmts: list[ast.stmt], paths: list[Path], env: Env, yield_body: tuple | None = None) -> list[Path]:
        for s in stmts:
            if len(paths) > MAX_PATHS:
                self.cls.unknown(f"{self.cls.name}.{env.fn_name}: too many paths")
                return paths
            paths = self.stmt(s, paths, env, yield_body)
        return paths

    def stmt(self, s: ast.stmt, paths: list[Path], env: Env, yb: tuple | None) -> list[Path]:
        live = [p for p in paths if p.end is None]
        done = [p for p in paths if p.end is not None]
        if not live and not env.in_err:
            return paths
        if isinstance(s, (ast.FunctionDef, ast.AsyncFunctionDef, ast.ClassDef, ast.Pass, ast.Import, ast.ImportFrom,
                          ast.Global, ast.Nonlocal)):
            return paths
        if isinstance(s, ast.Return):
            k = self.calls_in(s.value, live, env)
            if k is None:
                k = self.conn_of(s.value, env)
            for p in live:
                p.ev.append(("returns", k))
                p.end = "ret"
            return done + live
        if isinstance(s, ast.Raise):
            self.calls_in(s.exc, live, env)
            for p in live:
                p.end = "raise"
            return done + live
        if isinstance(s, ast.If):
            self.calls_in(s.test, live, env)
            v = self.evaltest(s.test, env)
            if v is True:
                return done + self.walk(s.body, live, env, yb)
            if v is False:
                return done + self.walk(s.orelse, live, env, yb)
            a = [p.fork() for p in live]
            saved = (dict(env.conn), dict(env.flags))
            ra = self.walk(s.body, a, env, yb)
            after_a = (dict(env.conn), dict(env.flags))
            env.conn, env.flags = dict(saved[0]), dict(saved[1])
            rb = self.walk(s.orelse, live, env, yb)
            # variables bound in only one branch keep the binding (conservative merge)
            for k2, v2 in after_a[0].items():
                env.conn.setdefault(k2, v2)
            for k2, v2 in after_a[1].items():
                env.flags.setdefault(k2, v2)
            return done + ra + rb
        if isinstance(s, ast.Try):
            body = self.walk(s.body, live, env, yb)
            body = self.walk(s.orelse, body, env, yb) if s.orelse else body
            env.in_err += 1
            for h in s.handlers:
                self.walk(h.body, [Path()], env, None)
            if s.finalbody:
                self.walk(s.finalbody, [Path()], env, None)
            env.in_err -= 1
            if s.finalbody:
                # the finally block also runs on the normal path, and for paths that returned inside the try
                ends = [p.end for p in body]
                for p in body:
                    if p.end in (None, "ret"):
                        p.end = None
                    # paths that raise inside the try are not normal paths
                run = [p for p in body if p.end is None]
                rest = [p for p in body if p.end is not None]
                marks = {id(p): e for p, e in zip(body, ends)}
                run = self.walk(s.finalbody, run, env, None)
                for p in run:
                    if marks.get(id(p)) == "ret" and p.end is None:
                        p.end = "ret"
                body = rest + run
            return done + body
        if isinstance(s, (ast.With, ast.AsyncWith)):
            return done + self.with_stmt(s, live, env, yb)
        if isinstance(s, (ast.For, ast.AsyncFor)):
            self.calls_in(s.iter, live, env)
            skip = [p.fork() for p in live]
            once = self.walk(s.body, live, env, yb)
            return done + skip + once
        if isinstance(s, ast.While):
            self.calls_in(s.test, live, env)
            once = self.walk(s.body, live, env, yb)
            if isinstance(s.test, ast.Constant) and s.test.value is True:
                return done + once
            return done + [p.fork() for p in live if False] + once
        if isinstance(s, ast.Expr) and isinstance(s.value, (ast.Yield, ast.YieldFrom)) and yb is not None:
            return done + self.do_yield(s.value, None, live, env, yb)
        if isinstance(s, ast.Assign) and isinstance(s.value, ast.Yield) and yb is not None:
            return done + self.do_yield(s.value, None, live, env, yb)
        if isinstance(s, (ast.Assign, ast.AnnAssign, ast.AugAssign)):
            val = s.value
            tgts = s.targets if isinstance(s, ast.Assign) else [s.target]
            k = self.calls_in(val, live, env)
            if k is None:
                k = self.conn_of(val, env) if val is not None else None
            if isinstance(s, ast.AugAssign):
                return done + live
            for t in tgts:
                if isinstance(t, ast.Name):
                    if k is not None:
                        env.conn[t.id] = k
                    elif t.id in env.conn and val is not None:
                        del env.conn[t.id]
                    verb = _sql_verb(val, env) if val is not None else None
                    if verb:
                        env.strs[t.id] = verb
                    if val is not None:
                        fv = self.evaltest(val, env) if isinstance(val, (ast.Compare, ast.UnaryOp, ast.BoolOp)) else None
                        if fv is not None:
                            env.flags[t.id] = fv
                        else:
                            env.flags.pop(t.id, None)
            return done + live
        if isinstance(s, ast.Expr):
            self.calls_in(s.value, live, env)
            return done + live
        if isinstance(s, (ast.Assert, ast.Delete)):
            return done + live
        if isinstance(s, (ast.Continue, ast.Break)):
            return done + live
        self.cls.unknown(f"{self.cls.name}.{env.fn_name}: unhandled statement {type(s).__name__}")
        return done + live

    def do_yield(self, y: ast.AST, var: str | None, live: list[Path], env: Env, yb: tuple) -> list[Path]:
        """The `yield X` of a context-manager provider: run the body of the `with` that uses it."""
        body, asname, outer_env = yb
        k = self.conn_of(getattr(y, "value", None), env)
        if k not in ("shared", "fresh"):
            self.cls.unknown(f"{self.cls.name}.{PROVIDER}: yields an unclassified connection (has_shared={env.has_shared})")
            k = "fresh"
        if k == "shared":
            for p in live:
                if not any(e[0] == "acq" for e in p.ev[p.ev.index(("with-start",)) if ("with-start",) in p.ev else 0:]):
                    p.ev.append(("acq", "shared", "provider"))
        else:
            # the `sqlite3.connect` before the yield already produced ("acq", "fresh", "own"): re-label it
            for p in live:
                for i in range(len(p.ev) - 1, -1, -1):
                    if p.ev[i][0] == "acq":
                        p.ev[i] = ("acq", "fresh", "provider")
                        break
        if asname:
            outer_env.conn[asname] = k
        saved_err, saved_in = outer_env.err, outer_env.in_err
        outer_env.err, outer_env.in_err = env.err, env.in_err
        out = self.walk(body, live, outer_env, None)
        outer_env.err, outer_env.in_err = saved_err, saved_in
        for p in out:
            p.ev.append(("yield-end",))
        # a `return` inside the with body leaves through the provider's finally as well
        for p in out:
            if p.end == "ret":
                p.ev.append(("ret-in-with",))
                p.end = None
        return out

    def with_stmt(self, s: ast.With | ast.AsyncWith, live: list[Path], env: Env, yb: tuple | None) -> list[Path]:
        cls = self.cls
        methods = cls.all_methods()
        if len(s.items) == 1:
            it = s.items[0]
            ce = it.context_expr
            asname = it.optional_vars.id if isinstance(it.optional_vars, ast.Name) else None
            # with self._connect() as conn:
            # (or any other context-manager method of the class that yields a connection)
            if isinstance(ce, ast.Call) and _is_self_attr(ce.func) and ce.func.attr in methods \
                    and _is_ctx_provider(methods[ce.func.attr]) and env.depth < MAX_DEPTH \
                    and (ce.func.attr == PROVIDER or _yields_connection(methods[ce.func.attr])):
                prov = methods[ce.func.attr]
                for p in live:
                    while ("with-start",) in p.ev:
                        p.ev.remove(("with-start",))
                    p.ev.append(("with-start",))
                sub = Env(cls, env.has_shared, env.fn_name)
                sub.depth = env.depth + 1
                sub.err, sub.in_err = env.err, env.in_err
                out = self.walk(prov.body, live, sub, (s.body, asname, env))  # type: ignore[attr-defined]
                res = []
                for p in out:
                    if ("ret-in-with",) in p.ev:
                        p.ev.remove(("ret-in-with",))
                        p.end = "ret"
                    elif p.end == "ret":
                        p.end = None
                    res.append(p)
                return res
            # with contextlib.closing(<acquisition>) as conn:
            if isinstance(ce, ast.Call) and ast.unparse(ce.func).split(".")[-1] == "closing" and len(ce.args) == 1:
                k = self.calls_in(ce.args[0], live, env)
                if k is None:
                    k = self.conn_of(ce.args[0], env)
                if k in ("shared", "fresh"):
                    if asname:
                        env.conn[asname] = k
                    env.err.append(("close", k))
                    out = self.walk(s.body, live, env, yb)
                    for p in out:
                        if p.end in (None, "ret"):
                            p.ev.append(("close", k))
                    return out
        for it in s.items:
            self.calls_in(it.context_expr, live, env)
        return self.walk(s.body, live, env, yb)


# --------------------------------------------------------------------------
# per-section summary


def _life(paths: list[Path], err: list[tuple], kind: str) -> dict:
    """Lifecycle summary over the normal paths that acquire a connection of class `kind`."""
    ps = [p for p in paths if p.end in (None, "ret") and any(e[0] == "acq" and e[1] == kind for e in p.ev)]
    close_any = any(("close", kind) in p.ev for p in ps)
    close_all = bool(ps) and all(
        sum(1 for e in p.ev if e == ("close", kind)) >= sum(1 for e in p.ev if e[0] == "acq" and e[1] == kind)
        for p in ps)
    commit_ok = True
    pending = False
    writes = False
    for p in ps:
        open_dml = False
        for e in p.ev:
            if e[0] == "dml":
                writes = True
                if open_dml:
                    pending = True
                open_dml = True
            elif e[0] in ("commit", "rollback"):
                open_dml = False
            elif e[0] in ("gap", "callsec") and open_dml:
                pending = True
        if open_dml:
            commit_ok = False
            pending = True
    # a path that leaves by `raise` after a successful data change, before its commit
    for p in paths:
        if p.end == "raise" and any(e[0] == "acq" and e[1] == kind for e in p.ev):
            open_dml = False
            for e in p.ev:
                if e[0] == "dml":
                    open_dml = True
                elif e[0] in ("commit", "rollback"):
                    open_dml = False
            if open_dml:
                pending = True
                writes = True
    err_close = ("close", kind) in err
    err_commit = ("commit",) in err
    if ("rollback",) in err:
        pending = False
    return {"present": bool(ps), "closeOk": close_all if kind == "fresh" else close_any, "closeErr": err_close,
            "commitOk": commit_ok, "commitErr": err_commit, "pendingOnErr": pending, "writes": writes,
            "acquire": sorted({e[2] for p in ps for e in p.ev if e[0] == "acq" and e[1] == kind})}


def analyse_method(cls: Cls, name: str, fn: ast.AST) -> dict | None:
    """None when the method is not a section function (never acquires a connection itself)."""
    w = Walker(cls)
    res: dict[str, Any] = {"name": name, "calls": []}
    lives: dict[bool, dict] = {}
    for has_shared in (True, False):
        env = Env(cls, has_shared, name)
        # a connection parameter defaults to None: the method acquires by itself
        for a in fn.args.args + fn.args.kwonlyargs:  # type: ignore[attr-defined]
            ann = ast.unparse(a.annotation) if a.annotation is not None else ""
            if "Connection" in ann:
                env.conn[a.arg] = "none"
        direct_shared = False
        if cls.shared_attr and has_shared:
            for n in ast.walk(fn):
                if _is_self_attr(n, cls.shared_attr) and name not in ("__init__", PROVIDER):
                    direct_shared = True
        start = Path()
        if direct_shared:
            start.ev.append(("acq", "shared", "provider"))
        paths = w.walk(fn.body, [start], env)  # type: ignore[attr-defined]
        if direct_shared and not any(e[0] in ("dml", "read", "commit", "close") for p in paths for e in p.ev):
            for p in paths:  # the attribute is only passed on (create_state_store): not a use
                p.ev = [e for e in p.ev if e != ("acq", "shared", "provider")]
        kind = "shared" if any(e[0] == "acq" and e[1] == "shared" for p in paths for e in p.ev) else "fresh"
        lives[has_shared] = _life(paths, env.err, kind)
        lives[has_shared]["kind"] = kind
        for p in paths:
            for e in p.ev:
                if e[0] == "callsec" and e[1] not in res["calls"]:
                    res["calls"].append(e[1])
    if not lives[True]["present"] and not lives[False]["present"]:
        return None
    res["lives"] = lives
    return res


# --------------------------------------------------------------------------
# whole extraction


def _self_refs(fn: ast.AST, names: set[str]) -> list[str]:
    out: list[tuple[int, int, str]] = []
    for n in ast.walk(fn):
        if _is_self_attr(n) and n.attr in names:  # type: ignore[union-attr]
            out.append((n.lineno, n.col_offset, n.attr))  # type: ignore[union-attr]
    out.sort()
    seen: list[str] = []
    for _l, _c, a in out:
        if a not in seen:
            seen.append(a)
    return seen


def _object_calls(fn: ast.AST, own_class: str) -> list[tuple[str, str]]:
    """Method calls on objects constructed inside `fn` (`store = SqliteStateStore(...)`; `store = cls(...)`):
    (class name, method)."""
    objs: dict[str, str] = {}
    for n in ast.walk(fn):
        if isinstance(n, ast.Assign) and len(n.targets) == 1 and isinstance(n.targets[0], ast.Name) \
                and isinstance(n.value, ast.Call):
            c = _is_class_call(n.value)
            if c:
                objs[n.targets[0].id] = own_class if c == "cls" else c
    out: list[tuple[int, int, str, str]] = []
    for n in ast.walk(fn):
        if isinstance(n, ast.Call) and isinstance(n.func, ast.Attribute) and isinstance(n.func.value, ast.Name) \
                and n.func.value.id in objs:
            out.append((n.lineno, n.col_offset, objs[n.func.value.id], n.func.attr))
    out.sort()
    return [(c, m) for _l, _c, c, m in out]


def _kind_of_method(fn: ast.AST) -> str:
    decs = [d.split(".")[-1].split("(")[0] for d in _decorators(fn)]
    if "staticmethod" in decs:
        return "static"
    if "classmethod" in decs:
        return "class"
    if "property" in decs or "cached_property" in decs:
        return "property"
    if "abstractmethod" in decs:
        return "abstract"
    return "instance"


def _strip_doc(body: list[ast.stmt]) -> list[ast.stmt]:
    if body and isinstance(body[0], ast.Expr) and isinstance(body[0].value, ast.Constant) and isinstance(body[0].value.value, str):
        return body[1:]
    return body


def _is_new_lock(n: ast.AST | None) -> bool:
    return isinstance(n, ast.Call) and not n.args and not n.keywords and ast.unparse(n.func) in ("asyncio.Lock", "Lock")


def lock_scope(ss: "Cls") -> tuple[bool, list[str], str]:
    """Which lock serialises the locking operations of a state store object.

    Returns (per_store, locking_methods, why).  `per_store` is True only for the shape "every `with` / `async with`
    over an object that is not a call (and every explicit `.acquire()`) in the class is over ONE attribute of `self`, and that attribute is a lock created by the object for itself
    (a `cached_property`/`property`... whose body is `return asyncio.Lock()`, or `self.<attr> = asyncio.Lock()` in
    `__init__`), never assigned from anything else": then the lock cannot depend on the connection mode nor be shared
    with another store object.  Anything else is reported as not-per-store with the reason.
    """
    used: dict[str, list[str]] = {}
    other: list[str] = []
    for name, fn in ss.methods.items():
        for n in ast.walk(fn):
            if isinstance(n, (ast.AsyncWith, ast.With)):
                for item in n.items:
                    expr = item.context_expr
                    if isinstance(expr, ast.Call):
                        continue  # a context manager made for the occasion (edit_state(), _connect(), closing(..)): not a lock object
                    if _is_self_attr(expr):
                        used.setdefault(expr.attr, []).append(name)  # type: ignore[attr-defined]
                    else:
                        other.append(f"{name}: with {ast.unparse(expr)}")
            if isinstance(n, ast.Call) and isinstance(n.func, ast.Attribute) and n.func.attr == "acquire":
                if _is_self_attr(n.func.value):
                    used.setdefault(n.func.value.attr, []).append(name)  # type: ignore[attr-defined]
                else:
                    other.append(f"{name}: explicit {ast.unparse(n.func)}()")
    if other:
        return False, sorted({m for ms in used.values() for m in ms}), f"locks taken other than through one attribute of self: {other[:3]}"
    if not used:
        return False, [], "no locking section found in the state store"
    if len(used) != 1:
        return False, sorted({m for ms in used.values() for m in ms}), f"several lock attributes {sorted(used)}"
    attr = next(iter(used))
    methods = sorted(set(used[attr]))
    # assignments to the attribute anywhere in the class
    assigns = []
    for name, fn in ss.methods.items():
        for n in ast.walk(fn):
            tgt = val = None
            if isinstance(n, ast.Assign) and len(n.targets) == 1:
                tgt, val = n.targets[0], n.value
            elif isinstance(n, ast.AnnAssign):
                tgt, val = n.target, n.value
            if tgt is not None and _is_self_attr(tgt, attr):
                assigns.append((name, val))
    definer = ss.methods.get(attr)
    if definer is not None:
        if assigns:
            return False, methods, f"self.{attr} is a method and also assigned in {[a[0] for a in assigns]}"
        decos = _decorators(definer)
        if not any(d.split(".")[-1] in ("cached_property",) for d in decos):
            return False, methods, f"{attr} is not a cached_property (decorators {decos}): a new lock per access is no lock"
        body = _strip_doc(list(definer.body))  # type: ignore[attr-defined]
        if len(body) == 1 and isinstance(body[0], ast.Return) and _is_new_lock(body[0].value):
            return True, methods, f"self.{attr}: cached_property returning a new asyncio.Lock()"
        return False, methods, f"{attr} does more than return a new asyncio.Lock(): {ast.unparse(definer)[:160]!r}"
    if len(assigns) == 1 and assigns[0][0] == "__init__" and _is_new_lock(assigns[0][1]):
        return True, methods, f"self.{attr} = asyncio.Lock() in __init__"
    return False, methods, f"self.{attr} is assigned {[(a[0], ast.unparse(a[1]) if a[1] is not None else None) for a in assigns]}"


# --------------------------------------------------------------------------
# connection-scoped objects (TEMP schema, ATTACH, PRAGMA): state that lives as long as the connection does

SCRATCH_RE = re.compile(
    r"\b(?:temp|temporary)\s+(?:table|view|trigger|index)\b|\btemp\s*\.|\bsqlite_temp_(?:master|schema)\b"
    r"|\battach\b|\bdetach\b|\bpragma\b", re.I)


def _scratch_strings(fn: ast.AST) -> list[str]:
    """string constants (incl. the constant parts of f-strings, nested functions) of a function that mention
    connection-scoped objects; the docstring is not SQL"""
    doc = None
    body = getattr(fn, "body", [])
    if body and isinstance(body[0], ast.Expr) and isinstance(body[0].value, ast.Constant) and isinstance(body[0].value.value, str):
        doc = body[0].value
    return [n.value for n in ast.walk(fn)
            if isinstance(n, ast.Constant) and isinstance(n.value, str) and n is not doc and SCRATCH_RE.search(n.value)]


def scratch_sections(cls: "Cls", sec_names: list[str]) -> dict[str, list[str]]:
    """section name -> offending strings, over the section function and every method of the class / function of the module
    it can reach (helpers are handed the connection; a helper that stages rows in a TEMP table does so on the section's
    connection)"""
    methods = cls.all_methods()
    names = set(methods)
    out: dict[str, list[str]] = {}
    for sec in sec_names:
        seen: list[str] = []
        todo = [("m", sec)]
        hits: list[str] = []
        while todo:
            kind, n = todo.pop()
            if (kind + n) in seen:
                continue
            seen.append(kind + n)
            fn = methods.get(n) if kind == "m" else cls.module_defs.get(n)
            if fn is None or (kind == "m" and n in ("__init__",)):
                continue
            hits += _scratch_strings(fn)
            for x in _self_refs(fn, names):
                todo.append(("m", x))
            for x in ast.walk(fn):
                if isinstance(x, ast.Call) and isinstance(x.func, ast.Name) and x.func.id in cls.module_defs:
                    todo.append(("f", x.func.id))
        if hits:
            out[sec] = hits
    return out


def extract(notes: list[str]) -> dict:
    res: dict[str, Any] = {"unknowns": 0, "classes": {}, "secs": [], "ops": [], "static_ops": [], "flags": {}, "scratch": []}
    classes = [Cls(i, tag, name, rel, notes) for i, tag, name, rel in CLASSES]
    # concrete methods the workflow store inherits
    try:
        atree = ast.parse(open(repo_path(ABS_SRC)).read())
        for n in atree.body:
            if isinstance(n, ast.ClassDef) and n.name == "AbstractWorkflowStore":
                for f in n.body:
                    if isinstance(f, (ast.FunctionDef, ast.AsyncFunctionDef)) and _kind_of_method(f) != "abstract":
                        classes[0].inherited[f.name] = f
    except (OSError, SyntaxError) as e:
        classes[0].unknown(f"cannot parse {ABS_SRC}: {e!r}")
    ws, ss = classes
    flags = {"wsShared": False, "ssShared": False, "createPassesShared": False, "ctorOpensShared": False}
    # constructor facts of the workflow store
    init = ws.methods.get("__init__")
    if init is not None and ws.shared_attr:
        for n in ast.walk(init):
            if isinstance(n, ast.If) and isinstance(n.test, ast.Name) and n.test.id == "single_connection":
                for m in ast.walk(n):
                    if isinstance(m, ast.Assign) and _is_self_attr(m.targets[0], ws.shared_attr) and _is_open_call(m.value):
                        flags["ctorOpensShared"] = True
    create = ws.methods.get("create_state_store")
    if create is not None and ws.shared_attr:
        for n in ast.walk(create):
            if isinstance(n, ast.Call) and ast.unparse(n.func).split(".")[-1] == ss.name:
                for kw in n.keywords:
                    if kw.arg == "connection" and _is_self_attr(kw.value, ws.shared_attr):
                        flags["createPassesShared"] = True
    cross: dict[str, dict] = {}
    allsecs: dict[str, dict] = {}
    graphs: dict[str, dict] = {}
    for cls in classes:
        methods = cls.all_methods()
        names = set(methods)
        secs: dict[str, dict] = {}
        for name, fn in methods.items():
            if name in (PROVIDER, "__init__") or name in OPENERS:
                continue
            if _is_ctx_provider(fn) and _yields_connection(fn):
                continue  # a connection-yielding context manager is inlined into the sections that use it
            r = analyse_method(cls, name, fn)
            if r is not None:
                secs[name] = r
        # which connection the provider hands out
        prov = methods.get(PROVIDER)
        gives = {}
        if prov is None:
            cls.unknown(f"{cls.name}.{PROVIDER} not found")
        else:
            for hs in (True, False):
                kinds = {s["lives"][hs]["kind"] for s in secs.values()
                         if s["lives"][hs]["present"] and "provider" in s["lives"][hs]["acquire"]
                         and not _uses_shared_directly(cls, methods[s["name"]])}
                gives[hs] = kinds
            if gives.get(True) == {"shared"} and gives.get(False) == {"fresh"}:
                flags["wsShared" if cls.tag == "ws" else "ssShared"] = True
            elif gives.get(False) != {"fresh"}:
                cls.unknown(f"{cls.name}.{PROVIDER}: without a shared connection sections get {gives.get(False)}")
        # call graph over methods of the class
        graph = {n: ([x for x in secs[n]["calls"] if x in names and x != n] if n in secs
                     else [x for x in _self_refs(f, names) if x != n]) for n, f in methods.items()}
        cross[cls.tag] = {n: _object_calls(f, cls.name) for n, f in methods.items()}
        allsecs[cls.tag] = secs
        graphs[cls.tag] = graph

        for name, s in secs.items():
            fn = methods[name]
            acq = "provider"
            a_t, a_f = s["lives"][True]["acquire"], s["lives"][False]["acquire"]
            if a_f == ["own"] and (a_t in (["own"], [])):
                acq = "own"
            elif not (set(a_t) <= {"provider"} and set(a_f) <= {"provider"}):
                if not _uses_shared_directly(cls, fn):
                    acq = "unknown"
                    cls.unknown(f"{cls.name}.{name}: mixed acquisition {a_t}/{a_f}")
            res["secs"].append({"qual": f"{cls.tag}.{name}", "name": name, "cls": cls.idx, "acquire": acq,
                                "writes": s["lives"][True]["writes"] or s["lives"][False]["writes"],
                                "shared": s["lives"][True], "fresh": s["lives"][False], "calls": s["calls"],
                                "kind": _kind_of_method(fn),
                                "async": isinstance(fn, ast.AsyncFunctionDef),
                                "gen": any(isinstance(x, (ast.Yield, ast.YieldFrom)) for x in ast.walk(fn))})
        for name, hits in scratch_sections(cls, list(secs)).items():
            res["scratch"].append(f"{cls.tag}.{name}")
            notes.append(f"gen/sqlite_conn: section {cls.name}.{name} uses connection-scoped objects: {hits[0][:80]!r}"
                         + (f" (+{len(hits) - 1} more)" if len(hits) > 1 else ""))
        res["classes"][cls.tag] = {"name": cls.name, "shared_attr": cls.shared_attr, "mode_attr": cls.mode_attr,
                                   "ctx_methods": sorted(n for n, f in methods.items()
                                                         if _is_ctx_provider(f) and (n == PROVIDER or _yields_connection(f))),
                                   "provider_ctx": bool(prov is not None and _is_ctx_provider(prov))}
    tags = {c.name: c.tag for c in classes}

    def reach(tag: str, m: str, seen: list[str], out: list[str]) -> None:
        if (tag, m) in seen:
            return
        seen.append((tag, m))  # type: ignore[arg-type]
        if m in allsecs.get(tag, {}) and f"{tag}.{m}" not in out:
            out.append(f"{tag}.{m}")
        for x in graphs.get(tag, {}).get(m, []):
            reach(tag, x, seen, out)
        for cname, meth in cross.get(tag, {}).get(m, []):
            if cname in tags:
                reach(tags[cname], meth, seen, out)

    for cls in classes:
        for name, fn in cls.all_methods().items():
            if name.startswith("_"):
                continue
            kind = _kind_of_method(fn)
            if kind in ("property", "abstract"):
                continue
            out: list[str] = []
            reach(cls.tag, name, [], out)
            entry = {"cls": cls.idx, "tag": cls.tag, "name": name, "secs": out,
                     "async": isinstance(fn, ast.AsyncFunctionDef),
                     "gen": any(isinstance(x, (ast.Yield, ast.YieldFrom)) for x in ast.walk(fn))}
            (res["ops"] if kind == "instance" else res["static_ops"]).append(entry)
    # a section that delegates in one mode (uses the shared attribute directly, otherwise calls an own-connection
    # section) takes the callee's lifecycle for that mode
    byq = {s["qual"]: s for s in res["secs"]}
    for s in res["secs"]:
        tag = "ws" if s["cls"] == 0 else "ss"
        for mode_key in ("shared", "fresh"):
            if not s[mode_key]["present"]:
                cal = [byq.get(f"{tag}.{c}") for c in s["calls"]]
                cal = [c for c in cal if c is not None and c[mode_key]["present"]]
                if len(cal) == 1:
                    s[mode_key] = dict(cal[0][mode_key])
                    s[mode_key]["delegated"] = cal[0]["qual"]
                elif mode_key == "fresh" or s["acquire"] != "own":
                    # never runs in this mode with a connection of its own: vacuous lifecycle
                    s[mode_key] = dict(s[mode_key])
    per_store, lock_methods, why = lock_scope(ss)
    flags["lockPerStore"] = per_store
    res["lock_methods"] = lock_methods
    res["lock_why"] = why
    if not per_store:
        notes.append(f"gen/sqlite_conn: the state store's lock is not private to the store object: {why}")
    res["flags"] = flags
    res["unknowns"] = sum(c.unknowns for c in classes)
    return res


def _uses_shared_directly(cls: Cls, fn: ast.AST) -> bool:
    return bool(cls.shared_attr) and any(_is_self_attr(n, cls.shared_attr) for n in ast.walk(fn))


def _b(v: Any) -> str:
    return "true" if v else "false"


def _lstr(s: str) -> str:
    return '"' + s.replace("\\", "\\\\").replace('"', '\\"') + '"'


def _life_lean(l: dict, kind: str) -> str:
    # a lifecycle that never occurs in this mode is vacuously harmless: nothing closed, nothing left pending
    if not l.get("present") and "delegated" not in l:
        if kind == "fresh":
            return "(true, true, true, false, false)"
        return "(false, false, true, false, false)"
    return f"({_b(l['closeOk'])}, {_b(l['closeErr'])}, {_b(l['commitOk'])}, {_b(l['commitErr'])}, {_b(l['pendingOnErr'])})"


def generate(notes: list[str]) -> list[str]:
    r = extract(notes)
    acq = {"provider": 0, "own": 1, "unknown": 9}
    L = ["namespace GenSqliteConn",
         "/-- `SqliteWorkflowStore._connect` hands out the persistent connection in single-connection mode -/",
         f"def wsShared : Bool := {_b(r['flags']['wsShared'])}",
         "/-- `SqliteStateStore._connect` hands out the connection the store was given -/",
         f"def ssShared : Bool := {_b(r['flags']['ssShared'])}",
         "/-- `create_state_store` passes the persistent connection to the state store -/",
         f"def createPassesShared : Bool := {_b(r['flags']['createPassesShared'])}",
         "/-- `__init__` opens the persistent connection when `single_connection` is set -/",
         f"def ctorOpensShared : Bool := {_b(r['flags']['ctorOpensShared'])}",
         "/-- every locking section of a state store (`set_state`, `edit_state` and what goes through them) takes a lock",
         "    the store object created for itself: not handed in, not dependent on the connection mode -/",
         f"def lockPerStore : Bool := {_b(r['flags']['lockPerStore'])}",
         "/-- shapes the extractor could not classify -/",
         f"def unknowns : Nat := {r['unknowns']}",
         "/-- (qualified name, class, acquire 0=provider 1=own 9=unknown, writes,",
         "     on the shared connection (closeOk, closeErr, commitOk, commitErr, pendingOnErr),",
         "     on a connection of its own (closeOk, closeErr, commitOk, commitErr, pendingOnErr)) -/",
         "def secs : List (String × Nat × Nat × Bool × (Bool × Bool × Bool × Bool × Bool) × (Bool × Bool × Bool × Bool × Bool)) := ["]
    rows = []
    for s in r["secs"]:
        sh = {"present": False} if s["acquire"] == "own" else s["shared"]
        rows.append(f"  ({_lstr(s['qual'])}, {s['cls']}, {acq[s['acquire']]}, {_b(s['writes'])}, "
                    f"{_life_lean(sh, 'shared')}, {_life_lean(s['fresh'], 'fresh')})")
    L.append(",\n".join(rows))
    L.append("]")
    L.append("/-- public instance methods: (class, name, section functions reachable from it) -/")
    L.append("def ops : List (Nat × String × List String) := [")
    L.append(",\n".join(f"  ({o['cls']}, {_lstr(o['name'])}, [{', '.join(_lstr(x) for x in o['secs'])}])" for o in r["ops"]))
    L.append("]")
    L.append("/-- public static / class methods (not operations of a store instance) -/")
    L.append("def staticOps : List (Nat × String × List String) := [")
    L.append(",\n".join(f"  ({o['cls']}, {_lstr(o['name'])}, [{', '.join(_lstr(x) for x in o['secs'])}])" for o in r["static_ops"]))
    L.append("]")
    L.append("/-- sections whose code (with the helpers it reaches) has SQL on connection-scoped objects: TEMP schema objects,")
    L.append("    ATTACH / DETACH, PRAGMA -- state that lives as long as the connection, i.e. one call with per-call connections")
    L.append("    and for ever on the persistent one -/")
    L.append(f"def scratchSecs : List String := [{', '.join(_lstr(x) for x in r['scratch'])}]")
    L.append("end GenSqliteConn")
    return L


if __name__ == "__main__":
    import json
    import sys

    ns: list[str] = []
    r = extract(ns)
    json.dump(r, sys.stdout, indent=1, default=str)
    print()
    for n in ns:
        print("NOTE", n)
