/-!
M9 — resource injection (`workflows/resource.py`: `ResourceManager.get`, `_get`,
`resolution_scope`, `_Resource.call`; `workflows/runtime/types/step_function.py`:
`partial`).

A *graph* is a list of resource factories; a resource is named by its index
(`_Resource.name`, the factory's `__qualname__`).  Each factory is cached or not,
sync or async, may raise, and declares dependencies (other resources, resolved in
signature order by `_Resource._resolve_dependencies` before the factory is called).

The manager state is kept exactly as the code keeps it: `resources` (cached values),
`_resolving` (a list, appended / `remove`d), `_resolution_cache` (per-scope values),
`_resolution_depth`, and -- in the repaired code -- the scope lock with its FIFO
waiters.  Object identities are a counter: the `n`-th factory call creates object
`n`.

Concurrency.  Step invocations (`partial`) and bare `manager.get` calls are *tasks*.
Python only switches tasks at an `await` that really suspends: the await of an async
factory's body, and the acquisition of a held lock.  Everything between two such
points is atomic.  The model is a labelled transition system with a *current* task
(`cur`): `tick` advances the current task by one micro-step (one `_get` entry, one
factory call, one scope entry/exit); when the task suspends or finishes `cur`
becomes `none` and only then may the environment `spawn` a new task or `resume` a
suspended one (open its gate; run a waiter the lock was handed to) or `cancel` one (throw
`CancelledError` into it where it is suspended).  A schedule is an arbitrary list of actions;
disabled actions are ignored (`stepD`).

`Cfg.excl` selects the scope discipline: `false` is the code before the repair
(`resolution_scope` is a plain counter; `get` opens a scope only when the shared
depth is 0 -- modelled for the top-level `get` of an invocation; the old code made
the same test again at every nested `get`, which only differs for a bare `get`
that joined a scope which closed before its dependencies were resolved: it then
opened and closed scopes of its own around single dependencies; the witnesses in
`WfProps/C22.lean` use bare gets of dependency-free resources only), `true` is the
repaired code (`resolution_scope` holds the manager's
lock; re-entrant inside the owning task).  `Cfg.skipEmpty`: `partial` enters no
scope for a step that declares no resources.  Which configuration the current tree
implements is regenerated from the sources (`WfModel/GenResource.lean`).
-/
namespace Resource

/-- What a factory returns.  Any Python value is a legal resource value: an optional
client that is not configured is `None`, a counter starts at `0`, a buffer at `""` or
`[]`, a feature flag is `False`.  `obj` is an ordinary (truthy) object created by the
call; `emptyList` is a falsy value that is still a fresh object per call; the others
are interned singletons, so a second creation is visible only in the number of factory
calls, never in the identity of what is injected. -/
inductive Val where
  | obj
  | pyNone
  | zero
  | emptyStr
  | emptyList
  | pyFalse
deriving DecidableEq, Repr

/-- each call of the factory returns a new object (identity tells creations apart) -/
def Val.fresh : Val → Bool
  | .obj => true
  | .emptyList => true
  | _ => false

/-- Python truthiness of the value (`bool(v)`) -/
def Val.truthy : Val → Bool
  | .obj => true
  | _ => false

structure Res where
  cached : Bool
  isAsync : Bool
  fails : Bool
  deps : List Nat
  /-- the value the factory returns.  `_get` tests its two caches by *membership*
  (`name in self.resources`, `name in self._resolution_cache`), so no transition below
  reads this field (`C22_value_independent`): a stored `None` is a hit like any other. -/
  val : Val := .obj
deriving DecidableEq, Repr

abbrev Graph := List Res

structure Cfg where
  excl : Bool
  skipEmpty : Bool
deriving DecidableEq, Repr

/-- One activation of `_get` that went past the cache checks: the resource, the
dependencies still to resolve, the objects already resolved (the factory's keyword
arguments so far), and -- once the factory has been called and is suspended at its
await -- the identity of the object it is creating. -/
structure Frame where
  rid : Nat
  rem : List Nat
  args : List Nat
  waiting : Option Nat
deriving DecidableEq, Repr

inductive Outcome where
  /-- `partial` returned: the injected objects, in declaration order -/
  | ok (objs : List Nat)
  /-- `ValueError("Circular resource dependency detected: a -> b -> a")` -/
  | cycle (chain : List Nat)
  /-- the factory of `rid` raised -/
  | failed (rid : Nat)
  /-- a dependency index outside the graph (cannot happen with real descriptors) -/
  | badRef (rid : Nat)
  /-- `asyncio.CancelledError` was thrown into the invocation where it was suspended
  (the step worker was cancelled: `cancel_run`, the workflow timeout, `cleanup_tasks`) -/
  | cancelled
deriving DecidableEq, Repr

inductive Phase where
  | fresh
  | lockWait
  | active
  | done (o : Outcome)
deriving DecidableEq, Repr

structure Task where
  /-- the resources the step declares, in order (never changes) -/
  reqs : List Nat
  /-- a bare `manager.get(r)` instead of `partial` (then `reqs = [r]`) -/
  bare : Bool
  phase : Phase
  /-- this task opened a scope of its own (and, when `excl`, holds the lock) -/
  owns : Bool
  todo : List Nat
  got : List Nat
  /-- innermost `_get` activation first -/
  stack : List Frame
deriving DecidableEq, Repr

/-- Ghost trace (newest first). -/
inductive Ev where
  /-- task `t` called the factory of `rid`; the call creates object `obj` -/
  | call (t rid obj : Nat) (args : List Nat)
  /-- the factory returned `obj` -/
  | made (t rid obj : Nat)
  /-- the factory raised -/
  | raised (t rid obj : Nat)
  /-- `_get(rid)` returned `obj` to task `t` (from a cache or from the factory) -/
  | deliver (t rid obj : Nat)
  | fin (t : Nat) (o : Outcome)
deriving DecidableEq, Repr

structure St where
  resources : List (Nat × Nat) := []
  resolving : List Nat := []
  scache : List (Nat × Nat) := []
  depth : Nat := 0
  lock : Option Nat := none
  waiters : List Nat := []
  tasks : List Task := []
  cur : Option Nat := none
  nextObj : Nat := 0
  log : List Ev := []
deriving DecidableEq, Repr

def St.init : St := {}

inductive Act where
  | spawn (reqs : List Nat) (bare : Bool)
  | tick
  | resume (t : Nat)
  /-- the task of invocation `t` is cancelled where it is suspended -/
  | cancel (t : Nat)
deriving DecidableEq, Repr

/-- the same graph with every factory returning an ordinary object -/
def Res.eraseVal (r : Res) : Res := { r with val := .obj }

def eraseVals (g : Graph) : Graph := g.map Res.eraseVal

/-- the value injected for resource `x` -/
def valueOf (g : Graph) (x : Nat) : Val := (g[x]?.map (·.val)).getD .obj

/-! ## the manager's primitives -/

/-- `finally:` of `resolution_scope` -/
def exitScope (s : St) : St :=
  { s with depth := s.depth - 1, scache := if s.depth - 1 = 0 then [] else s.scache }

def setTask (s : St) (t : Nat) (k : Task) : St :=
  { s with tasks := s.tasks.set t k }

/-- Task `t` leaves `partial` / `get` with outcome `o`: its scope (if it owns one)
is closed; under `excl` the lock is released: it passes to the first waiter
(`asyncio.Lock` wakes waiters in FIFO order and later arrivals queue behind a woken
waiter), which continues when the loop runs it (`resume`). -/
def finish (c : Cfg) (s : St) (t : Nat) (k : Task) (o : Outcome) : St :=
  let s1 := if k.owns then exitScope s else s
  let s2 := { s1 with
    tasks := s1.tasks.set t { k with phase := .done o, stack := [], todo := [] },
    log := .fin t o :: s1.log }
  if c.excl && k.owns then
    match s2.waiters with
    | [] => { s2 with lock := none, cur := none }
    | w :: ws => { s2 with lock := some w, waiters := ws, cur := none }
  else { s2 with cur := none }

/-- An exception propagates out of every `_get` activation of the task: each
`finally` removes its name from `_resolving` (innermost first). -/
def unwind (resolving : List Nat) (stack : List Frame) : List Nat :=
  stack.foldl (fun r f => r.erase f.rid) resolving

def raise (c : Cfg) (s : St) (t : Nat) (k : Task) (o : Outcome) : St :=
  finish c { s with resolving := unwind s.resolving k.stack } t k o

/-- `CancelledError` reaches an invocation that waits in the queue of the scope lock
(`asyncio.Lock.acquire`): it leaves the queue without ever entering a scope.  If the
lock had already been handed to it (the releasing task woke it, but it has not run yet)
`acquire` passes the lock on to the next waiter. -/
def cancelWait (s : St) (t : Nat) (k : Task) : St :=
  let s1 := { s with
    tasks := s.tasks.set t { k with phase := .done .cancelled, stack := [], todo := [] },
    log := .fin t .cancelled :: s.log }
  if s.lock = some t then
    match s.waiters.erase t with
    | [] => { s1 with lock := none, waiters := [], cur := none }
    | w :: ws => { s1 with lock := some w, waiters := ws, cur := none }
  else { s1 with lock := s.lock, waiters := s.waiters.erase t, cur := none }

/-- `_get(x)` returns `v` to its caller: a dependent factory's argument list, or
the step's keyword arguments. -/
def deliver (s : St) (t : Nat) (k : Task) (x v : Nat) : St :=
  let s1 := { s with log := .deliver t x v :: s.log }
  match k.stack with
  | [] => setTask s1 t { k with got := k.got ++ [v], todo := k.todo.tail }
  | f :: fs => setTask s1 t { k with stack := { f with args := f.args ++ [v], rem := f.rem.tail } :: fs }

/-- Entry of `_get(x)`: cycle check against `_resolving`, cached value, scoped
value, otherwise mark as resolving and start on the dependencies. -/
def enterGet (c : Cfg) (g : Graph) (s : St) (t : Nat) (k : Task) (x : Nat) : St :=
  match g[x]? with
  | none => raise c s t k (.badRef x)
  | some r =>
    if x ∈ s.resolving then raise c s t k (.cycle (s.resolving ++ [x]))
    else
      match (if r.cached then s.resources.lookup x else none) with
      | some v => deliver s t k x v
      | none =>
        match s.scache.lookup x with
        | some v => deliver s t k x v
        | none =>
          setTask { s with resolving := s.resolving ++ [x] } t
            { k with stack := { rid := x, rem := r.deps, args := [], waiting := none } :: k.stack }

/-- The factory of the top frame `f` returned (or raised): store, un-mark, return
the value to the caller. -/
def complete (c : Cfg) (g : Graph) (s : St) (t : Nat) (k : Task) (f : Frame) (fs : List Frame) (obj : Nat) : St :=
  match g[f.rid]? with
  | none => raise c s t k (.badRef f.rid)
  | some r =>
    if r.fails then
      raise c { s with log := .raised t f.rid obj :: s.log } t k (.failed f.rid)
    else
      let s1 := { s with
        resources := if r.cached then (f.rid, obj) :: s.resources else s.resources,
        scache := (f.rid, obj) :: s.scache,
        resolving := s.resolving.erase f.rid,
        log := .made t f.rid obj :: s.log }
      deliver s1 t { k with stack := fs } f.rid obj

/-- All dependencies of the top frame are resolved: call the factory.  An async
factory suspends the task at its await; a sync one returns at once. -/
def callFactory (c : Cfg) (g : Graph) (s : St) (t : Nat) (k : Task) (f : Frame) (fs : List Frame) : St :=
  let obj := s.nextObj
  let s1 := { s with nextObj := s.nextObj + 1, log := .call t f.rid obj f.args :: s.log }
  match g[f.rid]? with
  | none => raise c s t k (.badRef f.rid)
  | some r =>
    if r.isAsync then
      { setTask s1 t { k with stack := { f with waiting := some obj } :: fs } with cur := none }
    else complete c g s1 t k f fs obj

/-- Scope entry of a task that may run now (no lock, or lock acquired). -/
def start (c : Cfg) (s : St) (t : Nat) (k : Task) : St :=
  if k.bare && !c.excl && s.depth != 0 then
    -- old `get`: somebody's scope is open, none of its own
    setTask s t { k with phase := .active, owns := false }
  else
    setTask { s with depth := s.depth + 1 } t { k with phase := .active, owns := true }

def tickTask (c : Cfg) (g : Graph) (s : St) (t : Nat) (k : Task) : St :=
  match k.phase with
  | .fresh =>
    if c.skipEmpty && !k.bare && k.reqs.isEmpty then
      { setTask s t { k with phase := .done (.ok []) } with cur := none, log := .fin t (.ok []) :: s.log }
    else if c.excl then
      match s.lock with
      | none => start c { s with lock := some t } t k
      | some _ =>
        { setTask s t { k with phase := .lockWait } with waiters := s.waiters ++ [t], cur := none }
    else start c s t k
  | .lockWait =>
    if s.lock = some t then start c s t k else { s with cur := none }
  | .done _ => { s with cur := none }
  | .active =>
    match k.stack with
    | [] =>
      match k.todo with
      | [] => finish c s t k (.ok k.got)
      | x :: _ => enterGet c g s t k x
    | f :: fs =>
      match f.waiting with
      | some _ => { s with cur := none }
      | none =>
        match f.rem with
        | d :: _ => enterGet c g s t k d
        | [] => callFactory c g s t k f fs

def newTask (reqs : List Nat) (bare : Bool) : Task :=
  { reqs := reqs, bare := bare, phase := .fresh, owns := false, todo := reqs, got := [], stack := [] }

/-- One action; `none` when it is not enabled. -/
def step (c : Cfg) (g : Graph) (s : St) : Act → Option St
  | .spawn reqs bare =>
    match s.cur with
    | some _ => none
    | none => some { s with tasks := s.tasks ++ [newTask reqs bare], cur := some s.tasks.length }
  | .tick =>
    match s.cur with
    | none => none
    | some t =>
      match s.tasks[t]? with
      | none => some { s with cur := none }  -- cannot happen: `cur` always names a task
      | some k => some (tickTask c g s t k)
  | .resume t =>
    match s.cur with
    | some _ => none
    | none =>
      match s.tasks[t]? with
      | none => none
      | some k =>
        match k.phase, k.stack with
        | .active, f :: fs =>
          match f.waiting with
          | some obj => some (complete c g { s with cur := some t } t k { f with waiting := none } fs obj)
          | none => none
        | .lockWait, _ => if s.lock = some t then some { s with cur := some t } else none
        | _, _ => none
  | .cancel t =>
    -- Cancellation is delivered where a task is suspended: at the await inside an async
    -- factory -- `CancelledError` then propagates out of every `_get` activation of the
    -- task like any exception (each `finally` un-marks its resource, `resolution_scope`
    -- closes the scope and releases the lock) -- or in the queue of the scope lock.
    match s.cur with
    | some _ => none
    | none =>
      match s.tasks[t]? with
      | none => none
      | some k =>
        match k.phase, k.stack with
        | .active, f :: _ =>
          match f.waiting with
          | some _ => some (raise c s t k .cancelled)
          | none => none
        | .lockWait, _ => some (cancelWait s t k)
        | _, _ => none

def stepD (c : Cfg) (g : Graph) (s : St) (a : Act) : St := (step c g s a).getD s

/-! ## task trees

`asyncio.create_task` runs the new task in a *copy* of the creating task's context, so
a task starts with whatever its creator's `_held_scopes` binding shows at that moment.
`resolution_scope` binds `held + (self,)` on entry and restores the previous binding
with `reset(token)` on exit (`lock:held-add`, `lock:finally:held-reset` in the source
shape): the binding is an immutable tuple, nothing a task does later can change what
another context sees.  So the manager is listed in the context of task `t` exactly
while `t` is inside the scope it opened. -/

/-- what `_held_scopes.get()` shows in the context of task `t`: is the manager listed? -/
def heldIn (s : St) (t : Nat) : Bool :=
  match s.tasks[t]? with
  | some k => k.owns && k.phase == .active
  | none => false

/-- Invocation `p` has finished (it resolved its resources -- a parent-workflow step
with injected resources that now runs a child workflow from its body, user code that
warmed a resource before a fan-out) and creates a new invocation.  Only a *finished*
invocation creates tasks here: `partial` and `_Resource.call` themselves create none
while the scope is open (source shape), so a task that would start inside its
creator's scope is outside the model (`none`). -/
def stepFrom (c : Cfg) (g : Graph) (s : St) (p : Nat) (reqs : List Nat) (bare : Bool) : Option St :=
  match s.tasks[p]? with
  | some k =>
    match k.phase with
    | .done _ => if heldIn s p then none else step c g s (.spawn reqs bare)
    | _ => none
  | none => none

def run (c : Cfg) (g : Graph) (acts : List Act) : St := acts.foldl (stepD c g) St.init

/-- Tick until the current task suspends or finishes (driver / witnesses; the
theorems quantify over explicit `tick` actions instead). -/
def settle (c : Cfg) (g : Graph) : Nat → St → St
  | 0, s => s
  | n + 1, s => match s.cur with
    | none => s
    | some _ => settle c g n (stepD c g s .tick)

end Resource
