import WfProofs.EngineRecovery
import WfProofs.RunnerTerminal
/-! Recovery budgets on the runner LTS (C08): the invariant of `EngineRecovery` (queued and
in-progress invocations and — since the repair of the wait replay — the counts kept in waiters)
extends to the tick buffer, the mailbox and the timer heap, for every schedule. -/
set_option linter.unusedSimpArgs false
set_option linter.unusedVariables false

namespace Engine

def RunnerRc (cfg : Cfg) (r : Runner) : Prop :=
  RcInv cfg r.st ∧ (∀ t ∈ r.buf, tickRcOk cfg t) ∧ (∀ t ∈ r.mailbox, tickRcOk cfg t) ∧
    (∀ tm ∈ r.heap, tickRcOk cfg tm.tick)

theorem snoc_rc {cfg : Cfg} {l : List Tick} {t : Tick} (hl : ∀ x ∈ l, tickRcOk cfg x) (ht : tickRcOk cfg t) :
    ∀ x ∈ l ++ [t], tickRcOk cfg x := by
  intro x hx
  rcases List.mem_append.mp hx with hx | hx
  · exact hl x hx
  · simp only [List.mem_singleton] at hx; subst hx; exact ht

theorem execCmd_rc (cfg : Cfg) (r : Runner) (c : Cmd) (hc : cmdRcOk cfg c) (h : RunnerRc cfg r) :
    RunnerRc cfg (execCmd r c) := by
  obtain ⟨hs, hb, hm, hh⟩ := h
  cases c with
  | queueEvent att step delay =>
    have hatt : tickRcOk cfg (.addEvent att step) := hc
    simp only [execCmd]
    cases delay with
    | none => exact ⟨hs, snoc_rc hb hatt, hm, hh⟩
    | some d =>
      simp only
      split
      · refine ⟨hs, hb, hm, ?_⟩
        intro t ht
        simp only [Runner.push, List.mem_append, List.mem_singleton] at ht
        rcases ht with ht | ht
        · exact hh t ht
        · subst ht; exact hatt
      · exact ⟨hs, snoc_rc hb hatt, hm, hh⟩
  | runWorker s ev w => exact ⟨hs, hb, hm, hh⟩
  | halt k => exact ⟨hs, hb, hm, hh⟩
  | completeRun p => exact ⟨hs, hb, hm, hh⟩
  | failWorkflow s x => exact ⟨hs, hb, hm, hh⟩
  | publish p => exact ⟨hs, hb, hm, hh⟩
  | scheduleIdleCheck =>
    simp only [execCmd]
    split
    · exact ⟨hs, hb, hm, hh⟩
    · exact ⟨hs, snoc_rc hb trivial, hm, hh⟩
  | scheduleWaiterTimeout s w t =>
    refine ⟨hs, hb, hm, ?_⟩
    intro x hx
    simp only [execCmd, Runner.push, List.mem_append, List.mem_singleton] at hx
    rcases hx with hx | hx
    · exact hh x hx
    · subst hx; trivial
  | crash => exact ⟨hs, hb, hm, hh⟩

theorem execCmds_rc (cfg : Cfg) : ∀ (cmds : List Cmd) (r : Runner), (∀ c ∈ cmds, cmdRcOk cfg c) →
    RunnerRc cfg r → RunnerRc cfg (execCmds r cmds)
  | [], r, _, h => by simpa [execCmds] using h
  | c :: cs, r, hc, h => by
    simp only [execCmds]
    have h1 := execCmd_rc cfg r c (hc c (by simp)) h
    split
    · exact h1
    · exact execCmds_rc cfg cs _ (fun x hx => hc x (by simp [hx])) h1

/-- external parties hand in admissible recovery counts (`ctx.send_event` copies those of the
running invocation, external senders send none) -/
def Act.rcOk (cfg : Cfg) : Act → Prop
  | .external t => tickRcOk cfg t
  | _ => True

theorem step_rc (cfg : Cfg) (pol : Policy) (r : Runner) (a : Act) (ha : Act.rcOk cfg a) (h : RunnerRc cfg r) :
    RunnerRc cfg (r.step cfg pol a) := by
  obtain ⟨hs, hb, hm, hh⟩ := h
  unfold Runner.step
  split
  · exact ⟨hs, hb, hm, hh⟩
  · cases a with
    | drain =>
      simp only
      cases hbuf : r.buf with
      | nil => simp only; exact ⟨hs, by simpa [hbuf] using hb, hm, hh⟩
      | cons t rest =>
        simp only
        have hrest : ∀ x ∈ rest, tickRcOk cfg x := fun x hx => hb x (by simp [hbuf, hx])
        split
        · exact ⟨hs, hrest, hm, hh⟩
        · have hr := reduce_rc cfg pol t r.st r.now hs (hb t (by simp [hbuf]))
          exact execCmds_rc cfg _ _ hr.2 ⟨hr.1, hrest, hm, hh⟩
    | workerDone s w res =>
      simp only
      split
      · exact ⟨hs, hb, hm, hh⟩
      · split
        · exact ⟨hs, hb, hm, hh⟩
        · refine ⟨hs, ?_, hm, hh⟩
          intro t ht; simp only [List.mem_singleton] at ht; subst ht; trivial
    | pull =>
      simp only
      split
      · exact ⟨hs, hb, hm, hh⟩
      · split
        · exact ⟨hs, hb, hm, hh⟩
        · rename_i t m hmb
          refine ⟨hs, ?_, fun x hx => hm x (by simp [hmb, hx]), hh⟩
          intro x hx; simp only [List.mem_singleton] at hx; subst hx; exact hm x (by simp [hmb])
    | timer =>
      simp only
      split
      · exact ⟨hs, hb, hm, hh⟩
      · refine ⟨hs, ?_, hm, ?_⟩
        · intro x hx
          simp only [List.mem_map] at hx
          obtain ⟨tm, htm, rfl⟩ := hx
          exact hh tm (List.mem_filter.mp (mem_sortTimers htm)).1
        · intro x hx; exact hh x (List.mem_filter.mp hx).1
    | advance dt => exact ⟨hs, hb, hm, hh⟩
    | external t =>
      simp only
      split
      · exact ⟨hs, hb, snoc_rc hm ha, hh⟩
      · exact ⟨hs, hb, hm, hh⟩
    | stepWrite p => exact ⟨hs, hb, hm, hh⟩

theorem run_rc (cfg : Cfg) (pol : Policy) : ∀ (acts : List Act) (r : Runner), (∀ a ∈ acts, Act.rcOk cfg a) →
    RunnerRc cfg r → RunnerRc cfg (Runner.run cfg pol r acts)
  | [], r, _, h => h
  | a :: as, r, ha, h => by
    simp only [Runner.run, List.foldl_cons]
    exact run_rc cfg pol as _ (fun x hx => ha x (by simp [hx])) (step_rc cfg pol r a (ha a (by simp)) h)

/-! ### the start of a run (fresh or resumed) -/

private theorem mem_insertWaiter' {x y : Waiter} : ∀ {l : List Waiter}, x ∈ insertWaiter y l → x = y ∨ x ∈ l
  | [], h => by simp [insertWaiter] at h; exact Or.inl h
  | u :: us, h => by
    simp only [insertWaiter] at h
    split at h
    · rcases List.mem_cons.mp h with h | h
      · exact Or.inl h
      · exact Or.inr h
    · rcases List.mem_cons.mp h with h | h
      · exact Or.inr (by simp [h])
      · rcases mem_insertWaiter' h with h | h
        · exact Or.inl h
        · exact Or.inr (List.mem_cons_of_mem _ h)

private theorem mem_foldr_insertWaiter' {x : Waiter} : ∀ {l : List Waiter}, x ∈ l.foldr insertWaiter [] → x ∈ l
  | [], h => by simp at h
  | u :: us, h => by
    simp only [List.foldr_cons] at h
    rcases mem_insertWaiter' h with h | h
    · simp [h]
    · exact List.mem_cons_of_mem _ (mem_foldr_insertWaiter' h)

/-- every rehydration tick is the replay of a waiter of the state, addressed to the waiter's step -/
theorem mem_rehydrateTicks {cfg : Cfg} {st : State} {t : Tick} (h : t ∈ rehydrateTicks cfg st) :
    ∃ c ∈ sortedSteps cfg, ∃ w ∈ (st.workers c.name).waiters, t = .addEvent w.replay (some c.name) := by
  simp only [rehydrateTicks, List.mem_flatMap, List.mem_map] at h
  obtain ⟨c, hc, w, hw, rfl⟩ := h
  exact ⟨c, hc, w, mem_foldr_insertWaiter' (List.mem_filter.mp hw).1, rfl⟩

theorem rewindLoop_rcInv (cfg : Cfg) (now : Int) : ∀ (cs : List StepCfg) (st : State) (cmds : List Cmd),
    RcInv cfg st → RcInv cfg (rewindLoop now cs st cmds).1
  | [], st, cmds, h => by simpa [rewindLoop] using h
  | d :: ds, st, cmds, h => by
    unfold rewindLoop
    apply rewindLoop_rcInv cfg now ds
    apply RcInv.set h
    unfold rewindStep
    apply drain_rcSS
    refine ⟨?_, by simp, (h d.name).2.2⟩
    intro a ha
    simp only [List.mem_append, List.mem_reverse, List.mem_map] at ha
    rcases ha with ⟨ip, hip, rfl⟩ | ha
    · exact (h d.name).2.1 ip hip
    · exact (h d.name).1 a ha

theorem rewindLoop_cmds_rc (cfg : Cfg) (now : Int) : ∀ (cs : List StepCfg) (st : State) (cmds : List Cmd),
    (∀ c ∈ cmds, cmdRcOk cfg c) → ∀ c ∈ (rewindLoop now cs st cmds).2, cmdRcOk cfg c
  | [], st, cmds, h => by simpa [rewindLoop] using h
  | d :: ds, st, cmds, h => by
    unfold rewindLoop
    apply rewindLoop_cmds_rc cfg now ds
    intro c hc
    rcases List.mem_append.mp hc with hc | hc
    · exact h c hc
    · unfold rewindStep at hc; exact drain_cmds_rc cfg _ _ _ _ _ c hc

/-- `Runner.init` on any state within budget — a fresh one, or one loaded from a serialised
context — is within budget: `rewind_in_progress` re-queues in-progress invocations with their
counts, and the rehydration ticks carry the counts kept in the waiters -/
theorem init_rc (cfg : Cfg) (st0 : State) (h0 : RcInv cfg st0) (now : Int) (start : Option Ev) (timeout : Option Nat) :
    RunnerRc cfg (Runner.init cfg st0 now start timeout) := by
  unfold Runner.init
  dsimp only
  have hrw : ∀ c ∈ (rewind cfg st0 now).2, cmdRcOk cfg c := by
    unfold rewind; exact rewindLoop_cmds_rc cfg now _ _ _ (by simp)
  have hst : RcInv cfg (rewind cfg st0 now).1 := by
    unfold rewind; exact rewindLoop_rcInv cfg now _ _ _ h0
  apply execCmds_rc cfg _ _ hrw
  have hbuf : ∀ t ∈ rehydrateTicks cfg st0 ++
      (match start with | some e => [Tick.addEvent { ev := e } none] | none => []), tickRcOk cfg t := by
    intro t ht
    rcases List.mem_append.mp ht with ht | ht
    · obtain ⟨c, _, w, hw, rfl⟩ := mem_rehydrateTicks ht
      exact (h0 c.name).2.2 w hw
    · cases start with
      | none => simp at ht
      | some e => simp only [List.mem_singleton] at ht; subst ht; exact rcOk_nil cfg
  cases timeout with
  | none => exact ⟨hst, hbuf, by intro t ht; simp at ht, by intro t ht; simp at ht⟩
  | some tmo =>
    refine ⟨hst, hbuf, by intro t ht; simp [Runner.push] at ht, ?_⟩
    intro t ht
    simp only [Runner.push, List.nil_append, List.mem_singleton] at ht
    subst ht; trivial

end Engine
