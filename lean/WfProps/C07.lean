import WfProofs.PolicyLemmas
/-!
# C07 — retry building blocks obey their algebra and bounds

The strategy bodies are the ones regenerated from `retry_policy.py` (`Gen.RP.*`); the
theorems are therefore re-checked against the current source on every run.  Numbers are
exact rationals; `u` is the jitter draw.  What the exact model cannot exhibit — IEEE
overflow / rounding of the float implementation — is exercised on the implementation by
the check's extreme stream (huge attempt counts and bases).
-/
set_option linter.unusedVariables false
open Policy Gen.RP

/-- the source still has the shape the hand-written parts transcribe: operator sugar,
`wait_chain`'s index, the composed `next`, and how the control loop calls it -/
theorem C07_source_shape :
    sugar_RetryConditionBase___or = "retry_any(self,other)" ∧
    sugar_RetryConditionBase___and = "retry_all(self,other)" ∧
    sugar_StopConditionBase___or = "stop_any(self,other)" ∧
    sugar_StopConditionBase___and = "stop_all(self,other)" ∧
    sugar_WaitStrategyBase___add = "wait_combine(self,other)" ∧
    waitChainIndex = "min(attempts, len(self.strategies) - 1)" ∧
    composedNext = "if self.retry is not None and (not self.retry(error)): return None ; delay = self.wait(attempts, seed=seed) ; if self.stop(attempts, elapsed_time, upcoming_sleep=delay): return None ; return delay" ∧
    loopFailures = "this_execution.attempts + 1" ∧
    loopNextArgs = "elapsed_time, failures, result.exception" ∧
    -- the operators are defined on the three bases only (no subclass has an operator of its own)
    operatorDefs = ["_RetryConditionBase.__and__", "_RetryConditionBase.__or__", "_RetryConditionBase.__rand__",
      "_RetryConditionBase.__ror__", "_StopConditionBase.__and__", "_StopConditionBase.__or__", "_StopConditionBase.__rand__",
      "_StopConditionBase.__ror__", "_WaitStrategyBase.__add__", "_WaitStrategyBase.__radd__"] ∧
    -- every time argument (number or timedelta) is converted by total_seconds()
    toSecondsBody = "return float(value.total_seconds() if isinstance(value, timedelta) else value)" :=
  ⟨rfl, rfl, rfl, rfl, rfl, rfl, rfl, rfl, rfl, rfl, rfl⟩

/-! ## algebra -/

theorem C07_retry_any_is_or (rs : List Cond) (e : Nat) :
    retryAny rs e = true ↔ ∃ r ∈ rs, r e = true := by simp [retryAny]

theorem C07_retry_all_is_and (rs : List Cond) (e : Nat) :
    retryAll rs e = true ↔ ∀ r ∈ rs, r e = true := by simp [retryAll]

theorem C07_stop_any_is_or (ss : List Stop) (a : Nat) (el up : Rat) :
    stopAny ss a el up = true ↔ ∃ s ∈ ss, s a el up = true := by simp [stopAny]

theorem C07_stop_all_is_and (ss : List Stop) (a : Nat) (el up : Rat) :
    stopAll ss a el up = true ↔ ∀ s ∈ ss, s a el up = true := by simp [stopAll]

/-- `a | b`, `a & b` are the binary cases -/
theorem C07_operators (a b : Cond) (s t : Stop) (e n : Nat) (el up : Rat) :
    retryAny [a, b] e = (a e || b e) ∧ retryAll [a, b] e = (a e && b e) ∧
    stopAny [s, t] n el up = (s n el up || t n el up) ∧ stopAll [s, t] n el up = (s n el up && t n el up) := by
  simp [retryAny, retryAll, stopAny, stopAll]

theorem C07.foldl_add (l : List Rat) (x : Rat) : l.foldl (· + ·) x = x + l.foldl (· + ·) 0 := by
  induction l generalizing x with
  | nil => simp only [List.foldl_nil]; grind
  | cons a as ih => simp only [List.foldl_cons]; rw [ih (x + a), ih (0 + a)]; grind

/-- `wait_combine` / `+` is the sum of its parts -/
theorem C07_wait_combine_is_sum (f : Wait) (fs : List Wait) (a : Nat) (u : Rat) :
    waitCombine [] a u = 0 ∧ waitCombine (f :: fs) a u = f a u + waitCombine fs a u := by
  constructor
  · simp [waitCombine]
  · simp only [waitCombine, List.map_cons, List.foldl_cons]
    rw [C07.foldl_add]; grind

theorem C07_wait_plus (f g : Wait) (a : Nat) (u : Rat) : waitCombine [f, g] a u = f a u + g a u := by
  simp only [waitCombine, List.map_cons, List.map_nil, List.foldl_cons, List.foldl_nil]; grind

/-! ## bounds (all attempts, all jitter draws `u ∈ [0,1]`) -/

theorem C07_fixed (w : Rat) (a : Nat) (u : Rat) : waitFixed w a u = w := rfl

/-- `wait_exponential`: clamped into `[max(0,min), max(max(0,min), max)]` -/
theorem C07_exponential_bounds (m b mx mn : Rat) (a : Nat) (u : Rat) :
    max 0 mn ≤ waitExponential m b mx mn a u ∧ waitExponential m b mx mn a u ≤ max (max 0 mn) mx := by
  have := capped_le m b a mx
  unfold waitExponential; grind

/-- `wait_incrementing`: never negative, never above `max` (when `max ≥ 0`) -/
theorem C07_incrementing_bounds (s i mx : Rat) (a : Nat) (u : Rat) :
    0 ≤ waitIncrementing s i mx a u ∧ (0 ≤ mx → waitIncrementing s i mx a u ≤ mx) := by
  unfold waitIncrementing; grind

/-- `wait_random(min, max)` with `min ≤ max` -/
theorem C07_random_bounds (mn mx : Rat) (a : Nat) (u : Rat) (h : mn ≤ mx) (h0 : 0 ≤ u) (h1 : u ≤ 1) :
    mn ≤ waitRandom mn mx a u ∧ waitRandom mn mx a u ≤ mx := by
  unfold waitRandom; exact uniform_bounds mn mx u h h0 h1

/-- `wait_exponential_jitter`: in `[0, max]` for non-negative parameters -/
theorem C07_exp_jitter_bounds (i b mx j : Rat) (a : Nat) (u : Rat) (hi : 0 ≤ i) (hb : 0 ≤ b)
    (hm : 0 ≤ mx) (hj : 0 ≤ j) (h0 : 0 ≤ u) (h1 : u ≤ 1) :
    0 ≤ waitExponentialJitter i b mx j a u ∧ waitExponentialJitter i b mx j a u ≤ mx := by
  have hc := capped_nonneg i b a mx hi hb hm
  have hu := (uniform_bounds 0 j u hj h0 h1).1
  unfold waitExponentialJitter
  grind

/-- `wait_random_exponential`: in `[min, max(max(0,min), max)]` -/
theorem C07_random_exp_bounds (m b mx mn : Rat) (a : Nat) (u : Rat) (h0 : 0 ≤ u) (h1 : u ≤ 1) :
    mn ≤ waitRandomExponential m b mx mn a u ∧
      waitRandomExponential m b mx mn a u ≤ max (max 0 mn) mx := by
  have hc := capped_le m b a mx
  unfold waitRandomExponential
  have hle : mn ≤ max (max 0 mn) (cappedExponential m b a mx) := by grind
  have := uniform_bounds mn (max (max 0 mn) (cappedExponential m b a mx)) u hle h0 h1
  grind

/-- `wait_chain` picks one of its strategies: whatever bound all of them satisfy, it satisfies -/
theorem C07_chain_bounds (l : List Wait) (hne : l ≠ []) (P : Rat → Prop) (a : Nat) (u : Rat)
    (h : ∀ f ∈ l, P (f a u)) : P (waitChain l a u) := by
  unfold waitChain
  have hlt : min a (l.length - 1) < l.length := by
    have : 0 < l.length := List.length_pos_iff.mpr hne
    omega
  rw [List.getElem?_eq_getElem hlt]
  exact h _ (List.getElem_mem hlt)

/-- a sum of non-negative delays is non-negative -/
theorem C07_combine_nonneg : ∀ (l : List Wait) (a : Nat) (u : Rat), (∀ f ∈ l, 0 ≤ f a u) →
    0 ≤ waitCombine l a u
  | [], a, u, _ => by simp [waitCombine]
  | f :: fs, a, u, h => by
    rw [(C07_wait_combine_is_sum f fs a u).2]
    have h1 := h f (by simp)
    have h2 := C07_combine_nonneg fs a u (fun g hg => h g (by simp [hg]))
    grind

/-- jittered strategies are functions of (parameters, attempts, draw): a fixed seed fixes the
draw, hence the delay (stated for the composed policy) -/
theorem C07_deterministic (p : Composed) (el : Rat) (k e : Nat) (u u' : Rat) (h : u = u') :
    p.next el k e u = p.next el k e u' := by rw [h]

/-! Non-vacuity -/
example : waitExponential 1 2 100 0 3 0 = 8 := by
  unfold waitExponential cappedExponential
  have : (2:Rat)^3 = 8 := by rw [Rat.pow_succ, Rat.pow_succ, Rat.pow_succ, Rat.pow_zero]; grind
  rw [this]; grind
example : waitRandom 1 3 0 (1/2) = 2 := by unfold waitRandom; grind
example : waitChain [waitFixed 1, waitFixed 2, waitFixed 5] 7 0 = 5 := by simp [waitChain, waitFixed]
example : waitCombine [waitFixed 1, waitRandom 0 1] 0 (1/4) = 5/4 := by
  simp [waitCombine, waitFixed, waitRandom]; grind
example : (0:Rat) ≤ 1/2 ∧ (1/2:Rat) ≤ 1 := by grind
