import WfModel.Context
import WfProofs.EngineReduce
/-!
Waiter soundness (C10): a waiter's `resolved` event always has the type the waiter waits for and
satisfies its requirement — in the live waiter lists and in every snapshot handed to a running
invocation — and this is preserved by every reducer branch.
-/
set_option linter.unusedSimpArgs false
set_option linter.unusedVariables false

namespace Engine

def WaiterSound (w : Waiter) : Prop :=
  ∀ e, w.resolved = some e → e.ty = w.waitTy ∧ (∀ v, w.req = some v → e.key = some v)

def WaitersSound (ws : List Waiter) : Prop := ∀ w ∈ ws, WaiterSound w

def StepWaitInv (ss : StepState) : Prop :=
  WaitersSound ss.waiters ∧ ∀ ip ∈ ss.inProg, WaitersSound ip.snapWaiters

def WaitInv (st : State) : Prop := ∀ s, StepWaitInv (st.workers s)

theorem waitInv_init : WaitInv initState := by
  intro s; exact ⟨fun w hw => by simp [initState] at hw, fun ip hip => by simp [initState] at hip⟩

theorem WaitInv.set {st : State} (h : WaitInv st) (s : Nat) (ss : StepState) (hs : StepWaitInv ss) :
    WaitInv (st.set s ss) := by
  intro t
  simp only [State.set]
  split
  · exact hs
  · exact h t

theorem waitersSound_append {a b : List Waiter} (ha : WaitersSound a) (hb : WaitersSound b) :
    WaitersSound (a ++ b) := by
  intro w hw
  rcases List.mem_append.mp hw with h | h
  · exact ha w h
  · exact hb w h

theorem waitersSound_cons {w : Waiter} {l : List Waiter} (hw : WaiterSound w) (hl : WaitersSound l) :
    WaitersSound (w :: l) := by
  intro x hx
  rcases List.mem_cons.mp hx with rfl | h
  · exact hw
  · exact hl x h

theorem waitersSound_of_cons {w : Waiter} {l : List Waiter} (h : WaitersSound (w :: l)) :
    WaiterSound w ∧ WaitersSound l :=
  ⟨h w (by simp), fun x hx => h x (by simp [hx])⟩

theorem addOrEnqueue_waitInv (att : Attempt) (step : Nat) (ss : StepState) (nw : Nat) (now : Int)
    (h : StepWaitInv ss) : StepWaitInv (addOrEnqueue att step ss nw now).1 := by
  unfold addOrEnqueue
  split
  · split
    · refine ⟨h.1, ?_⟩
      intro ip hip
      simp only [List.mem_append, List.mem_cons, List.mem_nil_iff, or_false] at hip
      rcases hip with hip | rfl
      · exact h.2 ip hip
      · exact h.1
    · exact h
  · exact ⟨h.1, h.2⟩

theorem drain_waitInv (step nw : Nat) (now : Int) :
    ∀ (fuel : Nat) (ss : StepState), StepWaitInv ss → StepWaitInv (drain step nw now fuel ss).1
  | 0, ss, h => by simpa [drain] using h
  | fuel + 1, ss, h => by
    unfold drain
    split
    · exact h
    · split
      · apply drain_waitInv step nw now fuel
        apply addOrEnqueue_waitInv
        exact ⟨h.1, h.2⟩
      · exact h

theorem waiterMatches_sound {w : Waiter} {ev : Ev} (hm : waiterMatches w ev = true) :
    WaiterSound { w with resolved := some ev } := by
  intro e he
  simp only [Option.some.injEq] at he
  subst he
  simp only [waiterMatches, Bool.and_eq_true, beq_iff_eq] at hm
  refine ⟨hm.1.2, fun v hv => ?_⟩
  have := hm.2
  rw [hv] at this
  simpa using this

theorem resolveLoop_waitInv (ev : Ev) (step nw : Nat) (now : Int) :
    ∀ (rest done : List Waiter) (ss : StepState) (cmds : List Cmd) (hd : Bool),
      WaitersSound done → WaitersSound rest → (∀ ip ∈ ss.inProg, WaitersSound ip.snapWaiters) →
      StepWaitInv (resolveLoop ev step nw now done rest ss cmds hd).1
  | [], done, ss, cmds, hd, h1, _, h3 => by
    simp only [resolveLoop]; exact ⟨h1, h3⟩
  | w :: rest, done, ss, cmds, hd, h1, h2, h3 => by
    obtain ⟨hw, hrest⟩ := waitersSound_of_cons h2
    unfold resolveLoop
    split
    · rename_i hm
      have hw' := waiterMatches_sound hm
      have hall : WaitersSound (done ++ { w with resolved := some ev } :: rest) :=
        waitersSound_append h1 (waitersSound_cons hw' hrest)
      have hinv := addOrEnqueue_waitInv w.replay step
        { ss with waiters := done ++ { w with resolved := some ev } :: rest } nw now ⟨hall, h3⟩
      exact resolveLoop_waitInv ev step nw now rest _ _ _ _
        (waitersSound_append h1 (waitersSound_cons hw' (fun _ h => by simp at h))) hrest hinv.2
    · exact resolveLoop_waitInv ev step nw now rest _ _ _ _
        (waitersSound_append h1 (waitersSound_cons hw (fun _ h => by simp at h))) hrest h3

theorem addEventWaiters_waitInv (cfg : Cfg) (ev : Ev) (target : Option Nat) (now : Int) :
    ∀ (cs : List StepCfg) (acc : AddAcc), WaitInv acc.st →
      WaitInv (addEventWaiters cfg ev target now cs acc).st
  | [], acc, h => by simp only [addEventWaiters]; exact h
  | c :: cs, acc, h => by
    unfold addEventWaiters
    split
    · exact addEventWaiters_waitInv cfg ev target now cs acc h
    · apply addEventWaiters_waitInv cfg ev target now cs
      split
      · apply WaitInv.set h
        apply resolveLoop_waitInv
        · intro w hw; simp at hw
        · exact (h c.name).1
        · exact (h c.name).2
      · exact h

theorem addEventRoute_waitInv (att : Attempt) (target : Option Nat) (now : Int) :
    ∀ (cs : List StepCfg) (acc : AddAcc), WaitInv acc.st →
      WaitInv (addEventRoute att target now cs acc).st
  | [], acc, h => by simp only [addEventRoute]; exact h
  | c :: cs, acc, h => by
    unfold addEventRoute
    split
    · exact addEventRoute_waitInv att target now cs acc h
    · split
      · apply addEventRoute_waitInv att target now cs
        apply WaitInv.set h
        apply addOrEnqueue_waitInv
        exact h c.name
      · exact addEventRoute_waitInv att target now cs acc h

theorem processAddEvent_waitInv (cfg : Cfg) (att : Attempt) (target : Option Nat)
    (st : State) (now : Int) (h : WaitInv st) :
    WaitInv (processAddEvent cfg att target st now).1 := by
  rw [processAddEvent_fst]
  have h0 : WaitInv (addEventStart att st) := by
    unfold addEventStart
    split
    · exact h
    · exact h
  have h1 := addEventWaiters_waitInv cfg att.ev target now cfg.steps { st := addEventStart att st } h0
  exact addEventRoute_waitInv att target now cfg.steps _ h1

/-! ### step results -/

theorem waitersSound_modifyFirst (p : Waiter → Bool) (f : Waiter → Waiter) (hf : ∀ w, WaiterSound w → WaiterSound (f w)) :
    ∀ (l : List Waiter), WaitersSound l → WaitersSound (modifyFirst p f l)
  | [], h => by simpa [modifyFirst] using h
  | w :: l, h => by
    obtain ⟨hw, hl⟩ := waitersSound_of_cons h
    unfold modifyFirst
    split
    · exact waitersSound_cons (hf w hw) hl
    · exact waitersSound_cons hw (waitersSound_modifyFirst p f hf l hl)

theorem waitersSound_eraseP (p : Waiter → Bool) (l : List Waiter) (h : WaitersSound l) :
    WaitersSound (l.eraseP p) := fun w hw => h w (List.mem_of_mem_eraseP hw)

/-- the accumulator invariant while results are applied -/
def AccWaitInv (acc : ResAcc) : Prop := WaitInv acc.st ∧ WaitersSound acc.exec.snapWaiters

theorem waitInv_clearAll {st : State} (h : WaitInv st) : WaitInv (clearAll st) := by
  intro s
  refine ⟨fun w hw => by simp [clearAll] at hw, ?_⟩
  exact (h s).2

theorem applyRes_waitInv (cfg : Cfg) (pol : Policy) (step : Nat) (tickEv : Ev) (dc : Bool)
    (acc : ResAcc) (r : Res) (h : AccWaitInv acc) :
    AccWaitInv (applyRes cfg pol step tickEv dc acc r) := by
  obtain ⟨hst, hex⟩ := h
  cases r with
  | result r =>
    cases r with
    | none => exact ⟨hst, hex⟩
    | some ev =>
      simp only [applyRes]
      split
      · refine ⟨?_, hex⟩
        apply waitInv_clearAll
        intro s; exact hst s
      · exact ⟨hst, hex⟩
  | failed exc failedAt =>
    simp only [applyRes]
    split
    · exact ⟨hst, hex⟩
    split
    · exact ⟨hst, hex⟩
    all_goals
      split
      · split
        · exact ⟨hst, hex⟩
        · exact ⟨fun s => hst s, hex⟩
      · exact ⟨fun s => hst s, hex⟩
  | addCollected buf ev =>
    simp only [applyRes]
    split
    · exact ⟨hst, hex⟩
    split
    · exact ⟨WaitInv.set hst _ _ ⟨(hst step).1, (hst step).2⟩, hex⟩
    · exact ⟨WaitInv.set hst _ _ ⟨(hst step).1, (hst step).2⟩, hex⟩
  | deleteCollected buf =>
    simp only [applyRes]
    split
    · exact ⟨WaitInv.set hst _ _ ⟨(hst step).1, (hst step).2⟩, hex⟩
    · exact ⟨hst, hex⟩
  | addWaiter wid waiterEv req timeout ty =>
    simp only [applyRes]
    have hnew : WaiterSound (newWaiter acc.exec wid ty req) := by
      intro e he; simp [newWaiter] at he
    split
    · refine ⟨WaitInv.set hst _ _ ⟨?_, (hst step).2⟩, hex⟩
      exact waitersSound_modifyFirst _ _ (fun _ _ => hnew) _ (hst step).1
    · refine ⟨WaitInv.set hst _ _ ⟨?_, (hst step).2⟩, hex⟩
      exact waitersSound_append (hst step).1 (waitersSound_cons hnew (fun _ h => by simp at h))
  | deleteWaiter wid =>
    simp only [applyRes]
    split
    · exact ⟨WaitInv.set hst _ _ ⟨waitersSound_eraseP _ _ (hst step).1, (hst step).2⟩, hex⟩
    · exact ⟨hst, hex⟩

theorem foldl_applyRes_waitInv (cfg : Cfg) (pol : Policy) (step : Nat) (tickEv : Ev) (dc : Bool) :
    ∀ (res : List Res) (acc : ResAcc), AccWaitInv acc →
      AccWaitInv (res.foldl (applyRes cfg pol step tickEv dc) acc)
  | [], acc, h => by simpa using h
  | r :: rs, acc, h => by
    simp only [List.foldl_cons]
    exact foldl_applyRes_waitInv cfg pol step tickEv dc rs _ (applyRes_waitInv cfg pol step tickEv dc acc r h)

theorem snapSound_modifyFirst (p : InProg → Bool) (e : InProg) (he : WaitersSound e.snapWaiters) :
    ∀ (l : List InProg), (∀ ip ∈ l, WaitersSound ip.snapWaiters) →
      ∀ ip ∈ modifyFirst p (fun _ => e) l, WaitersSound ip.snapWaiters
  | [], h => by simp [modifyFirst]
  | x :: l, h => by
    unfold modifyFirst
    split
    · intro ip hip
      rcases List.mem_cons.mp hip with rfl | h'
      · exact he
      · exact h ip (by simp [h'])
    · intro ip hip
      rcases List.mem_cons.mp hip with rfl | h'
      · exact h _ (by simp)
      · exact snapSound_modifyFirst p e he l (fun y hy => h y (by simp [hy])) ip h'

theorem settle_waitInv (acc : ResAcc) (step worker : Nat) (tickEv : Ev) (h : AccWaitInv acc) :
    StepWaitInv (settle acc step worker tickEv).1 := by
  obtain ⟨hst, hex⟩ := h
  unfold settle
  split
  · exact ⟨(hst step).1, snapSound_modifyFirst _ _ hex _ (hst step).2⟩
  · exact ⟨(hst step).1, fun ip hip => (hst step).2 ip (List.mem_of_mem_eraseP hip)⟩

theorem processStepResult_waitInv (cfg : Cfg) (pol : Policy) (step worker : Nat) (tickEv : Ev)
    (res : List Res) (st : State) (now : Int) (h : WaitInv st) :
    WaitInv (processStepResult cfg pol step worker tickEv res st now).1 := by
  unfold processStepResult
  split
  · exact h
  · split
    · exact h
    · rename_i exec hfind
      have hmem := List.mem_of_find?_eq_some hfind
      have hacc0 : AccWaitInv { st := st, exec := exec } := ⟨h, (h step).2 exec hmem⟩
      have hacc := foldl_applyRes_waitInv cfg pol step tickEv (res.any isResult) res _ hacc0
      have hset := settle_waitInv _ step worker tickEv hacc
      simp only
      generalize (res.foldl (applyRes cfg pol step tickEv (res.any isResult))
          { st := st, exec := exec }) = acc at hacc hset
      split
      · exact WaitInv.set hacc.1 _ _ hset
      · exact WaitInv.set hacc.1 _ _ (drain_waitInv _ _ _ _ _ hset)

theorem processWaiterTimeout_waitInv (cfg : Cfg) (step waiter : Nat) (st : State) (now : Int)
    (h : WaitInv st) : WaitInv (processWaiterTimeout cfg step waiter st now).1 := by
  unfold processWaiterTimeout
  split
  · exact h
  · simp only
    split
    · exact h
    · split
      · exact h
      · apply WaitInv.set h
        apply addOrEnqueue_waitInv
        refine ⟨?_, (h step).2⟩
        apply waitersSound_modifyFirst _ _ _ _ (h step).1
        intro w hw e he
        exact hw e he

theorem reduce_waitInv (cfg : Cfg) (pol : Policy) (tick : Tick) (st : State) (now : Int)
    (h : WaitInv st) : WaitInv (reduce cfg pol tick st now).1 := by
  unfold reduce
  cases tick with
  | stepResult step worker ev res =>
    simp only
    split <;> exact processStepResult_waitInv cfg pol step worker ev res st now h
  | addEvent att target =>
    simp only
    split <;> exact processAddEvent_waitInv cfg att target st now h
  | cancelRun => simp only; split <;> exact h
  | idleRelease => exact h
  | publish ev => simp only; split <;> exact h
  | timeout t => simp only; split <;> exact (fun s => h s)
  | waiterTimeout step waiter =>
    simp only
    split <;> exact processWaiterTimeout_waitInv cfg step waiter st now h
  | idleCheck => simp only; split <;> exact h

theorem rewindStep_waitInv (c : StepCfg) (ss : StepState) (now : Int) (h : StepWaitInv ss) :
    StepWaitInv (rewindStep c ss now).1 := by
  unfold rewindStep
  apply drain_waitInv
  exact ⟨h.1, fun ip hip => by simp at hip⟩

theorem rewindLoop_waitInv (now : Int) :
    ∀ (cs : List StepCfg) (st : State) (cmds : List Cmd), WaitInv st →
      WaitInv (rewindLoop now cs st cmds).1
  | [], st, cmds, h => by simpa [rewindLoop] using h
  | c :: cs, st, cmds, h => by
    unfold rewindLoop
    exact rewindLoop_waitInv now cs _ _ (WaitInv.set h _ _ (rewindStep_waitInv c _ now (h c.name)))

theorem rewind_waitInv (cfg : Cfg) (st : State) (now : Int) (h : WaitInv st) :
    WaitInv (rewind cfg st now).1 := rewindLoop_waitInv now _ st [] h

end Engine
