import WfModel.SseClient
import Driver.Util
open SseClient Drv

/-! Line protocol for the `sseclient` model.

`run|maxR|c0|statusDone|events|valid|conns[|incl]`   (`incl`: the `include_internal` flag, also on `serve`, `live`)
  events  `;`-separated `seq:terminal:codepoints[:I]`  (`I`: an InternalDispatchEvent)
  valid   `;`-separated code point lists accepted by the validator besides the log's payloads
  conns   `;`-separated `fault~hb~raw` with fault `n`, `r`, `d<N>`, `tc`, `tr<N>`, `s<code>`;
          hb comma-separated naturals; raw empty, `S<code>` or `B<closes>:<codepoints>`
  →  `res=… last=… out=seq@idx,… reqs=c,c,…`
`serve|c|statusDone|events|hb`  →  `status=204` or `stream closes=b body=codepoints`
`live|maxR|c0|events|valid|conns`  the log grows: conns as above with a fourth field `vis:sd`
  (that connection sees the first `vis` events; `sd` = the handler's status is terminal by then)
  →  as `run`
`lines|eof|chunks`  chunks `;`-separated `c<codepoints>` (zero or more)
  →  `n=<count> l<codepoints>;l<codepoints>…` what `_iter_sse_lines` yields
`int|codepoints`  →  `int=<n>` or `int=error` (Python `int(text)`)
`cursor|n`  →  `text=<codepoints> back=<n>` (`str(n)` and `int` of it)
-/
namespace Drv.SseClient

def parseEv? (s : String) : Option Ev :=
  match s.splitOn ":" with
  | [sq, t, p] => do
    let n ← sq.toNat?
    let b ← parseBool? t
    let cs ← parseChars? p
    some { seq := n, payload := cs, terminal := b }
  | [sq, t, p, "I"] => do
    let n ← sq.toNat?
    let b ← parseBool? t
    let cs ← parseChars? p
    some { seq := n, payload := cs, terminal := b, internal := true }
  | _ => none

def parseList? (f : String → Option α) (s : String) : Option (List α) :=
  if s.isEmpty then some [] else (s.splitOn ";").mapM f

def parseFault? (s : String) : Option Fault :=
  if s == "n" then some .none
  else if s == "r" then some .refuse
  else if s == "tc" then some .timeoutConn
  else if s.startsWith "tr" then (s.drop 2).toString.toNat?.map .timeoutAt
  else if s.startsWith "d" then (s.drop 1).toString.toNat?.map .dropAt
  else if s.startsWith "s" then (s.drop 1).toString.toNat?.map .status
  else none

def parseRaw? (s : String) : Option (Option Resp) :=
  if s.isEmpty then some none
  else if s.startsWith "S" then (s.drop 1).toString.toNat?.map fun c => some (.status c)
  else if s.startsWith "B" then
    match (s.drop 1).toString.splitOn ":" with
    | [c, b] => do
      let cl ← parseBool? c
      let body ← parseChars? b
      some (some (.stream body cl))
    | _ => none
  else none

def parseConn? (s : String) : Option Conn :=
  match s.splitOn "~" with
  | [f, hb, raw] => do
    let f ← parseFault? f
    let hb ← parseNats? hb
    let raw ← parseRaw? raw
    some { fault := f, hb := hb, raw := raw }
  | _ => none

/-- `fault~hb~raw~vis:sd` -/
def parseLiveConn? (es : List Ev) (incl : Bool) (s : String) : Option (Server × Conn) :=
  match s.splitOn "~" with
  | [f, hb, raw, snap] =>
    match snap.splitOn ":" with
    | [v, sd] => do
      let f ← parseFault? f
      let hb ← parseNats? hb
      let raw ← parseRaw? raw
      let v ← v.toNat?
      let sd ← parseBool? sd
      some ({ log := es.take v, statusDone := sd, inclInternal := incl }, { fault := f, hb := hb, raw := raw })
    | _ => none
  | _ => none

def parseChunk? (s : String) : Option (List Char) :=
  if s.startsWith "c" then parseChars? (s.drop 1).toString else none

def showRes : Res → String
  | .done => "done" | .pending => "pending" | .more => "more"
  | .errConn => "conn" | .errTimeout => "timeout" | .errParse => "parse"
  | .errStatus => "status" | .errNotFound => "notfound"

def indexOf? (p : List Char) : List (List Char) → Nat → Option Nat
  | [], _ => none
  | x :: xs, i => if x == p then some i else indexOf? p xs (i + 1)

def showItem (logP extra : List (List Char)) (it : Int × List Char) : String :=
  let tag := match indexOf? it.2 logP 0 with
    | some i => toString i
    | none => match indexOf? it.2 extra 0 with
      | some i => "v" ++ toString i
      | none => "?"
  toString it.1 ++ "@" ++ tag

/-- `D` = the default of the current sources -/
def parseMax? (s : String) : Option Nat :=
  if s == "D" then some Gen.SseClient.defaultMaxReconnect else s.toNat?

def parseC0? (s : String) : Option Int :=
  if s == "D" then some Gen.SseClient.defaultAfterSequence else s.toInt?

/-- the run ops carry the real client's `include_internal` flag as an optional last field; without
it (logs without internal events) the flag makes no difference and the model default is used -/
def opRun (maxR c0 sd evs valid conns : String) (incl : Option Bool) : String :=
  match parseMax? maxR, parseC0? c0, parseBool? sd, parseList? parseEv? evs, parseList? parseChars? valid,
        parseList? parseConn? conns, incl with
  | some m, some c, some d, some es, some vs, some cs, some i =>
    let logP := es.map (·.payload)
    let P : Params := { valid := fun d => logP.contains d || vs.contains d, brk := isBreak, maxR := m }
    let (st, r) := run P { log := es, statusDone := d, inclInternal := i } { last := c } cs
    s!"res={showRes r} last={st.last} out={",".intercalate (st.out.map (showItem logP vs))} " ++
      s!"reqs={",".intercalate (st.reqs.map toString)}"
  | _, _, _, _, _, _, _ => "bad-op"

def opServe (c sd evs hb : String) (incl : Option Bool) : String :=
  match c.toInt?, parseBool? sd, parseList? parseEv? evs, parseNats? hb, incl with
  | some c, some d, some es, some hb, some i =>
    match ({ log := es, statusDone := d, inclInternal := i } : Server).serve c hb with
    | .status code => s!"status={code}"
    | .stream body cl => s!"stream closes={if cl then 1 else 0} body={showChars body}"
  | _, _, _, _, _ => "bad-op"

def opLive (maxR c0 evs valid conns : String) (incl : Option Bool) : String :=
  match parseMax? maxR, parseC0? c0, parseList? parseEv? evs, parseList? parseChars? valid, incl with
  | some m, some c, some es, some vs, some i =>
    match parseList? (parseLiveConn? es i) conns with
    | some script =>
      let logP := es.map (·.payload)
      let P : Params := { valid := fun d => logP.contains d || vs.contains d, brk := isBreak, maxR := m }
      let (st, r) := runLive P { last := c } script
      s!"res={showRes r} last={st.last} out={",".intercalate (st.out.map (showItem logP vs))} " ++
        s!"reqs={",".intercalate (st.reqs.map toString)}"
    | none => "bad-op"
  | _, _, _, _, _ => "bad-op"

def step (_ : Unit) (line : String) : Unit × String :=
  match line.splitOn "|" with
  | ["run", maxR, c0, sd, evs, valid, conns] => ((), opRun maxR c0 sd evs valid conns (some true))
  | ["run", maxR, c0, sd, evs, valid, conns, incl] => ((), opRun maxR c0 sd evs valid conns (parseBool? incl))
  | ["serve", c, sd, evs, hb] => ((), opServe c sd evs hb (some true))
  | ["serve", c, sd, evs, hb, incl] => ((), opServe c sd evs hb (parseBool? incl))
  | ["live", maxR, c0, evs, valid, conns] => ((), opLive maxR c0 evs valid conns (some true))
  | ["live", maxR, c0, evs, valid, conns, incl] => ((), opLive maxR c0 evs valid conns (parseBool? incl))
  | ["lines", eof, chunks] =>
    match parseBool? eof, parseList? parseChunk? chunks with
    | some e, some cs =>
      let ls := chunkedLines isBreak e cs
      ((), s!"n={ls.length} {";".intercalate (ls.map fun l => "l" ++ showChars l)}")
    | _, _ => ((), "bad-op")
  | ["int", t] =>
    match parseChars? t with
    | some cs => ((), match pyInt? cs with | some n => s!"int={n}" | none => "int=error")
    | none => ((), "bad-op")
  | ["cursor", n] =>
    match n.toInt? with
    | some n => ((), s!"text={showChars (pyStr n)} back={match pyInt? (pyStr n) with | some m => toString m | none => "error"}")
    | none => ((), "bad-op")
  | _ => ((), "bad-op")

end Drv.SseClient
