"""C34 — release tooling converts and classifies versions consistently."""
from __future__ import annotations

import re
from typing import Any

from .. import c34_tags as TG
from ..runner import Divergence, Driver, Env, Outcome, Violation, diff_streams

THEOREMS = [
    "C34_source_shape",
    "C34_parse_printed",
    "C34_roundtrip_pep440",
    "C34_roundtrip_pep440_any_spelling",
    "C34_roundtrip_semver",
    "C34_roundtrip_semver_leading_zeros",
    "C34_order_is_pep440",
    "C34_none_iff_not_greater",
    "C34_names_grown_component",
    "C34_greater_never_shrinks",
    "C34_detect_strings",
    "C34_prerelease_detected",
    # extension round (b-xC34)
    "C34_order_strict_total",
    "C34_classify_respects_equality",
    "C34_classify_characterisation",
    "C34_chain_classification",
    "C34_chain_guard_needed",
    "C34_conversions_idempotent",
    "C34_semver_to_pep_preserves_version",
    "C34_roundtrip_semver_trailing_newline",
    "C34_whitespace_irrelevant",
    "C34_spellings_injective",
    "C34_tag_source_shape",
    "C34_tag_pipeline",
    "C34_history_pipeline",
    "C34_publish_pipeline",
]
EXPLANATION = (
    "Lean model M15 over List Char: packaging's PEP 440 pattern restricted to `v? release pre?` (all spellings), "
    "Version.__str__, the comparison key (trailing zeros stripped, Python tuple <=), _SEMVER_PRERELEASE_RE.match with "
    "CPython's Unicode \\d and $-before-newline, the two conversions, is_rc_version and detect_change_type. Theorems: "
    "both round trips for every release tuple of any length with optional a/b/rc number (canonical spelling, any "
    "accepted PEP 440 spelling, and semver spelled with leading zeros); the key comparison equals the PEP 440 order "
    "stated independently (zero-padded component-wise, then pre-release rank and number); 'none' iff not greater; a "
    "greater version's first differing component among the first three has grown and is the one named (all three "
    "equal -> 'minor', the documented reading). Tie: label set, regex, and a symbolic rule summary of the four "
    "functions regenerated from /repo (C34_source_shape), packaging's pattern/ranks and re's \\s, \\d tables "
    "regenerated from the runtime; op-by-op correspondence of the real functions against the model on structured, "
    "respelled, near-miss and garbage strings. Search: round-trip and classification monitors on the real functions "
    "with an independent comparator. Extension: the order is a strict total order up to trailing zeros and the "
    "classification respects that equivalence; every answer characterised by an iff; along every ascending chain of "
    "versions the end-to-end classification is fixed by the most significant position any step touched (major iff some "
    "step is major; maximum severity when every step touches major/minor/patch; witness that the guard is needed); "
    "semver_to_pep440 / pep440_to_semver / normalisation idempotent on every string; semver_to_pep440 never changes the "
    "version of any string packaging accepts (label error or same version); printers injective. Tag side "
    "(model M15b): strip_refs_prefix (str.replace), infer_tag_metadata, remove_tag_prefix, extract_semver, "
    "compute_suffix_and_version, previous_tag and the compute-tag-metadata command composed from them: for every "
    "package name and every strictly descending release history the command classifies each tag against its "
    "neighbour (never none; oldest -> major). Publish side: package.json version -> pyproject -> current_version, "
    "is_rc_version, docker_image_tags. Tie: path summaries of those functions and the command's data flow regenerated "
    "(C34_tag_source_shape); new correspondence ops strip/tagmeta/rmprefix/extract/suffix/prevtag/tagchange (the real "
    "click command body with git's tag listing replaced)/docker; monitors on histories, chains and the publish path."
)
LEVEL_TEXT = "proof (all versions, unbounded release length) + correspondence + implementation-side monitors"
ASSUMPTIONS = [
    "packaging.version.Version (parser, __str__, comparison key) is the installed 26.x library, outside /repo: modelled "
    "from its pattern and tied by correspondence only; its pattern, label normalisation and ranks are pinned by C34_source_shape",
    "strings using an epoch, post, dev or local segment are outside the property's quantifier: the model answers "
    "'outside' for them and the harness classifies the implementation the same way (exception or such a segment present)",
    "numbers stay below CPython's 4300-digit int/str conversion limit (beyond it int() raises ValueError)",
    "code points are Unicode scalar values (lone surrogates cannot be represented as Lean Char and are not generated)",
    "previous_version=None/'' -> 'major' and an unparsable current version in that case are modelled (correspondence) "
    "but not part of the property",
    "the tag list handed to previous_tag is what `git tag -l --sort=-version:refname` prints; the theorems about histories "
    "assume it is strictly descending in the PEP 440 order (git's own version sort is outside /repo and not modelled); the "
    "correspondence also feeds unsorted lists, duplicates and foreign tags",
    "the compute-tag-metadata command is run through its click callback with git_utils.list_tags and gha.write_outputs "
    "replaced; argument parsing by click and the file output are not exercised",
]
TRUSTED_EXTRA = [
    "harness/gen/version.py (rule summaries of the four functions; packaging/re introspection of the running interpreter)",
    "packaging 26.x and CPython re as the semantics of Version(...) and of \\d, \\s, $",
]
LEAN_TARGETS = ["WfProps.C34"]

LABELS = ["a", "b", "rc"]
RANK = {"a": 0, "b": 1, "rc": 2}
ALT_SPELLINGS = {"a": ["a", "alpha", "A", "Alpha", "ALPHA"], "b": ["b", "beta", "B", "BETA", "bEta"],
                 "rc": ["rc", "c", "pre", "preview", "RC", "C", "Pre", "PREVIEW", "Rc"]}
SPACES = [" ", "\t", "\n", "\r", "\x0b", "\x0c", "\x1c", "\x1f", "\x85", "\xa0", "\u1680", "\u2003", "\u2009", "\u2028", "\u202f", "\u205f", "\u3000"]
SEPS = ["", "", ".", "-", "_"]


# --------------------------------------------------------------------------
# implementation access


def load_impl() -> dict[str, Any]:
    from packaging.version import InvalidVersion, Version

    from dev_cli import changesets, versioning  # /repo/src on sys.path via harness.boot

    return {"s2p": changesets.semver_to_pep440, "p2s": changesets.pep440_to_semver, "isrc": changesets.is_rc_version,
            "detect": versioning.detect_change_type, "Version": Version, "Invalid": InvalidVersion,
            "T": TG.load_impl_tags()}


def cps(s: str) -> str:
    return ",".join(str(ord(c)) for c in s)


def in_domain(I: dict, s: str) -> bool:
    """`s` is a PEP 440 version written with `v? release pre?` only."""
    try:
        v = I["Version"](s)
    except I["Invalid"]:
        return False
    return "!" not in s and v.post is None and v.dev is None and v.local is None


def impl_answer(I: dict, op: list) -> str:
    """The real code's answer to one op, in the driver's output format."""
    kind = op[0]
    if "T" in I:
        r_ext = TG.impl_answer_tags(I["T"], lambda x: in_domain(I, x), op)
        if r_ext is not None:
            return r_ext
    try:
        if kind == "p2s":
            s = op[1]
            try:
                r = I["p2s"](s)
            except I["Invalid"]:
                return "outside"
            return "ok " + cps(r) if in_domain(I, s) else "outside"
        if kind == "s2p":
            try:
                return "ok " + cps(I["s2p"](op[1]))
            except ValueError as e:
                return "label-error" if "Unsupported pre-release label" in str(e) else f"raises ValueError {e}"
        if kind == "norm":
            return "ok " + cps(str(I["Version"](op[1]))) if in_domain(I, op[1]) else "outside"
        if kind == "parse":
            if not in_domain(I, op[1]):
                return "outside"
            v = I["Version"](op[1])
            return "rel=" + ",".join(map(str, v.release)) + ";pre=" + ("-" if v.pre is None else f"{v.pre[0]}:{v.pre[1]}")
        if kind == "isrc":
            r = I["isrc"](op[1])
            return "true" if r is True else "false" if r is False else f"non-bool {r!r}"
        if kind == "detect":
            cur, prev = op[1], op[2]
            try:
                r = I["detect"](cur, prev)
            except I["Invalid"]:
                return "outside"
            if prev and not (in_domain(I, cur) and in_domain(I, prev)):
                return "outside"
            return str(r)
        if kind in ("le", "cmp"):
            a, b = op[1], op[2]
            if not (in_domain(I, a) and in_domain(I, b)):
                return "outside"
            va, vb = I["Version"](a), I["Version"](b)
            if kind == "le":
                return "true" if va <= vb else "false"
            return "lt" if va < vb else "eq" if va == vb else "gt"
        if kind == "str":
            return cps(str(op[1]))
        if kind == "cls":
            lo, hi = op[1], op[2]
            pts = [c for c in range(lo, hi) if not 0xD800 <= c < 0xE000]
            sp = [c for c in pts if re.fullmatch(r"\s", chr(c))]
            de = [c for c in pts if re.fullmatch(r"\d", chr(c))]
            return "s:" + ",".join(map(str, sp)) + ";d:" + ",".join(map(str, de))
        if kind == "malformed":
            return "bad-op"
    except Exception as e:  # any other exception is behaviour the model does not have
        return f"raises {type(e).__name__}: {str(e)[:80]}"
    return "bad-op"


def op_line(op: list) -> str:
    kind = op[0]
    ext = TG.op_line_tags(op)
    if ext is not None:
        return ext
    if kind in ("p2s", "s2p", "norm", "parse", "isrc"):
        return f"{kind}|{cps(op[1])}"
    if kind == "detect":
        return f"detect|{cps(op[1])}|{'~' if op[2] is None else cps(op[2])}"
    if kind in ("le", "cmp"):
        return f"{kind}|{cps(op[1])}|{cps(op[2])}"
    if kind == "str":
        return f"str|{op[1]}"
    if kind == "cls":
        return f"cls|{op[1]}|{op[2]}"
    return op[1]  # malformed: literal line


# --------------------------------------------------------------------------
# generators (all randomness from env.rng)


def gen_num(rng, small: bool = False) -> int:
    r = rng.random()
    if r < 0.30:
        return 0
    if r < 0.70 or small:
        return rng.choice([1, 1, 2, 3, 4, 5, 7, 9])
    if r < 0.85:
        return rng.choice([10, 11, 12, 19, 20, 30, 99, 100, 101, 999, 1000])
    if r < 0.97:
        return rng.randrange(10 ** rng.randint(1, 9))
    return rng.randrange(10 ** rng.randint(10, 40))


def gen_ver(rng) -> dict:
    r = rng.random()
    n = 1 if r < 0.10 else 2 if r < 0.25 else 3 if r < 0.60 else 4 if r < 0.80 else rng.randint(5, 8)
    rel = [gen_num(rng) for _ in range(n)]
    if rng.random() < 0.2:  # trailing zeros matter to the comparison key
        k = rng.randint(1, n)
        rel[n - k:] = [0] * k
    pre = None
    if rng.random() < 0.6:
        pre = [rng.choice(LABELS), rng.choice([0, 0, 1, 1, 2, 3, 9, 10, 11, gen_num(rng)])]
    return {"rel": rel, "pre": pre}


def canon_pep(v: dict) -> str:
    return ".".join(map(str, v["rel"])) + ("" if v["pre"] is None else f"{v['pre'][0]}{v['pre'][1]}")


def canon_semver(v: dict) -> str:
    return ".".join(map(str, v["rel"])) + ("" if v["pre"] is None else f"-{v['pre'][0]}.{v['pre'][1]}")


def zeros(rng, n: int) -> str:
    return ("0" * rng.choice([0, 0, 1, 2])) + str(n)


def spell_pep(rng, v: dict) -> tuple[str, str]:
    """One of the spellings packaging accepts for `v`; returns (string, style)."""
    m = rng.random()
    if m < 0.35:
        return canon_pep(v), "canonical"
    if m < 0.45:
        return canon_semver(v), "semver-form"
    lz = rng.random() < 0.4
    parts = [zeros(rng, x) if lz else str(x) for x in v["rel"]]
    s = ".".join(parts)
    if v["pre"] is not None:
        lab, n = v["pre"]
        word = rng.choice(ALT_SPELLINGS[lab])
        num = zeros(rng, n) if lz else str(n)
        if n == 0 and rng.random() < 0.4:
            num = ""
        s += rng.choice(SEPS) + word + rng.choice(SEPS) + num
    if rng.random() < 0.3:
        s = rng.choice("vV") + s
    if rng.random() < 0.3:
        s = "".join(rng.choice(SPACES) for _ in range(rng.randint(0, 2))) + s + "".join(rng.choice(SPACES) for _ in range(rng.randint(0, 2)))
    return s, "respelled"


def spell_semver(rng, v: dict) -> tuple[str, str]:
    m = rng.random()
    if m < 0.6:
        return canon_semver(v), "canonical"
    s = ".".join(zeros(rng, x) for x in v["rel"])
    if v["pre"] is not None:
        s += f"-{v['pre'][0]}.{zeros(rng, v['pre'][1])}"
    if m > 0.9:
        s += "\n"
    return s, "leading-zeros" if m <= 0.9 else "trailing-newline"


def mutate_ver(rng, v: dict) -> dict:
    """A version related to `v` (equal, padded, bumped or lowered in one place)."""
    rel = list(v["rel"])
    pre = None if v["pre"] is None else list(v["pre"])
    m = rng.random()
    if m < 0.12:
        pass
    elif m < 0.24:
        if rel[-1] == 0 and len(rel) > 1 and rng.random() < 0.5:
            rel = rel[:-1]
        else:
            rel = rel + [0] * rng.randint(1, 2)
    elif m < 0.50:
        i = rng.randrange(len(rel))
        rel[i] += rng.choice([1, 1, 2, 10])
        if rng.random() < 0.5:
            rel[i + 1:] = [0] * (len(rel) - i - 1)
    elif m < 0.66:
        i = rng.randrange(len(rel))
        rel[i] = max(0, rel[i] - rng.choice([1, 1, 2]))
        if rng.random() < 0.5:  # a lower component followed by higher ones
            rel[i + 1:] = [x + 1 for x in rel[i + 1:]]
    elif m < 0.74:
        rel = rel + [rng.choice([1, 2, 5])]
    elif m < 0.90:
        if pre is None:
            pre = [rng.choice(LABELS), rng.choice([0, 1, 2])]
        elif rng.random() < 0.3:
            pre = None
        elif rng.random() < 0.5:
            pre = [rng.choice(LABELS), pre[1]]
        else:
            pre = [pre[0], max(0, pre[1] + rng.choice([-1, 1, 1]))]
    else:
        return gen_ver(rng)
    return {"rel": rel, "pre": pre}


TOKENS = ["0", "1", "2", "10", "01", "007", ".", ".", "-", "_", "a", "b", "c", "rc", "alpha", "beta", "pre", "preview",
          "post", "dev", "rev", "r", "+", "!", "v", "V", " ", "\n", "\t", "\u2003", "x", "RC", "A", "l", "e", "alph",
          "\u0661", "\u0663", "\uff11", "\u0131", "\u017f", "\u212a", "\u0130", "-rc.", "-a.", "rc1", "a1", "b2", ".1", "-1"]


def gen_garbage(rng) -> str:
    m = rng.random()
    if m < 0.6:
        return "".join(rng.choice(TOKENS) for _ in range(rng.randint(0, 7)))
    # near miss: a valid spelling with one edit
    v = gen_ver(rng)
    s = rng.choice([canon_pep(v), canon_semver(v), spell_pep(rng, v)[0]])
    pos = rng.randint(0, len(s))
    e = rng.random()
    tok = rng.choice(TOKENS)
    if e < 0.4:
        return s[:pos] + tok + s[pos:]
    if e < 0.7 and s:
        pos = min(pos, len(s) - 1)
        return s[:pos] + s[pos + 1:]
    if s:
        pos = min(pos, len(s) - 1)
        return s[:pos] + tok + s[pos + 1:]
    return tok


def cmp_spec(a: dict, b: dict) -> int:
    """PEP 440 order on (release, pre), written out independently of packaging and of the model."""
    n = max(len(a["rel"]), len(b["rel"]))
    ra = tuple(a["rel"]) + (0,) * (n - len(a["rel"]))
    rb = tuple(b["rel"]) + (0,) * (n - len(b["rel"]))
    if ra != rb:
        return -1 if ra < rb else 1
    ka = (3, 0) if a["pre"] is None else (RANK[a["pre"][0]], a["pre"][1])
    kb = (3, 0) if b["pre"] is None else (RANK[b["pre"][0]], b["pre"][1])
    return -1 if ka < kb else 1 if ka > kb else 0


# --------------------------------------------------------------------------
# monitors: the property stated on the real functions' return values


def facts(v: dict) -> str:
    return ("len3" if len(v["rel"]) == 3 else "len!=3") + "," + ("pre" if v["pre"] is not None else "final")


def monitor_pep(I: dict, case: dict) -> Violation | None:
    v, s = case["ver"], case["s"]
    want = canon_pep(v)
    try:
        norm = str(I["Version"](s))
    except Exception as e:
        raise RuntimeError(f"harness spelling {s!r} of {v} is not accepted by packaging: {e!r}")
    if norm != want:
        raise RuntimeError(f"harness normal form {want!r} of {s!r} differs from packaging's {norm!r}")
    try:
        semver = I["p2s"](s)
        back = I["s2p"](semver)
    except Exception as e:
        return Violation(f"C34/roundtrip_pep440_raises[{facts(v)}]",
                         f"pep440 -> semver -> pep440 of {s!r} raised {type(e).__name__}: {e}", case)
    if back != want:
        return Violation(f"C34/roundtrip_pep440[{facts(v)}]",
                         f"pep440_to_semver({s!r}) = {semver!r}; semver_to_pep440 of that = {back!r}, not the normalized original {want!r}", case)
    return None


def monitor_s2p_preserves(I: dict, case: dict) -> tuple[Violation | None, str]:
    """semver_to_pep440 on ANY accepted spelling: label error, or a string denoting the same version."""
    s = case["s"]
    try:
        before = I["Version"](s)
    except Exception:
        return None, "not-a-version"
    try:
        t = I["s2p"](s)
    except ValueError as e:
        if "Unsupported pre-release label" in str(e):
            return None, "label-error"
        return Violation("C34/s2p_raises", f"semver_to_pep440({s!r}) raised ValueError: {e}", case), "raises"
    except Exception as e:
        return Violation("C34/s2p_raises", f"semver_to_pep440({s!r}) raised {type(e).__name__}: {e}", case), "raises"
    try:
        after = I["Version"](t)
    except Exception as e:
        return Violation(f"C34/s2p_result_not_a_version[{case.get('style', '?')}]",
                         f"semver_to_pep440({s!r}) = {t!r}, which packaging rejects ({type(e).__name__})", case), "rejected"
    if (after.release, after.pre) != (before.release, before.pre) or str(after) != str(before):
        return Violation(f"C34/s2p_changes_version[{case.get('style', '?')}]",
                         f"semver_to_pep440({s!r}) = {t!r}: denotes {after}, the input denotes {before}", case), "changed"
    return None, "converted" if t != s else "unchanged"


def monitor_semver(I: dict, case: dict) -> Violation | None:
    v, s = case["ver"], case["s"]
    want = canon_semver(v)
    try:
        pep = I["s2p"](s)
        back = I["p2s"](pep)
    except Exception as e:
        return Violation(f"C34/roundtrip_semver_raises[{facts(v)}]",
                         f"semver -> pep440 -> semver of {s!r} raised {type(e).__name__}: {e}", case)
    if back != want:
        return Violation(f"C34/roundtrip_semver[{facts(v)}]",
                         f"semver_to_pep440({s!r}) = {pep!r}; pep440_to_semver of that = {back!r}, not the normalized original {want!r}", case)
    return None


NAMES = ["major", "minor", "patch"]


def monitor_pair(I: dict, case: dict) -> Violation | None:
    c, p = case["c"], case["p"]
    rel = cmp_spec(c["ver"], p["ver"])
    try:
        r = I["detect"](c["s"], p["s"])
    except Exception as e:
        return Violation("C34/detect_raises", f"detect_change_type({c['s']!r}, {p['s']!r}) raised {type(e).__name__}: {e}", case)
    order = {1: "greater", 0: "equal", -1: "less"}[rel]
    if r not in ("none", "major", "minor", "patch"):
        return Violation("C34/detect_result_domain", f"detect_change_type({c['s']!r}, {p['s']!r}) = {r!r}", case)
    if (r == "none") != (rel <= 0):
        return Violation(f"C34/none_iff_not_greater[new is {order},got={r}]",
                         f"detect_change_type({c['s']!r}, {p['s']!r}) = {r!r} although the new version is {order}", case)
    if rel > 0:
        pc = (list(c["ver"]["rel"]) + [0, 0, 0])[:3]
        pp = (list(p["ver"]["rel"]) + [0, 0, 0])[:3]
        for i in range(3):
            if pc[i] != pp[i]:
                if pc[i] < pp[i]:
                    raise RuntimeError("harness comparator: a greater version has a lower leading component")
                if r != NAMES[i]:
                    return Violation(f"C34/names_grown_component[grown={NAMES[i]},got={r}]",
                                     f"detect_change_type({c['s']!r}, {p['s']!r}) = {r!r}; the most significant component that grew is {NAMES[i]}", case)
                break
    return None


# --------------------------------------------------------------------------


def monitor_chain_case(I: dict, case: dict) -> Violation | None:
    return TG.monitor_chain(I["detect"], case, cmp_spec)


def make_pep_case(rng, v: dict | None = None) -> dict:
    v = v or gen_ver(rng)
    s, style = spell_pep(rng, v)
    return {"kind": "pep", "ver": v, "s": s, "style": style}


def make_semver_case(rng, v: dict | None = None) -> dict:
    v = v or gen_ver(rng)
    s, style = spell_semver(rng, v)
    return {"kind": "semver", "ver": v, "s": s, "style": style}


def make_pair_case(rng) -> dict:
    a = gen_ver(rng)
    b = mutate_ver(rng, a)
    if rng.random() < 0.5:
        a, b = b, a
    sa, _ = spell_pep(rng, a)
    sb, _ = spell_pep(rng, b)
    return {"kind": "pair", "c": {"ver": a, "s": sa}, "p": {"ver": b, "s": sb}}


def V(rel: list[int], pre: list | None = None) -> dict:
    return {"rel": rel, "pre": pre}


def corpus() -> list[dict]:
    cs: list[dict] = []
    for v in [V([1, 2, 3, 4], ["rc", 1]), V([1, 2], ["rc", 1]), V([1], ["a", 0]), V([1, 2, 3], ["rc", 1]), V([0, 0, 0]),
              V([10, 20, 30], ["a", 99]), V([1, 2, 3, 4, 5, 6, 7], ["b", 12]), V([2026, 9], None), V([0], ["b", 0])]:
        cs.append({"kind": "pep", "ver": v, "s": canon_pep(v), "style": "canonical"})
        cs.append({"kind": "semver", "ver": v, "s": canon_semver(v), "style": "canonical"})
    cs.append({"kind": "pep", "ver": V([1, 2, 3]), "s": "01.2.3", "style": "respelled"})
    cs.append({"kind": "pep", "ver": V([1, 2, 3], ["rc", 1]), "s": " V1.2.3-RC.01\n", "style": "respelled"})
    cs.append({"kind": "pep", "ver": V([1, 0], ["rc", 0]), "s": "1.0c_", "style": "respelled"})
    cs.append({"kind": "pep", "ver": V([1, 0], ["a", 3]), "s": "1.0.alpha.3", "style": "respelled"})
    cs.append({"kind": "semver", "ver": V([1, 2, 3], ["rc", 1]), "s": "1.2.3-rc.01", "style": "leading-zeros"})
    cs.append({"kind": "semver", "ver": V([1, 2, 3], ["rc", 1]), "s": "1.2.3-rc.1\n", "style": "trailing-newline"})

    def pair(a: dict, sa: str, b: dict, sb: str) -> dict:
        return {"kind": "pair", "c": {"ver": a, "s": sa}, "p": {"ver": b, "s": sb}}

    cs += [
        pair(V([1, 2, 3]), "1.2.3", V([1, 2, 3]), "1.2.3"),
        pair(V([1, 0]), "1.0", V([1, 0, 0]), "1.0.0"),
        pair(V([1, 0, 0]), "1.0.0", V([1]), "1"),
        pair(V([1, 2, 3]), "1.2.3", V([1, 2, 3], ["rc", 1]), "1.2.3rc1"),
        pair(V([1, 2, 3], ["rc", 1]), "1.2.3-rc.1", V([1, 2, 3]), "1.2.3"),
        pair(V([1, 2, 3], ["rc", 2]), "1.2.3rc2", V([1, 2, 3], ["rc", 1]), "1.2.3rc1"),
        pair(V([1, 2, 3], ["b", 9]), "1.2.3b9", V([1, 2, 3], ["rc", 1]), "1.2.3rc1"),
        pair(V([1, 2, 3, 5]), "1.2.3.5", V([1, 2, 3, 4]), "1.2.3.4"),
        pair(V([2, 0]), "2.0", V([1, 9, 9]), "1.9.9"),
        pair(V([2, 1, 0]), "2.1.0", V([1, 0, 0]), "1.0.0"),
        pair(V([1, 3, 0], ["a", 1]), "1.3.0a1", V([1, 2, 9]), "1.2.9"),
        pair(V([1, 2, 4]), "1.2.4", V([1, 2, 3]), "1.2.3"),
        pair(V([1, 2, 3]), "1.2.3", V([1, 2]), "1.2"),
        pair(V([1, 2, 3]), "1.2.3", V([1, 3]), "1.3"),
        pair(V([1, 2, 3, 0, 1]), "1.2.3.0.1", V([1, 2, 3]), "1.2.3"),
        pair(V([3]), "3", V([2, 9, 9]), "2.9.9"),
        pair(V([1, 10, 0]), "1.10.0", V([1, 9, 0]), "1.9.0"),
        pair(V([1], ["rc", 2]), "1rc2", V([1], ["rc", 1]), "1rc1"),
        pair(V([1]), "1", V([1], ["rc", 1]), "1rc1"),
        pair(V([1, 1]), "1.1", V([1]), "1"),
        pair(V([1, 0, 0, 1]), "1.0.0.1", V([1]), "1"),
        pair(V([1, 2], ["a", 1]), "1.2a1", V([1, 2, 0], ["a", 0]), "1.2.0-a.0"),
    ]
    return cs


def case_ops(case: dict) -> list[list]:
    k = case["kind"]
    if k == "pep":
        v, s = case["ver"], case["s"]
        return [["p2s", s], ["norm", s], ["parse", s], ["s2p", canon_semver(v)], ["s2p", s], ["isrc", s], ["isrc", canon_pep(v)]]
    if k == "semver":
        v, s = case["ver"], case["s"]
        return [["s2p", s], ["p2s", s], ["p2s", canon_pep(v)], ["isrc", s]]
    if k == "pair":
        c, p = case["c"]["s"], case["p"]["s"]
        return [["detect", c, p], ["le", c, p], ["cmp", c, p]]
    if k == "raw":
        return [case["op"]]
    if k in ("tag", "hist", "chain", "publish"):
        return TG.case_ops_tags(case, canon_semver, canon_pep)
    return []


MALFORMED_EXT = ["strip", "strip|x", "tagmeta|1,,2", "rmprefix|49", "extract|49|x", "suffix|49", "prevtag|49", "prevtag|49|x;50",
                 "tagchange|49", "tagchange|49|1,,2", "docker|49|2", "docker|49", "docker|x|1"]
MALFORMED = ["", "p2s", "p2s|x", "p2s|1,,2", "s2p|49|50", "detect|49", "detect|49|x", "bogus|49", "str|-1", "str|x",
             "cls|5|1", "cls|0|9999999", "le|49", "norm", "parse|1 2"]


def run(env: Env) -> Outcome:
    out = Outcome()
    out.rule = ("structured versions (release length 1..8, zeros, large numbers, optional a/b/rc number) in canonical, "
                "semver-form and respelled PEP 440 strings; semver strings canonical / leading zeros / trailing newline; "
                "related version pairs (equal, zero-padded, one component raised or lowered, pre-release changed); "
                "near-miss and token-soup strings; non-trivial = a structured case whose conversion or classification "
                "was evaluated; distinct by the strings involved")
    I = load_impl()
    rng = env.rng
    cases: list[dict] = []
    if env.replay is not None:
        rc = env.replay["payload"].get("case")
        if isinstance(rc, dict) and rc.get("kind") in ("pep", "semver", "pair", "raw", "tag", "hist", "chain", "publish"):
            cases.append(rc)
    cases += corpus()
    n = env.budget(2500, 600000)
    for _ in range(n):
        m = rng.random()
        if m < 0.30:
            cases.append(make_pep_case(rng))
        elif m < 0.50:
            cases.append(make_semver_case(rng))
        elif m < 0.80:
            cases.append(make_pair_case(rng))
        else:
            g = gen_garbage(rng)
            kind = rng.choice(["p2s", "s2p", "norm", "parse", "isrc", "detect", "detect", "le", "cmp"])
            if kind == "detect":
                other = rng.choice([None, "", "1.2.3", gen_garbage(rng), canon_pep(gen_ver(rng))])
                op = ["detect", g, other] if rng.random() < 0.6 or other is None else ["detect", other, g]
            elif kind in ("le", "cmp"):
                op = [kind, g, canon_pep(gen_ver(rng))] if rng.random() < 0.5 else [kind, canon_semver(gen_ver(rng)), g]
            else:
                op = [kind, g]
            cases.append({"kind": "raw", "op": op})
    # extension: tag side, histories, chains, publish side (own budget; the stream above is unchanged)
    cases += TG.tag_corpus(V)
    for _ in range(env.budget(1100, 80000)):
        m = rng.random()
        if m < 0.35:
            cases.append(TG.make_tag_case(rng, gen_ver, canon_semver, canon_pep, gen_garbage))
        elif m < 0.60:
            cases.append(TG.make_hist_case(rng, canon_semver, canon_pep))
        elif m < 0.85:
            cases.append(TG.make_chain_case(rng, spell_pep))
        else:
            cases.append(TG.make_publish_case(rng, gen_ver, spell_semver))
    heavy_left = env.budget(60, 3000)

    ops: list[list] = []
    owner: list[int] = []
    for ci, case in enumerate(cases):
        k = case["kind"]
        out.count("case:" + k)
        v: Violation | None = None
        if k == "pep":
            out.count("pep-spelling:" + case.get("style", "?"))
            out.count("release-length:" + str(min(len(case["ver"]["rel"]), 6)) + ("+" if len(case["ver"]["rel"]) > 6 else ""))
            out.count("pre:" + (case["ver"]["pre"][0] if case["ver"]["pre"] else "none"))
            v = monitor_pep(I, case)
            v2, how = monitor_s2p_preserves(I, case)
            out.count("s2p-on-pep-spelling:" + how)
            v = v or v2
            out.nontrivial(("pep", case["s"]))
            out.sample({"pep440": case["s"], "semver": I["p2s"](case["s"]), "normalized": canon_pep(case["ver"])})
        elif k == "semver":
            out.count("semver-spelling:" + case.get("style", "?"))
            out.count("release-length:" + str(min(len(case["ver"]["rel"]), 6)) + ("+" if len(case["ver"]["rel"]) > 6 else ""))
            v = monitor_semver(I, case)
            v2, how = monitor_s2p_preserves(I, case)
            out.count("s2p-on-semver-spelling:" + how)
            v = v or v2
            out.nontrivial(("semver", case["s"]))
        elif k == "pair":
            rel = cmp_spec(case["c"]["ver"], case["p"]["ver"])
            out.count("pair:" + {1: "greater", 0: "equal", -1: "less"}[rel])
            v = monitor_pair(I, case)
            out.nontrivial(("pair", case["c"]["s"], case["p"]["s"]))
            if rel > 0 and len(out.samples) < 6:
                try:
                    out.sample({"new": case["c"]["s"], "previous": case["p"]["s"], "change": I["detect"](case["c"]["s"], case["p"]["s"])})
                except Exception:
                    pass
        elif k == "tag":
            out.count("tag:refs-prefix:" + ("yes" if case["tag"].startswith(TG.REFS) else "no"))
            out.count("tag:listed:" + ("yes" if (case["tag"][len(TG.REFS):] if case["tag"].startswith(TG.REFS) else case["tag"]) in case["tags"] else "no"))
            out.count("tag:list-length:" + str(min(len(case["tags"]), 4)) + ("+" if len(case["tags"]) > 4 else ""))
            out.nontrivial(("tag", case["tag"], case["prefix"], tuple(case["tags"])))
        elif k == "hist":
            out.count("hist:length:" + str(min(len(case["vers"]), 5)) + ("+" if len(case["vers"]) > 5 else ""))
            out.count("hist:position:" + ("oldest" if case["idx"] == len(case["vers"]) - 1 else "has-older"))
            out.count("hist:form:" + case["form"] + (",refs" if case["refs"] else ""))
            v = TG.monitor_hist(I["T"], case, cmp_spec, canon_semver, canon_pep)
            out.nontrivial(("hist", case["pkg"], case["form"], case["refs"], case["idx"], repr(case["vers"])))
        elif k == "chain":
            out.count("chain:steps:" + str(min(len(case["vers"]) - 1, 5)) + ("+" if len(case["vers"]) - 1 > 5 else ""))
            for h in case.get("hows", []):
                out.count("chain:step:" + h)
            v = monitor_chain_case(I, case)
            out.nontrivial(("chain", tuple(x["s"] for x in case["vers"])))
        elif k == "publish":
            out.count("publish:" + ("pre" if case["ver"]["pre"] else "final") + ",len" + str(min(len(case["ver"]["rel"]), 4)))
            heavy = heavy_left > 0
            heavy_left -= 1 if heavy else 0
            out.count("publish:pyproject-on-disk:" + ("yes" if heavy else "no"))
            v = TG.monitor_publish(I["T"], case, canon_pep, canon_semver, heavy)
            out.nontrivial(("publish", case["s"]))
        out.evaluations += 1
        if v is not None:
            out.violations.append(v)
        for op in case_ops(case):
            ops.append(op)
            owner.append(ci)
    # numbers, character classes, malformed protocol lines
    for _ in range(env.budget(200, 3000)):
        ops.append(["str", gen_num(rng)])
        owner.append(-1)
    chunks = [(0, 0x3100)] + [(lo, lo + 0x400) for lo in (rng.randrange(0, 0x110000 - 0x400) for _ in range(env.budget(8, 0)))]
    if env.tier != "quick":
        chunks = [(lo, min(lo + 0x2000, 0x110000)) for lo in range(0, 0x110000, 0x2000)]
    for lo, hi in chunks:
        ops.append(["cls", lo, hi])
        owner.append(-1)
    for line in MALFORMED + MALFORMED_EXT:
        ops.append(["malformed", line])
        owner.append(-1)
    TG.cleanup(I["T"])

    lines = [op_line(op) for op in ops]
    impl_out = []
    for op in ops:
        a = impl_answer(I, op)
        impl_out.append(a)
        out.count("op:" + op[0])
        if op[0] in ("p2s", "norm", "parse", "detect", "le", "cmp"):
            out.count(f"answer:{op[0]}:" + ("outside" if a == "outside" else "in-domain"))
        elif op[0] in ("tagmeta", "rmprefix", "extract", "suffix"):
            out.count(f"answer:{op[0]}:" + ("value-error" if a == "value-error" else "ok"))
        elif op[0] == "prevtag":
            out.count("answer:prevtag:" + ("none" if a == "none" else "some"))
        elif op[0] == "tagchange":
            out.count("answer:tagchange:" + (a if a in ("outside", "error") else a.split("|")[2] if a.startswith("ok ") else "other"))
        elif op[0] == "s2p":
            out.count("answer:s2p:" + ("label-error" if a == "label-error" else "converted" if a != "ok " + cps(op[1]) else "unchanged"))
    try:
        model_out = Driver("version").run(lines)
    except Exception as e:  # model unavailable: correspondence cannot be established
        out.divergences.append(Divergence("version", 0, "<driver>", repr(e), ""))
        return out
    out.traces_validated = len(lines)
    out.disagreements_checked = len(lines)
    d = diff_streams("version", lines, model_out, impl_out)
    if d is not None:
        if d.index < len(owner) and owner[d.index] >= 0:
            d.context = cases[owner[d.index]]
        else:
            d.context = {"op": ops[d.index] if d.index < len(ops) else None}
        out.divergences.append(d)
    return out
