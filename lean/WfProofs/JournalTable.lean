import WfModel.Journal
/-! C27, part A: the table and `TaskJournal` — what was recorded is what is loaded, in order. -/
namespace Journal

variable {κ : Type}

def runRows (db : Db κ) (run : String) : List (Row κ) := db.rows.filter (·.run == run)

/-- the rows of `run`, in insertion order, carry the sequence numbers 0, 1, 2, … -/
def WF (db : Db κ) (run : String) : Prop :=
  (runRows db run).map (·.seq) = List.range (runRows db run).length

theorem insertBySeq_last (r : Row κ) (acc : List (Row κ)) (h : ∀ x, x ∈ acc → x.seq ≤ r.seq) :
    insertBySeq r acc = acc ++ [r] := by
  induction acc with
  | nil => rfl
  | cons x xs ih =>
    have hx : ¬ r.seq < x.seq := by have := h x (by simp); omega
    simp only [insertBySeq, hx, if_false, List.cons_append]
    rw [ih (fun y hy => h y (by simp [hy]))]

theorem foldl_insert_sorted (rs : List (Row κ)) :
    ∀ acc : List (Row κ), (∀ x y, x ∈ acc → y ∈ rs → x.seq ≤ y.seq) →
      List.Pairwise (fun a b => a.seq ≤ b.seq) rs →
      rs.foldl (fun a r => insertBySeq r a) acc = acc ++ rs := by
  induction rs with
  | nil => intro acc _ _; simp
  | cons r rest ih =>
    intro acc hacc hp
    simp only [List.foldl_cons]
    rw [insertBySeq_last r acc (fun x hx => hacc x r hx (by simp))]
    rw [List.pairwise_cons] at hp
    rw [ih (acc ++ [r]) ?_ hp.2]
    · simp
    · intro x y hx hy
      rcases List.mem_append.mp hx with h | h
      · exact hacc x y h (by simp [hy])
      · simp at h; subst h; exact hp.1 y hy

theorem sortBySeq_of_sorted (rs : List (Row κ)) (hp : List.Pairwise (fun a b => a.seq ≤ b.seq) rs) :
    sortBySeq rs = rs := by
  unfold sortBySeq
  rw [foldl_insert_sorted rs [] (by intro x y h; cases h) hp]; simp

theorem pairwise_of_range (rs : List (Row κ)) (h : rs.map (·.seq) = List.range rs.length) :
    List.Pairwise (fun a b => a.seq ≤ b.seq) rs := by
  have hp : List.Pairwise (· < ·) (rs.map (·.seq)) := by rw [h]; exact List.pairwise_lt_range
  rw [List.pairwise_map] at hp
  exact hp.imp (fun h => Nat.le_of_lt h)

theorem load_of_WF (db : Db κ) (run : String) (h : WF db run) :
    db.load run = (runRows db run).map (·.key) := by
  unfold Db.load
  rw [show db.rows.filter (·.run == run) = runRows db run from rfl,
      sortBySeq_of_sorted _ (pairwise_of_range _ h)]

theorem load_length_of_WF (db : Db κ) (run : String) (h : WF db run) :
    (db.load run).length = (runRows db run).length := by
  rw [load_of_WF db run h]; simp

theorem runRows_insert (db : Db κ) (run : String) (seq : Nat) (key : κ) :
    runRows (db.insert run seq key) run = runRows db run ++ [⟨db.nextId, run, seq, key⟩] := by
  simp [runRows, Db.insert, List.filter_append]

theorem WF_insert (db : Db κ) (run : String) (key : κ) (h : WF db run) :
    WF (db.insert run (runRows db run).length key) run := by
  unfold WF at *
  rw [runRows_insert]
  simp only [List.map_append, List.map_cons, List.map_nil, List.length_append, List.length_cons,
    List.length_nil, h]
  exact List.range_succ.symm

/-- the in-memory journal mirrors the table -/
def Sync (j : TJ κ) (db : Db κ) (run : String) : Prop := j.entries = some (db.load run)

theorem sync_load (db : Db κ) (run : String) : Sync (TJ.load {} db run) db run := by
  simp [Sync, TJ.load]

/-- `record` : the INSERT carries `seq_num = len(entries)`, and the next `load` returns the old entries
followed by the new key — the completion order is stored exactly. -/
theorem record_roundtrip (j : TJ κ) (db : Db κ) (run : String) (key : κ)
    (hw : WF db run) (hs : Sync j db run) :
    ((j.record db run key).2).load run = db.load run ++ [key] ∧
    WF (j.record db run key).2 run ∧ Sync (j.record db run key).1 (j.record db run key).2 run := by
  have hlen : (db.load run).length = (runRows db run).length := load_length_of_WF db run hw
  have hw' : WF (db.insert run (db.load run).length key) run := by rw [hlen]; exact WF_insert db run key hw
  have hl : (db.insert run (db.load run).length key).load run = db.load run ++ [key] := by
    rw [load_of_WF _ _ hw', runRows_insert, load_of_WF _ _ hw]; simp
  unfold Sync at hs
  simp only [TJ.record, hs, Option.getD_some]
  exact ⟨hl, hw', by simp [Sync, hl]⟩

end Journal
