import WfProofs.DeployId
/-!
# C32 — generated deployment ids are valid DNS-1035 labels

Property theorems only (helper lemmas live in `WfProofs/DeployId.lean`).
Quantification: every display name (any `List Char`, i.e. any Unicode string
after `str.lower()`), every `force_suffix`, every sequence of availability
answers from Kubernetes and every sequence of random draws.
-/
open DeployId

/-- The source still has the shape the model transcribes: the three `re.sub`
patterns, the `"d-"` prefix, the two alphabets, the label regex, the constants
and the suffix condition.  Regenerated from `/repo` on every run. -/
theorem C32_source_shape :
    Gen.C32.maxLength = 63 ∧ Gen.C32.randomness = 5 ∧ Gen.C32.minLength = 3 ∧
    Gen.C32.minLengthOp = "Lt" ∧
    Gen.C32.minCountExpr = "len(re.findall('[a-z0-9]', name.lower()))" ∧
    Gen.C32.numSubs = 3 ∧
    (Gen.C32.subPattern0, Gen.C32.subRepl0) = ("[^a-z0-9]", "-") ∧
    (Gen.C32.subPattern1, Gen.C32.subRepl1) = ("-+", "-") ∧
    (Gen.C32.subPattern2, Gen.C32.subRepl2) = ("^-|-$", "") ∧
    Gen.C32.digitPrefix = "d-" ∧ Gen.C32.hexAlphabet = "0123456789abcdef" ∧
    Gen.C32.altAlphabet = "abcdef" ∧
    Gen.C32.dnsRegex = "^[a-z]([a-z0-9-]{0,61}[a-z0-9])?$" := by decide

/-- Every id `find_deployment_id` returns is a DNS-1035 label of at most 63
characters (`isDns1035` includes the length bound). -/
theorem C32_valid_label (name : List Char) (force : Bool) (answers : List Bool) (ds : List Draw)
    (hds : ∀ d ∈ ds, wfDraw d = true) (r : List Char)
    (h : findId name force answers ds = some r) : isDns1035 r = true := by
  have hall := baseId_all name
  have hhead := baseId_head name
  unfold findId at h
  simp only at h
  split at h
  · match ds, h, hds with
    | d :: ds', h, hds =>
      simp only at h
      rcases findLoop_cases _ _ _ _ _ _ h with h1 | ⟨d', hd', h2⟩
      · rw [h1]; exact appendSuffix_valid _ d hall hhead (hds d (by simp))
      · rw [h2]; exact appendSuffix_valid _ d' hall hhead (hds d' (by simp [hd']))
  · rename_i hns
    rcases findLoop_cases _ _ _ _ _ _ h with h1 | ⟨d', hd', h2⟩
    · rw [h1]
      apply baseId_valid
      apply baseId_ne_nil
      simp only [needsSuffix, Bool.or_eq_true, decide_eq_true_eq, not_or, Nat.not_lt] at hns
      have : Gen.C32.minLength = 3 := rfl
      omega
    · rw [h2]; exact appendSuffix_valid _ d' hall hhead (hds d' hd')

theorem C32_length_le (name : List Char) (force : Bool) (answers : List Bool) (ds : List Draw)
    (hds : ∀ d ∈ ds, wfDraw d = true) (r : List Char)
    (h : findId name force answers ds = some r) : r.length ≤ 63 := by
  have := C32_valid_label name force answers ds hds r h
  cases r with
  | nil => simp
  | cons c rest => simp only [isDns1035, Bool.and_eq_true, decide_eq_true_eq] at this; exact this.2

/-- The id is either the un-suffixed base (only when the name has at least three
lowercase alphanumerics and no suffix is forced) or the base with a drawn suffix. -/
theorem C32_derived_or_suffixed (name : List Char) (force : Bool) (answers : List Bool)
    (ds : List Draw) (r : List Char) (h : findId name force answers ds = some r) :
    (r = baseId name ∧ 3 ≤ alnumCount name ∧ force = false) ∨
      (∃ d ∈ ds, r = appendSuffix (baseId name) d) := by
  unfold findId at h
  simp only at h
  split at h
  · match ds, h with
    | d :: ds', h =>
      simp only at h
      rcases findLoop_cases _ _ _ _ _ _ h with h1 | ⟨d', hd', h2⟩
      · exact Or.inr ⟨d, by simp, h1⟩
      · exact Or.inr ⟨d', by simp [hd'], h2⟩
  · rename_i hns
    simp only [needsSuffix, Bool.or_eq_true, decide_eq_true_eq, not_or, Nat.not_lt,
      Bool.not_eq_true] at hns
    rcases findLoop_cases _ _ _ _ _ _ h with h1 | ⟨d', hd', h2⟩
    · exact Or.inl ⟨h1, hns.1, hns.2⟩
    · exact Or.inr ⟨d', hd', h2⟩

/-- Fewer than three alphanumerics ⇒ the result always carries a random suffix. -/
theorem C32_short_name_suffixed (name : List Char) (force : Bool) (answers : List Bool)
    (ds : List Draw) (r : List Char) (hshort : alnumCount name < 3)
    (h : findId name force answers ds = some r) :
    ∃ d ∈ ds, r = appendSuffix (baseId name) d := by
  rcases C32_derived_or_suffixed name force answers ds r h with ⟨_, h3, _⟩ | h'
  · omega
  · exact h'

/-- The base id is made of the name's lowercase alphanumerics, in order:
its alphanumerics are a prefix (all of them unless truncated at 63) of the
name's, after the `d` that is prepended when the name starts with a digit. -/
theorem C32_base_from_name (name : List Char) :
    (baseId name).filter isAlnum <+: dPrefix name ++ name.filter isAlnum := by
  rw [← filter_addPrefix]
  exact (baseId_prefix name).filter _

/-- With a long enough name, no forced suffix and a free id, the base id is returned as is. -/
theorem C32_first_try (name : List Char) (rest : List Bool) (ds : List Draw)
    (h3 : 3 ≤ alnumCount name) :
    findId name false (true :: rest) ds = some (baseId name) := by
  have : needsSuffix name false = false := by
    simp only [needsSuffix, Bool.or_false, decide_eq_false_iff_not, Nat.not_lt]
    exact h3
  simp [findId, this, findLoop]

/-! Non-vacuity: concrete names exercising each branch. -/
example : findId "my service".toList false [true] [] = some "my-service".toList := by decide
example : findId "1".toList false [true] [⟨"0beef".toList, 'c'⟩] = some "d-1-0beef".toList := by decide
example : findId "".toList false [false, true] [⟨"0beef".toList, 'c'⟩, ⟨"12345".toList, 'f'⟩]
    = some "f2345".toList := by decide
example : wfDraw ⟨"0beef".toList, 'c'⟩ = true := by decide
example : isDns1035 "d-1-0beef".toList = true := by decide
