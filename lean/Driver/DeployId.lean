import WfModel.DeployId
import Driver.Util
open DeployId Drv

namespace Drv.DeployId

def parseDraw? (s : String) : Option Draw :=
  match s.splitOn ":" with
  | [hex, alt] => do
    let h ← parseChars? hex
    match ← parseChars? alt with
    | [a] => some { hex := h, alt := a }
    | _ => none
  | _ => none

def parseDraws? (s : String) : Option (List Draw) :=
  if s.isEmpty then some [] else (s.splitOn ";").mapM parseDraw?

/-- `<code points>@<n>`: the id is in use for lookups with index `< n` -/
def parseTaken1? (s : String) : Option (List Char × Nat) :=
  match s.splitOn "@" with
  | [id, n] => do
    let i ← parseChars? id
    let k ← parseNat? n
    some (i, k)
  | _ => none

def parseTaken? (s : String) : Option (List (List Char × Nat)) :=
  if s.isEmpty then some [] else (s.splitOn ";").mapM parseTaken1?

def availOf (taken : List (List Char × Nat)) (k : Nat) (c : List Char) : Bool :=
  !(taken.any fun (t : List Char × Nat) => t.1 == c && decide (k < t.2))

def showOpt : Option (List Char) → String
  | some r => "some " ++ showChars r
  | none => "none"

def step (_ : Unit) (line : String) : Unit × String :=
  match line.splitOn "|" with
  | ["find", force, name, answers, draws] =>
    match parseBool? force, parseChars? name, (answers.toList.mapM fun c => parseBool? c.toString), parseDraws? draws with
    | some f, some n, some a, some d =>
      match findId n f a d with
      | some r => ((), "some " ++ showChars r)
      | none => ((), "none")
    | _, _, _, _ => ((), "bad-op")
  | ["cands", force, name, draws] =>
    match parseBool? force, parseChars? name, parseDraws? draws with
    | some f, some n, some d =>
      let cs := (cands n f d).take loopCount
      ((), toString cs.length ++ " " ++ ";".intercalate (cs.map showChars))
    | _, _, _ => ((), "bad-op")
  | ["findo", force, name, taken, draws] =>
    match parseBool? force, parseChars? name, parseTaken? taken, parseDraws? draws with
    | some f, some n, some t, some d =>
      let (r, m) := findIdO (availOf t) n f d
      ((), showOpt r ++ " " ++ toString m)
    | _, _, _, _ => ((), "bad-op")
  | ["suffix", id, draw] =>
    match parseChars? id, parseDraw? draw with
    | some i, some d => ((), showChars (appendSuffix i d))
    | _, _ => ((), "bad-op")
  | ["derive", name, answers, draws] =>
    match parseChars? name, (answers.toList.mapM fun c => parseBool? c.toString), parseDraws? draws with
    | some n, some a, some d => ((), toString (isReserved n) ++ " " ++ showOpt (deriveId n a d))
    | _, _, _ => ((), "bad-op")
  | ["words", name] =>
    match parseChars? name with
    | some n => ((), showChars (hyphenJoin (words n)))
    | none => ((), "bad-op")
  | ["base", name] =>
    match parseChars? name with
    | some n => ((), showChars (baseId n))
    | none => ((), "bad-op")
  | ["dns", s] =>
    match parseChars? s with
    | some n => ((), toString (isDns1035 n))
    | none => ((), "bad-op")
  | _ => ((), "bad-op")

end Drv.DeployId
