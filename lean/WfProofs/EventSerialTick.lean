import WfModel.EventSerial
import WfProofs.EventSerialPaths
/-! Helper lemmas for M8: exception envelope, generic field tables, step results, ticks. -/
namespace EventSerial

/-! ### exceptions -/

/-- what a serialised exception comes back as -/
def normExc (xenv : XEnv) (e : ExcVal) : ExcVal :=
  match dget xenv e.cls.qual with
  | some c => if c.ctorOk then { cls := c, msg := c.pre ++ e.msg ++ c.post }
              else { cls := builtinException, msg := e.msg }
  | none => { cls := builtinException, msg := e.msg }

theorem decodeExc_encodeExc (xenv : XEnv) (e : ExcVal) :
    decodeExc xenv (encodeExc e) = .ok (normExc xenv e) := by
  simp only [encodeExc, decodeExc, normExc, dget, Gen.EventSerial.excTypeKey, Gen.EventSerial.excMessageKey]
  simp only [show ("exception_type" = "exception_message") = False by decide, if_false, if_true]
  split <;> rename_i h
  · split <;> simp_all
  · simp [h]

/-- the class is found under its name, can be built from one message, and prints that message -/
def excStable (xenv : XEnv) (e : ExcVal) : Bool :=
  dget xenv e.cls.qual == some e.cls && e.cls.ctorOk && e.cls.strFaithful

theorem normExc_stable (xenv : XEnv) (e : ExcVal) (h : excStable xenv e = true) : normExc xenv e = e := by
  simp only [excStable, ExcClass.strFaithful, Bool.and_eq_true, beq_iff_eq] at h
  obtain ⟨⟨h1, h2⟩, h3, h4⟩ := h
  obtain ⟨c, m⟩ := e
  simp only at h1 h2 h3 h4
  simp [normExc, h1, h2, h3, h4]

/-! ### generic field tables -/

def fitsG {α : Type} (fits : FKind → α → Bool) : List FSpec → List α → Bool
  | [], [] => true
  | f :: fs, v :: vs => fits f.kind v && fitsG fits fs vs
  | _, _ => false

theorem fieldsG_roundtrip {α : Type} (enc : FKind → α → Except Err Json) (dec : FKind → Json → Except Err α)
    (inj : SVal → α) (norm : α → α) (fits : FKind → α → Bool)
    (h : ∀ k v, fits k v = true → ∃ j, enc k v = .ok j ∧ dec k j = .ok (norm v)) :
    ∀ (fs : List FSpec) (vs : List α), fitsG fits fs vs = true →
      ∃ d, encodeFieldsG enc fs vs = .ok d ∧ keys d = fs.map (·.name) ∧
        ∀ d' : Dict, (∀ kv ∈ d, dget d' kv.1 = some kv.2) →
          decodeFieldsG dec inj fs d' = .ok (vs.map norm)
  | [], [], _ => ⟨[], rfl, rfl, fun _ _ => rfl⟩
  | [], _ :: _, hf => by simp [fitsG] at hf
  | _ :: _, [], hf => by simp [fitsG] at hf
  | f :: fs, v :: vs, hf => by
    simp only [fitsG, Bool.and_eq_true] at hf
    obtain ⟨j, hj1, hj2⟩ := h f.kind v hf.1
    obtain ⟨d, hd1, hd2, hd3⟩ := fieldsG_roundtrip enc dec inj norm fits h fs vs hf.2
    refine ⟨(f.name, j) :: d, ?_, ?_, ?_⟩
    · simp [encodeFieldsG, hj1, hd1]
    · simp [keys] at hd2 ⊢; exact hd2
    · intro d' hd'
      have h0 : dget d' f.name = some j := hd' (f.name, j) (List.mem_cons_self ..)
      have hr := hd3 d' (fun kv hm => hd' kv (List.mem_cons_of_mem _ hm))
      simp [decodeFieldsG, h0, hj2, hr, Except.map]

/-! ### slot values -/

def fitsS (cenv : CEnv) (xenv : XEnv) : FKind → SVal → Bool
  | .scalar t, .json j => conforms xenv t j
  | .event, .event e => e.wf xenv && importable cenv e.cls
  | .optEvent, .event e => e.wf xenv && importable cenv e.cls
  | .optEvent, .none => true
  | .exc, .exc _ => true
  | .optExc, .exc _ => true
  | .optExc, .none => true
  | .evType, .evType c => dget cenv c.typeQual == some c
  | _, _ => false

def normS (xenv : XEnv) : SVal → SVal
  | .exc x => .exc (normExc xenv x)
  | v => v

theorem wrapModel_ne_null (e : Inst) : wrapModel e ≠ .null := by simp [wrapModel]
theorem encodeExc_ne_null (e : ExcVal) : encodeExc e ≠ .null := by simp [encodeExc]

theorem slot_roundtrip (cenv : CEnv) (xenv : XEnv) (k : FKind) (v : SVal) (h : fitsS cenv xenv k v = true) :
    ∃ j, encodeS k v = .ok j ∧ decodeS cenv xenv k j = .ok (normS xenv v) := by
  cases k <;> cases v <;> simp only [fitsS, Bool.false_eq_true, Bool.and_eq_true] at h
  case scalar.json t j =>
    exact ⟨j, rfl, by simp [decodeS, normS, (by simpa [conforms] using h : validate xenv t j = some j)]⟩
  case event.event e =>
    exact ⟨wrapModel e, rfl, by simp [decodeS, normS, decodeEvent_wrap cenv xenv e h.1 h.2, Except.map]⟩
  case optEvent.event e =>
    refine ⟨wrapModel e, rfl, ?_⟩
    have hw := decodeEvent_wrap cenv xenv e h.1 h.2
    simp only [wrapModel] at hw ⊢
    simp [decodeS, normS, hw, Except.map]
  case optEvent.none => exact ⟨.null, rfl, rfl⟩
  case exc.exc x =>
    exact ⟨encodeExc x, rfl, by simp [decodeS, normS, decodeExc_encodeExc]⟩
  case optExc.exc x =>
    refine ⟨encodeExc x, rfl, ?_⟩
    have hx := decodeExc_encodeExc xenv x
    simp only [encodeExc] at hx ⊢
    simp [decodeS, normS, hx]
  case optExc.none => exact ⟨.null, rfl, rfl⟩
  case evType.evType c =>
    exact ⟨.str c.typeQual, rfl, by simp [decodeS, normS, (by simpa using h : dget cenv c.typeQual = some c)]⟩


/-! ### step results (members of `StepFunctionResult`) -/

def RecSpec.wf (spec : RecSpec) : Bool :=
  decide (spec.fields.map (·.name)).Nodup && !(spec.fields.map (·.name)).contains tagKey

theorem findSpec_tag : ∀ (specs : List RecSpec) (t : String) (spec : RecSpec),
    findSpec specs t = some spec → spec.tag = t
  | [], _, _, h => by simp [findSpec] at h
  | s :: ss, t, spec, h => by
    simp only [findSpec] at h
    split at h
    · rename_i ht; cases h; exact ht
    · exact findSpec_tag ss t spec h

def fitsRec (cenv : CEnv) (xenv : XEnv) (specs : List RecSpec) (r : Rec) : Bool :=
  match findSpec specs r.tag with
  | some spec => spec.wf && fitsG (fitsS cenv xenv) spec.fields r.vals
  | none => false

def setAt (vs : List SVal) (i : Option Nat) (v : SVal) : List SVal :=
  match i with
  | some i => vs.set i v
  | none => vs

/-- what a step result comes back as: exceptions as `normExc`; an `AddWaiter` loses its
(non-serialisable) requirements and comes back with `has_requirements = False` -/
def normRec (xenv : XEnv) (specs : List RecSpec) (r : Rec) : Rec :=
  match findSpec specs r.tag with
  | some spec =>
    let vs := r.vals.map (normS xenv)
    if spec.waiterHooks then
      { r with vals := setAt (setAt vs (fieldIndex spec.fields "requirements") (.json (.obj [])))
                        (fieldIndex spec.fields "has_requirements") (.json (.bool false)) }
    else { r with vals := vs }
  | none => r

theorem fields_in_tagged (tag : Json) (d : Dict) (hn : (keys d).Nodup) (ht : tagKey ∉ keys d) :
    ∀ kv ∈ d, dget ((tagKey, tag) :: d) kv.1 = some kv.2 := by
  intro kv hm
  apply dget_of_mem_nodup ((tagKey, tag) :: d)
  · simp only [keys, List.map_cons, List.nodup_cons]
    exact ⟨by simpa [keys] using ht, by simpa [keys] using hn⟩
  · exact List.mem_cons_of_mem _ hm

theorem rec_roundtrip_plain (cenv : CEnv) (xenv : XEnv) (specs : List RecSpec) (spec : RecSpec) (r : Rec)
    (hfind : findSpec specs r.tag = some spec) (hwf : spec.wf = true) (hh : spec.waiterHooks = false)
    (hf : fitsG (fitsS cenv xenv) spec.fields r.vals = true) :
    ∃ j, encodeRec spec r = .ok j ∧
      decodeRec cenv xenv specs j = .ok { tag := r.tag, vals := r.vals.map (normS xenv) } := by
  obtain ⟨d, hd1, hd2, hd3⟩ := fieldsG_roundtrip encodeS (decodeS cenv xenv) id (normS xenv) (fitsS cenv xenv)
    (slot_roundtrip cenv xenv) spec.fields r.vals hf
  simp only [RecSpec.wf, Bool.and_eq_true, decide_eq_true_eq, Bool.not_eq_true'] at hwf
  have htag := findSpec_tag specs r.tag spec hfind
  have hnd : (keys d).Nodup := by rw [hd2]; exact hwf.1
  have hnt : tagKey ∉ keys d := by rw [hd2]; simpa using hwf.2
  refine ⟨.obj ((tagKey, Json.str spec.tag) :: d), ?_, ?_⟩
  · simp [encodeRec, encodeFields, hd1, hh]
  · have := hd3 ((tagKey, Json.str spec.tag) :: d) (fields_in_tagged _ d hnd hnt)
    rw [htag] at this
    simp only [decodeRec, dget, if_true, htag, hfind, hh, Bool.false_eq_true, if_false, decodeFields, this, Except.map]

/-- the `AddWaiter` field table as the model reads it from the current sources -/
def addWaiterSpec : RecSpec :=
  { cls := "AddWaiter", tag := "add_waiter",
    fields := [
      { name := "waiter_id", kind := .scalar .str, dflt := none },
      { name := "waiter_event", kind := .optEvent, dflt := some .none },
      { name := "requirements", kind := .scalar (.dict .any), dflt := some (.json (.obj [])) },
      { name := "timeout", kind := .scalar (.opt .flt), dflt := some (.json .null) },
      { name := "event_type", kind := .evType, dflt := none },
      { name := "has_requirements", kind := .scalar .bool, dflt := some (.json (.bool false)) }],
    waiterHooks := true }

/-- the dumped `AddWaiter` -/
def waiterWire (ja jb jd je : Json) (b : Bool) : Dict :=
  [("type", .str "add_waiter"), ("waiter_id", ja), ("waiter_event", jb), ("requirements", .obj []),
   ("timeout", jd), ("event_type", je), ("has_requirements", .bool b)]
/-- … after the wrap validator dropped `has_requirements` -/
def waiterWire' (ja jb jd je : Json) : Dict :=
  [("type", .str "add_waiter"), ("waiter_id", ja), ("waiter_event", jb), ("requirements", .obj []),
   ("timeout", jd), ("event_type", je)]

theorem rec_roundtrip_waiter (cenv : CEnv) (xenv : XEnv) (specs : List RecSpec) (r : Rec)
    (hfind : findSpec specs r.tag = some addWaiterSpec)
    (hf : fitsG (fitsS cenv xenv) addWaiterSpec.fields r.vals = true) :
    ∃ j, encodeRec addWaiterSpec r = .ok j ∧
      decodeRec cenv xenv specs j = .ok (normRec xenv specs r) := by
  obtain ⟨tag, vals⟩ := r
  have htag : "add_waiter" = tag := findSpec_tag specs tag addWaiterSpec hfind
  subst htag
  simp only at hfind
  rcases vals with _ | ⟨a, _ | ⟨b, _ | ⟨c, _ | ⟨d, _ | ⟨e, _ | ⟨f, _ | ⟨g, rest⟩⟩⟩⟩⟩⟩⟩ <;>
    simp only [addWaiterSpec, fitsG, Bool.false_eq_true, Bool.and_false, Bool.and_eq_true, Bool.and_true] at hf
  · obtain ⟨ha, hb, hc, hd, he, hf'⟩ := hf
    obtain ⟨ja, ha1, ha2⟩ := slot_roundtrip cenv xenv _ a ha
    obtain ⟨jb, hb1, hb2⟩ := slot_roundtrip cenv xenv _ b hb
    obtain ⟨jd, hd1, hd2⟩ := slot_roundtrip cenv xenv _ d hd
    obtain ⟨je, he1, he2⟩ := slot_roundtrip cenv xenv _ e he
    cases c <;> simp only [fitsS, Bool.false_eq_true] at hc
    cases f <;> simp only [fitsS, Bool.false_eq_true] at hf'
    rename_i req hr
    refine ⟨.obj (waiterWire ja jb jd je req.truthy), ?_, ?_⟩
    · simp only [encodeRec, encodeFields, encodeFieldsG, addWaiterSpec, ha1, hb1, hd1, he1]
      simp only [tagKey, Gen.EventSerial.tickDiscriminator]
      simp [encodeS, waiterSerialize, fieldIndex, dset, waiterWire]
    · have hreq : validate xenv (.dict .any) (.obj []) = some (.obj []) := by simp [validate]
      have e0 : dget (waiterWire ja jb jd je req.truthy) tagKey = some (.str "add_waiter") := by
        rfl
      have e1 : ddel (waiterWire ja jb jd je req.truthy) "has_requirements" = waiterWire' ja jb jd je := by
        rfl
      have g1 : dget (waiterWire' ja jb jd je) "waiter_id" = some ja := rfl
      have g2 : dget (waiterWire' ja jb jd je) "waiter_event" = some jb := rfl
      have g3 : dget (waiterWire' ja jb jd je) "requirements" = some (.obj []) := rfl
      have g4 : dget (waiterWire' ja jb jd je) "timeout" = some jd := rfl
      have g5 : dget (waiterWire' ja jb jd je) "event_type" = some je := rfl
      have g6 : dget (waiterWire' ja jb jd je) "has_requirements" = none := rfl
      have hdec : decodeS cenv xenv (.scalar (.dict .any)) (.obj []) = .ok (.json (.obj [])) := by
        simp [decodeS, hreq]
      simp only [decodeRec, e0, hfind, addWaiterSpec, if_true, e1, decodeFields, decodeFieldsG, g1, g2, g3, g4, g5, g6,
        ha2, hb2, hd2, he2, hdec, Except.map, id]
      simp [normRec, hfind, addWaiterSpec, normS, setAt, fieldIndex]


theorem findSpec_mem : ∀ (specs : List RecSpec) (t : String) (spec : RecSpec),
    findSpec specs t = some spec → spec ∈ specs
  | [], _, _, h => by simp [findSpec] at h
  | s :: ss, t, spec, h => by
    simp only [findSpec] at h
    split at h
    · cases h; exact List.mem_cons_self ..
    · exact List.mem_cons_of_mem _ (findSpec_mem ss t spec h)

/-- the only class with the extra serializer / validator is `AddWaiter`, with the table above -/
def hooksOnlyWaiter (specs : List RecSpec) : Bool :=
  specs.all (fun s => !s.waiterHooks || s == addWaiterSpec)

theorem rec_roundtrip (cenv : CEnv) (xenv : XEnv) (specs : List RecSpec) (hh : hooksOnlyWaiter specs = true)
    (r : Rec) (hf : fitsRec cenv xenv specs r = true) :
    ∃ spec j, findSpec specs r.tag = some spec ∧ encodeRec spec r = .ok j ∧
      decodeRec cenv xenv specs j = .ok (normRec xenv specs r) := by
  simp only [fitsRec] at hf
  split at hf
  · rename_i spec hfind
    simp only [Bool.and_eq_true] at hf
    have hmem := findSpec_mem specs r.tag spec hfind
    simp only [hooksOnlyWaiter, List.all_eq_true, Bool.or_eq_true, Bool.not_eq_true', beq_iff_eq] at hh
    rcases hh spec hmem with hk | hk
    · obtain ⟨j, h1, h2⟩ := rec_roundtrip_plain cenv xenv specs spec r hfind hf.1 hk hf.2
      refine ⟨spec, j, hfind, h1, ?_⟩
      rw [h2]
      simp [normRec, hfind, hk]
    · subst hk
      obtain ⟨j, h1, h2⟩ := rec_roundtrip_waiter cenv xenv specs r hfind hf.2
      exact ⟨addWaiterSpec, j, hfind, h1, h2⟩
  · simp at hf

theorem recs_roundtrip (cenv : CEnv) (xenv : XEnv) (specs : List RecSpec) (hh : hooksOnlyWaiter specs = true) :
    ∀ (rs : List Rec), rs.all (fitsRec cenv xenv specs) = true →
      ∃ js, encodeRecs specs rs = .ok js ∧
        decodeRecs cenv xenv specs js = .ok (rs.map (normRec xenv specs))
  | [], _ => ⟨[], rfl, rfl⟩
  | r :: rs, hf => by
    simp only [List.all_cons, Bool.and_eq_true] at hf
    obtain ⟨spec, j, h0, h1, h2⟩ := rec_roundtrip cenv xenv specs hh r hf.1
    obtain ⟨js, h3, h4⟩ := recs_roundtrip cenv xenv specs hh rs hf.2
    refine ⟨j :: js, ?_, ?_⟩
    · simp [encodeRecs, h0, h1, h3]
    · simp [decodeRecs, h2, h4, Except.map]

/-! ### ticks (members of `WorkflowTick`) -/

def fitsT (cenv : CEnv) (xenv : XEnv) (rspecs : List RecSpec) : FKind → TVal → Bool
  | .results, .results rs => rs.all (fitsRec cenv xenv rspecs)
  | .results, .s _ => false
  | k, .s v => fitsS cenv xenv k v
  | _, .results _ => false

def normT (xenv : XEnv) (rspecs : List RecSpec) : TVal → TVal
  | .s v => .s (normS xenv v)
  | .results rs => .results (rs.map (normRec xenv rspecs))

theorem tslot_roundtrip (cenv : CEnv) (xenv : XEnv) (rspecs : List RecSpec) (hh : hooksOnlyWaiter rspecs = true)
    (k : FKind) (v : TVal) (h : fitsT cenv xenv rspecs k v = true) :
    ∃ j, encodeT rspecs k v = .ok j ∧ decodeT cenv xenv rspecs k j = .ok (normT xenv rspecs v) := by
  cases v with
  | results rs =>
    cases k <;> simp only [fitsT, Bool.false_eq_true] at h
    obtain ⟨js, h1, h2⟩ := recs_roundtrip cenv xenv rspecs hh rs h
    exact ⟨.arr js, by simp [encodeT, h1, Except.map], by simp [decodeT, h2, normT, Except.map]⟩
  | s v =>
    cases k <;> simp only [fitsT, Bool.false_eq_true] at h
    all_goals
      obtain ⟨j, h1, h2⟩ := slot_roundtrip cenv xenv _ v h
      exact ⟨j, by simpa [encodeT] using h1, by simp [decodeT, h2, normT, Except.map]⟩

def fitsTick (cenv : CEnv) (xenv : XEnv) (tspecs rspecs : List RecSpec) (t : Tick) : Bool :=
  match findSpec tspecs t.tag with
  | some spec => spec.wf && !spec.waiterHooks && fitsG (fitsT cenv xenv rspecs) spec.fields t.vals
  | none => false

def normTick (xenv : XEnv) (rspecs : List RecSpec) (t : Tick) : Tick :=
  { t with vals := t.vals.map (normT xenv rspecs) }

theorem tick_roundtrip (cenv : CEnv) (xenv : XEnv) (tspecs rspecs : List RecSpec)
    (hh : hooksOnlyWaiter rspecs = true) (t : Tick) (hf : fitsTick cenv xenv tspecs rspecs t = true) :
    ∃ spec j, findSpec tspecs t.tag = some spec ∧ encodeTick rspecs spec t = .ok j ∧
      decodeTick cenv xenv tspecs rspecs j = .ok (normTick xenv rspecs t) := by
  simp only [fitsTick] at hf
  split at hf
  · rename_i spec hfind
    simp only [Bool.and_eq_true, Bool.not_eq_true'] at hf
    obtain ⟨⟨hwf, _⟩, hfit⟩ := hf
    obtain ⟨d, hd1, hd2, hd3⟩ := fieldsG_roundtrip (encodeT rspecs) (decodeT cenv xenv rspecs) TVal.s
      (normT xenv rspecs) (fitsT cenv xenv rspecs) (tslot_roundtrip cenv xenv rspecs hh) spec.fields t.vals hfit
    simp only [RecSpec.wf, Bool.and_eq_true, decide_eq_true_eq, Bool.not_eq_true'] at hwf
    have htag := findSpec_tag tspecs t.tag spec hfind
    have hnd : (keys d).Nodup := by rw [hd2]; exact hwf.1
    have hnt : tagKey ∉ keys d := by rw [hd2]; simpa using hwf.2
    refine ⟨spec, .obj ((tagKey, Json.str spec.tag) :: d), hfind, ?_, ?_⟩
    · simp [encodeTick, encodeTFields, hd1, Except.map]
    · have := hd3 ((tagKey, Json.str spec.tag) :: d) (fields_in_tagged _ d hnd hnt)
      rw [htag] at this
      simp only [decodeTick, dget, if_true, htag, hfind, decodeTFields, this, Except.map, normTick]
  · simp at hf

end EventSerial
