"""Handler status machine constants and tables -> lean/WfModel/GenHandlerStatus.lean.

Re-read from /repo's current sources on every run (ast only, nothing is imported):

* `abstract_workflow_store.py`: the `Status` literal, `TERMINAL_STATUSES`, and the shape of
  `update_handler_status` (which statuses stamp `completed_at`, that the stored status is never read);
* `server_runtime.py`: the `isinstance` chain of `_ServerInternalRunAdapter.write_to_event_stream`
  (event class -> status, error/result passed), where it sits relative to the `append_event`
  call, the replay guard and the forward to the inner adapter; the retry loop and default backoff;
* `idle_release_runtime.py`: the status the idle adapter writes, unretried, before forwarding;
* `persistence_runtime.py`: `handler_status_from_exit_command` and the resume query of `_on_server_start`;
* `workflows/events.py`: the class hierarchy (the chain is order sensitive: every terminal event is a StopEvent);
* every place in the server package that passes a literal `status="running"` to the store.
"""
from __future__ import annotations

import ast
import os
from typing import Any

from ..boot import repo_path

LEAN_MODULE = "GenHandlerStatus"
SERVER = "packages/llama-agents-server/src/llama_agents/server"
ABSTRACT = f"{SERVER}/_store/abstract_workflow_store.py"
RUNTIME = f"{SERVER}/_runtime/server_runtime.py"
IDLE = f"{SERVER}/_runtime/idle_release_runtime.py"
PERSIST = f"{SERVER}/_runtime/persistence_runtime.py"
SERVICE = f"{SERVER}/_service.py"
EVENTS = "packages/llama-index-workflows/src/workflows/events.py"
MISSING = "<missing>"


def _parse(rel: str, notes: list[str]) -> ast.Module | None:
    try:
        return ast.parse(open(repo_path(rel)).read())
    except (OSError, SyntaxError) as e:
        notes.append(f"gen/handler_status: cannot parse {rel}: {e!r}")
        return None


def _find(tree: ast.AST | None, kind: type, name: str) -> Any:
    if tree is None:
        return None
    for n in ast.walk(tree):
        if isinstance(n, kind) and getattr(n, "name", None) == name:
            return n
    return None


def _method(tree: ast.AST | None, cls: str, name: str) -> Any:
    c = _find(tree, ast.ClassDef, cls)
    if c is None:
        return None
    for f in c.body:
        if isinstance(f, (ast.FunctionDef, ast.AsyncFunctionDef)) and f.name == name:
            return f
    return None


def _strs(node: ast.AST | None) -> list[str] | None:
    """string constants of a tuple/list/set literal (also through frozenset(...)/Literal[...])"""
    if node is None:
        return None
    if isinstance(node, ast.Call) and node.args:
        return _strs(node.args[0])
    if isinstance(node, ast.Subscript):
        return _strs(node.slice)
    if isinstance(node, (ast.Tuple, ast.List, ast.Set)):
        out = []
        for e in node.elts:
            if isinstance(e, ast.Constant) and isinstance(e.value, str):
                out.append(e.value)
            else:
                return None
        return out
    return None


def _kw(call: ast.Call, name: str) -> ast.AST | None:
    for k in call.keywords:
        if k.arg == name:
            return k.value
    return None


def _is_none(n: ast.AST | None) -> bool:
    return n is None or (isinstance(n, ast.Constant) and n.value is None)


def _calls(node: ast.AST, attr: str) -> list[ast.Call]:
    return [c for c in ast.walk(node) if isinstance(c, ast.Call) and isinstance(c.func, ast.Attribute) and c.func.attr == attr]


def _isinstance_target(test: ast.AST, var: str | None = None) -> str | None:
    if isinstance(test, ast.Call) and isinstance(test.func, ast.Name) and test.func.id == "isinstance" and len(test.args) == 2:
        cls = test.args[1]
        if isinstance(cls, ast.Name):
            return cls.id
    return None


# --------------------------------------------------------------------------


def extract_store(notes: list[str]) -> dict:
    res: dict[str, Any] = {"statuses": [MISSING], "terminal": [MISSING], "completedAt": [MISSING], "readsCurrent": True,
                           "statusIfGiven": False, "resultIfGiven": False, "errorIfGiven": False, "idleUnlessUnset": False,
                           "notFoundSkips": False}
    tree = _parse(ABSTRACT, notes)
    if tree is None:
        return res
    for n in tree.body:
        if isinstance(n, ast.Assign) and len(n.targets) == 1 and isinstance(n.targets[0], ast.Name) and n.targets[0].id == "Status":
            v = _strs(n.value)
            if v:
                res["statuses"] = v
        tgt = n.target if isinstance(n, ast.AnnAssign) else (n.targets[0] if isinstance(n, ast.Assign) and len(n.targets) == 1 else None)
        if isinstance(tgt, ast.Name) and tgt.id == "TERMINAL_STATUSES":
            v = _strs(n.value)
            if v:
                res["terminal"] = v
    fn = _method(tree, "AbstractWorkflowStore", "update_handler_status")
    if fn is None:
        notes.append("gen/handler_status: update_handler_status not found")
        return res
    reads = False
    # locals: `found = await self.query(...)`, `handler = found[0]` (whatever they are called)
    found_name, handler_name = "found", "handler"
    for n in ast.walk(fn):
        if isinstance(n, ast.Assign) and len(n.targets) == 1 and isinstance(n.targets[0], ast.Name):
            if isinstance(n.value, ast.Await) and _calls(n.value, "query"):
                found_name = n.targets[0].id
    for n in ast.walk(fn):
        if isinstance(n, ast.Assign) and len(n.targets) == 1 and isinstance(n.targets[0], ast.Name) \
                and isinstance(n.value, ast.Subscript) and isinstance(n.value.value, ast.Name) and n.value.value.id == found_name:
            handler_name = n.targets[0].id
    for n in ast.walk(fn):
        if isinstance(n, ast.Attribute) and n.attr == "status" and isinstance(n.ctx, ast.Load) and isinstance(n.value, ast.Name) and n.value.id == handler_name:
            reads = True
        if isinstance(n, ast.If):
            t = n.test
            # if status in (...): handler.completed_at = now
            if isinstance(t, ast.Compare) and len(t.ops) == 1 and isinstance(t.ops[0], ast.In) and isinstance(t.left, ast.Name) and t.left.id == "status":
                sets = any(isinstance(a, ast.Assign) and isinstance(a.targets[0], ast.Attribute) and a.targets[0].attr == "completed_at" for a in n.body)
                v = _strs(t.comparators[0])
                if sets and v is not None:
                    res["completedAt"] = v
            # if X is not None: handler.X = X
            if isinstance(t, ast.Compare) and len(t.ops) == 1 and isinstance(t.ops[0], ast.IsNot) and isinstance(t.left, ast.Name) and _is_none(t.comparators[0]):
                for a in n.body:
                    if isinstance(a, ast.Assign) and isinstance(a.targets[0], ast.Attribute) and a.targets[0].attr == t.left.id \
                            and isinstance(a.value, ast.Name) and a.value.id == t.left.id and not n.orelse:
                        res[{"status": "statusIfGiven", "result": "resultIfGiven", "error": "errorIfGiven"}.get(t.left.id, "_")] = True
            # if not isinstance(idle_since, _Unset): handler.idle_since = idle_since
            if isinstance(t, ast.UnaryOp) and isinstance(t.op, ast.Not) and _isinstance_target(t.operand) == "_Unset":
                if any(isinstance(a, ast.Assign) and isinstance(a.targets[0], ast.Attribute) and a.targets[0].attr == "idle_since" for a in n.body):
                    res["idleUnlessUnset"] = True
            # if not found: ... return
            if isinstance(t, ast.UnaryOp) and isinstance(t.op, ast.Not) and isinstance(t.operand, ast.Name) and t.operand.id == found_name:
                if any(isinstance(a, ast.Return) for a in n.body) and not any(isinstance(a, ast.Raise) for a in ast.walk(n)):
                    res["notFoundSkips"] = True
    res["readsCurrent"] = reads
    res.pop("_", None)
    return res


def extract_adapter(notes: list[str]) -> dict:
    res: dict[str, Any] = {"table": [], "guarded": False, "statusBeforeAppend": False, "forwardOutsideGuard": False,
                           "underLock": False, "appendRetried": True, "statusRetried": False, "backoffMs": [],
                           "retryPopsFront": False, "retryRaisesWhenEmpty": False, "retryCopiesPerCall": False, "startStatus": MISSING, "startRetried": False}
    tree = _parse(RUNTIME, notes)
    fn = _method(tree, "_ServerInternalRunAdapter", "write_to_event_stream")
    if fn is None:
        notes.append("gen/handler_status: _ServerInternalRunAdapter.write_to_event_stream not found")
        return res
    withs = [n for n in fn.body if isinstance(n, ast.AsyncWith)]
    body = withs[0].body if withs else fn.body
    res["underLock"] = bool(withs) and "_write_lock" in ast.dump(withs[0].items[0].context_expr)
    guard = None
    flag = None
    for st in body:
        if isinstance(st, ast.Assign) and len(st.targets) == 1 and isinstance(st.targets[0], ast.Name) and _calls(st.value, "is_replaying"):
            flag = st.targets[0].id
    for i, st in enumerate(body):
        if isinstance(st, ast.If) and isinstance(st.test, ast.UnaryOp) and isinstance(st.test.op, ast.Not):
            o = st.test.operand
            if (isinstance(o, ast.Name) and o.id == flag) or (isinstance(o, ast.Call) and isinstance(o.func, ast.Attribute) and o.func.attr == "is_replaying"):
                guard = (i, st)
    if guard is None:
        notes.append("gen/handler_status: `if not replaying:` not found in write_to_event_stream")
        return res
    gi, g = guard
    chain_idx = append_idx = None
    for i, st in enumerate(g.body):
        if isinstance(st, ast.If) and _isinstance_target(st.test) is not None and chain_idx is None:
            chain_idx = i
            node: Any = st
            while True:
                cls = _isinstance_target(node.test)
                ups = _calls(ast.Module(body=node.body, type_ignores=[]), "_handle_status_update")
                if cls is None or len(ups) != 1:
                    notes.append("gen/handler_status: unexpected branch in the terminal-event chain")
                    res["table"].append((MISSING, MISSING, False, False))
                else:
                    stv = _kw(ups[0], "status")
                    status = stv.value if isinstance(stv, ast.Constant) and isinstance(stv.value, str) else MISSING
                    res["table"].append((cls, status, not _is_none(_kw(ups[0], "error")), not _is_none(_kw(ups[0], "result"))))
                if len(node.orelse) == 1 and isinstance(node.orelse[0], ast.If):
                    node = node.orelse[0]
                    continue
                if node.orelse:
                    notes.append("gen/handler_status: terminal-event chain has an else branch")
                    res["table"].append((MISSING, MISSING, False, False))
                break
        if _calls(st, "append_event") and append_idx is None:
            append_idx = i
            res["appendRetried"] = bool(_calls(st, "_retry_store_write"))
    res["guarded"] = chain_idx is not None and append_idx is not None
    res["statusBeforeAppend"] = chain_idx is not None and append_idx is not None and chain_idx < append_idx
    fwd = [i for i, st in enumerate(body) if any(isinstance(c.func, ast.Attribute) and c.func.attr == "write_to_event_stream" for c in ast.walk(st) if isinstance(c, ast.Call)) and i != gi]
    res["forwardOutsideGuard"] = bool(fwd) and all(i > gi for i in fwd) and not any(
        isinstance(c.func, ast.Attribute) and c.func.attr == "write_to_event_stream" for c in ast.walk(g) if isinstance(c, ast.Call))
    # _handle_status_update -> _retry_store_write(lambda: store.update_handler_status(...))
    hsu = _method(tree, "ServerRuntimeDecorator", "_handle_status_update")
    if hsu is not None:
        r = _calls(hsu, "_retry_store_write")
        res["statusRetried"] = len(r) == 1 and bool(_calls(r[0], "update_handler_status"))
    # default backoff
    init = _method(tree, "ServerRuntimeDecorator", "__init__")
    if init is not None:
        for n in ast.walk(init):
            if isinstance(n, ast.IfExp) and isinstance(n.orelse, ast.List):
                vals = []
                for e in n.orelse.elts:
                    if isinstance(e, ast.Constant) and isinstance(e.value, (int, float)) and not isinstance(e.value, bool):
                        vals.append(int(round(e.value * 1000)))
                    else:
                        vals = None  # type: ignore[assignment]
                        break
                if vals is not None:
                    res["backoffMs"] = vals
    if not res["backoffMs"]:
        notes.append("gen/handler_status: default persistence_backoff not found")
    rw = _method(tree, "ServerRuntimeDecorator", "_retry_store_write")
    if rw is not None:
        for n in ast.walk(rw):
            if isinstance(n, ast.IfExp) and isinstance(n.body, ast.Call) and isinstance(n.body.func, ast.Attribute) and n.body.func.attr == "pop" \
                    and len(n.body.args) == 1 and isinstance(n.body.args[0], ast.Constant) and n.body.args[0].value == 0 and _is_none(n.orelse) \
                    and isinstance(n.test, ast.Name) and isinstance(n.body.func.value, ast.Name) and n.test.id == n.body.func.value.id:
                res["retryPopsFront"] = True
            if isinstance(n, ast.If) and isinstance(n.test, ast.Compare) and isinstance(n.test.ops[0], ast.Is) and _is_none(n.test.comparators[0]):
                if any(isinstance(a, ast.Raise) and a.exc is None for a in n.body):
                    res["retryRaisesWhenEmpty"] = True
        # the list that is popped must be a fresh copy made inside the call (not the runtime's own list)
        popped = None
        for n in ast.walk(rw):
            if isinstance(n, ast.Call) and isinstance(n.func, ast.Attribute) and n.func.attr == "pop" and isinstance(n.func.value, ast.Name):
                popped = n.func.value.id
        for n in ast.walk(rw):
            if popped and isinstance(n, ast.Assign) and len(n.targets) == 1 and isinstance(n.targets[0], ast.Name) and n.targets[0].id == popped:
                v = n.value
                fresh = (isinstance(v, ast.Call) and ((isinstance(v.func, ast.Name) and v.func.id in ("list", "deque", "copy", "deepcopy"))
                                                      or (isinstance(v.func, ast.Attribute) and v.func.attr in ("copy", "deepcopy"))))
                fresh = fresh or (isinstance(v, ast.Subscript) and isinstance(v.slice, ast.Slice) and v.slice.lower is None and v.slice.upper is None)
                fresh = fresh or (isinstance(v, ast.List) and len(v.elts) == 1 and isinstance(v.elts[0], ast.Starred))
                res["retryCopiesPerCall"] = bool(fresh)
        if popped is None:
            notes.append("gen/handler_status: _retry_store_write pops from no local list")
    rh = _method(tree, "ServerRuntimeDecorator", "run_workflow_handler")
    if rh is not None:
        r = _calls(rh, "_retry_store_write")
        res["startRetried"] = len(r) == 1
        for c in ast.walk(rh):
            if isinstance(c, ast.Call) and isinstance(c.func, ast.Name) and c.func.id == "PersistentHandler":
                v = _kw(c, "status")
                if isinstance(v, ast.Constant) and isinstance(v.value, str):
                    res["startStatus"] = v.value
    return res


def extract_idle(notes: list[str]) -> dict:
    res: dict[str, Any] = {"idleStatus": MISSING, "idleSetsIdleSince": False, "idleRetried": True, "idleBeforeForward": False,
                           "idleClass": MISSING}
    tree = _parse(IDLE, notes)
    fn = _method(tree, "_IdleReleaseInternalRunAdapter", "write_to_event_stream")
    if fn is None:
        notes.append("gen/handler_status: _IdleReleaseInternalRunAdapter.write_to_event_stream not found")
        return res
    for i, st in enumerate(fn.body):
        if isinstance(st, ast.If) and _isinstance_target(st.test) is not None:
            ups = _calls(st, "update_handler_status")
            if len(ups) == 1:
                res["idleClass"] = _isinstance_target(st.test)
                v = _kw(ups[0], "status")
                res["idleStatus"] = v.value if isinstance(v, ast.Constant) and isinstance(v.value, str) else ("<none>" if v is None else MISSING)
                res["idleSetsIdleSince"] = _kw(ups[0], "idle_since") is not None
                res["idleRetried"] = bool(_calls(st, "_retry_store_write"))
                fwd = [j for j, s2 in enumerate(fn.body) if any(isinstance(c.func, ast.Attribute) and c.func.attr == "write_to_event_stream"
                                                               for c in ast.walk(s2) if isinstance(c, ast.Call))]
                res["idleBeforeForward"] = bool(fwd) and i < min(fwd)
                break
    return res


def extract_exit_table(notes: list[str]) -> dict:
    res: dict[str, Any] = {"exitTable": [], "resumeStatusIn": [MISSING], "resumeIsIdle": MISSING}
    tree = _parse(PERSIST, notes)
    fn = _find(tree, ast.FunctionDef, "handler_status_from_exit_command")
    if fn is None:
        notes.append("gen/handler_status: handler_status_from_exit_command not found")
        return res

    def ret_row(label: str, r: ast.Return) -> None:
        if _is_none(r.value):
            res["exitTable"].append((label, None))
        elif isinstance(r.value, ast.Tuple) and len(r.value.elts) == 3 and isinstance(r.value.elts[0], ast.Constant):
            res["exitTable"].append((label, (r.value.elts[0].value, not _is_none(r.value.elts[2]), not _is_none(r.value.elts[1]))))
        else:
            notes.append(f"gen/handler_status: unexpected return in handler_status_from_exit_command ({label})")
            res["exitTable"].append((label, (MISSING, False, False)))

    def attr_of(test: ast.AST) -> tuple[str | None, str | None]:
        """isinstance(command, X) -> (None, X); isinstance(command.attr, X) -> (attr, X)"""
        if isinstance(test, ast.Call) and isinstance(test.func, ast.Name) and test.func.id == "isinstance" and len(test.args) == 2 \
                and isinstance(test.args[1], ast.Name):
            a = test.args[0]
            if isinstance(a, ast.Name):
                return None, test.args[1].id
            if isinstance(a, ast.Attribute):
                return a.attr, test.args[1].id
        return None, None

    # top level: if isinstance(command, A): [nested if ...: return]; return ... / if isinstance(command, B): return ... / if isinstance(command.exception, C): return ... / return ...
    for st in fn.body:
        if isinstance(st, ast.If):
            attr, cls = attr_of(st.test)
            if cls is None:
                notes.append("gen/handler_status: unexpected test in handler_status_from_exit_command")
                continue
            if attr is None:
                for inner in st.body:
                    if isinstance(inner, ast.If):
                        a2, c2 = attr_of(inner.test)
                        for r in inner.body:
                            if isinstance(r, ast.Return):
                                ret_row(f"{cls}/{c2}", r)
                    elif isinstance(inner, ast.Return):
                        ret_row(cls, inner)
            else:
                for r in st.body:
                    if isinstance(r, ast.Return):
                        ret_row(f"CommandHalt/{cls}", r)
        elif isinstance(st, ast.Return):
            ret_row("CommandHalt", st)
    start = _method(tree, "PersistenceDecorator", "_on_server_start")
    if start is not None:
        for c in ast.walk(start):
            if isinstance(c, ast.Call) and isinstance(c.func, ast.Name) and c.func.id == "HandlerQuery":
                v = _strs(_kw(c, "status_in"))
                if v is not None:
                    res["resumeStatusIn"] = v
                i = _kw(c, "is_idle")
                if isinstance(i, ast.Constant):
                    res["resumeIsIdle"] = repr(i.value)
    return res


def extract_mro(notes: list[str]) -> list[tuple[str, list[str]]]:
    tree = _parse(EVENTS, notes)
    if tree is None:
        return []
    bases: dict[str, list[str]] = {}
    for n in tree.body:
        if isinstance(n, ast.ClassDef):
            bases[n.name] = [b.id for b in n.bases if isinstance(b, ast.Name)]
    out = []
    for name in bases:
        # linearisation of a single-inheritance chain; multiple bases inside events.py would need C3: flag it
        mro, cur, ok = [name], name, True
        while True:
            bs = [b for b in bases.get(cur, []) if b in bases]
            if len(bs) > 1:
                ok = False
                break
            if not bs:
                break
            cur = bs[0]
            mro.append(cur)
        if not ok:
            notes.append(f"gen/handler_status: {name} has several event bases; MRO not linear")
            mro = [MISSING]
        if "Event" in mro:
            out.append((name, mro))
    return out


def extract_running_writers(notes: list[str]) -> list[str]:
    """qualified names of every function in the server package passing a literal status="running" to a call"""
    out = set()
    root = repo_path(SERVER)
    for dp, _dn, fns in os.walk(root):
        for fnm in fns:
            if not fnm.endswith(".py"):
                continue
            rel = os.path.relpath(os.path.join(dp, fnm), root)
            try:
                tree = ast.parse(open(os.path.join(dp, fnm)).read())
            except (OSError, SyntaxError):
                notes.append(f"gen/handler_status: cannot parse {rel}")
                continue

            def visit(node: ast.AST, qual: str) -> None:
                for ch in ast.iter_child_nodes(node):
                    if isinstance(ch, (ast.ClassDef, ast.FunctionDef, ast.AsyncFunctionDef)):
                        visit(ch, f"{qual}.{ch.name}" if qual else ch.name)
                    else:
                        if isinstance(ch, ast.Call):
                            v = _kw(ch, "status")
                            if isinstance(v, ast.Constant) and v.value == "running":
                                out.add(f"{rel}:{qual}")
                        visit(ch, qual)

            visit(tree, "")
    return sorted(out)


def extract_unidle_writes(notes: list[str]) -> list[tuple[str, str]]:
    """(function, literal of the status keyword or "_" when absent) for every call in the server package that passes
    `idle_since=None` — the writes issued on behalf of an external request (send to an active run, reload)"""
    out = set()
    root = repo_path(SERVER)
    for dp, _dn, fns in os.walk(root):
        for fnm in fns:
            if not fnm.endswith(".py"):
                continue
            rel = os.path.relpath(os.path.join(dp, fnm), root)
            try:
                tree = ast.parse(open(os.path.join(dp, fnm)).read())
            except (OSError, SyntaxError):
                continue

            def visit(node: ast.AST, qual: str) -> None:
                for ch in ast.iter_child_nodes(node):
                    if isinstance(ch, (ast.ClassDef, ast.FunctionDef, ast.AsyncFunctionDef)):
                        visit(ch, f"{qual}.{ch.name}" if qual else ch.name)
                    else:
                        if isinstance(ch, ast.Call):
                            v = _kw(ch, "idle_since")
                            if isinstance(v, ast.Constant) and v.value is None:
                                st = _kw(ch, "status")
                                if st is None:
                                    lit = "_"
                                elif isinstance(st, ast.Constant) and isinstance(st.value, str):
                                    lit = st.value
                                elif isinstance(st, ast.Constant) and st.value is None:
                                    lit = "_"
                                else:
                                    lit = "?" + ast.unparse(st)[:40]
                                out.add((f"{rel}:{qual}", lit))
                        visit(ch, qual)

            visit(tree, "")
    if not out:
        notes.append("gen/handler_status: no call with idle_since=None found in the server package")
    return sorted(out)


# --------------------------------------------------------------------------


def _s(x: str) -> str:
    return '"' + x.replace("\\", "\\\\").replace('"', '\\"') + '"'


def _sl(xs: list[str]) -> str:
    return "[" + ", ".join(_s(x) for x in xs) + "]"


def _b(v: bool) -> str:
    return "true" if v else "false"


def generate(notes: list[str]) -> list[str]:
    st = extract_store(notes)
    ad = extract_adapter(notes)
    idl = extract_idle(notes)
    ex = extract_exit_table(notes)
    mro = extract_mro(notes)
    writers = extract_running_writers(notes)
    unidle = extract_unidle_writes(notes)
    L = ["namespace GenHandlerStatus", ""]
    L += ["/-- `Status = Literal[...]` -/", f"def statuses : List String := {_sl(st['statuses'])}",
          "/-- `TERMINAL_STATUSES` -/", f"def terminalStatuses : List String := {_sl(st['terminal'])}",
          "/-- `update_handler_status`: statuses that stamp `completed_at` -/",
          f"def completedAtStatuses : List String := {_sl(st['completedAt'])}",
          "/-- `update_handler_status` reads the stored `handler.status` (it would have to, to refuse leaving a terminal status) -/",
          f"def uhsReadsCurrentStatus : Bool := {_b(st['readsCurrent'])}",
          f"def uhsStatusOnlyIfGiven : Bool := {_b(st['statusIfGiven'])}",
          f"def uhsResultOnlyIfGiven : Bool := {_b(st['resultIfGiven'])}",
          f"def uhsErrorOnlyIfGiven : Bool := {_b(st['errorIfGiven'])}",
          f"def uhsIdleUnlessUnset : Bool := {_b(st['idleUnlessUnset'])}",
          f"def uhsNotFoundSkips : Bool := {_b(st['notFoundSkips'])}", ""]
    rows = ", ".join(f"({_s(c)}, {_s(s)}, {_b(e)}, {_b(r)})" for c, s, e, r in ad["table"])
    L += ["/-- `_ServerInternalRunAdapter.write_to_event_stream`: the isinstance chain, in source order:",
          "    (event class, status, passes error, passes result) -/",
          f"def eventStatusTable : List (String × String × Bool × Bool) := [{rows}]",
          "/-- the chain and the `append_event` call sit inside `if not replaying:` -/",
          f"def guardedByNotReplaying : Bool := {_b(ad['guarded'])}",
          f"def statusBeforeAppend : Bool := {_b(ad['statusBeforeAppend'])}",
          f"def forwardOutsideGuard : Bool := {_b(ad['forwardOutsideGuard'])}",
          f"def underWriteLock : Bool := {_b(ad['underLock'])}",
          f"def statusWriteRetried : Bool := {_b(ad['statusRetried'])}",
          f"def appendRetried : Bool := {_b(ad['appendRetried'])}",
          "/-- default `persistence_backoff`, milliseconds -/",
          f"def defaultBackoffMs : List Nat := [{', '.join(map(str, ad['backoffMs']))}]",
          f"def retryPopsFront : Bool := {_b(ad['retryPopsFront'])}",
          f"def retryRaisesWhenEmpty : Bool := {_b(ad['retryRaisesWhenEmpty'])}",
          "/-- the back-off list that `_retry_store_write` pops from is a copy made inside the call: the budget of one",
          "    write does not depend on earlier writes of the same runtime -/",
          f"def retryCopiesPerCall : Bool := {_b(ad['retryCopiesPerCall'])}",
          "/-- `run_workflow_handler` -/",
          f"def startStatus : String := {_s(ad['startStatus'])}",
          f"def startRetried : Bool := {_b(ad['startRetried'])}", ""]
    L += ["/-- `_IdleReleaseInternalRunAdapter.write_to_event_stream` -/",
          f"def idleClass : String := {_s(idl['idleClass'])}",
          f"def idleStatus : String := {_s(idl['idleStatus'])}",
          f"def idleSetsIdleSince : Bool := {_b(idl['idleSetsIdleSince'])}",
          f"def idleWriteRetried : Bool := {_b(idl['idleRetried'])}",
          f"def idleWriteBeforeForward : Bool := {_b(idl['idleBeforeForward'])}", ""]
    erows = ", ".join(f"({_s(lbl)}, " + ("none" if v is None else f"some ({_s(v[0])}, {_b(v[1])}, {_b(v[2])})") + ")" for lbl, v in ex["exitTable"])
    L += ["/-- `handler_status_from_exit_command`: (command[/discriminating class], some (status, error, result) | none) in source order -/",
          f"def exitTable : List (String × Option (String × Bool × Bool)) := [{erows}]",
          "/-- `_on_server_start` resume query -/",
          f"def resumeStatusIn : List String := {_sl(ex['resumeStatusIn'])}",
          f"def resumeIsIdle : String := {_s(ex['resumeIsIdle'])}", ""]
    mrows = ", ".join(f"({_s(n)}, {_sl(m)})" for n, m in mro)
    L += ["/-- workflows/events.py: class -> linearised bases (itself first) -/",
          f"def mro : List (String × List String) := [{mrows}]", ""]
    L += ["/-- every function of the server package that passes a literal `status=\"running\"` -/",
          f"def runningWriters : List String := {_sl(writers)}", ""]
    L += ["/-- every call of the server package that passes `idle_since=None` (the un-idle write of an external request to an",
          "    active run, and of a reload): (function, literal `status` keyword, \"_\" = no status given) -/",
          "def unidleWrites : List (String × String) := [" + ", ".join(f"({_s(f)}, {_s(l)})" for f, l in unidle) + "]", ""]
    L.append("end GenHandlerStatus")
    return L
