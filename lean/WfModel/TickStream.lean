/-!
M1b (reading a persisted tick log back) — `SqliteWorkflowStore.stream_ticks`
(`llama_agents/server/_store/sqlite/sqlite_workflow_store.py`), the tick source of
`TickPersistenceDecorator.context_from_ticks` / `stream_workflow_ticks` → `replay_ticks_stream`:

    seq_cursor = None
    while True:
        rows = SELECT … FROM ticks WHERE run_id = ? [AND sequence > seq_cursor] ORDER BY sequence LIMIT page
        for row in rows: yield row; seq_cursor = row.sequence
        if len(rows) < page: return

A run's rows are identified by their `sequence` (assigned `MAX(sequence)+1` per run by `append_tick`,
so strictly increasing); `rows` below is the run's sequence column in ascending order.  The loop
has no bound in the code; the model's fuel is `rows.length + 1` queries (enough whenever
`page > 0`; with `page = 0` the code never returns).  `get_ticks` is the unpaginated `SELECT … ORDER BY sequence`
= `rows` itself; the base class' default `stream_ticks` (memory store) iterates `get_ticks`.
Import-free.
-/
namespace Engine.TickStream

/-- the rows a keyset query sees: all of them, or those with `sequence > cursor` -/
def after (cursor : Option Nat) (rows : List Nat) : List Nat :=
  match cursor with
  | none => rows
  | some c => rows.filter (fun s => decide (c < s))

/-- one page: `… ORDER BY sequence LIMIT lim` -/
def fetch (rows : List Nat) (cursor : Option Nat) (lim : Nat) : List Nat :=
  (after cursor rows).take lim

/-- `seq_cursor` after the rows of a page were yielded (unchanged by an empty page) -/
def cursorAfter (cur : Option Nat) : List Nat → Option Nat
  | [] => cur
  | x :: xs => cursorAfter (some x) xs

def loop (page : Nat) (rows : List Nat) : Nat → Option Nat → List Nat
  | 0, _ => []
  | fuel + 1, cur =>
    let got := fetch rows cur page
    if got.length < page then got else got ++ loop page rows fuel (cursorAfter cur got)

/-- everything `stream_ticks` yields, in order -/
def streamTicks (page : Nat) (rows : List Nat) : List Nat :=
  loop page rows (rows.length + 1) none

/-- `get_ticks` -/
def getTicks (rows : List Nat) : List Nat := rows

end Engine.TickStream
