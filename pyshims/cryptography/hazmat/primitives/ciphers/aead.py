"""STAND-IN AEAD with the AESGCM *interface* -- NOT AES-GCM (see cryptography/__init__.py)."""
from __future__ import annotations

from cryptography import _standin
from cryptography.exceptions import InvalidTag  # noqa: F401  (re-exported for convenience)


class AESGCM:
    def __init__(self, key: bytes) -> None:
        if not isinstance(key, (bytes, bytearray)):
            raise TypeError("key must be bytes")
        if len(key) not in (16, 24, 32):
            raise ValueError("AESGCM key must be 128, 192, or 256 bits.")
        self._key = bytes(key)

    @classmethod
    def generate_key(cls, bit_length: int) -> bytes:
        import os

        return os.urandom(bit_length // 8)

    def encrypt(self, nonce: bytes, data: bytes, associated_data: bytes | None) -> bytes:
        self._check_nonce(nonce)
        return _standin.seal(self._key, bytes(nonce), bytes(data), associated_data)

    def decrypt(self, nonce: bytes, data: bytes, associated_data: bytes | None) -> bytes:
        self._check_nonce(nonce)
        return _standin.open_(self._key, bytes(nonce), bytes(data), associated_data)

    @staticmethod
    def _check_nonce(nonce: bytes) -> None:
        if not isinstance(nonce, (bytes, bytearray)):
            raise TypeError("nonce must be bytes")
        if not 8 <= len(nonce) <= 128:
            raise ValueError("Nonce must be between 8 and 128 bytes")
