"""The DBOS half of C26 / C36, as far as it can be executed without `dbos`, `asyncpg`, `sqlalchemy`.

* `row_stream(rng, n)`: random CAS op sequences by several concurrent tasks over several run ids against
  the real `SqliteRunLifecycleLock` (journal/lifecycle.py imported with the name-only `asyncpg` shim) on a
  database created from the package's real migration; every op → model line `db|<run>|<op>|<now>[|<ct>]`
  and the real answer + row read back with sqlite3.
* `dbos_standin(create_row, ...)`: the real `DBOSIdleReleaseDecorator` (idle_release.py imported with the
  name-only `dbos` shim) + the real lock, over a **stand-in inner runtime** (`TickPersistenceDecorator(BasicRuntime)`
  instead of `EventInterceptorDecorator(TickPersistenceDecorator(DBOSRuntime))`); `DBOS.retrieve_workflow_async`
  / `DBOS.delete_workflow_async` are emulated by hooks (await the old control loop / drop its queues).
  Executed for real: the idle announcement → timer → `_release_idle_handler` → `begin_release` path, the
  TickIdleRelease exit of the control loop, `_await_and_mark_released`, `send_event` → `try_begin_resume` →
  `_do_resume` (rebuild from ticks + pending tick).  Not executed: anything DBOS does.
"""
from __future__ import annotations

import asyncio
import os
import random
import sqlite3
import tempfile
from typing import Any

from ..boot import repo_path
from ..vloop import VLoop, run_virtual
from . import stack as STK

T0 = 1000.0
MIGRATION = "packages/llama-agents-dbos/src/llama_agents/dbos/_store/sqlite/migrations/0001_init.sql"


def ms(t: float) -> int:
    return int(round((t - T0) * 1000))


def make_db() -> str:
    fd, p = tempfile.mkstemp(prefix="verif_lc_", suffix=".db")
    os.close(fd)
    sql = open(repo_path(MIGRATION)).read()
    c = sqlite3.connect(p)
    c.executescript(sql)
    c.commit()
    c.close()
    return p


def read_row(db: str, run_id: str) -> str:
    import datetime as _dt

    c = sqlite3.connect(db)
    try:
        r = c.execute("SELECT state, updated_at FROM run_lifecycle WHERE run_id = ?", (run_id,)).fetchone()
    finally:
        c.close()
    if r is None:
        return "row=-"
    t = _dt.datetime.fromisoformat(r[1]).timestamp() - 1_000_000_000
    return f"row={r[0]}@{ms(t)}"


def _patch_clocks() -> Any:
    STK.patch_server_clocks()
    import llama_agents.dbos.journal.lifecycle as LC

    LC.datetime = STK.VDateTime  # type: ignore[attr-defined]
    return LC


def show_result(res: Any) -> str:
    if res is None:
        return "None"
    if res is True:
        return "True"
    if res is False:
        return "False"
    return getattr(res, "value", str(res))


def row_stream(seed: int, n_ops: int, n_runs: int = 3, n_tasks: int = 4) -> dict:
    """random CAS ops by concurrent tasks; returns model op lines and the real answers"""
    LC = _patch_clocks()
    rng = random.Random(seed)
    db = make_db()
    ops: list[str] = []
    impl: list[str] = []
    dist: dict[str, int] = {}
    records: list[dict] = []

    async def main(loop: VLoop) -> None:
        lock = LC.SqliteRunLifecycleLock(db)
        per_task = [[] for _ in range(n_tasks)]
        for k in range(n_ops):
            kind = rng.choices(["create", "begin", "complete", "resume", "resume_ct", "sleep"], [2, 5, 4, 4, 4, 3])[0]
            per_task[rng.randrange(n_tasks)].append((kind, rng.randrange(n_runs), rng.choice([0, 1, 50, 119_999, 120_000, 120_001, 60_000, 240_000])))

        async def worker(items: list) -> None:
            for kind, run, arg in items:
                rid = f"run-{run}"
                if kind == "sleep":
                    await asyncio.sleep(arg / 1000.0)
                    continue
                now = ms(loop.time())
                before = read_row(db, rid)
                ct = None
                if kind == "create":
                    res = await lock.create(rid)
                    ops.append(f"db|{run}|create|{now}")
                elif kind == "begin":
                    res = await lock.begin_release(rid)
                    ops.append(f"db|{run}|begin|{now}")
                elif kind == "complete":
                    res = await lock.complete_release(rid)
                    ops.append(f"db|{run}|complete|{now}")
                elif kind == "resume":
                    res = await lock.try_begin_resume(rid)
                    ops.append(f"db|{run}|resume|{now}|-")
                else:
                    ct = rng.choice([0, 1, 100, 120_000])
                    res = await lock.try_begin_resume(rid, crash_timeout_seconds=ct / 1000.0)
                    ops.append(f"db|{run}|resume|{now}|{ct}")
                impl.append(f"{show_result(res)} {read_row(db, rid)}")
                records.append({"op": kind, "run": run, "now": now, "ct": ct, "before": before, "result": show_result(res),
                                "after": read_row(db, rid)})
                key = f"{kind}->{show_result(res)}"
                dist[key] = dist.get(key, 0) + 1
                await asyncio.sleep(0)

        await asyncio.gather(*[worker(it) for it in per_task])

    try:
        run_virtual(main, start=T0)
    finally:
        for suf in ("", "-wal", "-shm"):
            try:
                os.unlink(db + suf)
            except OSError:
                pass
    # the two-statement form of the model must agree on the same stream
    ops2 = [o.replace("|resume|", "|resume2|") for o in ops]
    return {"ops": ops, "impl": impl, "ops2": ops2, "dist": dist, "records": records}


def _parse_row(r: str) -> tuple[str | None, int]:
    if r == "row=-":
        return None, 0
    st, _, t = r[len("row="):].partition("@")
    return st, int(t)


def row_monitors(records: list[dict], prop: str = "C26") -> list[tuple[str, str]]:
    """the lifecycle state machine, checked on the real lock's answers (no model involved):
    active -> releasing only by begin_release (True iff it was active); releasing -> released only by complete_release;
    released -> active, or releasing -> active after the crash timeout, only by try_begin_resume answering `released`;
    a call that does not win leaves the row alone"""
    out: list[tuple[str, str]] = []
    for r in records:
        st0, u0 = _parse_row(r["before"])
        st1, u1 = _parse_row(r["after"])
        op, res = r["op"], r["result"]
        bad = None
        if op == "begin":
            if (res == "True") != (st0 == "active"):
                bad = f"begin_release answered {res} on a row in state {st0}"
            elif res == "True" and st1 != "releasing":
                bad = f"begin_release won but the row is {st1}"
            elif res == "False" and (st1, u1) != (st0, u0):
                bad = f"begin_release lost but changed the row {r['before']} -> {r['after']}"
        elif op == "complete":
            if st0 == "releasing" and st1 != "released":
                bad = f"complete_release left a releasing row {r['after']}"
            elif st0 != "releasing" and (st1, u1) != (st0, u0):
                bad = f"complete_release changed a row that was not releasing: {r['before']} -> {r['after']}"
        elif op in ("resume", "resume_ct"):
            ct = r.get("ct")
            expired = st0 == "releasing" and ct is not None and (r["now"] - u0) > ct
            if st0 is None or st0 == "active":
                want = "None"
            elif st0 == "released" or expired:
                want = "released"
            else:
                want = "releasing"
            if res != want:
                bad = f"try_begin_resume(crash_timeout={ct} ms) answered {res} on {r['before']} at t={r['now']} (expected {want})"
            elif want == "released" and st1 != "active":
                bad = f"try_begin_resume claimed the resume but the row is {r['after']}"
            elif want != "released" and (st1, u1) != (st0, u0):
                bad = f"try_begin_resume did not claim the resume but changed the row {r['before']} -> {r['after']}"
        elif op == "create":
            if st1 != "active":
                bad = f"create left the row {r['after']}"
        if bad:
            out.append((prop + "/lifecycle_cas:" + op, bad))
    return out


def create_call_sites() -> list[str]:
    from ..gen import lifecycle as G

    return G._create_call_sites([])


def dbos_standin(create_row: bool, tau: float = 0.2, sends: list[tuple[float, int]] | None = None,
                 idle_for: float = 1.0) -> dict:
    """one run on the real DBOSIdleReleaseDecorator over the stand-in inner runtime"""
    LC = _patch_clocks()
    import dbos as DBOS_SHIM
    import llama_agents.dbos.idle_release as DIR

    DIR.datetime = STK.VDateTime  # type: ignore[attr-defined]
    from llama_agents.server._runtime.persistence_runtime import TickPersistenceDecorator
    from llama_agents.server._runtime.server_runtime import ServerRuntimeDecorator
    from llama_agents.server._service import _WorkflowService
    from llama_agents.server._store.abstract_workflow_store import HandlerQuery
    from llama_agents.server._store.memory_workflow_store import MemoryWorkflowStore
    from workflows import Context, Workflow
    from workflows.decorators import step
    from workflows.events import StartEvent, StopEvent
    from workflows.plugins.basic import BasicRuntime

    from .idle import Ext

    sends = sends if sends is not None else [(0.0, 1), (0.05, 99)]
    out: dict[str, Any] = {"lock_calls": [], "ops": [], "impl": [], "timeline": []}
    db = make_db()

    class WF(Workflow):
        @step
        async def a(self, ctx: Context, ev: StartEvent) -> Ext | None:
            await ctx.store.set("seen", [])
            return None

        @step
        async def b(self, ctx: Context, ev: Ext) -> StopEvent | None:
            async with ctx.store.edit_state() as st:
                st["seen"] = list(st.get("seen", [])) + [ev.n]
            if ev.n == 99:
                return StopEvent(result=list(await ctx.store.get("seen")))
            return None

    async def main(loop: VLoop) -> None:
        lock = LC.SqliteRunLifecycleLock(db)
        real = {n: getattr(lock, n) for n in ("create", "begin_release", "complete_release", "try_begin_resume")}

        def wrap(name: str, opname: str) -> Any:
            async def w(run_id: str, *a: Any, **kw: Any) -> Any:
                now = ms(loop.time())
                res = await real[name](run_id, *a, **kw)
                ct = kw.get("crash_timeout_seconds")
                line = f"db|0|{opname}|{now}" + ("" if opname != "resume" else ("|-" if ct is None else f"|{int(round(ct * 1000))}"))
                out["ops"].append(line)
                out["impl"].append(f"{show_result(res)} {read_row(db, run_id)}")
                out["lock_calls"].append((name, show_result(res), now))
                return res
            return w

        lock.create = wrap("create", "create")  # type: ignore[method-assign]
        lock.begin_release = wrap("begin_release", "begin")  # type: ignore[method-assign]
        lock.complete_release = wrap("complete_release", "complete")  # type: ignore[method-assign]
        lock.try_begin_resume = wrap("try_begin_resume", "resume")  # type: ignore[method-assign]

        store = MemoryWorkflowStore()
        basic = BasicRuntime()
        tp = TickPersistenceDecorator(basic, store)
        dec = DIR.DBOSIdleReleaseDecorator(tp, store=store, idle_timeout=tau, lifecycle_lock=lambda: lock)
        rt = ServerRuntimeDecorator(dec, store=store)
        svc = _WorkflowService(rt, store)
        wf = WF(timeout=None)
        wf._switch_workflow_name("wf")
        wf._switch_runtime(rt)
        await svc.start()

        class Handle:
            def __init__(self, rid: str) -> None:
                self.rid = rid

            async def get_result(self) -> Any:
                q = basic._queues.get(self.rid)
                if q is not None:
                    return await q.complete
                return None

        async def retrieve(run_id: str) -> Any:
            return Handle(run_id)

        async def purge(run_id: str) -> None:
            basic._queues.pop(run_id, None)

        DBOS_SHIM.HOOKS["retrieve_workflow_async"] = retrieve
        DBOS_SHIM.HOOKS["delete_workflow_async"] = purge
        released_ticks: list[str] = []
        from workflows.plugins import basic as B

        orig_esend = B.ExternalAsyncioAdapter.send_event

        async def esend(self: Any, tick: Any) -> None:
            released_ticks.append(type(tick).__name__)
            await orig_esend(self, tick)

        B.ExternalAsyncioAdapter.send_event = esend  # type: ignore[method-assign]
        try:
            hd = await svc.start_workflow(wf, "h1", start_event=StartEvent())
            rid = hd.run_id
            first_loop = basic._queues[rid].complete
            if create_row:
                await lock.create(rid)  # the hook the production code lacks
            await asyncio.sleep(idle_for)

            async def snap(tag: str) -> None:
                h = (await store.query(HandlerQuery(run_id_in=[rid])))[0]
                out["timeline"].append({"tag": tag, "t": ms(loop.time()), "row": read_row(db, rid), "first_loop_done": first_loop.done(),
                                        "idle_since_set": h.idle_since is not None, "status": h.status,
                                        "result": getattr(h.result, "result", None) if h.result is not None else None})

            await snap("after_idle")
            for dt, n in sends:
                await asyncio.sleep(dt)
                await svc.send_event("h1", Ext(n=n))
                await asyncio.sleep(0.02)
                await snap(f"after_send_{n}")
            out["idle_release_ticks"] = sum(1 for x in released_ticks if x == "TickIdleRelease")
        finally:
            B.ExternalAsyncioAdapter.send_event = orig_esend  # type: ignore[method-assign]
            DBOS_SHIM.HOOKS.clear()

    try:
        run_virtual(main, start=T0)
    finally:
        for suf in ("", "-wal", "-shm"):
            try:
                os.unlink(db + suf)
            except OSError:
                pass
    return out
