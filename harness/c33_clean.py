"""C33, extension: metadata cleaning (`clean_crd_metadata` / `clean_secret_metadata`) and the backup service's path
(`BackupService._perform_backup` / `_perform_restore`) on the REAL code; used by props/c33.py.

* `run_clean`: correspondence (driver op `clean`) + monitors on one document;
* `Service`: the real `manage_api/backup_service.py` running against an in-memory cluster (its three collaborators --
  `k8s_client`, `settings`, `backup.storage` -- need kubernetes / pydantic-settings / botocore, which the sandbox does not
  have: name-only stand-ins are put into `sys.modules` before the module is imported; the service code itself, the archive
  layer and `llama_agents.core.schema` are the real files);
* `run_service`: backup -> look at the stored archive -> wipe -> restore (also under another password).
"""
from __future__ import annotations

import asyncio
import copy
import json
import os
import sys
import types
from typing import Any

from . import boot as _boot

# what archive.py's own comments promise (not the constants: an independent statement of them)
DOC_SYSTEM_PREFIXES = ("kubectl.kubernetes.io/", "deploy.llamaindex.ai/")
DOC_CLUSTER_FIELDS = ("resourceVersion", "uid", "creationTimestamp", "generation", "managedFields", "selfLink", "deletionTimestamp")
DOC_USER_FIELDS = ("name", "namespace", "labels")
DOC_USER_FIELDS_SECRET = DOC_USER_FIELDS + ("finalizers",)  # "_SECRET_METADATA_KEEP = {..., finalizers}"

META_POOL = ["name", "namespace", "labels", "annotations", "finalizers", "uid", "resourceVersion", "creationTimestamp", "generation",
             "managedFields", "ownerReferences", "selfLink", "deletionTimestamp", "deletionGracePeriodSeconds", "generateName",
             "Name", "names", "annotation", "label", "", "status"]
ANN_POOL = ["kubectl.kubernetes.io/last-applied-configuration", "kubectl.kubernetes.io/restartedAt", "deploy.llamaindex.ai/display-name",
            "deploy.llamaindex.ai/", "deploy.llamaindex.ai", "kubectl.kubernetes.io", "xkubectl.kubernetes.io/y", "Kubectl.kubernetes.io/y",
            "description", "team", "example.com/deploy.llamaindex.ai/x", "", "k/", "deploy.llamaindex.ai/build-id", "kubectl.kubernetes.io//",
            " kubectl.kubernetes.io/x", "deploy.llamaindex.aI/x"]
TOP_POOL = ["apiVersion", "kind", "spec", "status", "data", "type", "Status", "statuses", "stringData", "immutable", ""]


def cps(s: str) -> str:
    return ",".join(str(ord(c)) for c in s)


def gen_clean_case(rng: Any, gen_value: Any) -> dict:
    doc: dict[str, Any] = {}
    for k in rng.sample(TOP_POOL, rng.randint(0, 6)):
        doc[k] = gen_value(rng, 2)
    if rng.random() < 0.7:
        doc["status"] = rng.choice([{"phase": "Running"}, None, "ok", {}, gen_value(rng, 2)])
    if rng.random() < 0.92:
        md: dict[str, Any] = {}
        for k in rng.sample(META_POOL, rng.randint(0, 9)):
            if k == "annotations":
                continue
            md[k] = rng.choice(["web", "app-1", 7, None, {"app": "x"}, ["f"], gen_value(rng, 2)])
        if rng.random() < 0.85:
            md["name"] = rng.choice(["web", "api", "x-secret", "a" * 63, "unknown"])
        r = rng.random()
        if r < 0.75:
            n = rng.choice([0, 1, 1, 2, 3, 5, 8])
            keys = rng.sample(ANN_POOL, min(n, len(ANN_POOL)))
            if rng.random() < 0.25:  # only system annotations: the key has to go altogether
                keys = [k for k in keys if k.startswith(DOC_SYSTEM_PREFIXES)] or ["kubectl.kubernetes.io/x"]
            md["annotations"] = {k: rng.choice(["v", "", "{}", "日本", 1]) for k in keys}
        doc["metadata"] = md
    return {"kind": "clean", "which": rng.choice(["crd", "crd", "secret"]), "doc": doc}


def clean_corpus() -> list[dict]:
    api = {"apiVersion": "deploy.llamaindex.ai/v1", "kind": "LlamaDeployment",
           "metadata": {"name": "web", "namespace": "default", "uid": "0b1c", "resourceVersion": "812", "generation": 6,
                        "creationTimestamp": "2025-01-01T00:00:00Z", "labels": {"app": "web"}, "finalizers": ["deploy.llamaindex.ai/cleanup"],
                        "managedFields": [{"manager": "kubectl"}], "selfLink": "/x", "deletionTimestamp": None,
                        "annotations": {"kubectl.kubernetes.io/last-applied-configuration": "{}", "team": "search",
                                        "deploy.llamaindex.ai/display-name": "Web"}},
           "spec": {"projectId": "p", "status": "keep-me", "metadata": {"uid": "not-cluster-metadata"}}, "status": {"phase": "Running"}}
    only_sys = copy.deepcopy(api)
    only_sys["metadata"]["annotations"] = {"kubectl.kubernetes.io/x": "1", "deploy.llamaindex.ai/y": "2"}
    no_meta = {"apiVersion": "v1", "kind": "Secret", "data": {"K": "dg=="}, "status": None}
    empty_anns = {"metadata": {"name": "n", "annotations": {}}, "spec": {}}
    cleaned_twice = {"apiVersion": "v1", "metadata": {"name": "n", "annotations": {"team": "x"}}, "spec": {"a": 1}}
    res = []
    for d in (api, only_sys, no_meta, empty_anns, cleaned_twice, {}, {"metadata": {}}, {"status": 1, "metadata": {"status": 2, "name": "s"}}):
        for which in ("crd", "secret"):
            res.append({"kind": "clean", "which": which, "doc": copy.deepcopy(d)})
    return res


def _doc_fields(doc: dict, tok: Any) -> str:
    top = ";".join(cps(k) + ":" + str(tok(v)) for k, v in sorted(doc.items(), key=lambda kv: [ord(c) for c in kv[0]]) if k != "metadata")
    if "metadata" not in doc:
        return top + "|-|-"
    md = doc["metadata"]
    fields = ";".join(cps(k) + ":" + str(tok(v)) for k, v in sorted(md.items(), key=lambda kv: [ord(c) for c in kv[0]]) if k != "annotations")
    if "annotations" not in md:
        return top + "|=" + fields + "|-"
    anns = ";".join(cps(k) + ":" + str(tok(v)) for k, v in sorted(md["annotations"].items(), key=lambda kv: [ord(c) for c in kv[0]]))
    return top + "|=" + fields + "|=" + anns


def writer_name(cr: dict) -> Any:
    """the expression create_backup_archive names a deployment's members after"""
    return cr.get("metadata", {}).get("name", "unknown")


def run_clean(I: Any, case: dict, out: Any, ops: list[str], impl: list[str], ctx: list[Any], Tokens: Any, canon: Any, Violation: Any) -> None:
    which = case["which"]
    fn = I.archive.clean_crd_metadata if which == "crd" else I.archive.clean_secret_metadata
    raw = case["doc"]
    toks = Tokens()
    out.evaluations += 1
    out.count("clean:" + which)
    md = raw.get("metadata")
    out.count("clean:metadata:" + ("absent" if md is None else "present"))
    if isinstance(md, dict):
        a = md.get("annotations")
        out.count("clean:annotations:" + ("absent" if a is None else "empty" if not a else
                                          "system-only" if all(k.startswith(DOC_SYSTEM_PREFIXES) for k in a) else
                                          "mixed" if any(k.startswith(DOC_SYSTEM_PREFIXES) for k in a) else "user-only"))
    ops.append("clean|" + which + "|" + _doc_fields(raw, toks.tok))
    ctx.append(case)
    work = copy.deepcopy(raw)
    try:
        res = fn(work)
    except Exception as e:
        impl.append("raise:" + type(e).__name__)
        out.violations.append(Violation(f"C33/clean[raises:{type(e).__name__},{which}]", f"cleaning raised {e!r}", case))
        return
    if not isinstance(res, dict):
        impl.append("returned:" + type(res).__name__)
        out.violations.append(Violation(f"C33/clean[returns:{type(res).__name__},{which}]", "cleaning did not return the document", case))
        return
    impl.append(_doc_fields(res, toks.find))
    if res != raw:
        out.nontrivial(("clean", canon(case)))
    # ---- monitors: what the module's docstrings promise, stated without its constants
    bad: list[tuple[str, str]] = []
    if writer_name(res) != writer_name(raw):
        bad.append(("name_lost", f"the archive member name changes from {writer_name(raw)!r} to {writer_name(res)!r}"))
    try:
        again = fn(copy.deepcopy(res))
        if canon(again) != canon(res):
            bad.append(("not_idempotent", f"cleaning the cleaned document changes it again: {again!r:.200}"))
    except Exception as e:
        bad.append(("not_idempotent", f"cleaning the cleaned document raises {e!r}"))
    for k, v in raw.items():
        if k not in ("status", "metadata") and (k not in res or canon(res[k]) != canon(v)):
            bad.append((f"touched:{k if k in TOP_POOL else 'other'}", f"top-level key {k!r} was {'dropped' if k not in res else 'changed'}"))
    for k in res:
        if k not in raw:
            bad.append(("invented", f"top-level key {k!r} appeared"))
    if "status" in res:
        bad.append(("left:status", "status is still there"))
    if ("metadata" in res) != ("metadata" in raw):
        bad.append(("metadata_presence", "the metadata key appeared / disappeared"))
    rmd, omd = res.get("metadata"), raw.get("metadata")
    if isinstance(rmd, dict) and isinstance(omd, dict):
        for k in DOC_CLUSTER_FIELDS:
            if k in rmd:
                bad.append((f"left:{k}", f"cluster-specific metadata.{k} is still there"))
        for k in (DOC_USER_FIELDS_SECRET if which == "secret" else DOC_USER_FIELDS):
            if k in omd and (k not in rmd or canon(rmd[k]) != canon(omd[k])):
                bad.append((f"dropped:{k}", f"metadata.{k} was {'dropped' if k not in rmd else 'changed'}"))
        for k, v in rmd.items():
            if k != "annotations" and (k not in omd or canon(omd[k]) != canon(v)):
                bad.append(("value_changed", f"metadata.{k} is not what it was"))
        oa, ra = omd.get("annotations"), rmd.get("annotations")
        if isinstance(oa, dict):
            user = {k: v for k, v in oa.items() if not k.startswith(DOC_SYSTEM_PREFIXES)}
            if ra is None and user:
                bad.append(("dropped:annotations", f"user annotations {sorted(user)!r:.120} were dropped"))
            if isinstance(ra, dict):
                if not ra:
                    bad.append(("left:empty_annotations", "an empty annotations mapping is left"))
                if canon(ra) != canon(user):
                    sysleft = [k for k in ra if k.startswith(DOC_SYSTEM_PREFIXES)]
                    bad.append(("left:system_annotation" if sysleft else "dropped:user_annotation",
                                f"annotations {sorted(ra)!r:.160} instead of {sorted(user)!r:.160}"))
        elif ra is not None:
            bad.append(("invented", "annotations appeared"))
    for what, text in bad[:1]:
        out.violations.append(Violation(f"C33/clean[{what},{which}]", text + f" (document {raw!r:.300})", case))


# --------------------------------------------------------------------------
# the real BackupService on an in-memory cluster


class Cluster:
    def __init__(self) -> None:
        self.crds: list[dict] = []
        self.secrets: dict[str, dict[str, str]] = {}
        self.applied: list[tuple[str, str]] = []


class Store:
    def __init__(self) -> None:
        self.blobs: dict[str, bytes] = {}

    async def upload(self, backup_id: str, data: bytes) -> None:
        self.blobs[backup_id] = data

    async def download(self, backup_id: str) -> bytes:
        return self.blobs[backup_id]


class Service:
    """imports the real backup_service module once, wired to `self.cluster` / `self.settings`"""

    def __init__(self) -> None:
        cp = "llama_agents.control_plane"
        self.cluster = Cluster()
        cl = self
        k8s = types.ModuleType(cp + ".k8s_client")

        async def get_all_deployment_crds() -> list[dict]:
            return copy.deepcopy(cl.cluster.crds)

        async def get_secret_data(name: str) -> Any:
            return copy.deepcopy(cl.cluster.secrets.get(name))

        def get_namespace() -> str:
            return "ns-1"

        async def get_deployment_crd_raw(name: str) -> Any:
            for c in cl.cluster.crds:
                if c.get("metadata", {}).get("name") == name:
                    return copy.deepcopy(c)
            return None

        async def apply_secret(name: str, data: dict) -> None:
            cl.cluster.secrets[name] = dict(data)
            cl.cluster.applied.append(("secret", name))

        async def apply_deployment_crd(cr: dict) -> None:
            n = cr.get("metadata", {}).get("name")
            cl.cluster.crds = [c for c in cl.cluster.crds if c.get("metadata", {}).get("name") != n] + [copy.deepcopy(cr)]
            cl.cluster.applied.append(("crd", n))

        async def delete_deployment_crd(name: str) -> None:
            cl.cluster.crds = [c for c in cl.cluster.crds if c.get("metadata", {}).get("name") != name]

        for f in (get_all_deployment_crds, get_secret_data, get_namespace, get_deployment_crd_raw, apply_secret, apply_deployment_crd,
                  delete_deployment_crd):
            setattr(k8s, f.__name__, f)
        st = types.ModuleType(cp + ".settings")

        class _Settings:
            backup_encryption_password: Any = None
            s3_bucket = None

        self.settings = _Settings()
        st.settings = self.settings  # type: ignore[attr-defined]
        sto = types.ModuleType(cp + ".backup.storage")
        sto.BackupInfo = type("BackupInfo", (), {})  # type: ignore[attr-defined]
        sto.S3BackupStorage = type("S3BackupStorage", (), {})  # type: ignore[attr-defined]
        self.ids = 0

        def generate_backup_id() -> str:
            self.ids += 1
            return "backup-%d" % self.ids

        sto.generate_backup_id = generate_backup_id  # type: ignore[attr-defined]
        saved = {k: sys.modules.get(k) for k in (cp + ".k8s_client", cp + ".settings", cp + ".backup.storage")}
        sys.modules[cp + ".k8s_client"], sys.modules[cp + ".settings"], sys.modules[cp + ".backup.storage"] = k8s, st, sto
        # attribute access `from .. import k8s_client` goes through the parent package object
        parent = sys.modules[cp]
        bparent = sys.modules[cp + ".backup"]
        old_attr = (getattr(parent, "k8s_client", None), getattr(parent, "settings", None), getattr(bparent, "storage", None))
        parent.k8s_client, parent.settings, bparent.storage = k8s, st, sto  # type: ignore[attr-defined]
        try:
            _boot._ns(cp + ".manage_api", [os.path.join(_boot.SRC["control_plane"], "llama_agents", "control_plane", "manage_api")])
            import importlib

            self.mod = importlib.import_module(cp + ".manage_api.backup_service")
            from llama_agents.core import schema

            self.schema = schema
        finally:
            for k, v in saved.items():
                if v is None:
                    sys.modules.pop(k, None)
                else:
                    sys.modules[k] = v
            for obj, name, v in ((parent, "k8s_client", old_attr[0]), (parent, "settings", old_attr[1]), (bparent, "storage", old_attr[2])):
                if v is None:
                    try:
                        delattr(obj, name)
                    except AttributeError:
                        pass
                else:
                    setattr(obj, name, v)
        self.store = Store()
        self.svc = self.mod.BackupService(self.store)

    def run(self, coro: Any) -> Any:
        loop = asyncio.new_event_loop()
        try:
            return loop.run_until_complete(coro)
        finally:
            loop.close()


_SERVICE_SINGLETON: list[Service] = []


def get_service() -> Service:
    """one per process: the service module is imported once and stays wired to the collaborators it was imported with"""
    if not _SERVICE_SINGLETON:
        _SERVICE_SINGLETON.append(Service())
    return _SERVICE_SINGLETON[0]


CLUSTER_NAMES = ["web", "api", "db", "a", "z9", "app-1", "my-secret", "secret", "x-secret", "meta", "x-meta", "yaml", "json", "enc", "manifest",
                 "unknown", "a" * 63, "web-secrets", "x-secrets", "secrets", "n0-0n"]


def gen_service_case(rng: Any, gen_value: Any, gen_secret_map: Any, pw_pool: list) -> dict:
    names = rng.sample(CLUSTER_NAMES, rng.choice([0, 1, 2, 2, 3, 4, 6]))
    crds = []
    secrets: dict[str, dict] = {}
    for i, n in enumerate(names):
        md: dict[str, Any] = {"name": n, "namespace": "ns-1", "uid": "uid-%d" % i, "resourceVersion": str(rng.randrange(10 ** 6)),
                              "creationTimestamp": "2025-01-01T00:00:00Z"}
        if rng.random() < 0.85:
            md["generation"] = rng.choice([1, 2, 3, 17, 2 ** 40])
        if rng.random() < 0.5:
            md["labels"] = {"app": n}
        if rng.random() < 0.6:
            md["annotations"] = {k: "v" for k in rng.sample(ANN_POOL, rng.randint(0, 4))}
        if rng.random() < 0.3:
            md["managedFields"] = [{"manager": "kubectl", "time": "t"}]
        crd = {"apiVersion": "deploy.llamaindex.ai/v1", "kind": "LlamaDeployment", "metadata": md,
               "spec": {"projectId": "proj-%d" % rng.randrange(3), "image": "r/%s:1" % n, "extra": gen_value(rng, 2)}}
        if rng.random() < 0.7:
            crd["status"] = {"phase": rng.choice(["Running", "Pending"]), "observedGeneration": 1}
        crds.append(crd)
        if rng.random() < 0.6:
            secrets[n + "-secrets"] = gen_secret_map(rng, i)
    if rng.random() < 0.3:
        secrets["stray-secrets"] = gen_secret_map(rng, 98)
    pw = rng.choice(pw_pool[:5]) if rng.random() < 0.75 else None
    return {"kind": "service", "crds": crds, "secrets": secrets, "pw": pw,
            "other_pw": rng.choice([p for p in pw_pool[:6] + ["zz"] if p != pw])}


def service_corpus() -> list[dict]:
    def crd(n: str, gen: Any = 3, **md: Any) -> dict:
        m = dict({"name": n, "namespace": "ns-1", "uid": "u-" + n, "resourceVersion": "9", "creationTimestamp": "t"}, **md)
        if gen is not None:
            m["generation"] = gen
        return {"apiVersion": "deploy.llamaindex.ai/v1", "kind": "LlamaDeployment", "metadata": m, "spec": {"projectId": "p", "image": n},
                "status": {"phase": "Running"}}

    return [
        {"kind": "service", "crds": [crd("web", annotations={"kubectl.kubernetes.io/last-applied-configuration": "{}", "team": "a"}), crd("db", None)],
         "secrets": {"web-secrets": {"API_KEY": "S3CR3T000031x0000"}, "stray-secrets": {"K": "S3CR3T000032x0000"}}, "pw": "pw", "other_pw": "pW"},
        {"kind": "service", "crds": [crd("web"), crd("web-secrets"), crd("secrets", 2 ** 40)],
         "secrets": {"web-secrets": {"API_KEY": "S3CR3T000033x0000"}, "web-secrets-secrets": {"API_KEY": "S3CR3T000034x0001"}}, "pw": None, "other_pw": "x"},
        {"kind": "service", "crds": [], "secrets": {}, "pw": "pw", "other_pw": None},
        {"kind": "service", "crds": [crd("app")], "secrets": {"app-secrets": {"API_KEY": "S3CR3T000035x0000"}}, "pw": "", "other_pw": "x"},
    ]


def run_service(I: Any, S: Service, case: dict, out: Any, canon: Any, Violation: Any, pw_class: Any) -> None:
    pw, crds, secrets = case["pw"], case["crds"], case["secrets"]
    pc = pw_class(pw)
    out.evaluations += 1
    out.count("service:pw:" + pc)
    out.count(f"service:deployments:{len(crds)}")

    def fail(what: str, text: str) -> None:
        out.violations.append(Violation(f"C33/service_roundtrip[{what},pw={pc}]", text, case))

    names = [c["metadata"]["name"] for c in crds]
    paired = {n: secrets[n + "-secrets"] for n in names if n + "-secrets" in secrets}
    S.cluster = Cluster()
    S.cluster.crds, S.cluster.secrets = copy.deepcopy(crds), copy.deepcopy(secrets)
    S.settings.backup_encryption_password = pw
    resp = S.run(S.svc.create_backup())
    if resp.status != "completed":
        return fail("backup_fails", f"create_backup: {resp.status} {resp.error}")
    data = S.store.blobs[resp.backup_id]
    if canon(S.cluster.crds) != canon(crds) or canon(S.cluster.secrets) != canon(secrets):
        return fail("backup_changes_cluster", "taking the backup changed the cluster")
    # what the archive restores to (the observation point of the property: BackupContents)
    try:
        contents = I.archive.read_backup_archive(data, pw)
    except Exception as e:
        return fail("archive_unreadable", f"the stored archive cannot be read back: {e!r}")
    exp_cr = {n: I.archive.clean_crd_metadata(copy.deepcopy(c)) for n, c in zip(names, crds)}
    got = sorted((e.name, canon(e.cr), canon(e.secret), e.generation) for e in contents.entries)
    exp = sorted((n, canon(exp_cr[n]), canon(paired.get(n)), c["metadata"].get("generation")) for n, c in zip(names, crds))
    if got != exp:
        what = ("names" if [g[0] for g in got] != [x[0] for x in exp] else "resource" if [g[1] for g in got] != [x[1] for x in exp] else
                "secret" if [g[2] for g in got] != [x[2] for x in exp] else "generation")
        d = next(((g, x) for g, x in zip(got, exp) if g != x), (got, exp))
        return fail(what, f"the stored archive restores {d[0]!r:.300} where the cluster had {d[1]!r:.300}")
    if paired or any(e[3] is not None for e in exp):
        out.nontrivial(("service", canon(case)))
    # restore into an empty cluster under another password: nothing may be applied when a secret is in the archive
    if pw is not None and paired:
        S.cluster = Cluster()
        S.settings.backup_encryption_password = case["other_pw"]
        r = S.run(S.svc.restore_backup(S.schema.RestoreRequest(backup_id=resp.backup_id)))
        out.count("service:other_password:" + r.status)
        if r.status != "failed" or S.cluster.secrets or S.cluster.crds:
            return fail(f"other_password_restores,reader={pw_class(case['other_pw'])}",
                        f"restore under password {case['other_pw']!r} of a backup taken under {pw!r}: status {r.status}, "
                        f"applied {S.cluster.applied!r:.200}")
    # restore into an empty cluster under the same password
    S.cluster = Cluster()
    S.settings.backup_encryption_password = pw
    r = S.run(S.svc.restore_backup(S.schema.RestoreRequest(backup_id=resp.backup_id)))
    if r.status != "completed" or any(x.action != "created" for x in r.results):
        return fail("restore_fails", f"restore: {r.status} {r.error} {[(x.name, x.action, x.error) for x in r.results]!r:.300}")
    now = {c.get("metadata", {}).get("name"): c for c in S.cluster.crds}
    if sorted(now) != sorted(names) or len(S.cluster.crds) != len(names):
        return fail("restored_names", f"cluster after restore has {sorted(now)!r:.200}, had {sorted(names)!r:.200}")
    for n in names:
        if canon(now[n]) != canon(exp_cr[n]):
            return fail("restored_resource", f"deployment {n!r} after restore: {now[n]!r:.300}; cleaned original: {exp_cr[n]!r:.300}")
        if writer_name(now[n]) != n:
            return fail("restored_names", f"deployment {n!r} came back named {writer_name(now[n])!r}")
    want = {n + "-secrets": v for n, v in paired.items()}
    if canon(S.cluster.secrets) != canon(want):
        return fail("restored_secrets", f"secrets after restore: {sorted(S.cluster.secrets)!r:.200}, paired secrets before: {sorted(want)!r:.200}")
