import WfModel.KeyedLock
/-!
# Specification for M6: a per-key FIFO ticket lock with cancellation

What `KeyedLock` over `asyncio.Lock` is supposed to be, with the wake-up
bookkeeping removed: per key, at most one holder and a FIFO queue of waiters.
There are no futures and no `_wake_up_first`: whether a waiter may enter is
decided by its position alone (head of the queue while nobody holds the lock).
A waiter is `waiting`, `cancelled` (cancelled while it could not enter yet), or
`grantCancelled` (cancelled while it was the one entitled to enter: it still
blocks newcomers' fast path until its task has run, as `fut.cancelled()` is
false for a future that has its result).  No reference counts, no `_locks`
entry: absent = nobody holds and nobody queues.

`absK` maps a state of the implementation model to a state of the specification;
`WfProofs/KeyedLockRefine.lean` proves that every action of the implementation
model is the same action of the specification (and is enabled in one iff in the other).
-/
namespace KeyedLock

inductive TW where
  | waiting | cancelled | grantCancelled
  deriving DecidableEq, Repr

structure TSt where
  holder : Option Nat := none
  queue : List (Nat × TW) := []
  deriving DecidableEq, Repr

def Fut.abs : Fut → TW
  | .pending => .waiting | .woken => .waiting | .cancelled => .cancelled | .wokenCancelled => .grantCancelled

def absW (w : Nat × Fut) : Nat × TW := (w.1, w.2.abs)

/-- abstraction function: forget `_refs`, the `_locks` entry, `_locked` and the future states -/
def absK (st : KeySt) : TSt :=
  ⟨st.inside.head?, match st.lock with | none => [] | some l => l.waiters.map absW⟩

def tfind (a : Nat) : List (Nat × TW) → Option TW
  | [] => none
  | w :: r => if w.1 = a then some w.2 else tfind a r

def tremove (a : Nat) : List (Nat × TW) → List (Nat × TW)
  | [] => []
  | w :: r => if w.1 = a then r else w :: tremove a r

def tset (a : Nat) (f : TW) : List (Nat × TW) → List (Nat × TW)
  | [] => []
  | w :: r => if w.1 = a then (a, f) :: r else w :: tset a f r

/-- `a` is at the head of the queue -/
def thead (a : Nat) : List (Nat × TW) → Bool
  | [] => false
  | w :: _ => w.1 == a

/-- `a` may enter now: nobody holds the lock and `a` is first in line -/
def TSt.entitled (t : TSt) (a : Nat) : Bool := t.holder.isNone && thead a t.queue

/-- one action of the ticket lock; `none` = not enabled -/
def tstep (t : TSt) : KAct → Option TSt
  | .enter a =>
    if t.holder == some a || (tfind a t.queue).isSome then none
    else if t.holder.isNone && t.queue.all (fun w => w.2 == .cancelled) then some { t with holder := some a }
    else some { t with queue := t.queue ++ [(a, .waiting)] }
  | .cancel a =>
    match tfind a t.queue with
    | some .waiting =>
      some { t with queue := tset a (if t.entitled a then .grantCancelled else .cancelled) t.queue }
    | _ => some t
  | .resume a =>
    match tfind a t.queue with
    | none => none
    | some .waiting => if t.entitled a then some ⟨some a, tremove a t.queue⟩ else none
    | some _ => some { t with queue := tremove a t.queue }
  | .exit a => if t.holder == some a then some { t with holder := none } else none

def tstepD (t : TSt) (x : KAct) : TSt :=
  match tstep t x with
  | some t' => t'
  | none => t

/-- the specification run for key `k`: only the actions on `k` matter -/
def specRun (k : Nat) (acts : List Act) : TSt :=
  ((acts.filter fun x => x.key == k).map (·.act)).foldl tstepD {}

end KeyedLock
