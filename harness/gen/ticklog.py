"""The recording discipline of the tick log -> lean/WfModel/GenTickLog.lean  (property C11).

Re-read from /repo's current sources on every run (`ast`, no import of the code):

* `runtime/control_loop.py`
  - `_ControlLoopRunner._process_tick`: the order of its top-level statements (clock read, reduction assigned to
    `self.state`, `adapter.on_tick(tick)`, the clean-up guarded by the exit commands, the command loop, `after_tick`), that
    the reduction sits in a `try` whose handler re-raises (a reduction that raises records nothing), that `on_tick`
    receives the very tick that was reduced, and that `on_tick` is awaited nowhere else in the module;
  - every assignment to `self.state` of `_ControlLoopRunner`: (method, what is assigned) — `__init__`: the `init_state`
    parameter, `run`: `rewind_in_progress(self.state, …)`, `_process_tick`: `_reduce_tick(tick, self.state, …)`;
  - `run`: the tick handed to `_process_tick` is `self.tick_buffer.pop(0)` (FIFO), `_process_tick` is called nowhere else,
    and the rewind precedes the loop;
  - `rebuild_state_from_ticks`: rewinds the state it is given first, one `_reduce_tick` per tick of `ticks` in order, no
    `break`/`continue`/`return` inside the loop, the commands of both are dropped, both clocks are `time.time()`;
* `plugins/basic.py`
  - `InternalAsyncioAdapter.on_tick` is `self._queues.ticks.append(tick)` and nothing else; `ticks` is assigned once
    (`[]`, in `AsyncioAdapterQueues.__init__`) and mutated nowhere else in the module; `replay()` of both adapters
    returns `self._queues.ticks`; `init_state` of both adapters returns `self._queues.init_state`, which is assigned
    once, from the constructor argument; `run_workflow` hands the same `init_state` to the queues and to the run function;
* `context/external_context.py`
  - `_state` = `rebuild_state_from_ticks(<snapshottable>.init_state, self._tick_log)`, `_tick_log` = `<snapshottable>.replay()`;
  - `running_steps` = `[step for step in state.workers.keys() if state.workers[step].in_progress]` with `state = self._state`;
  - `to_dict` serialises `self._state` (`to_serialized`) and nothing else of the broker.

`WfProps/C11.lean` (`C11_source_shape`) pins these to what `WfModel/Runner.lean` (`Runner.step … .drain`, `Runner.init`) and
`WfModel/Replay.lean` (`replayTicks`) do; a sentinel (`"<missing>"`, 999, false) is emitted when a shape is not found.
"""
from __future__ import annotations

import ast

from ..boot import repo_path

LEAN_MODULE = "GenTickLog"
BASE = "packages/llama-index-workflows/src/workflows/"
LOOP = BASE + "runtime/control_loop.py"
BASIC = BASE + "plugins/basic.py"
EXT = BASE + "context/external_context.py"


def _lean_str(s: str) -> str:
    return '"' + s.replace("\\", "\\\\").replace('"', '\\"') + '"'


def _lstr(xs: list[str]) -> str:
    return "[" + ", ".join(_lean_str(x) for x in xs) + "]"


def _b(v: bool) -> str:
    return "true" if v else "false"


def _call_name(n: ast.AST) -> str | None:
    if isinstance(n, ast.Await):
        n = n.value
    if isinstance(n, ast.Call):
        f = n.func
        if isinstance(f, ast.Name):
            return f.id
        if isinstance(f, ast.Attribute):
            return f.attr
    return None


def _find_def(tree: ast.AST, name: str, cls: str | None = None) -> ast.AST | None:
    for n in ast.walk(tree):
        if cls is not None:
            if isinstance(n, ast.ClassDef) and n.name == cls:
                for f in n.body:
                    if isinstance(f, (ast.FunctionDef, ast.AsyncFunctionDef)) and f.name == name:
                        return f
        elif isinstance(n, (ast.FunctionDef, ast.AsyncFunctionDef)) and n.name == name:
            return n
    return None


def _is_self_attr(n: ast.AST, attr: str) -> bool:
    return isinstance(n, ast.Attribute) and n.attr == attr and isinstance(n.value, ast.Name) and n.value.id == "self"


def _body(fn: ast.AST) -> list[ast.stmt]:
    """statements of a function without its docstring"""
    b = list(getattr(fn, "body", []))
    if b and isinstance(b[0], ast.Expr) and isinstance(b[0].value, ast.Constant) and isinstance(b[0].value.value, str):
        b = b[1:]
    return b


def _state_assign(st: ast.stmt) -> str | None:
    """`self.state = X` or `self.state, _ = f(...)`: the name of what is assigned (a call's function or a plain name)"""
    if not isinstance(st, ast.Assign) or len(st.targets) != 1:
        return None
    t = st.targets[0]
    hit = _is_self_attr(t, "state") or (isinstance(t, ast.Tuple) and t.elts and _is_self_attr(t.elts[0], "state"))
    if not hit:
        return None
    v = st.value
    if isinstance(v, ast.Name):
        return v.id
    return _call_name(v) or "<expr>"


def _label_process_tick(st: ast.stmt) -> str:
    """one label per top-level statement of `_process_tick`"""
    if isinstance(st, ast.Try):
        inner = [s for s in st.body]
        names = []
        for s in inner:
            a = _state_assign(s)
            if a is not None:
                names.append("state:=" + a)
            elif isinstance(s, ast.Assign) and _call_name(s.value) == "get_now":
                names.append("now")
            else:
                names.append("<other>")
        reraises = bool(st.handlers) and all(any(isinstance(x, ast.Raise) and x.exc is None for x in h.body) for h in st.handlers)
        return "try[" + ",".join(names) + "]" + ("reraise" if reraises else "swallow")
    if isinstance(st, ast.Expr) and _call_name(st.value) == "on_tick":
        return "on_tick"
    if isinstance(st, ast.Expr) and _call_name(st.value) == "after_tick":
        return "after_tick"
    if isinstance(st, ast.If):
        calls = [_call_name(s.value) for s in st.body if isinstance(s, ast.Expr)]
        classes = sorted({n.id for n in ast.walk(st.test) if isinstance(n, ast.Name) and n.id.startswith("Command")})
        if calls == ["cleanup_tasks"] and not st.orelse:
            return "cleanup_if[" + ",".join(classes) + "]"
        return "<if>"
    if isinstance(st, ast.For):
        called = sorted({c for c in (_call_name(n) for n in ast.walk(st)) if c == "process_command"})
        if called and isinstance(st.iter, ast.Name) and st.iter.id == "commands":
            return "for_commands"
        return "<for>"
    if isinstance(st, ast.Return):
        return "return"
    a = _state_assign(st)
    if a is not None:
        return "state:=" + a
    return "<other>"


def _loop_shape(notes: list[str]) -> dict:
    res: dict = {"processTick": ["<missing>"], "onTickArgIsReducedTick": False, "onTickCallSites": 999,
                 "stateWriters": [("<missing>", "<missing>")], "tickFromBufferFront": False, "processTickCallSites": 999,
                 "rewindBeforeLoop": False, "rebuildRewindsFirst": False, "rebuildReducesPerTick": 999,
                 "rebuildLoopHasEarlyExit": True, "rebuildIteratesGivenTicks": False, "rebuildDropsCommands": False,
                 "rebuildClockIsWallClock": False, "rebuildReturnsState": False}
    try:
        tree = ast.parse(open(repo_path(LOOP)).read())
    except (OSError, SyntaxError) as e:
        notes.append(f"gen/ticklog: cannot parse control_loop.py: {e!r}")
        return res
    pt = _find_def(tree, "_process_tick", "_ControlLoopRunner")
    if pt is None:
        notes.append("gen/ticklog: _ControlLoopRunner._process_tick not found")
    else:
        res["processTick"] = [_label_process_tick(s) for s in _body(pt)]
        # the tick reduced and the tick recorded are the method's own parameter
        params = [a.arg for a in pt.args.args]  # type: ignore[attr-defined]
        red = [c for c in ast.walk(pt) if _call_name(c) == "_reduce_tick" and isinstance(c, ast.Call)]
        ont = [c for c in ast.walk(pt) if isinstance(c, ast.Call) and _call_name(c) == "on_tick"]
        res["onTickArgIsReducedTick"] = (
            len(params) == 2 and len(red) == 1 and len(ont) == 1 and len(red[0].args) >= 2
            and isinstance(red[0].args[0], ast.Name) and red[0].args[0].id == params[1]
            and _is_self_attr(red[0].args[1], "state")
            and len(ont[0].args) == 1 and isinstance(ont[0].args[0], ast.Name) and ont[0].args[0].id == params[1]
            and not any(isinstance(n, (ast.Assign, ast.AugAssign, ast.AnnAssign)) and any(
                isinstance(t, ast.Name) and t.id == params[1] for t in (n.targets if isinstance(n, ast.Assign) else [n.target]))
                for n in ast.walk(pt)))
    res["onTickCallSites"] = sum(1 for c in ast.walk(tree) if isinstance(c, ast.Call) and _call_name(c) == "on_tick")
    res["processTickCallSites"] = sum(1 for c in ast.walk(tree) if isinstance(c, ast.Call) and _call_name(c) == "_process_tick")
    cls = next((n for n in ast.walk(tree) if isinstance(n, ast.ClassDef) and n.name == "_ControlLoopRunner"), None)
    if cls is None:
        notes.append("gen/ticklog: class _ControlLoopRunner not found")
    else:
        writers: list[tuple[str, str]] = []
        for f in cls.body:
            if isinstance(f, (ast.FunctionDef, ast.AsyncFunctionDef)):
                for n in ast.walk(f):
                    if isinstance(n, ast.stmt):
                        a = _state_assign(n)
                        if a is not None:
                            writers.append((f.name, a))
                    if isinstance(n, (ast.AugAssign, ast.AnnAssign)) and _is_self_attr(n.target, "state"):
                        writers.append((f.name, "<aug>"))
        # `setattr(self, "state", …)` or writes through another name would escape the list above: none expected
        if any(_call_name(c) == "setattr" for c in ast.walk(cls)):
            writers.append(("<setattr>", "<setattr>"))
        res["stateWriters"] = writers
    run = _find_def(tree, "run", "_ControlLoopRunner")
    if run is None:
        notes.append("gen/ticklog: _ControlLoopRunner.run not found")
    else:
        # `tick = self.tick_buffer.pop(0)` … `await self._process_tick(tick)` inside one `while self.tick_buffer:` loop
        ok = False
        for w in ast.walk(run):
            if isinstance(w, ast.While) and _is_self_attr(w.test, "tick_buffer"):
                pops = [s for s in w.body if isinstance(s, ast.Assign) and len(s.targets) == 1 and isinstance(s.targets[0], ast.Name)
                        and isinstance(s.value, ast.Call) and _call_name(s.value) == "pop" and _is_self_attr(s.value.func.value, "tick_buffer")  # type: ignore[attr-defined]
                        and len(s.value.args) == 1 and isinstance(s.value.args[0], ast.Constant) and s.value.args[0].value == 0]
                calls = [c for c in ast.walk(w) if isinstance(c, ast.Call) and _call_name(c) == "_process_tick"]
                if len(pops) == 1 and len(calls) == 1 and len(calls[0].args) == 1 and isinstance(calls[0].args[0], ast.Name) \
                        and calls[0].args[0].id == pops[0].targets[0].id and pops[0].lineno < calls[0].lineno:  # type: ignore[attr-defined]
                    ok = True
        res["tickFromBufferFront"] = ok
        first_while = next((s for s in ast.walk(run) if isinstance(s, ast.While)), None)
        rew = [n for n in ast.walk(run) if isinstance(n, ast.stmt) and _state_assign(n) == "rewind_in_progress"]
        res["rewindBeforeLoop"] = bool(len(rew) == 1 and first_while is not None and rew[0].lineno < first_while.lineno
                                       and isinstance(rew[0].value, ast.Call) and rew[0].value.args  # type: ignore[attr-defined]
                                       and _is_self_attr(rew[0].value.args[0], "state"))  # type: ignore[attr-defined]
    rb = _find_def(tree, "rebuild_state_from_ticks")
    if rb is None:
        notes.append("gen/ticklog: rebuild_state_from_ticks not found")
    else:
        params = [a.arg for a in rb.args.args]  # type: ignore[attr-defined]
        body = _body(rb)
        loop = next((s for s in body if isinstance(s, ast.For)), None)
        if loop is not None and len(params) == 2:
            before = body[: body.index(loop)]

            def pair_assign(s: ast.stmt, fn: str) -> ast.Call | None:
                if isinstance(s, ast.Assign) and len(s.targets) == 1 and isinstance(s.targets[0], ast.Tuple) and len(s.targets[0].elts) == 2 \
                        and isinstance(s.targets[0].elts[0], ast.Name) and s.targets[0].elts[0].id == params[0] \
                        and isinstance(s.targets[0].elts[1], ast.Name) and s.targets[0].elts[1].id == "_" \
                        and isinstance(s.value, ast.Call) and _call_name(s.value) == fn:
                    return s.value
                return None

            def wall(n: ast.AST) -> bool:
                return isinstance(n, ast.Call) and isinstance(n.func, ast.Attribute) and n.func.attr == "time" \
                    and isinstance(n.func.value, ast.Name) and n.func.value.id == "time" and not n.args

            rws = [c for c in (pair_assign(s, "rewind_in_progress") for s in before) if c is not None]
            res["rebuildRewindsFirst"] = (len(before) == 1 and len(rws) == 1 and len(rws[0].args) == 2
                                          and isinstance(rws[0].args[0], ast.Name) and rws[0].args[0].id == params[0])
            reds = [c for c in (pair_assign(s, "_reduce_tick") for s in loop.body) if c is not None]
            res["rebuildReducesPerTick"] = sum(1 for c in ast.walk(loop) if isinstance(c, ast.Call) and _call_name(c) == "_reduce_tick")
            res["rebuildLoopHasEarlyExit"] = any(isinstance(n, (ast.Break, ast.Continue, ast.Return, ast.Raise, ast.If, ast.Try)) for n in ast.walk(loop))
            res["rebuildIteratesGivenTicks"] = (isinstance(loop.iter, ast.Name) and loop.iter.id == params[1] and isinstance(loop.target, ast.Name)
                                                and len(reds) == 1 and len(loop.body) == 1 and len(reds[0].args) == 3 and isinstance(reds[0].args[0], ast.Name)
                                                and reds[0].args[0].id == loop.target.id and isinstance(reds[0].args[1], ast.Name)
                                                and reds[0].args[1].id == params[0] and not loop.orelse)
            res["rebuildDropsCommands"] = len(rws) == 1 and len(reds) == 1
            res["rebuildClockIsWallClock"] = (len(rws) == 1 and len(reds) == 1 and wall(rws[0].args[1]) and wall(reds[0].args[2]))
            after = body[body.index(loop) + 1:]
            res["rebuildReturnsState"] = (len(after) == 1 and isinstance(after[0], ast.Return) and isinstance(after[0].value, ast.Name)
                                          and after[0].value.id == params[0])
    return res


def _returns_queues_attr(fn: ast.AST | None, attr: str) -> bool:
    """the function's body is `return self._queues.<attr>`"""
    if fn is None:
        return False
    b = _body(fn)
    return (len(b) == 1 and isinstance(b[0], ast.Return) and isinstance(b[0].value, ast.Attribute) and b[0].value.attr == attr
            and _is_self_attr(b[0].value.value, "_queues"))


def _basic_shape(notes: list[str]) -> dict:
    res: dict = {"onTickAppends": False, "ticksWrites": ["<missing>"], "replayReturnsTicks": False,
                 "initStateReturnsQueues": False, "initStateWrites": ["<missing>"], "sameInitStateToQueuesAndRun": False}
    try:
        tree = ast.parse(open(repo_path(BASIC)).read())
    except (OSError, SyntaxError) as e:
        notes.append(f"gen/ticklog: cannot parse plugins/basic.py: {e!r}")
        return res
    ot = _find_def(tree, "on_tick", "InternalAsyncioAdapter")
    if ot is not None:
        b = _body(ot)
        params = [a.arg for a in ot.args.args]  # type: ignore[attr-defined]
        res["onTickAppends"] = (len(b) == 1 and isinstance(b[0], ast.Expr) and isinstance(b[0].value, ast.Call)
                                and _call_name(b[0].value) == "append" and isinstance(b[0].value.func, ast.Attribute)
                                and isinstance(b[0].value.func.value, ast.Attribute) and b[0].value.func.value.attr == "ticks"
                                and _is_self_attr(b[0].value.func.value.value, "_queues") and len(params) == 2
                                and len(b[0].value.args) == 1 and isinstance(b[0].value.args[0], ast.Name) and b[0].value.args[0].id == params[1])
    else:
        notes.append("gen/ticklog: InternalAsyncioAdapter.on_tick not found")
    # every place of the module that touches an attribute named `ticks` other than by reading it
    writes: list[str] = []
    for f in ast.walk(tree):
        if not isinstance(f, (ast.FunctionDef, ast.AsyncFunctionDef)):
            continue
        for n in ast.walk(f):
            tgts: list[ast.AST] = []
            if isinstance(n, ast.Assign):
                tgts = list(n.targets)
            elif isinstance(n, (ast.AnnAssign, ast.AugAssign)):
                tgts = [n.target]
            elif isinstance(n, ast.Delete):
                tgts = list(n.targets)
            for t in tgts:
                for sub in ast.walk(t):
                    if isinstance(sub, ast.Attribute) and sub.attr == "ticks":
                        val = getattr(n, "value", None)
                        empty = isinstance(val, ast.List) and not val.elts
                        writes.append(f"{f.name}:assign" + ("[]" if empty else "<other>"))
            if isinstance(n, ast.Call) and isinstance(n.func, ast.Attribute) and isinstance(n.func.value, ast.Attribute) \
                    and n.func.value.attr == "ticks":
                writes.append(f"{f.name}:{n.func.attr}")
    res["ticksWrites"] = writes
    res["replayReturnsTicks"] = all(_returns_queues_attr(_find_def(tree, "replay", c), "ticks")
                                    for c in ("InternalAsyncioAdapter", "ExternalAsyncioAdapter"))
    res["initStateReturnsQueues"] = all(_returns_queues_attr(_find_def(tree, "init_state", c), "init_state")
                                        for c in ("InternalAsyncioAdapter", "ExternalAsyncioAdapter"))
    iw: list[str] = []
    for f in ast.walk(tree):
        if not isinstance(f, (ast.FunctionDef, ast.AsyncFunctionDef)):
            continue
        for n in ast.walk(f):
            if isinstance(n, (ast.Assign, ast.AnnAssign, ast.AugAssign)):
                tgts = list(n.targets) if isinstance(n, ast.Assign) else [n.target]
                for t in tgts:
                    if isinstance(t, ast.Attribute) and t.attr == "init_state":
                        v = n.value
                        iw.append(f"{f.name}:=" + (v.id if isinstance(v, ast.Name) else "<expr>"))
    res["initStateWrites"] = iw
    rw = _find_def(tree, "run_workflow", "BasicRuntime")
    if rw is not None:
        q = [c for c in ast.walk(rw) if isinstance(c, ast.Call) and _call_name(c) == "_get_or_create_queues"]
        r = [c for c in ast.walk(rw) if isinstance(c, ast.Call) and _call_name(c) == "workflow_run_fn"]
        reassigned = any(isinstance(n, (ast.Assign, ast.AugAssign, ast.AnnAssign)) and any(
            isinstance(t, ast.Name) and t.id == "init_state" for t in (n.targets if isinstance(n, ast.Assign) else [n.target])) for n in ast.walk(rw))
        res["sameInitStateToQueuesAndRun"] = (len(q) == 1 and len(r) == 1 and len(q[0].args) == 2 and isinstance(q[0].args[1], ast.Name)
                                              and q[0].args[1].id == "init_state" and r[0].args and isinstance(r[0].args[0], ast.Name)
                                              and r[0].args[0].id == "init_state" and not reassigned)
    else:
        notes.append("gen/ticklog: BasicRuntime.run_workflow not found")
    return res


def _ext_shape(notes: list[str]) -> dict:
    res: dict = {"stateIsRebuildOfInitAndLog": False, "tickLogIsAdapterReplay": False, "runningStepsShape": "<missing>",
                 "toDictSerialisesState": False}
    try:
        tree = ast.parse(open(repo_path(EXT)).read())
    except (OSError, SyntaxError) as e:
        notes.append(f"gen/ticklog: cannot parse external_context.py: {e!r}")
        return res
    st = _find_def(tree, "_state", "ExternalContext")
    if st is not None:
        # names bound in the body: ticks = self._tick_log; snapshottable = self._require_snapshottable(); state = snapshottable.init_state
        env: dict[str, str] = {}
        ret = None
        for s in _body(st):
            if isinstance(s, ast.Assign) and len(s.targets) == 1 and isinstance(s.targets[0], ast.Name):
                env[s.targets[0].id] = ast.unparse(s.value)
            elif isinstance(s, ast.Return):
                ret = s.value
        calls = [c for c in ast.walk(st) if isinstance(c, ast.Call) and _call_name(c) == "rebuild_state_from_ticks"]

        def resolve(n: ast.AST) -> str:
            src = ast.unparse(n)
            seen = 0
            while isinstance(n, ast.Name) and n.id in env and seen < 5:
                src = env[n.id]
                n = ast.parse(src, mode="eval").body
                seen += 1
            # resolve a leading local name once more (`snapshottable.init_state`)
            if isinstance(n, ast.Attribute) and isinstance(n.value, ast.Name) and n.value.id in env:
                src = env[n.value.id] + "." + n.attr
            return src

        if len(calls) == 1 and len(calls[0].args) == 2 and ret is not None:
            a0, a1 = resolve(calls[0].args[0]), resolve(calls[0].args[1])
            r = resolve(ret)
            res["stateIsRebuildOfInitAndLog"] = (a0 == "self._require_snapshottable().init_state" and a1 == "self._tick_log"
                                                 and r.startswith("rebuild_state_from_ticks("))
    else:
        notes.append("gen/ticklog: ExternalContext._state not found")
    tl = _find_def(tree, "_tick_log", "ExternalContext")
    if tl is not None:
        b = _body(tl)
        res["tickLogIsAdapterReplay"] = (len(b) == 1 and isinstance(b[0], ast.Return)
                                         and ast.unparse(b[0].value) == "self._require_snapshottable().replay()")  # type: ignore[arg-type]
    rs = _find_def(tree, "running_steps", "ExternalContext")
    if rs is not None:
        b = _body(rs)
        if len(b) == 2 and isinstance(b[0], ast.Assign) and ast.unparse(b[0]) == "state = self._state" and isinstance(b[1], ast.Return):
            res["runningStepsShape"] = ast.unparse(b[1].value)  # type: ignore[arg-type]
        else:
            res["runningStepsShape"] = "<other>"
    td = _find_def(tree, "to_dict", "ExternalContext")
    if td is not None:
        src = [ast.unparse(s) for s in _body(td)]
        uses = [s for s in src if "self._state" in s]
        ser = [s for s in src if ".to_serialized(" in s]
        res["toDictSerialisesState"] = (uses == ["broker_state = self._state"] and len(ser) == 1
                                        and ser[0].startswith("context = broker_state.to_serialized(")
                                        and src[-1] == "return context.model_dump(mode='python')"
                                        and not any("rebuild_state_from_ticks" in s or "_tick_log" in s for s in src))
    return res


def extract(notes: list[str]) -> dict:
    res: dict = {}
    res.update(_loop_shape(notes))
    res.update(_basic_shape(notes))
    res.update(_ext_shape(notes))
    return res


def generate(notes: list[str]) -> list[str]:
    r = extract(notes)
    return [
        "namespace Engine.GenTickLog",
        "",
        "/-- `_ControlLoopRunner._process_tick`, one label per top-level statement -/",
        f"def processTick : List String := {_lstr(r['processTick'])}",
        "/-- `on_tick` receives the method's own `tick` parameter, which is also what `_reduce_tick` reduced on `self.state` -/",
        f"def onTickArgIsReducedTick : Bool := {_b(r['onTickArgIsReducedTick'])}",
        "/-- number of `….on_tick(…)` calls in control_loop.py -/",
        f"def onTickCallSites : Nat := {r['onTickCallSites']}",
        "/-- number of `…._process_tick(…)` calls in control_loop.py -/",
        f"def processTickCallSites : Nat := {r['processTickCallSites']}",
        "/-- every assignment to `self.state` in `_ControlLoopRunner`: (method, what is assigned) -/",
        "def stateWriters : List (String × String) := [" + ", ".join(f"({_lean_str(a)}, {_lean_str(b)})" for a, b in r["stateWriters"]) + "]",
        "/-- `run`: `tick = self.tick_buffer.pop(0)` is what `_process_tick` gets, inside `while self.tick_buffer:` -/",
        f"def tickFromBufferFront : Bool := {_b(r['tickFromBufferFront'])}",
        "/-- `run`: `self.state, commands = rewind_in_progress(self.state, …)` once, before the main loop -/",
        f"def rewindBeforeLoop : Bool := {_b(r['rewindBeforeLoop'])}",
        "/-- `rebuild_state_from_ticks(state, ticks)` -/",
        f"def rebuildRewindsFirst : Bool := {_b(r['rebuildRewindsFirst'])}",
        f"def rebuildReducesPerTick : Nat := {r['rebuildReducesPerTick']}",
        f"def rebuildLoopHasEarlyExit : Bool := {_b(r['rebuildLoopHasEarlyExit'])}",
        f"def rebuildIteratesGivenTicks : Bool := {_b(r['rebuildIteratesGivenTicks'])}",
        f"def rebuildDropsCommands : Bool := {_b(r['rebuildDropsCommands'])}",
        f"def rebuildClockIsWallClock : Bool := {_b(r['rebuildClockIsWallClock'])}",
        f"def rebuildReturnsState : Bool := {_b(r['rebuildReturnsState'])}",
        "/-- plugins/basic.py: `InternalAsyncioAdapter.on_tick` is `self._queues.ticks.append(tick)` -/",
        f"def onTickAppends : Bool := {_b(r['onTickAppends'])}",
        "/-- every assignment to / method call on an attribute named `ticks` in plugins/basic.py: `function:what` -/",
        f"def ticksWrites : List String := {_lstr(r['ticksWrites'])}",
        f"def replayReturnsTicks : Bool := {_b(r['replayReturnsTicks'])}",
        f"def initStateReturnsQueues : Bool := {_b(r['initStateReturnsQueues'])}",
        "/-- every assignment to an attribute named `init_state` in plugins/basic.py -/",
        f"def initStateWrites : List String := {_lstr(r['initStateWrites'])}",
        "/-- `run_workflow` hands one and the same `init_state` to the queues (what replay starts from) and to the run function -/",
        f"def sameInitStateToQueuesAndRun : Bool := {_b(r['sameInitStateToQueuesAndRun'])}",
        "/-- context/external_context.py -/",
        f"def stateIsRebuildOfInitAndLog : Bool := {_b(r['stateIsRebuildOfInitAndLog'])}",
        f"def tickLogIsAdapterReplay : Bool := {_b(r['tickLogIsAdapterReplay'])}",
        f"def runningStepsShape : String := {_lean_str(r['runningStepsShape'])}",
        f"def toDictSerialisesState : Bool := {_b(r['toDictSerialisesState'])}",
        "",
        "end Engine.GenTickLog",
    ]
