import WfModel.ValidateCache
import Driver.Validate
open Validate ValidateCache Drv.Engine Drv.Validate
namespace Drv.ValidateCache

/-- the class table of the session, and the session -/
structure DState where
  H : Hier := { bases := builtinBases }
  S : State := {}

def sOptNats : Option (List Nat) → String
  | none => "_"
  | some l => "[" ++ sNats l ++ "]"

def sDecl (d : Handlers.Decl) : String := s!"{d.name}:{sOptNats d.forSteps}:{d.maxRec}"
def sDecls (l : List Handlers.Decl) : String := if l.isEmpty then "-" else ";".intercalate (l.map sDecl)

def insertPair (p : Nat × Nat) : List (Nat × Nat) → List (Nat × Nat)
  | [] => [p]
  | q :: r => if p.1 ≤ q.1 then p :: q :: r else q :: insertPair p r
def sortPairs (l : List (Nat × Nat)) : List (Nat × Nat) := l.foldr insertPair []
def sRoutes (l : List (Nat × Nat)) : String :=
  if l.isEmpty then "-" else ",".intercalate ((sortPairs l).map fun p => s!"{p.1}>{p.2}")

def sOptBool : Option Bool → String
  | none => "None"
  | some b => sBool b
def sOptVer : Option Nat → String
  | none => "-1"
  | some v => toString v

def sResult (r : Result) : String :=
  s!"ok {sBool r.hitl} start={r.start} stop={r.stop} h={sDecls r.handlers} r={sRoutes r.routes}"

def sFull : Except Err Result → String
  | .ok r => sResult r
  | .error e => s!"err {sErr e}"

def sResp : Resp → String
  | .ok => "ok"
  | .inst i => s!"inst {i}"
  | .flag b => s!"ok {sBool b}"
  | .err e => s!"err {sErr e}"
  | .dup => "dup"
  | .bad => "bad-op"

/-- everything observable on instance `i` after a call -/
def sInst (S : State) (i : Nat) : String :=
  match S.insts[i]? with
  | none => "?"
  | some x =>
    let steps := match S.classes[x.cls]? with | some c => sNats (names c.steps) | none => "?"
    s!"start={x.start} stop={x.stop} h={sDecls x.handlers} r={sRoutes x.routes} res={sOptBool x.result} ver={sOptVer x.vver} vis={vis S x.cls} steps={steps}"

def okSteps (H : Hier) (W : List Step) : Bool :=
  W.all fun s => (s.accepted ++ s.returns).all fun c => decide (c < H.bases.length)

def step (d : DState) (line : String) : DState × String :=
  match tokens line with
  | "H" :: ts =>
    match hierP ts with
    | some (H, []) => if H.wf then ({ H, S := {} }, "ok") else (d, "bad-op")
    | _ => (d, "bad-op")
  | "C" :: ts =>
    match (counted stepP) ts with
    | some (W, []) =>
      if okSteps d.H W then
        let (S', r) := _root_.ValidateCache.step d.H d.S (.newClass W)
        ({ d with S := S' }, s!"{sResp r} cls={S'.classes.length - 1} vis={vis S' (S'.classes.length - 1)}")
      else (d, "bad-op")
    | _ => (d, "bad-op")
  | "A" :: ts =>
    match (do let k ← nat; let s ← stepP; pure (k, s)) ts with
    | some ((k, s), []) =>
      if okSteps d.H [s] then
        let (S', r) := _root_.ValidateCache.step d.H d.S (.addStep k s)
        ({ d with S := S' }, s!"{sResp r} vis={vis S' k}")
      else (d, "bad-op")
    | _ => (d, "bad-op")
  | "N" :: ts =>
    match (do let k ← nat; let skip ← counted nat; let dis ← bool; pure (k, skip, dis)) ts with
    | some ((k, skip, dis), []) =>
      let (S', r) := _root_.ValidateCache.step d.H d.S (.construct k skip dis)
      match r with
      | .inst i => ({ d with S := S' }, s!"inst {i} {sInst S' i}")
      | _ => ({ d with S := S' }, sResp r)
    | _ => (d, "bad-op")
  | ["V", t] =>
    match t.toNat? with
    | some i =>
      let (S', r) := _root_.ValidateCache.step d.H d.S (.validate i)
      ({ d with S := S' }, s!"{sResp r} | {sInst S' i}")
    | none => (d, "bad-op")
  | ["R", t] =>
    match t.toNat? with
    | some i =>
      let (S', r) := _root_.ValidateCache.step d.H d.S (.runValidate i)
      ({ d with S := S' }, s!"{sResp r} | {sInst S' i}")
    | none => (d, "bad-op")
  | "X" :: ts =>
    match (do let H ← hierP; let W ← counted stepP; let skip ← counted nat; pure (H, W, skip)) ts with
    | some ((H, W, skip), []) => if okInput H W then (d, sFull (validateFull H W skip)) else (d, "bad-op")
    | _ => (d, "bad-op")
  | _ => (d, "bad-op")

end Drv.ValidateCache
