import WfProofs.CliConfig
import WfModel.GenCliConfigSql
import WfProofs.CliConfigHistory
import WfProofs.CliConfigHeld
/-!
# C37 — llamactl never activates a profile the user did not pick in that environment

Property theorems only (helper lemmas: `WfProofs/CliConfig.lean`, model M16:
`WfModel/CliConfig.lean`).  Quantification: every finite sequence of the twelve service
operations (`CliConfig.Op`: add / upsert / switch / delete environment, create from token,
create-or-update from OIDC, select, select-any, delete, set-project, update, destroy) with
arbitrary string arguments, starting from a freshly migrated database — in particular
same-named profiles in different environments, deleting the current environment or
profile, and unknown names (error branches leave the state unchanged).
-/
open CliConfig

/-- The sources still have the shape the model and the invariant rest on: all three
environment changes clear `current_profile` (the `delete_environment` one is the repair of
finding F26), the migration seeds the default environment as current, `profiles` is keyed by
`(name, api_url)`, a keyless token profile is called `"default"` and is selected on creation,
and a deleted current environment is replaced by the default one.  Regenerated from `/repo`
on every run. -/
theorem C37_source_shape :
    Good srcCfg ∧
    Gen.CliConfig.switchClearsProfile = true ∧ Gen.CliConfig.addClearsProfile = true ∧
    Gen.CliConfig.deleteClearsProfile = true ∧ Gen.CliConfig.deleteResetsToDefault = true ∧
    Gen.CliConfig.seedCurrentEnv = Gen.CliConfig.defaultUrl ∧
    Gen.CliConfig.seedEnvUrl = Gen.CliConfig.defaultUrl ∧
    Gen.CliConfig.profilesPrimaryKey = "name,api_url" ∧
    Gen.CliConfig.keylessProfileName = "default" ∧ Gen.CliConfig.createTokenSelects = true := by
  decide

/-- The SQL the model `WfModel/CliConfig.lean` was read from: every statement `ConfigManager`
executes, as (method, verb, table, WHERE conjuncts, SET columns / literal key / ORDER BY / LIMIT). -/
def C37_expectedSql : List (String × String × String × String × String) := [
  ("create_or_update_environment", "INSERT OR REPLACE", "environments", "", ""),
  ("create_profile", "INSERT", "profiles", "", ""),
  ("delete_environment", "DELETE", "environments", "api_url", ""),
  ("delete_environment", "DELETE", "profiles", "api_url", ""),
  ("delete_environment", "DELETE", "settings", "key='current_profile'", ""),
  ("delete_environment", "INSERT OR REPLACE", "settings", "", "values='current_environment_api_url'"),
  ("delete_environment", "SELECT", "environments", "api_url", ""),
  ("delete_environment", "SELECT", "settings", "key='current_environment_api_url'", ""),
  ("delete_profile", "DELETE", "profiles", "name&api_url", ""),
  ("get_current_environment", "SELECT", "environments", "api_url", ""),
  ("get_current_environment", "SELECT", "settings", "key='current_environment_api_url'", ""),
  ("get_environment", "SELECT", "environments", "api_url", ""),
  ("get_profile", "SELECT", "profiles", "name&api_url", ""),
  ("get_profile_by_api_key", "SELECT", "profiles", "api_url&api_key", "limit=1"),
  ("get_profile_by_device_user_id", "SELECT", "profiles", "api_url&JSON_EXTRACT(device_oidc,'$.user_id')", "limit=1"),
  ("get_profile_by_id", "SELECT", "profiles", "id", ""),
  ("get_settings_current_profile_name", "SELECT", "settings", "key='current_profile'", ""),
  ("list_environments", "SELECT", "environments", "", "order=api_url"),
  ("list_profiles", "SELECT", "profiles", "api_url", "order=name"),
  ("set_project", "UPDATE", "profiles", "name&api_url", "set=project_id"),
  ("set_settings_current_environment", "INSERT OR REPLACE", "settings", "", "values='current_environment_api_url'"),
  ("set_settings_current_profile", "DELETE", "settings", "key='current_profile'", ""),
  ("set_settings_current_profile", "INSERT OR REPLACE", "settings", "", "values='current_profile'"),
  ("update_profile", "UPDATE", "profiles", "id", "set=name,api_url,project_id,api_key,api_key_id,device_oidc")]

/-- The statements `ConfigManager` executes still have the shape the model was read from
(regenerated from `/repo` on every run), and in particular: the only `DELETE` on `settings` names
`current_profile` — the row `current_environment_api_url` is never removed, which is why the
model's current environment is a `String` and not an `Option`; every write to `settings` names one
of the two keys literally; and a `profiles` row is addressed by `(name, api_url)`, by `id`, or per
environment — never by its name alone. -/
theorem C37_source_shape_sql :
    Gen.CliConfigSql.sqlStatements = C37_expectedSql ∧
    (∀ st ∈ Gen.CliConfigSql.sqlStatements, st.2.2.1 = "settings" → st.2.1 = "DELETE" →
      st.2.2.2.1 = "key='current_profile'") ∧
    (∀ st ∈ Gen.CliConfigSql.sqlStatements, st.2.2.1 = "settings" → st.2.1 ≠ "SELECT" → st.2.1 ≠ "DELETE" →
      st.2.1 = "INSERT OR REPLACE" ∧
      (st.2.2.2.2 = "values='current_profile'" ∨ st.2.2.2.2 = "values='current_environment_api_url'")) ∧
    (∀ st ∈ Gen.CliConfigSql.sqlStatements, st.2.2.1 = "profiles" → st.2.1 ≠ "INSERT" →
      st.2.2.2.1 ∈ ["name&api_url", "id", "api_url", "api_url&api_key", "api_url&JSON_EXTRACT(device_oidc,'$.user_id')"]) ∧
    Gen.CliConfigSql.profilesIdUnique = true := by
  refine ⟨by decide, by decide, by decide, by decide, by decide⟩

/-- How an `AuthService` is tied to an environment (regenerated): every call into a `ConfigManager`
method that takes an environment passes the service's own binding `self.env.api_url` — never the
current environment — which is what `stepHeld` models with the binding as a parameter; the calls
without an environment argument are `set_settings_current_profile` (the selection is a bare name),
`update_profile` and `get_profile_by_id` (by id, in any environment: `Op.refresh`).
`EnvService.current_auth_service()` binds a fresh service to the current environment, read from
the store on every call (the diagonal `step`); `ConfigManager.delete_profile` clears the selection
when the deleted *name* equals it, whatever the environment (`stepHeld … (.deleteProfile _)`), and
an empty selected name counts as no selection (`active`). -/
theorem C37_source_shape_binding :
    Gen.CliConfigSql.authServiceCalls = [
      ("create_or_update_profile_from_oidc", "create_profile", "self.env.api_url"),
      ("create_or_update_profile_from_oidc", "get_profile_by_device_user_id", "self.env.api_url"),
      ("create_or_update_profile_from_oidc", "set_settings_current_profile", ""),
      ("create_or_update_profile_from_oidc", "update_profile", ""),
      ("create_profile_from_token", "create_profile", "self.env.api_url"),
      ("create_profile_from_token", "set_settings_current_profile", ""),
      ("delete_profile", "delete_profile", "self.env.api_url"),
      ("get_current_profile", "get_current_profile", "self.env.api_url"),
      ("get_profile", "get_profile", "self.env.api_url"),
      ("get_profile_by_id", "get_profile_by_id", ""),
      ("list_profiles", "list_profiles", "self.env.api_url"),
      ("refresh_to_db", "update_profile", ""),
      ("set_current_profile", "set_settings_current_profile", ""),
      ("set_project", "set_project", "self.env.api_url"),
      ("update_profile", "update_profile", "")] ∧
    (∀ c ∈ Gen.CliConfigSql.authServiceCalls, c.2.1 ∈ Gen.CliConfigSql.envTakingMethods → c.2.2 = "self.env.api_url") ∧
    (∀ c ∈ Gen.CliConfigSql.authServiceCalls, c.2.1 ∉ Gen.CliConfigSql.envTakingMethods →
      c.2.1 ∈ ["set_settings_current_profile", "update_profile", "get_profile_by_id"]) ∧
    Gen.CliConfigSql.currentAuthServiceBoundToCurrent = true ∧
    Gen.CliConfigSql.currentEnvironmentReadThrough = true ∧
    Gen.CliConfigSql.deleteProfileClearsOnName = true ∧
    Gen.CliConfigSql.currentProfileNameTruthy = true := by
  refine ⟨by decide, by decide, by decide, by decide, by decide, by decide, by decide⟩

/-- **C37 (strong form).** After any sequence of configuration operations the current environment is
a known environment or the built-in default, and the active profile
(`current_auth_service().get_current_profile()`) is none or a stored profile of the current
environment whose name is the *latest* select/create event of the history, and that event happened
while this environment was current.  The property's wording ("a profile of the current environment
that was selected or created while that environment was current") follows:
`C37_active_was_picked_here`. -/
theorem C37_invariant (ops : List Op) : Holds srcCfg (run srcCfg (init srcCfg) ops) := by
  have hinv := inv_run C37_source_shape.1 ops _ (inv_init C37_source_shape.1)
  refine ⟨hinv.envKnown, ?_⟩
  intro p hp
  unfold active at hp
  split at hp
  · simp at hp
  · rename_i n hn
    split at hp
    · simp at hp
    · obtain ⟨hmem, hname, henv⟩ := getProfile_some hp
      exact ⟨hmem, henv, by rw [hname]; exact hinv.picked n hn⟩

/-- non-vacuity: a history after which a profile *is* active — two environments, same-named
profiles in both, the second one selected again after a round trip. -/
example :
    (active (run srcCfg (init srcCfg)
      [.createToken "p1" none, .envAdd "http://b" false none, .createToken "p2" none,
       .envSwitch Gen.CliConfig.defaultUrl, .envSwitch "http://b", .select "default"])).map (·.pid) = some 1 := by
  decide

/-- The ghost field means what its name says: after any history it equals the latest pick
event of that history, computed from the events alone — the name an operation selected or
created (`picks`) paired with the environment that was current when that operation started. -/
theorem C37_pick_is_last_pick_event (c : Cfg) (ops : List Op) (s : State) :
    (run c s ops).pick = lastPickFrom c s s.pick ops := by
  induction ops generalizing s with
  | nil => rfl
  | cons op ops ih =>
    simp only [run, lastPickFrom]
    rw [ih]
    congr 1
    exact pick_step c s op

example : lastPickFrom srcCfg (init srcCfg) none
    [.createToken "p1" none, .envAdd "http://b" false none, .select "x", .envSwitch "http://nowhere"]
    = some ("x", "http://b") := by decide

/-- **C37, in the words of the property.**  If a profile is active after a history, it is a stored
profile of the current environment, and the history contains an operation that selected or created
exactly that name while the now-current environment was current — and (by `C37_invariant`) that
operation is the *latest* select/create event of the whole history, so the selection cannot stem
from another environment. -/
theorem C37_active_was_picked_here (ops : List Op) (p : Profile)
    (h : active (run srcCfg (init srcCfg) ops) = some p) :
    p ∈ (run srcCfg (init srcCfg) ops).profiles ∧ p.env = (run srcCfg (init srcCfg) ops).curEnv ∧
    ∃ pre op post, ops = pre ++ op :: post ∧
      picks srcCfg (run srcCfg (init srcCfg) pre) op = some p.name ∧
      (run srcCfg (init srcCfg) pre).curEnv = (run srcCfg (init srcCfg) ops).curEnv := by
  obtain ⟨hmem, henv, hpick⟩ := (C37_invariant ops).2 p h
  refine ⟨hmem, henv, ?_⟩
  rw [C37_pick_is_last_pick_event] at hpick
  rcases lastPickFrom_event srcCfg ops _ _ _ _ hpick with h0 | hex
  · simp [init] at h0
  · exact hex

example : picks srcCfg (run srcCfg (init srcCfg) [.createToken "p1" none, .envAdd "http://b" false none])
    (.createToken "p2" (some "sk-aaaaaa1111zzzz")) = some "sk-aaa****zzzz" := by decide

/-- Profiles stay keyed by `(name, environment)`: "the" profile of a name in an environment is unique. -/
theorem C37_unique_keys (ops : List Op) :
    ((run srcCfg (init srcCfg) ops).profiles.map (fun p => (p.name, p.env))).Nodup := by
  have hinv := inv_run C37_source_shape.1 ops _ (inv_init C37_source_shape.1)
  have := hinv.keys
  unfold KeysUnique at this
  rw [List.Nodup, List.pairwise_map]
  apply List.Pairwise.imp _ this
  intro a b hab heq
  simp only [Prod.mk.injEq] at heq
  exact hab heq

example : ((run srcCfg (init srcCfg)
    [.createToken "p1" none, .envAdd "http://b" false none, .createToken "p2" none,
     .createToken "p3" none]).profiles.map (fun p => (p.name, p.env))).length = 2 := by decide

/-- Mechanism, for every state (reachable or not): a successful `switch_environment` leaves no active profile. -/
theorem C37_switch_clears (s : State) (url : String)
    (h : (step srcCfg s (.envSwitch url)).2 = .ok) : active (step srcCfg s (.envSwitch url)).1 = none := by
  have hsw : srcCfg.switchClears = true := C37_source_shape.1.1
  simp only [step] at h ⊢
  split at h
  · simp at h
  · rename_i r hr
    simp only [hsw, if_true, active]

example : (step srcCfg (run srcCfg (init srcCfg) [.envUpsert "http://b" false none, .createToken "p" none])
    (.envSwitch "http://b")).2 = .ok := by decide

/-- `auth env add` (create-or-update + switch) leaves no active profile. -/
theorem C37_add_clears (s : State) (url : String) (ra : Bool) (mv : Option String) :
    active (step srcCfg s (.envAdd url ra mv)).1 = none := by
  have had : srcCfg.addClears = true := C37_source_shape.1.2.1
  simp only [step, had, if_true, active]

/-- The repaired branch (F26): deleting the current environment makes the default environment
current and leaves no active profile, whatever profiles the default environment holds. -/
theorem C37_delete_current_clears (s : State) (h : (getEnv s s.curEnv).isSome) :
    (step srcCfg s (.envDelete s.curEnv)).1.curEnv = Gen.CliConfig.defaultUrl ∧
    active (step srcCfg s (.envDelete s.curEnv)).1 = none := by
  have hdel : srcCfg.deleteClears = true := C37_source_shape.1.2.2.1
  simp only [step]
  split
  · rename_i hnone; simp [hnone] at h
  · simp only [if_true, hdel, active, and_true]; rfl

example : (getEnv (run srcCfg (init srcCfg) [.createToken "p" none, .envAdd "http://b" false none,
    .createToken "q" none]) "http://b").isSome := by decide

/-- Each of the three clearings is needed: with any one of them switched off (the
`delete` one being the code before the repair of F26) some history activates a profile that
was not picked in the current environment. -/
theorem C37_each_clear_needed :
    (¬ ∀ ops, Holds { srcCfg with deleteClears := false } (run { srcCfg with deleteClears := false } (init srcCfg) ops)) ∧
    (¬ ∀ ops, Holds { srcCfg with switchClears := false } (run { srcCfg with switchClears := false } (init srcCfg) ops)) ∧
    (¬ ∀ ops, Holds { srcCfg with addClears := false } (run { srcCfg with addClears := false } (init srcCfg) ops)) := by
  refine ⟨fun h => ?_, fun h => ?_, fun h => ?_⟩
  · -- F26: default/`default`, add b, create `default` there, delete b
    have := (h [.createToken "p" none, .envAdd "http://b" false none, .createToken "q" none,
                .envDelete "http://b"]).2 ⟨0, "default", Gen.CliConfig.defaultUrl, "p", none, none, none⟩ (by decide)
    exact absurd this.2.2 (by decide)
  · have := (h [.envUpsert "http://b" false none, .createToken "p" none, .envSwitch "http://b",
                .createToken "q" none, .envSwitch Gen.CliConfig.defaultUrl]).2
                ⟨0, "default", Gen.CliConfig.defaultUrl, "p", none, none, none⟩ (by decide)
    exact absurd this.2.2 (by decide)
  · have := (h [.createToken "p" none, .envAdd "http://b" false none, .createToken "q" none,
                .envAdd Gen.CliConfig.defaultUrl true none]).2
                ⟨0, "default", Gen.CliConfig.defaultUrl, "p", none, none, none⟩ (by decide)
    exact absurd this.2.2 (by decide)

/-! ## Whole-history statements added by the extension -/

/-- Profile ids (`idx_profiles_id`, the uuid of the code, the creation counter of the model) are
pairwise different after every history, and all lie below the creation counter: "the profile with
id `i`" names at most one row, in whatever environment. -/
theorem C37_unique_ids (ops : List Op) :
    ((run srcCfg (init srcCfg) ops).profiles.map (·.pid)).Nodup ∧
    ∀ p ∈ (run srcCfg (init srcCfg) ops).profiles, p.pid < (run srcCfg (init srcCfg) ops).nextId := by
  have h := ids_run srcCfg ops _ (ids_init srcCfg)
  refine ⟨?_, h.fresh⟩
  rw [List.Nodup, List.pairwise_map]
  exact h.nodup

example : ((run srcCfg (init srcCfg)
    [.createToken "p1" none, .envAdd "http://b" false none, .createToken "p2" none, .deleteProfile "default",
     .createToken "p3" none, .destroy, .createToken "p4" none]).profiles.map (·.pid)) = [3] := by decide

/-- **The active profile is the very row the latest pick designated, and has been active ever since.**
If a profile `p` is active after a history, the history splits as `pre ++ op :: post` where `op` is a
pick event of `p`'s name made while `p`'s environment was current, and from the state right after
`op` through every later state (`Kept`, spelled out by `C37_kept_means`): `p`'s environment is the
current one, the row with `p`'s id, name and environment is the active profile, and no further
operation is a pick event.  So between the pick and now there was no moment at which another
environment was current, another profile (or none) was active, or the id behind the name changed
(e.g. by deleting and re-creating a same-named profile). -/
theorem C37_active_continuously_since_pick (ops : List Op) (p : Profile)
    (h : active (run srcCfg (init srcCfg) ops) = some p) :
    ∃ pre op post, ops = pre ++ op :: post ∧
      picks srcCfg (run srcCfg (init srcCfg) pre) op = some p.name ∧
      (run srcCfg (init srcCfg) pre).curEnv = p.env ∧
      Kept srcCfg p.name p.env p.pid (step srcCfg (run srcCfg (init srcCfg) pre) op).1 post := by
  rcases active_since C37_source_shape.1 ops _ (inv_init C37_source_shape.1) p h with hk | hex
  · obtain ⟨_, q, hq, _⟩ := hk.head
    simp [active, init] at hq
  · exact hex

/-- non-vacuity: a profile selected, then seven operations that are no pick events and change
neither the environment nor the selection (among them a token refresh by id, a probe, deleting
another environment and another profile); it is kept active throughout. -/
example : Kept srcCfg "default" "http://b" 1
    (run srcCfg (init srcCfg) [.createToken "p1" none, .envAdd "http://b" false none, .createToken "p2" none,
       .createOidc "p3" "u1" "a@x.io" "t0", .select "default"])
    [.setProject "default" "p9", .refresh 2 "u1" "t1", .probe true none, .envDelete Gen.CliConfig.defaultUrl,
     .deleteProfile "a@x.io", .updateKey "default" (some "k") none, .envSwitch "http://nowhere"] := by
  decide

/-- What `Kept` says, with explicit quantifiers: at every cut `mid ++ rest` of the operations the
environment `e` is current and the row `(pid, n, e)` is the active profile, and the operation
following the cut (if any) is no pick event. -/
theorem C37_kept_means (n e : String) (pid : Nat) (s : State) (ops : List Op) :
    Kept srcCfg n e pid s ops ↔
      ∀ mid rest, ops = mid ++ rest →
        (run srcCfg s mid).curEnv = e ∧
        (∃ q, active (run srcCfg s mid) = some q ∧ q.pid = pid ∧ q.name = n ∧ q.env = e) ∧
        ∀ o rest', rest = o :: rest' → picks srcCfg (run srcCfg s mid) o = none := by
  rw [kept_iff]
  constructor
  · intro h mid rest hmr; exact ⟨(h mid rest hmr).1.1, (h mid rest hmr).1.2, (h mid rest hmr).2⟩
  · intro h mid rest hmr; exact ⟨⟨(h mid rest hmr).1, (h mid rest hmr).2.1⟩, (h mid rest hmr).2.2⟩

example : ¬ Kept srcCfg "default" Gen.CliConfig.defaultUrl 0
    (run srcCfg (init srcCfg) [.createToken "p1" none]) [.deleteProfile "default", .createToken "p2" none] := by
  decide

/-- **`get_current_environment()` never makes up an environment.**  After every history what it
returns has the current URL and is either a stored row or — only when the default URL is current
and has no row — the built-in `DEFAULT_ENVIRONMENT`; its third branch (an unauthenticated
`Environment` invented for a URL that is neither stored nor the default) is dead code on all
reachable configurations. -/
theorem C37_current_environment_real (ops : List Op) :
    (currentEnvironment srcCfg (run srcCfg (init srcCfg) ops)).url = (run srcCfg (init srcCfg) ops).curEnv ∧
    (currentEnvironment srcCfg (run srcCfg (init srcCfg) ops) ∈ (run srcCfg (init srcCfg) ops).envs ∨
     (getEnv (run srcCfg (init srcCfg) ops) (run srcCfg (init srcCfg) ops).curEnv = none ∧
      (run srcCfg (init srcCfg) ops).curEnv = Gen.CliConfig.defaultUrl ∧
      currentEnvironment srcCfg (run srcCfg (init srcCfg) ops) =
        ⟨Gen.CliConfig.defaultUrl, Gen.CliConfig.defaultRequiresAuth, none⟩)) :=
  currentEnvironment_real (inv_run C37_source_shape.1 ops _ (inv_init C37_source_shape.1))

/-- non-vacuity of the second alternative: the default row deleted while current. -/
example : getEnv (run srcCfg (init srcCfg) [.envDelete Gen.CliConfig.defaultUrl, .createToken "p" none])
    Gen.CliConfig.defaultUrl = none := by decide

/-! ## `AuthService` objects held across environment changes (model M16b)

Everything above is about histories in which each profile operation goes through a fresh
`EnvService.current_auth_service()` — what every `llamactl` command does.  The class itself is
bound to the environment it was constructed for (`stepHeld`, binding as a parameter). -/

/-- The held-service model extends the fresh one: with the binding equal to the current
environment it is the same step, the same pick event, and the same run. -/
theorem C37_held_extends_fresh (s : State) (op : Op) (ops : List Op) :
    stepHeld srcCfg s s.curEnv op = step srcCfg s op ∧
    picksAt srcCfg s s.curEnv op = picks srcCfg s op ∧
    runH srcCfg s (ops.map HOp.fresh) = run srcCfg s ops :=
  ⟨stepHeld_fresh _ _ _, picksAt_fresh _ _ _, runH_fresh _ _ _⟩

example : stepHeld srcCfg (run srcCfg (init srcCfg) [.envUpsert "http://b" false none]) "http://b" (.createToken "p" none)
    ≠ step srcCfg (run srcCfg (init srcCfg) [.envUpsert "http://b" false none]) (.createToken "p" none) := by decide

/-- What `pickedHere` computes: the history contains an operation that selected or created the
name `n`, through a service of environment `e`, while `e` was the current environment. -/
theorem C37_pickedHere_means (n e : String) (s : State) (hops : List HOp) :
    pickedHere srcCfg n e s hops = true ↔
      ∃ pre h post, hops = pre ++ h :: post ∧ picksH srcCfg (runH srcCfg s pre) h = some n ∧
        boundOf (runH srcCfg s pre) h = e ∧ (runH srcCfg s pre).curEnv = e :=
  pickedHere_iff srcCfg n e hops s

/-- The property's second clause over histories with arbitrary service bindings: the active
profile is a profile of the current environment that was selected or created, through a
service of that environment, while that environment was current. -/
def C37_statement_held_services : Prop :=
  ∀ (hops : List HOp) (p : Profile), active (runH srcCfg (init srcCfg) hops) = some p →
    p.env = (runH srcCfg (init srcCfg) hops).curEnv ∧ pickedHere srcCfg p.name p.env (init srcCfg) hops = true

/-- For fresh services this is exactly what `C37_active_was_picked_here` proves. -/
theorem C37_statement_fresh_services (ops : List Op) (p : Profile)
    (h : active (run srcCfg (init srcCfg) ops) = some p) :
    p.env = (run srcCfg (init srcCfg) ops).curEnv ∧
    pickedHere srcCfg p.name p.env (init srcCfg) (ops.map HOp.fresh) = true := by
  obtain ⟨_, henv, pre, op, post, hops, hpick, hcur⟩ := C37_active_was_picked_here ops p h
  refine ⟨henv, (pickedHere_iff _ _ _ _ _).mpr ⟨pre.map HOp.fresh, HOp.fresh op, post.map HOp.fresh, ?_, ?_, ?_, ?_⟩⟩
  · rw [hops]; simp
  · rw [runH_fresh, picksH_fresh]; exact hpick
  · rw [runH_fresh]; simp only [boundOf, HOp.fresh, Option.getD_none]; rw [hcur, henv]
  · rw [runH_fresh, hcur, henv]

/-- **Refuted for held services.**  A stored environment `b` that is not current; a service
bound to `b` creates a profile there (nothing active: `b` is not current); the user switches to
`b` (selection cleared); a service still bound to the default environment selects the name
`default`: now `b`'s profile `default` is active, and no operation ever selected or created that
name through a service of `b` while `b` was current.  Needs two overlapping `llamactl`
processes (or a program holding `AuthService` objects); no single command does this. -/
theorem C37_held_services_refuted : ¬ C37_statement_held_services := by
  intro h
  have := (h [⟨none, .envUpsert "http://b" false none⟩, ⟨some "http://b", .createToken "q" none⟩,
              ⟨none, .envSwitch "http://b"⟩, ⟨some Gen.CliConfig.defaultUrl, .select "default"⟩]
            ⟨0, "default", "http://b", "q", none, none, none⟩ (by decide)).2
  exact absurd this (by decide)

/-- **What remains true with held services.**  If every operation that can select or create
(`create_profile_from_token`, `create_or_update_profile_from_oidc`, `set_current_profile`,
`select_any_profile`) goes through a service of the environment current at that moment —
services bound to other environments being used only for `delete_profile`, `set_project`,
`update_profile` — then after every history the current environment is known or the default, and
the active profile is a stored profile of the current environment that was selected or created
through a service of that environment while it was current. -/
theorem C37_held_services_partial (hops : List HOp) (hf : FreshPicks srcCfg (init srcCfg) hops) :
    ((runH srcCfg (init srcCfg) hops).curEnv = Gen.CliConfig.defaultUrl ∨
      ∃ r ∈ (runH srcCfg (init srcCfg) hops).envs, r.url = (runH srcCfg (init srcCfg) hops).curEnv) ∧
    ∀ p, active (runH srcCfg (init srcCfg) hops) = some p →
      p ∈ (runH srcCfg (init srcCfg) hops).profiles ∧ p.env = (runH srcCfg (init srcCfg) hops).curEnv ∧
      pickedHere srcCfg p.name p.env (init srcCfg) hops = true := by
  refine ⟨envKnown_runH C37_source_shape.1 hops _ (inv_init C37_source_shape.1).envKnown, ?_⟩
  intro p hp
  obtain ⟨hptr, hmem, henv⟩ := active_some hp
  refine ⟨hmem, henv, ?_⟩
  rcases ptr_since C37_source_shape.1 hops _ hf p.name hptr with h | ⟨h, _⟩
  · rw [henv]; exact h
  · simp [init] at h

/-- non-vacuity: a history with stale bindings on the non-picking operations (a `b`-bound
service deletes and updates `b`'s profiles while the default environment is current) satisfies
the guard, and a profile is active at the end. -/
example : FreshPicks srcCfg (init srcCfg)
      [⟨none, .createToken "p1" none⟩, ⟨none, .envAdd "http://b" false none⟩, ⟨none, .createToken "p2" (some "abc")⟩,
       ⟨none, .envSwitch Gen.CliConfig.defaultUrl⟩, ⟨none, .select "default"⟩,
       ⟨some "http://b", .setProject "abc****bc" "p9"⟩, ⟨some "http://b", .deleteProfile "abc****bc"⟩] ∧
    (active (runH srcCfg (init srcCfg)
      [⟨none, .createToken "p1" none⟩, ⟨none, .envAdd "http://b" false none⟩, ⟨none, .createToken "p2" (some "abc")⟩,
       ⟨none, .envSwitch Gen.CliConfig.defaultUrl⟩, ⟨none, .select "default"⟩,
       ⟨some "http://b", .setProject "abc****bc" "p9"⟩, ⟨some "http://b", .deleteProfile "abc****bc"⟩])).map (·.pid)
      = some 0 := by
  decide
