import WfProofs.ReplayResume
import WfModel.SerialCtx
/-!
The runner resumed from a serialised context, exactly:
`workflow.run(ctx=Context.from_dict(json(ctx.to_dict())))`
= `Runner.init cfg (roundtrip cfg st) now none timeout`.

* `drain_started` / `rewindStep_started`: what every invocation started by the refill loop is started
  with (event, retry number, first-attempt time, last exception, last failure time, recovery counts);
* `resumed_step`: per step of a configuration with distinct names, the resumed runner has started the
  first `min(num_workers, #pending)` of `queued ++ in-progress` (in this order) and kept the rest queued,
  with a running worker for every started one; buffers and waiters are those of the round trip.
-/
set_option linter.unusedVariables false
set_option linter.unusedSimpArgs false

namespace Engine

theorem addOrEnqueue_begin (att : Attempt) (step : Nat) (ss : StepState) (nw : Nat) (now : Int)
    (h : IdsOk ss nw) (hlt : ss.inProg.length < nw) :
    (addOrEnqueue att step ss nw now).1.queue = ss.queue ∧
      (addOrEnqueue att step ss nw now).1.inProg.map InProg.started
        = ss.inProg.map InProg.started ++ [att.startedAt now] ∧
      (addOrEnqueue att step ss nw now).1.collected = ss.collected ∧
      (addOrEnqueue att step ss nw now).1.waiters = ss.waiters := by
  unfold addOrEnqueue
  rw [if_pos hlt]
  have := freeIds_ne_nil h hlt
  split
  · simp [InProg.started, Attempt.startedAt]
  · rename_i hnil; exact absurd hnil this

/-- the refill loop, exactly: `k = min(free slots, queue length)` heads of the queue are started in order with
exactly their records, the rest stays queued; buffers and waiters are untouched -/
theorem drain_started (step nw : Nat) (now : Int) :
    ∀ (fuel : Nat) (ss : StepState), IdsOk ss nw → ss.queue.length ≤ fuel →
      (drain step nw now fuel ss).1.queue = ss.queue.drop (min (nw - ss.inProg.length) ss.queue.length) ∧
      (drain step nw now fuel ss).1.inProg.map InProg.started
        = ss.inProg.map InProg.started
          ++ (ss.queue.take (min (nw - ss.inProg.length) ss.queue.length)).map (Attempt.startedAt now) ∧
      (drain step nw now fuel ss).1.collected = ss.collected ∧
      (drain step nw now fuel ss).1.waiters = ss.waiters
  | 0, ss, _, hf => by
    have : ss.queue = [] := List.eq_nil_of_length_eq_zero (Nat.le_zero.mp hf)
    simp [drain, this]
  | fuel + 1, ss, hok, hf => by
    unfold drain
    split
    · rename_i hq; simp [hq]
    · rename_i a q hq
      split
      · rename_i hlt
        have hok1 : IdsOk { ss with queue := q } nw := hok
        obtain ⟨a1, a2, a3, a4⟩ := addOrEnqueue_begin a step { ss with queue := q } nw now hok1 hlt
        have hok2 := addOrEnqueue_idsOk a step { ss with queue := q } nw now hok1
        have hlen : (addOrEnqueue a step { ss with queue := q } nw now).1.inProg.length = ss.inProg.length + 1 := by
          have := congrArg List.length a2
          simpa using this
        have hf' : (addOrEnqueue a step { ss with queue := q } nw now).1.queue.length ≤ fuel := by
          rw [a1]; rw [hq] at hf; simpa using hf
        obtain ⟨d1, d2, d3, d4⟩ := drain_started step nw now fuel _ hok2 hf'
        simp only
        rw [d1, d2, d3, d4, a1, a2, a3, a4, hlen, hq]
        have hk : min (nw - ss.inProg.length) (q.length + 1) = min (nw - (ss.inProg.length + 1)) q.length + 1 := by
          omega
        simp only [List.length_cons, hk, List.drop_succ_cons, List.take_succ_cons, List.map_cons,
          List.append_assoc, List.singleton_append, and_self]
      · rename_i hge
        have : nw - ss.inProg.length = 0 := by omega
        simp [this, hq]

/-- one step of `rewind_in_progress`, exactly, with what the restarted invocations are started with -/
theorem rewindStep_started (c : StepCfg) (ss : StepState) (now : Int) :
    let pending := (ss.inProg.map inProgToAttempt).reverse ++ ss.queue
    let k := min c.numWorkers pending.length
    (rewindStep c ss now).1.queue = pending.drop k ∧
      (rewindStep c ss now).1.inProg.map InProg.started = (pending.take k).map (Attempt.startedAt now) ∧
      (rewindStep c ss now).1.inProg.length = k ∧
      (rewindStep c ss now).1.collected = ss.collected ∧
      (rewindStep c ss now).1.waiters = ss.waiters := by
  intro pending k
  unfold rewindStep
  have hok : IdsOk { ss with queue := pending, inProg := [] } c.numWorkers := by
    simp [IdsOk, usedIds]
  obtain ⟨d1, d2, d3, d4⟩ := drain_started c.name c.numWorkers now pending.length
    { ss with queue := pending, inProg := [] } hok (Nat.le_refl _)
  simp only [List.length_nil, Nat.sub_zero, List.map_nil, List.nil_append] at d1 d2
  refine ⟨d1, d2, ?_, d3, d4⟩
  have := congrArg List.length d2
  simp only [List.length_map, List.length_take] at this
  rw [this]
  show min (min c.numWorkers pending.length) pending.length = min c.numWorkers pending.length
  omega

/-! ### the resumed runner, per step -/

theorem deserStep_serStep_queue (ss : StepState) :
    (deserStep (serStep ss)).queue = resumedPending ss := by
  simp [deserStep, serStep, resumedPending, freshAttempt, List.map_map, Function.comp_def]

theorem resumed_step (cfg : Cfg) (hwf : cfg.WF) (st : State) (now : Int) (timeout : Option Nat)
    (c : StepCfg) (hc : c ∈ cfg.steps) :
    let R := Runner.init cfg (roundtrip cfg st) now none timeout
    let rs := R.st.workers c.name
    let pending := resumedPending (st.workers c.name)
    let k := min c.numWorkers pending.length
    rs.inProg.map InProg.started = (pending.take k).map (Attempt.startedAt now) ∧
    rs.queue = pending.drop k ∧
    rs.inProg.length = k ∧
    rs.collected = (st.workers c.name).collected ∧
    rs.waiters = (st.workers c.name).waiters.map (fun w => deserWaiter (serWaiter w)) ∧
    (∀ ip ∈ rs.inProg, ({ step := c.name, wid := ip.wid, ev := ip.ev } : Worker) ∈ R.running) ∧
    R.outcome = none := by
  intro R rs pending k
  have hsh := init_resumed cfg (roundtrip cfg st) now timeout
  have hstep : cfg.hasStep c.name = true := by
    simp [Cfg.hasStep, Cfg.find_of_mem hwf hc]
  have hS : (roundtrip cfg st).workers c.name = deserStep (serStep (st.workers c.name)) := by
    rw [roundtrip_workers, if_pos hstep]
  have hrs : rs = (rewindStep c (deserStep (serStep (st.workers c.name))) now).1 := by
    show R.st.workers c.name = _
    have hnd : ((sortedSteps cfg).map (·.name)).Nodup := (sortedSteps_names_perm cfg).nodup_iff.mpr hwf
    rw [hsh.st]
    unfold rewind
    rw [rewindLoop_at now (sortedSteps cfg) _ [] hnd c (mem_sortedSteps_iff.mpr hc), hS]
  have hip : (deserStep (serStep (st.workers c.name))).inProg = [] := rfl
  have hpend : ((deserStep (serStep (st.workers c.name))).inProg.map inProgToAttempt).reverse
      ++ (deserStep (serStep (st.workers c.name))).queue = pending := by
    rw [hip, deserStep_serStep_queue]; rfl
  have hspec := rewindStep_started c (deserStep (serStep (st.workers c.name))) now
  simp only [hpend] at hspec
  obtain ⟨s1, hst, s3, s4, s5⟩ := hspec
  refine ⟨by rw [hrs]; exact hst, by rw [hrs]; exact s1, by rw [hrs]; exact s3, ?_, ?_, ?_, hsh.outcome⟩
  · rw [hrs, s4]; rfl
  · rw [hrs, s5]; simp [deserStep, serStep, List.map_map, Function.comp_def]
  · intro ip hipm
    apply hsh.workers
    unfold rewind
    have hnd : ((sortedSteps cfg).map (·.name)).Nodup := (sortedSteps_names_perm cfg).nodup_iff.mpr hwf
    apply rewindLoop_cmds_step now (sortedSteps cfg) (roundtrip cfg st) [] hnd c (mem_sortedSteps_iff.mpr hc)
    rw [hS]
    apply rewindStep_workers
    rw [← hrs]; exact hipm

end Engine
