import WfProofs.ValidateSpec
/-!
Helper lemmas for the C23 extension, part 2: the specification does not depend on the order of the
steps (the order of the `steps` dict), and the clause an error stands for is determined by the step set.
-/
open Validate

namespace C23

section
variable {H : Hier} {W W' : List Step}

theorem consumed_congr (hm : ∀ s, s ∈ W ↔ s ∈ W') (c : Cls) : Consumed W c ↔ Consumed W' c := by
  unfold Consumed
  constructor <;> rintro ⟨s, hs, h⟩
  · exact ⟨s, (hm s).mp hs, h⟩
  · exact ⟨s, (hm s).mpr hs, h⟩

theorem returned_congr (hm : ∀ s, s ∈ W ↔ s ∈ W') (c : Cls) : Returned W c ↔ Returned W' c := by
  unfold Returned
  constructor <;> rintro ⟨s, hs, h⟩
  · exact ⟨s, (hm s).mp hs, h⟩
  · exact ⟨s, (hm s).mpr hs, h⟩

theorem startType_congr (hm : ∀ s, s ∈ W ↔ s ∈ W') (c : Cls) : StartType H W c ↔ StartType H W' c := by
  unfold StartType; rw [consumed_congr hm]

theorem stopType_congr (hm : ∀ s, s ∈ W ↔ s ∈ W') (c : Cls) : StopType H W c ↔ StopType H W' c := by
  unfold StopType; rw [returned_congr hm]

theorem produced_congr (hm : ∀ s, s ∈ W ↔ s ∈ W') (c : Cls) : Produced H W c ↔ Produced H W' c := by
  unfold Produced; rw [returned_congr hm, startType_congr hm]

theorem eventType_congr (hm : ∀ s, s ∈ W ↔ s ∈ W') (c : Cls) : EventType W c ↔ EventType W' c := by
  unfold EventType; rw [returned_congr hm, consumed_congr hm]

theorem edge_congr (hm : ∀ s, s ∈ W ↔ s ∈ W') {a b : Node} (h : Edge W a b) : Edge W' a b := by
  cases h with
  | consume hs hc => exact .consume ((hm _).mp hs) hc
  | produce hs hc hn => exact .produce ((hm _).mp hs) hc hn

theorem reach_congr (hm : ∀ s, s ∈ W ↔ s ∈ W') (a b : Node) : Reach (Edge W) a b ↔ Reach (Edge W') a b :=
  ⟨Reach.mono fun _ _ h => edge_congr hm h, Reach.mono fun _ _ h => edge_congr (fun s => (hm s).symm) h⟩

theorem inputSeed_congr (hm : ∀ s, s ∈ W ↔ s ∈ W') (x : Node) : InputSeed H W x ↔ InputSeed H W' x := by
  cases x with
  | ev c => simp only [InputSeed, startType_congr hm, eventType_congr hm]
  | step n =>
    simp only [InputSeed]
    constructor <;> rintro ⟨s, hs, h⟩
    · exact ⟨s, (hm s).mp hs, h⟩
    · exact ⟨s, (hm s).mpr hs, h⟩

theorem output_congr (hm : ∀ s, s ∈ W ↔ s ∈ W') (c : Cls) : Output H W c ↔ Output H W' c := by
  unfold Output; rw [eventType_congr hm]

theorem uniqueStart_congr (hm : ∀ s, s ∈ W ↔ s ∈ W') : UniqueStart H W ↔ UniqueStart H W' := by
  unfold UniqueStart; simp only [startType_congr hm]

theorem uniqueStop_congr (hm : ∀ s, s ∈ W ↔ s ∈ W') : UniqueStop H W ↔ UniqueStop H W' := by
  unfold UniqueStop; simp only [stopType_congr hm]

theorem noStopConsumer_congr (hm : ∀ s, s ∈ W ↔ s ∈ W') : NoStopConsumer H W ↔ NoStopConsumer H W' := by
  unfold NoStopConsumer; simp only [consumed_congr hm]

theorem consumedProduced_congr (hm : ∀ s, s ∈ W ↔ s ∈ W') : ConsumedProduced H W ↔ ConsumedProduced H W' := by
  unfold ConsumedProduced; simp only [consumed_congr hm, produced_congr hm]

theorem producedConsumed_congr (hm : ∀ s, s ∈ W ↔ s ∈ W') : ProducedConsumed H W ↔ ProducedConsumed H W' := by
  unfold ProducedConsumed; simp only [consumed_congr hm, produced_congr hm]

theorem budgetsOK_congr (hm : ∀ s, s ∈ W ↔ s ∈ W') : BudgetsOK W ↔ BudgetsOK W' := by
  unfold BudgetsOK
  constructor <;> intro h s hs
  · exact h s ((hm s).mpr hs)
  · exact h s ((hm s).mp hs)

theorem nonempty_congr (hm : ∀ s, s ∈ W ↔ s ∈ W') : W ≠ [] ↔ W' ≠ [] := by
  constructor
  · intro h h'
    cases W with
    | nil => exact h rfl
    | cons a l => have := (hm a).mp (List.mem_cons_self ..); rw [h'] at this; cases this
  · intro h h'
    cases W' with
    | nil => exact h rfl
    | cons a l => have := (hm a).mpr (List.mem_cons_self ..); rw [h'] at this; cases this

theorem allReachable_congr (hm : ∀ s, s ∈ W ↔ s ∈ W') (skip : List Nat) : AllReachable H W skip ↔ AllReachable H W' skip := by
  unfold AllReachable
  simp only [inputSeed_congr hm, reach_congr hm]
  apply or_congr Iff.rfl
  constructor <;> intro h s hs
  · exact h s ((hm s).mpr hs)
  · exact h s ((hm s).mp hs)

theorem terminalOK_congr (hm : ∀ s, s ∈ W ↔ s ∈ W') (skip : List Nat) : TerminalOK H W skip ↔ TerminalOK H W' skip := by
  unfold TerminalOK; simp only [eventType_congr hm, consumed_congr hm]

theorem noDeadEnd_congr (hm : ∀ s, s ∈ W ↔ s ∈ W') (skip : List Nat) : NoDeadEnd H W skip ↔ NoDeadEnd H W' skip := by
  unfold NoDeadEnd
  simp only [output_congr hm, reach_congr hm]
  apply or_congr Iff.rfl
  constructor <;> intro h s hs
  · exact h s ((hm s).mpr hs)
  · exact h s ((hm s).mp hs)

theorem usesHitl_congr (hm : ∀ s, s ∈ W ↔ s ∈ W') : UsesHitl H W ↔ UsesHitl H W' := by
  unfold UsesHitl; simp only [consumed_congr hm, produced_congr hm]

theorem handlersOK_perm (hp : W.Perm W') (h : HandlersOK W) : HandlersOK W' := by
  have hm : ∀ s, s ∈ W ↔ s ∈ W' := fun s => hp.mem_iff
  refine ⟨?_, ?_, ?_, (budgetsOK_congr hm).mp h.budgets⟩
  · rw [← (hp.filter _).length_eq]; exact h.oneWildcard
  · intro hd hdm hh ts hts t ht
    obtain ⟨s, hs, hn⟩ := h.targets hd ((hm hd).mpr hdm) hh ts hts t ht
    exact ⟨s, (hm s).mp hs, hn⟩
  · exact (((hp.filter _).flatMap_right _).nodup_iff).mp h.noDoubleClaim

theorem handlersOK_congr (hp : W.Perm W') : HandlersOK W ↔ HandlersOK W' :=
  ⟨handlersOK_perm hp, handlersOK_perm hp.symm⟩

theorem wellFormed_perm (hp : W.Perm W') (skip : List Nat) (h : WellFormed H W skip) : WellFormed H W' skip := by
  have hm : ∀ s, s ∈ W ↔ s ∈ W' := fun s => hp.mem_iff
  exact {
    nonempty := (nonempty_congr hm).mp h.nonempty
    start := (uniqueStart_congr hm).mp h.start
    stop := (uniqueStop_congr hm).mp h.stop
    noStopConsumer := (noStopConsumer_congr hm).mp h.noStopConsumer
    consumedProduced := (consumedProduced_congr hm).mp h.consumedProduced
    producedConsumed := (producedConsumed_congr hm).mp h.producedConsumed
    handlers := handlersOK_perm hp h.handlers
    reachable := (allReachable_congr hm skip).mp h.reachable
    terminal := (terminalOK_congr hm skip).mp h.terminal
    noDeadEnd := (noDeadEnd_congr hm skip).mp h.noDeadEnd }

theorem names_perm (hp : W.Perm W') : (names W).Perm (names W') := hp.map _

end

/-- which clause an error stands for -/
def _root_.Validate.Err.kind : Err → Nat
  | .noSteps => 0
  | .noStart => 1
  | .multiStart => 2
  | .noStop => 3
  | .multiStop => 4
  | .unknownCheck => 5
  | .acceptsStop _ => 6
  | .consumedNotProduced _ => 7
  | .producedNotConsumed _ => 8
  | .handlerMaxRec => 9
  | .handlerStructure => 10
  | .graph _ => 11

theorem pre2_congr {H : Hier} {W W' : List Step} (hm : ∀ s, s ∈ W ↔ s ∈ W') : Pre2 H W ↔ Pre2 H W' := by
  unfold Pre2; rw [nonempty_congr hm, uniqueStart_congr hm, uniqueStop_congr hm]

theorem pre5_congr {H : Hier} {W W' : List Step} (hm : ∀ s, s ∈ W ↔ s ∈ W') : Pre5 H W ↔ Pre5 H W' := by
  unfold Pre5; rw [pre2_congr hm, noStopConsumer_congr hm, consumedProduced_congr hm, producedConsumed_congr hm]

/-- the meaning of an error only depends on the step set, not on its order -/
theorem errorMeaning_perm {H : Hier} {W W' : List Step} (hp : W.Perm W') (skip : List Nat) (e : Err)
    (h : ErrorMeaning H W skip e) : ErrorMeaning H W' skip e := by
  have hm : ∀ s, s ∈ W ↔ s ∈ W' := fun s => hp.mem_iff
  cases e with
  | noSteps => simp only [ErrorMeaning] at h ⊢; subst h; exact hp.nil_eq.symm
  | noStart => simp only [ErrorMeaning, ← startType_congr hm, ← nonempty_congr hm] at h ⊢; exact h
  | multiStart => simp only [ErrorMeaning, ← startType_congr hm, ← nonempty_congr hm] at h ⊢; exact h
  | noStop => simp only [ErrorMeaning, ← stopType_congr hm, ← nonempty_congr hm, ← uniqueStart_congr hm] at h ⊢; exact h
  | multiStop => simp only [ErrorMeaning, ← stopType_congr hm, ← nonempty_congr hm, ← uniqueStart_congr hm] at h ⊢; exact h
  | unknownCheck => exact h
  | acceptsStop l =>
    simp only [ErrorMeaning, ← pre2_congr hm, ← noStopConsumer_congr hm] at h ⊢
    refine ⟨h.1, h.2.1, fun n => (h.2.2 n).trans ?_⟩
    constructor <;> rintro ⟨s, hs, r⟩
    · exact ⟨s, (hm s).mp hs, r⟩
    · exact ⟨s, (hm s).mpr hs, r⟩
  | consumedNotProduced l =>
    simp only [ErrorMeaning, ← pre2_congr hm, ← noStopConsumer_congr hm, ← consumedProduced_congr hm, ← consumed_congr hm,
      ← produced_congr hm] at h ⊢
    exact h
  | producedNotConsumed l =>
    simp only [ErrorMeaning, ← pre2_congr hm, ← noStopConsumer_congr hm, ← consumedProduced_congr hm, ← consumed_congr hm,
      ← produced_congr hm, ← producedConsumed_congr hm] at h ⊢
    exact h
  | handlerMaxRec => simp only [ErrorMeaning, ← pre5_congr hm, ← budgetsOK_congr hm] at h ⊢; exact h
  | handlerStructure =>
    simp only [ErrorMeaning, ← pre5_congr hm, ← budgetsOK_congr hm, ← handlersOK_congr hp] at h ⊢; exact h
  | graph g =>
    simp only [ErrorMeaning, ← pre5_congr hm, ← handlersOK_congr hp, ← allReachable_congr hm, ← terminalOK_congr hm,
      ← noDeadEnd_congr hm] at h ⊢
    exact h

/-- the clauses `_validate_workflow` checks, in the order it checks them -/
def Clause (H : Hier) (W : List Step) (skip : List Nat) : Nat → Prop
  | 0 => W ≠ []
  | 1 => ∃ c, StartType H W c
  | 2 => UniqueStart H W
  | 3 => ∃ c, StopType H W c
  | 4 => UniqueStop H W
  | 5 => True
  | 6 => NoStopConsumer H W
  | 7 => ConsumedProduced H W
  | 8 => ProducedConsumed H W
  | 9 => BudgetsOK W
  | 10 => HandlersOK W
  | _ => AllReachable H W skip ∧ TerminalOK H W skip ∧ NoDeadEnd H W skip

theorem uniqueStart_exists {H : Hier} {W : List Step} (h : UniqueStart H W) : ∃ c, StartType H W c :=
  let ⟨c, hc, _⟩ := h; ⟨c, hc⟩

theorem uniqueStop_exists {H : Hier} {W : List Step} (h : UniqueStop H W) : ∃ c, StopType H W c :=
  let ⟨c, hc, _⟩ := h; ⟨c, hc⟩

theorem not_unique_of_two {P : Cls → Prop} (h : ∃ c d, c ≠ d ∧ P c ∧ P d) : ¬∃ c, P c ∧ ∀ d, P d → d = c := by
  rintro ⟨c, _, hu⟩
  obtain ⟨a, b, hab, ha, hb⟩ := h
  exact hab ((hu a ha).trans (hu b hb).symm)

/-- an error of kind `k` means: clauses `0 .. k-1` hold and clause `k` fails -/
theorem errorMeaning_clauses {H : Hier} {W : List Step} {skip : List Nat} {e : Err} (h : ErrorMeaning H W skip e) :
    (∀ i, i < e.kind → Clause H W skip i) ∧ ¬Clause H W skip e.kind := by
  cases e with
  | noSteps => exact ⟨fun i hi => absurd hi (Nat.not_lt_zero i), fun hn => hn h⟩
  | noStart =>
    obtain ⟨h0, h1⟩ := h
    refine ⟨fun i hi => ?_, h1⟩
    have : i = 0 := by simp only [Err.kind] at hi; omega
    subst this; exact h0
  | multiStart =>
    obtain ⟨h0, c, d, hcd, hc, hd⟩ := h
    refine ⟨fun i hi => ?_, not_unique_of_two ⟨c, d, hcd, hc, hd⟩⟩
    have : i = 0 ∨ i = 1 := by simp only [Err.kind] at hi; omega
    rcases this with rfl | rfl
    · exact h0
    · exact ⟨c, hc⟩
  | noStop =>
    obtain ⟨h0, h2, h3⟩ := h
    refine ⟨fun i hi => ?_, h3⟩
    have : i = 0 ∨ i = 1 ∨ i = 2 := by simp only [Err.kind] at hi; omega
    rcases this with rfl | rfl | rfl
    · exact h0
    · exact uniqueStart_exists h2
    · exact h2
  | multiStop =>
    obtain ⟨h0, h2, c, d, hcd, hc, hd⟩ := h
    refine ⟨fun i hi => ?_, not_unique_of_two ⟨c, d, hcd, hc, hd⟩⟩
    have : i = 0 ∨ i = 1 ∨ i = 2 ∨ i = 3 := by simp only [Err.kind] at hi; omega
    rcases this with rfl | rfl | rfl | rfl
    · exact h0
    · exact uniqueStart_exists h2
    · exact h2
    · exact ⟨c, hc.1, hc.2⟩
  | unknownCheck => exact absurd h id
  | acceptsStop l =>
    obtain ⟨⟨h0, h2, h4⟩, hn, _⟩ := h
    refine ⟨fun i hi => ?_, hn⟩
    have : i = 0 ∨ i = 1 ∨ i = 2 ∨ i = 3 ∨ i = 4 ∨ i = 5 := by simp only [Err.kind] at hi; omega
    rcases this with rfl | rfl | rfl | rfl | rfl | rfl
    · exact h0
    · exact uniqueStart_exists h2
    · exact h2
    · exact uniqueStop_exists h4
    · exact h4
    · trivial
  | consumedNotProduced l =>
    obtain ⟨⟨h0, h2, h4⟩, h6, hn, _⟩ := h
    refine ⟨fun i hi => ?_, hn⟩
    have : i = 0 ∨ i = 1 ∨ i = 2 ∨ i = 3 ∨ i = 4 ∨ i = 5 ∨ i = 6 := by simp only [Err.kind] at hi; omega
    rcases this with rfl | rfl | rfl | rfl | rfl | rfl | rfl
    · exact h0
    · exact uniqueStart_exists h2
    · exact h2
    · exact uniqueStop_exists h4
    · exact h4
    · trivial
    · exact h6
  | producedNotConsumed l =>
    obtain ⟨⟨h0, h2, h4⟩, h6, h7, hn, _⟩ := h
    refine ⟨fun i hi => ?_, hn⟩
    have : i = 0 ∨ i = 1 ∨ i = 2 ∨ i = 3 ∨ i = 4 ∨ i = 5 ∨ i = 6 ∨ i = 7 := by simp only [Err.kind] at hi; omega
    rcases this with rfl | rfl | rfl | rfl | rfl | rfl | rfl | rfl
    · exact h0
    · exact uniqueStart_exists h2
    · exact h2
    · exact uniqueStop_exists h4
    · exact h4
    · trivial
    · exact h6
    · exact h7
  | handlerMaxRec =>
    obtain ⟨⟨⟨h0, h2, h4⟩, h6, h7, h8⟩, hn⟩ := h
    refine ⟨fun i hi => ?_, hn⟩
    have : i = 0 ∨ i = 1 ∨ i = 2 ∨ i = 3 ∨ i = 4 ∨ i = 5 ∨ i = 6 ∨ i = 7 ∨ i = 8 := by simp only [Err.kind] at hi; omega
    rcases this with rfl | rfl | rfl | rfl | rfl | rfl | rfl | rfl | rfl
    · exact h0
    · exact uniqueStart_exists h2
    · exact h2
    · exact uniqueStop_exists h4
    · exact h4
    · trivial
    · exact h6
    · exact h7
    · exact h8
  | handlerStructure =>
    obtain ⟨⟨⟨h0, h2, h4⟩, h6, h7, h8⟩, h9, hn⟩ := h
    refine ⟨fun i hi => ?_, hn⟩
    have : i = 0 ∨ i = 1 ∨ i = 2 ∨ i = 3 ∨ i = 4 ∨ i = 5 ∨ i = 6 ∨ i = 7 ∨ i = 8 ∨ i = 9 := by
      simp only [Err.kind] at hi; omega
    rcases this with rfl | rfl | rfl | rfl | rfl | rfl | rfl | rfl | rfl | rfl
    · exact h0
    · exact uniqueStart_exists h2
    · exact h2
    · exact uniqueStop_exists h4
    · exact h4
    · trivial
    · exact h6
    · exact h7
    · exact h8
    · exact h9
  | graph g =>
    obtain ⟨⟨⟨h0, h2, h4⟩, h6, h7, h8⟩, h10, hn, _⟩ := h
    refine ⟨fun i hi => ?_, hn⟩
    have : i = 0 ∨ i = 1 ∨ i = 2 ∨ i = 3 ∨ i = 4 ∨ i = 5 ∨ i = 6 ∨ i = 7 ∨ i = 8 ∨ i = 9 ∨ i = 10 := by
      simp only [Err.kind] at hi; omega
    rcases this with rfl | rfl | rfl | rfl | rfl | rfl | rfl | rfl | rfl | rfl | rfl
    · exact h0
    · exact uniqueStart_exists h2
    · exact h2
    · exact uniqueStop_exists h4
    · exact h4
    · trivial
    · exact h6
    · exact h7
    · exact h8
    · exact h10.budgets
    · exact h10

/-- two errors that both describe the first failing clause of one step set stand for the same clause -/
theorem errorMeaning_kind_unique {H : Hier} {W : List Step} {skip : List Nat} {e e' : Err}
    (h : ErrorMeaning H W skip e) (h' : ErrorMeaning H W skip e') : e.kind = e'.kind := by
  obtain ⟨a, na⟩ := errorMeaning_clauses h
  obtain ⟨b, nb⟩ := errorMeaning_clauses h'
  rcases Nat.lt_trichotomy e.kind e'.kind with hlt | heq | hgt
  · exact absurd (b _ hlt) na
  · exact heq
  · exact absurd (a _ hgt) nb

/-- two errors carry the same offenders (as sets) -/
def SameOffenders : Err → Err → Prop
  | .acceptsStop l, .acceptsStop l' => ∀ n, n ∈ l ↔ n ∈ l'
  | .consumedNotProduced l, .consumedNotProduced l' => ∀ n, n ∈ l ↔ n ∈ l'
  | .producedNotConsumed l, .producedNotConsumed l' => ∀ n, n ∈ l ↔ n ∈ l'
  | .graph g, .graph g' => (∀ n, n ∈ g.unreach ↔ n ∈ g'.unreach) ∧ (∀ n, n ∈ g.dangling ↔ n ∈ g'.dangling) ∧
      ∀ n, n ∈ g.deadEnd ↔ n ∈ g'.deadEnd
  | e, e' => e = e'

end C23
