"""Several consumers of ONE run's event stream that are alive at the same time (C04).

"... so a consumer of stream_events() always terminates when the run does."  The stream of a run is handed out
once: whoever iterates `handler.stream_events()` / `ctx.stream_events()` first owns it, everybody else waits behind
it (or takes over when the owner leaves early, the break-and-resume pattern).  Whatever the arrival order, once the
run has ended and nothing is runnable any more every consumer must be finished: it received the terminal event, it
left on its own after `limit` events, or it was refused with WorkflowRuntimeError.  A consumer that is still
waiting for events of a run that no longer exists is the violation.

A scenario is
  {"kind": result|fail|cancel|timeout, "pre": events written before the step parks, "post": events written after,
   "consumers": [{"api": handler|ctx, "start": s, "limit": null|k, "leave": aclose|drop, "at_terminal": ...}, ...]}
consumer j is started as soon as `start` events have been delivered (to anybody); a consumer whose threshold lies
behind the park point is started after the step has been let go; start "terminal": as soon as another consumer has
been given the terminal event (thresholds count internal dispatch events too, which ctx.stream_events() delivers).  `at_terminal` says what the consumer that receives the terminal event does with it: nothing
(keeps iterating, the stream ends), awaits the run's outcome first, breaks out of its loop, or closes the generator.

Independent oracle: the step records what it wrote; the consumers record what they got.  Checked after the run has
ended and the virtual loop has gone quiescent (a virtual sleep returns only when nothing else is runnable):
  * every consumer task is finished                                      (overlap_consumer_never_terminates:...)
  * a consumer whose stream ended received the terminal event last        (overlap_stream_ended_without_terminal)
  * no written event delivered twice, order kept, nothing foreign         (overlap_event_duplicated / _order)
  * at most one terminal event in total, of the outcome's kind; all written events delivered before it
"""
from __future__ import annotations

import asyncio
import gc
import random
from typing import Any

from workflows import Context, Workflow, step
from workflows.errors import WorkflowCancelledByUser, WorkflowRuntimeError, WorkflowTimeoutError
from workflows.events import (Event, StartEvent, StopEvent, WorkflowCancelledEvent, WorkflowFailedEvent,
                              WorkflowTimedOutEvent)

from ..runner import Violation
from ..vloop import run_virtual

KINDS = ["result", "fail", "cancel", "timeout"]
TERMINAL = {"result": StopEvent, "fail": WorkflowFailedEvent, "cancel": WorkflowCancelledEvent, "timeout": WorkflowTimedOutEvent}
AT_TERMINAL = ["none", "await_outcome", "break", "aclose"]
RUN_TIMEOUT = 30


class Note(Event):
    i: int


def _is_terminal(e: Any) -> bool:
    return isinstance(e, (StopEvent, WorkflowFailedEvent, WorkflowCancelledEvent, WorkflowTimedOutEvent))


def _make_wf(sc: dict, written: list[int], parked: asyncio.Event, gate: asyncio.Event) -> Workflow:
    kind, pre, post = sc["kind"], sc["pre"], sc["post"]

    class Flow(Workflow):
        @step
        async def work(self, ctx: Context, ev: StartEvent) -> StopEvent:
            for i in range(pre):
                written.append(i)
                ctx.write_event_to_stream(Note(i=i))
            parked.set()
            await gate.wait()
            for i in range(pre, pre + post):
                written.append(i)
                ctx.write_event_to_stream(Note(i=i))
            if kind == "fail":
                raise ValueError("boom")
            if kind in ("cancel", "timeout"):
                await asyncio.sleep(1000)  # cancel: from outside; timeout: the run timeout fires (virtual time)
            return StopEvent(result="done")

    return Flow(timeout=RUN_TIMEOUT)


def gen_scenario(rng: random.Random) -> dict:
    kind = rng.choice(KINDS)
    pre, post = rng.randint(0, 3), rng.randint(0, 2)
    total = pre + post
    shape = rng.random()
    cons: list[dict] = []
    if shape < 0.5:
        # the plain shape: an owner that reads everything, the others arrive while it is waiting for more
        cons.append({"api": rng.choice(["handler", "ctx"]), "start": 0, "limit": None, "leave": "aclose",
                     "at_terminal": rng.choice(AT_TERMINAL)})
        for _ in range(rng.choice([1, 1, 2])):
            cons.append({"api": rng.choice(["handler", "ctx"]), "start": rng.randint(0, pre), "limit": None, "leave": "aclose",
                         "at_terminal": rng.choice(AT_TERMINAL)})
    else:
        for j in range(rng.choice([1, 2, 2, 3, 3])):
            cons.append({"api": rng.choice(["handler", "ctx"]),
                         "start": 0 if j == 0 else rng.randint(0, total + 1),
                         "limit": None if rng.random() < 0.6 else rng.randint(1, 3),
                         "leave": rng.choice(["aclose", "drop"]),
                         "at_terminal": rng.choice(AT_TERMINAL)})
    if len(cons) >= 2 and rng.random() < 0.15:
        cons[-1]["start"] = "terminal"  # arrives as soon as somebody else has been given the terminal event
    cons.sort(key=lambda c: (1, 0) if c["start"] == "terminal" else (0, c["start"]))
    return {"kind": kind, "pre": pre, "post": post, "consumers": cons}


async def _outcome(handler: Any) -> str:
    try:
        await handler
        return "result"
    except WorkflowCancelledByUser:
        return "cancel"
    except WorkflowTimeoutError:
        return "timeout"
    except asyncio.CancelledError:
        raise
    except Exception:
        return "fail"


def run_scenario(sc: dict) -> tuple[list[Violation], dict]:
    """returns (violations, counters)"""
    out: list[Violation] = []
    info: dict[str, int] = {}
    from . import live
    live.patch_clocks()
    case = {"overlap": sc}

    def bump(k: str) -> None:
        info[k] = info.get(k, 0) + 1

    async def main(_loop: Any) -> None:
        written: list[int] = []
        parked, gate = asyncio.Event(), asyncio.Event()
        wf = _make_wf(sc, written, parked, gate)
        h = wf.run()
        delivered = [0]           # events handed to any consumer so far
        terminal_seen: list[Any] = []
        recs: list[dict] = []

        async def consumer(j: int, c: dict, rec: dict) -> None:
            rec["outcome_available_at_entry"] = h.is_done()
            rec["terminal_taken_at_entry"] = bool(terminal_seen)
            agen = h.stream_events() if c["api"] == "handler" else h.ctx.stream_events()
            try:
                async for e in agen:
                    rec["got"].append(e)
                    delivered[0] += 1
                    if _is_terminal(e):
                        terminal_seen.append(e)
                        how = c["at_terminal"]
                        if how == "await_outcome":
                            await _outcome(h)
                        elif how == "break":
                            rec["how"] = "left_at_terminal"
                            rec["outcome_available_at_release"] = h.is_done()
                            return
                        elif how == "aclose":
                            rec["how"] = "left_at_terminal"
                            rec["outcome_available_at_release"] = h.is_done()
                            await agen.aclose()
                            return
                        continue
                    if c["limit"] is not None and len(rec["got"]) >= c["limit"]:
                        rec["how"] = "left_early"
                        if c["leave"] == "aclose":
                            await agen.aclose()
                        return
                rec["how"] = "stream_ended"
                if rec["got"] and _is_terminal(rec["got"][-1]):
                    rec["outcome_available_at_release"] = h.is_done()
            except WorkflowRuntimeError as ex:
                rec["how"] = "refused"
                rec["refusal"] = str(ex)

        def reached(start: Any) -> bool:
            return bool(terminal_seen) if start == "terminal" else delivered[0] >= start

        ended = [False]

        async def end_run() -> None:
            if ended[0]:
                return
            ended[0] = True
            if sc["kind"] == "cancel":
                for _ in range(30):
                    await asyncio.sleep(0)
                await h.cancel_run()
            elif sc["kind"] == "timeout":
                await asyncio.sleep(RUN_TIMEOUT - 1)  # virtual; the timeout fires while the remaining consumers are started

        tasks: list[asyncio.Task] = []
        for j, c in enumerate(sc["consumers"]):
            # wait for the threshold; let the step go when the threshold lies behind the park point
            for phase in range(2):
                for _ in range(200):
                    if reached(c["start"]):
                        break
                    await asyncio.sleep(0)
                if reached(c["start"]) or gate.is_set():
                    break
                gate.set()
                if sc["kind"] in ("cancel", "timeout") and c["start"] == "terminal":
                    await end_run()
            rec = {"got": [], "how": "blocked", "started_after": delivered[0], "run_done_at_start": h.is_done()}
            recs.append(rec)
            tasks.append(asyncio.create_task(consumer(j, c, rec)))
            for _ in range(5):
                await asyncio.sleep(0)
        for _ in range(50):  # every consumer gets as far as it can while the step is parked
            await asyncio.sleep(0)
        gate.set()
        await end_run()
        got = await _outcome(h)
        if got != sc["kind"]:
            out.append(Violation("C04/overlap_outcome_mismatch", f"scripted {sc['kind']}, the run finished as {got}", case))
        # the run has ended; a virtual sleep returns only after everything runnable has run
        gc.collect()
        await asyncio.sleep(500)
        gc.collect()
        await asyncio.sleep(500)

        taker = next((r for r in recs if r["got"] and _is_terminal(r["got"][-1])), None)
        for j, (c, rec, t) in enumerate(zip(sc["consumers"], recs, tasks)):
            names = [type(e).__name__ for e in rec["got"]]
            if not t.done():
                bump("blocked")
                if taker is None:
                    cls = "terminal_event_never_delivered"
                else:
                    # the moment the stream became free for this consumer: the later of its arrival and the other one's release
                    # (the outcome stays available once it is, so: available at either of the two moments)
                    avail = bool(rec["outcome_available_at_entry"] or taker.get("outcome_available_at_release"))
                    cls = "stream_free_after_outcome_available" if avail else "stream_free_before_outcome_available"
                mode = ("arrived after the terminal event had been taken" if rec["terminal_taken_at_entry"] else "was waiting behind the other consumer")
                out.append(Violation(
                    f"C04/overlap_consumer_never_terminates:{cls}",
                    f"the run ended ({got}); consumer {j} ({c['api']}.stream_events(), started after {rec['started_after']} delivered events, "
                    f"received {names}, {mode}) is still blocked with nothing runnable left; the terminal event "
                    + (f"{type(taker['got'][-1]).__name__} went to consumer {recs.index(taker)} ({sc['consumers'][recs.index(taker)]['api']}, "
                       f"at_terminal={sc['consumers'][recs.index(taker)]['at_terminal']})" if taker is not None else "was delivered to nobody")
                    + "; expected: it receives the terminal event or is refused with WorkflowRuntimeError", case))
                t.cancel()
                continue
            if t.exception() is not None:
                bump("crashed")
                out.append(Violation(f"C04/overlap_consumer_crashed:{type(t.exception()).__name__}",
                                     f"consumer {j} ({c['api']}): {t.exception()!r}", case))
                continue
            bump(rec["how"])
            if rec["how"] == "stream_ended" and not (rec["got"] and _is_terminal(rec["got"][-1])):
                out.append(Violation("C04/overlap_stream_ended_without_terminal",
                                     f"consumer {j} ({c['api']}): its stream ended after {names} although it was neither refused nor given the terminal event", case))
            terms = [e for e in rec["got"] if _is_terminal(e)]
            if terms and (len(terms) != 1 or rec["got"][-1] is not terms[0]):
                out.append(Violation("C04/overlap_terminal_not_unique_last", f"consumer {j} ({c['api']}): {names}", case))
        # what was delivered, against what the step wrote
        all_notes = [e.i for rec in recs for e in rec["got"] if isinstance(e, Note)]
        if len(all_notes) != len(set(all_notes)):
            out.append(Violation("C04/overlap_event_duplicated", f"wrote {written}, delivered {[[e.i for e in r['got'] if isinstance(e, Note)] for r in recs]}", case))
        if any(i not in written for i in all_notes):
            out.append(Violation("C04/overlap_foreign_event", f"wrote {written}, delivered {all_notes}", case))
        for j, rec in enumerate(recs):
            mine = [e.i for e in rec["got"] if isinstance(e, Note)]
            if mine != sorted(mine):
                out.append(Violation("C04/overlap_order", f"consumer {j}: {mine}", case))
        all_terms = [e for rec in recs for e in rec["got"] if _is_terminal(e)]
        if len(all_terms) > 1:
            out.append(Violation("C04/overlap_terminal_delivered_twice", f"{[type(e).__name__ for e in all_terms]}", case))
        elif len(all_terms) == 1:
            bump("terminal_delivered")
            if type(all_terms[0]) is not TERMINAL[got] and not (got == "result" and isinstance(all_terms[0], StopEvent) and not isinstance(
                    all_terms[0], (WorkflowFailedEvent, WorkflowCancelledEvent, WorkflowTimedOutEvent))):
                out.append(Violation("C04/overlap_terminal_mismatch", f"outcome {got}, terminal event {type(all_terms[0]).__name__}", case))
            if sorted(all_notes) != sorted(written):
                out.append(Violation("C04/overlap_events_lost", f"the terminal event was delivered, but of the written {written} only {sorted(all_notes)} were", case))
        else:
            # nobody read to the end (every consumer left early): whoever comes now gets the rest and the terminal event
            bump("terminal_left_in_queue")
            rest: list = []

            async def drain() -> None:
                async for e in h.ctx.stream_events():
                    rest.append(e)
            try:
                await asyncio.wait_for(drain(), 50)
            except WorkflowRuntimeError:
                rest.append("refused")
            except asyncio.TimeoutError:
                rest.append("blocked")
            if not (rest and _is_terminal(rest[-1]) and isinstance(rest[-1], TERMINAL[got])
                    and sorted(all_notes + [e.i for e in rest if isinstance(e, Note)]) == sorted(written)):
                out.append(Violation("C04/overlap_rest_of_stream_wrong",
                                     f"every consumer left early after {sorted(all_notes)} of {written}; a late consumer then got "
                                     f"{[e if isinstance(e, str) else type(e).__name__ for e in rest]} (expected the remaining events and {TERMINAL[got].__name__})", case))
        if len(tasks) >= 2 and taker is not None:
            bump("overlap:" + ("outcome_available_at_release" if taker.get("outcome_available_at_release") else "released_before_outcome"))

    try:
        run_virtual(main, max_time=100000.0)
    except TimeoutError:
        out.append(Violation("C04/overlap_deadlock", "scenario deadlocked", case))
    return out, info
