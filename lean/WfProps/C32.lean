import WfProofs.DeployId
import WfProofs.DeployIdExt
import WfProofs.DeployIdRx
/-!
# C32 — generated deployment ids are valid DNS-1035 labels

Property theorems only (helper lemmas live in `WfProofs/DeployId.lean`).
Quantification: every display name (any `List Char`, i.e. any Unicode string
after `str.lower()`), every `force_suffix`, every sequence of availability
answers from Kubernetes and every sequence of random draws.
-/
open DeployId

/-- The source still has the shape the model transcribes: the three `re.sub`
patterns, the `"d-"` prefix, the two alphabets, the label regex, the constants
and the suffix condition.  Regenerated from `/repo` on every run. -/
theorem C32_source_shape :
    Gen.C32.maxLength = 63 ∧ Gen.C32.randomness = 5 ∧ Gen.C32.minLength = 3 ∧
    Gen.C32.minLengthOp = "Lt" ∧
    Gen.C32.minCountExpr = "len(re.findall('[a-z0-9]', name.lower()))" ∧
    Gen.C32.numSubs = 3 ∧
    (Gen.C32.subPattern0, Gen.C32.subRepl0) = ("[^a-z0-9]", "-") ∧
    (Gen.C32.subPattern1, Gen.C32.subRepl1) = ("-+", "-") ∧
    (Gen.C32.subPattern2, Gen.C32.subRepl2) = ("^-|-$", "") ∧
    Gen.C32.digitPrefix = "d-" ∧ Gen.C32.hexAlphabet = "0123456789abcdef" ∧
    Gen.C32.altAlphabet = "abcdef" ∧
    Gen.C32.dnsRegex = "^[a-z]([a-z0-9-]{0,61}[a-z0-9])?$" := by decide

/-- Every id `find_deployment_id` returns is a DNS-1035 label of at most 63
characters (`isDns1035` includes the length bound). -/
theorem C32_valid_label (name : List Char) (force : Bool) (answers : List Bool) (ds : List Draw)
    (hds : ∀ d ∈ ds, wfDraw d = true) (r : List Char)
    (h : findId name force answers ds = some r) : isDns1035 r = true := by
  have hall := baseId_all name
  have hhead := baseId_head name
  unfold findId at h
  simp only at h
  split at h
  · match ds, h, hds with
    | d :: ds', h, hds =>
      simp only at h
      rcases findLoop_cases _ _ _ _ _ _ h with h1 | ⟨d', hd', h2⟩
      · rw [h1]; exact appendSuffix_valid _ d hall hhead (hds d (by simp))
      · rw [h2]; exact appendSuffix_valid _ d' hall hhead (hds d' (by simp [hd']))
  · rename_i hns
    rcases findLoop_cases _ _ _ _ _ _ h with h1 | ⟨d', hd', h2⟩
    · rw [h1]
      apply baseId_valid
      apply baseId_ne_nil
      simp only [needsSuffix, Bool.or_eq_true, decide_eq_true_eq, not_or, Nat.not_lt] at hns
      have : Gen.C32.minLength = 3 := rfl
      omega
    · rw [h2]; exact appendSuffix_valid _ d' hall hhead (hds d' hd')

theorem C32_length_le (name : List Char) (force : Bool) (answers : List Bool) (ds : List Draw)
    (hds : ∀ d ∈ ds, wfDraw d = true) (r : List Char)
    (h : findId name force answers ds = some r) : r.length ≤ 63 := by
  have := C32_valid_label name force answers ds hds r h
  cases r with
  | nil => simp
  | cons c rest => simp only [isDns1035, Bool.and_eq_true, decide_eq_true_eq] at this; exact this.2

/-- The id is either the un-suffixed base (only when the name has at least three
lowercase alphanumerics and no suffix is forced) or the base with a drawn suffix. -/
theorem C32_derived_or_suffixed (name : List Char) (force : Bool) (answers : List Bool)
    (ds : List Draw) (r : List Char) (h : findId name force answers ds = some r) :
    (r = baseId name ∧ 3 ≤ alnumCount name ∧ force = false) ∨
      (∃ d ∈ ds, r = appendSuffix (baseId name) d) := by
  unfold findId at h
  simp only at h
  split at h
  · match ds, h with
    | d :: ds', h =>
      simp only at h
      rcases findLoop_cases _ _ _ _ _ _ h with h1 | ⟨d', hd', h2⟩
      · exact Or.inr ⟨d, by simp, h1⟩
      · exact Or.inr ⟨d', by simp [hd'], h2⟩
  · rename_i hns
    simp only [needsSuffix, Bool.or_eq_true, decide_eq_true_eq, not_or, Nat.not_lt,
      Bool.not_eq_true] at hns
    rcases findLoop_cases _ _ _ _ _ _ h with h1 | ⟨d', hd', h2⟩
    · exact Or.inl ⟨h1, hns.1, hns.2⟩
    · exact Or.inr ⟨d', hd', h2⟩

/-- Fewer than three alphanumerics ⇒ the result always carries a random suffix. -/
theorem C32_short_name_suffixed (name : List Char) (force : Bool) (answers : List Bool)
    (ds : List Draw) (r : List Char) (hshort : alnumCount name < 3)
    (h : findId name force answers ds = some r) :
    ∃ d ∈ ds, r = appendSuffix (baseId name) d := by
  rcases C32_derived_or_suffixed name force answers ds r h with ⟨_, h3, _⟩ | h'
  · omega
  · exact h'

/-- The base id is made of the name's lowercase alphanumerics, in order:
its alphanumerics are a prefix (all of them unless truncated at 63) of the
name's, after the `d` that is prepended when the name starts with a digit. -/
theorem C32_base_from_name (name : List Char) :
    (baseId name).filter isAlnum <+: dPrefix name ++ name.filter isAlnum := by
  rw [← filter_addPrefix]
  exact (baseId_prefix name).filter _

/-- With a long enough name, no forced suffix and a free id, the base id is returned as is. -/
theorem C32_first_try (name : List Char) (rest : List Bool) (ds : List Draw)
    (h3 : 3 ≤ alnumCount name) :
    findId name false (true :: rest) ds = some (baseId name) := by
  have : needsSuffix name false = false := by
    simp only [needsSuffix, Bool.or_false, decide_eq_false_iff_not, Nat.not_lt]
    exact h3
  have hl : loopCount = 98 + 1 := rfl
  simp [findId, this, hl, findLoop]

/-! Non-vacuity: concrete names exercising each branch. -/
example : findId "my service".toList false [true] [] = some "my-service".toList := by decide
example : findId "1".toList false [true] [⟨"0beef".toList, 'c'⟩] = some "d-1-0beef".toList := by decide
example : findId "".toList false [false, true] [⟨"0beef".toList, 'c'⟩, ⟨"12345".toList, 'f'⟩]
    = some "f2345".toList := by decide
example : wfDraw ⟨"0beef".toList, 'c'⟩ = true := by decide
example : isDns1035 "d-1-0beef".toList = true := by decide


/-! ## Extension: the retry loop for every history, the word-join specification, completeness of
the derivation, the shape of suffixed ids, reserved names -/

/-- The control shape the model is cut along, regenerated from `/repo` on every run with locals
spelt positionally (`p`*i* = *i*-th parameter, `v`*i* = *i*-th local of the expression, locals
bound once to an integer literal replaced by it): the loop is `for _ in range(1, 100)` without
`else`, followed by the `raise`; its body validates the current id and otherwise re-suffixes the
*base* id, which is the truncated and stripped one; the truncation arithmetic and join of
`_append_random_suffix`; the tests choosing each branch; the way `create_deployment` computes
`force_suffix`.  The reserved-id table is regenerated too but not pinned: the theorems below are
re-checked against whatever it lists now. -/
theorem C32_source_shape_control :
    Gen.DeployId.loopStart = 1 ∧ Gen.DeployId.loopStop = 100 ∧ Gen.DeployId.loopArgs = 2 ∧
    Gen.DeployId.loopHasElse = false ∧ Gen.DeployId.raiseAfterLoop = true ∧
    Gen.DeployId.baseIsTruncated = true ∧ Gen.DeployId.retryUsesBase = true ∧
    Gen.DeployId.loopBody =
      "if await validate_deployment_id(v0): return v0 ; v0 = _append_random_suffix(v1, 63)" ∧
    Gen.DeployId.toTake = "p1 - 5 - 1" ∧ Gen.DeployId.suffixFormat = "f'{p0[:v0]}-{v1}'" ∧
    Gen.DeployId.truncate = "v0[:63].rstrip('-')" ∧
    Gen.DeployId.prefixTest = "v0 and (not v0[0].isalpha())" ∧
    Gen.DeployId.suffixTest = "v0 < 3 or p1" ∧ Gen.DeployId.emptyTest = "not p0" ∧
    Gen.DeployId.digitTest = "v0[0].isdigit()" ∧
    Gen.DeployId.digitFix = "random.choice('abcdef') + v0[1:]" ∧ Gen.DeployId.choicesK = "5" ∧
    Gen.DeployId.lowerExpr = "p0.lower()" ∧
    Gen.DeployId.forceExpr = "p1.lower() in reserved_deployment_ids" ∧
    Gen.DeployId.forceCall = "find_deployment_id(p1, force_suffix=v0)" ∧
    Gen.DeployId.reservedIds ≠ [] ∧ "<missing>" ∉ Gen.DeployId.reservedIds ∧
    loopCount = 99 := by decide

/-! ### the retry loop, for every sequence of answers and draws -/

/-- Closed form of `find_deployment_id` for every history: with `k` the position of the first
"free" answer, the result is the `k`-th candidate (`cands`: the base id unless a suffix is needed
at once, then one freshly suffixed base per draw) if `k < 99`, and the `ValueError` otherwise
(also when answers or draws run out first). -/
theorem C32_loop_closed_form (name : List Char) (force : Bool) (answers : List Bool)
    (ds : List Draw) :
    findId name force answers ds =
      if answers.idxOf true < 99 ∧ answers.idxOf true < answers.length then
        (cands name force ds)[answers.idxOf true]?
      else none := by
  rw [findId_closed, loopCount_eq]

example : findId "ab".toList false [false, false, true]
    [⟨"11111".toList, 'a'⟩, ⟨"22222".toList, 'b'⟩, ⟨"33333".toList, 'c'⟩]
    = some "ab-33333".toList := by decide
example : (cands "ab".toList false
    [⟨"11111".toList, 'a'⟩, ⟨"22222".toList, 'b'⟩, ⟨"33333".toList, 'c'⟩])[2]?
    = some "ab-33333".toList := by decide

/-- When the derivation gives up (`ValueError`): exactly when no "free" answer comes within the
first 99 lookups, or the candidates (draws) run out before it. -/
theorem C32_gives_up_iff (name : List Char) (force : Bool) (answers : List Bool) (ds : List Draw) :
    findId name force answers ds = none ↔
      ¬ (answers.idxOf true < 99 ∧ answers.idxOf true < answers.length ∧
          answers.idxOf true < (cands name force ds).length) := by
  rw [C32_loop_closed_form]
  split
  · rename_i h
    rw [List.getElem?_eq_none_iff]
    constructor
    · intro hl hc; omega
    · intro hc
      apply Decidable.byContradiction
      intro hlt
      exact hc ⟨h.1, h.2, by omega⟩
  · rename_i h
    constructor
    · intro _ hc; exact h ⟨hc.1, hc.2.1⟩
    · intro _; rfl

example : findId "abc".toList false (List.replicate 99 false ++ [true])
    (List.replicate 100 ⟨"0beef".toList, 'c'⟩) = none := by decide +kernel
example : findId "abc".toList false (List.replicate 98 false ++ [true])
    (List.replicate 100 ⟨"0beef".toList, 'c'⟩) = some "abc-0beef".toList := by decide +kernel

/-- With enough draws, a "free" answer within the first 99 lookups always yields an id. -/
theorem C32_finds_when_free (name : List Char) (force : Bool) (answers : List Bool) (ds : List Draw)
    (hds : 99 ≤ ds.length) (hfree : true ∈ answers.take 99) :
    ∃ r, findId name force answers ds = some r := by
  cases h : findId name force answers ds with
  | some r => exact ⟨r, rfl⟩
  | none =>
    exfalso
    rw [C32_gives_up_iff] at h
    apply h
    have hlt : (answers.take 99).idxOf true < (answers.take 99).length := List.idxOf_lt_length_of_mem hfree
    have hidx : (answers.take 99).idxOf true = answers.idxOf true := by
      have hsplit := List.take_append_drop 99 answers
      conv => rhs; rw [← hsplit]
      rw [List.idxOf_append, if_pos hfree]
    rw [List.length_take] at hlt
    rw [hidx] at hlt
    have hc : 99 ≤ (cands name force ds).length := by
      unfold cands; simp only; split <;> simp <;> omega
    omega

/-- The loop as the code runs it, with `validate_deployment_id` a function of the lookup's index
and of the id asked about (the cluster may change between lookups): the id returned is exactly
the candidate the last lookup was asked about and reported free; every earlier candidate was
asked about once, in order, and reported taken; at most 99 lookups are made. -/
theorem C32_returned_was_validated (avail : Nat → List Char → Bool) (name : List Char)
    (force : Bool) (ds : List Draw) (r : List Char) (m : Nat)
    (h : findIdO avail name force ds = (some r, m)) :
    1 ≤ m ∧ m ≤ 99 ∧ (cands name force ds)[m - 1]? = some r ∧ avail (m - 1) r = true ∧
      ∀ j, j < m - 1 → ∀ c, (cands name force ds)[j]? = some c → avail j c = false := by
  unfold findIdO at h
  simp only at h
  unfold cands
  simp only
  split at h
  · rename_i hns
    simp only [hns, if_true]
    match ds, h with
    | d :: ds', h =>
      simp only at h
      obtain ⟨i, hi, hm, hget, hav, hall⟩ := findLoopO_spec _ avail _ 0 _ ds' r m h
      rw [loopCount_eq] at hi
      have hm1 : m - 1 = i := by omega
      rw [hm1]
      refine ⟨by omega, by omega, by simpa using hget, by simpa using hav, ?_⟩
      intro j hj c hc
      have := hall j hj c (by simpa using hc)
      simpa using this
  · rename_i hns
    simp only [hns]
    obtain ⟨i, hi, hm, hget, hav, hall⟩ := findLoopO_spec _ avail _ 0 _ ds r m h
    rw [loopCount_eq] at hi
    have hm1 : m - 1 = i := by omega
    rw [hm1]
    refine ⟨by omega, by omega, by simpa using hget, by simpa using hav, ?_⟩
    intro j hj c hc
    have := hall j hj c (by simpa using hc)
    simpa using this

example : findIdO (fun k _ => decide (k = 2)) "ab".toList false
    [⟨"11111".toList, 'a'⟩, ⟨"22222".toList, 'b'⟩, ⟨"33333".toList, 'c'⟩]
    = (some "ab-33333".toList, 3) := by decide

/-- …and when it gives up, every lookup made was about the next candidate in order and was
answered "taken"; it made all 99 lookups, or stopped earlier only because draws ran out. -/
theorem C32_gave_up_after_all_taken (avail : Nat → List Char → Bool) (name : List Char)
    (force : Bool) (ds : List Draw) (m : Nat) (h : findIdO avail name force ds = (none, m)) :
    m ≤ 99 ∧ (m = 99 ∨ m = (cands name force ds).length) ∧
      ∀ j, j < m → ∀ c, (cands name force ds)[j]? = some c → avail j c = false := by
  unfold findIdO at h
  simp only at h
  unfold cands
  simp only
  split at h
  · rename_i hns
    simp only [hns, if_true]
    match ds, h with
    | [], h =>
      simp only [Prod.mk.injEq, true_and] at h
      subst h
      exact ⟨by omega, Or.inr (by simp), by intro j hj; omega⟩
    | d :: ds', h =>
      simp only at h
      obtain ⟨i, hm, hi, hall⟩ := findLoopO_none _ avail _ 0 _ ds' m h
      rw [loopCount_eq] at hi
      have hmi : m = i := by omega
      subst hmi
      refine ⟨by omega, ?_, ?_⟩
      · rcases hi with hi | hi
        · exact Or.inl hi
        · exact Or.inr (by simp; omega)
      · intro j hj c hc
        have := hall j hj c (by simpa using hc)
        simpa using this
  · rename_i hns
    simp only [hns]
    obtain ⟨i, hm, hi, hall⟩ := findLoopO_none _ avail _ 0 _ ds m h
    rw [loopCount_eq] at hi
    have hmi : m = i := by omega
    subst hmi
    refine ⟨by omega, ?_, ?_⟩
    · rcases hi with hi | hi
      · exact Or.inl hi
      · exact Or.inr (by simp; omega)
    · intro j hj c hc
      have := hall j hj c (by simpa using hc)
      simpa using this

example : findIdO (fun _ _ => false) "abc".toList false (List.replicate 100 ⟨"0beef".toList, 'c'⟩)
    = (none, 99) := by decide +kernel

/-- The oracle form and the answer-list form are the same function: run the list form on the
answers the oracle gives for the candidates in order.  Hence every theorem about `findId`
(valid label, derived or suffixed, …) holds of `findIdO` too. -/
theorem C32_oracle_agrees (avail : Nat → List Char → Bool) (name : List Char) (force : Bool)
    (ds : List Draw) :
    (findIdO avail name force ds).1 =
      findId name force (oracleAnswers avail 0 (cands name force ds)) ds := by
  unfold findIdO findId cands
  simp only
  split
  · cases ds with
    | nil => rfl
    | cons d ds' => simp only [List.map_cons]; exact findLoopO_eq _ avail _ 0 _ ds'
  · exact findLoopO_eq _ avail _ 0 _ ds

theorem C32_oracle_valid_label (avail : Nat → List Char → Bool) (name : List Char) (force : Bool)
    (ds : List Draw) (hds : ∀ d ∈ ds, wfDraw d = true) (r : List Char) (m : Nat)
    (h : findIdO avail name force ds = (some r, m)) : isDns1035 r = true := by
  have := C32_oracle_agrees avail name force ds
  rw [h] at this
  exact C32_valid_label name force _ ds hds r this.symm

/-! ### what the three `re.sub` passes compute -/

/-- Refinement to the specification: lower-casing aside, the sanitised name (the three `re.sub`
passes) is the name's maximal runs of `[a-z0-9]` joined by single hyphens; the base id is that,
`d-`-prefixed when it starts with a digit, cut at 63 and stripped of a trailing hyphen. -/
theorem C32_words_refinement (name : List Char) :
    stripEnds (collapse (sanitize name)) = hyphenJoin (words name) ∧
    baseId name = rstrip ((addPrefix (hyphenJoin (words name))).take 63) := by
  refine ⟨sanitized_eq_join name, ?_⟩
  rw [baseId_def, preId_eq_join]; rfl

example : words "--My  s3rvice_!x ".toList = ["y".toList, "s3rvice".toList, "x".toList] := by decide
example : baseId "  9 lives--left ".toList = "d-9-lives-left".toList := by decide

/-- Completeness of the derivation: unless the 63-character cut applies, the base id is the whole
word-join (so its alphanumerics are *all* of the name's, after the synthetic `d`); when the cut
applies, at least 62 characters are kept. -/
theorem C32_base_complete_or_truncated (name : List Char) :
    ((addPrefix (hyphenJoin (words name))).length ≤ 63 →
        baseId name = addPrefix (hyphenJoin (words name)) ∧
        (baseId name).filter isAlnum = dPrefix name ++ name.filter isAlnum) ∧
    (63 < (addPrefix (hyphenJoin (words name))).length → 62 ≤ (baseId name).length) := by
  rw [← preId_eq_join]
  refine ⟨fun h => ?_, baseId_of_long name⟩
  have hb := baseId_of_short name h
  refine ⟨hb, ?_⟩
  rw [hb]; exact filter_addPrefix name

example : (addPrefix (hyphenJoin (words "my service".toList))).length ≤ 63 := by decide
example : 63 < (addPrefix (hyphenJoin (words (List.replicate 40 'a' ++ ' ' :: List.replicate 40 'b')))).length := by
  decide +kernel

/-- The base id has no two adjacent hyphens, is empty exactly for names without alphanumerics,
and is a fixed point of the derivation (an id fed back as a display name derives itself). -/
theorem C32_base_canonical (name : List Char) :
    NoDouble (baseId name) ∧ (baseId name = [] ↔ alnumCount name = 0) ∧
      baseId (baseId name) = baseId name :=
  ⟨baseId_noDouble name, baseId_eq_nil_iff name, baseId_idem name⟩

example : baseId "a--b".toList = "a-b".toList ∧ baseId "a-b".toList = "a-b".toList := by decide

/-- What "carries a random suffix" means, for every base and every well-formed draw: a non-empty
base is cut at 57 characters and followed by `-` and the five drawn hex characters (63 at most);
an empty base gives the five drawn characters with a leading digit replaced by the drawn letter. -/
theorem C32_suffix_shape (name : List Char) (d : Draw) (hd : wfDraw d = true) :
    (baseId name ≠ [] →
        appendSuffix (baseId name) d = (baseId name).take 57 ++ '-' :: d.hex ∧
        (appendSuffix (baseId name) d).length = min (baseId name).length 57 + 6) ∧
    (baseId name = [] →
        ∃ h t, d.hex = h :: t ∧ t.length = 4 ∧
          appendSuffix (baseId name) d = (if isDigit h then d.alt else h) :: t) := by
  have hlen := wfDraw_length hd
  constructor
  · intro hne
    cases hb : baseId name with
    | nil => exact absurd hb hne
    | cons c r =>
      rw [appendSuffix_cons]
      refine ⟨rfl, ?_⟩
      simp only [List.length_append, List.length_take, List.length_cons, hlen]
      omega
  · intro he
    rw [he]
    match hh : d.hex, hlen with
    | h :: t, hl =>
      exact ⟨h, t, rfl, by simpa using hl, appendSuffix_nil d h t hh⟩

example : appendSuffix (baseId "1".toList) ⟨"0beef".toList, 'c'⟩ = "d-1-0beef".toList := by decide
example : appendSuffix (baseId "!!".toList) ⟨"0beef".toList, 'c'⟩ = "cbeef".toList := by decide

/-- Clauses two and three of the property for every history at once: whatever the answers and
draws, the id returned is a stem taken from the front of the base id (all of it, or its first 57
characters), whose alphanumerics are the name's in order (after the synthetic `d`) — alone when
the name has three alphanumerics, no suffix was forced and the first lookup said "free",
otherwise followed by `-` and five drawn characters; or, for a name without alphanumerics,
just five drawn characters starting with a letter. -/
theorem C32_every_id_from_name (name : List Char) (force : Bool) (answers : List Bool)
    (ds : List Draw) (r : List Char) (h : findId name force answers ds = some r) :
    ∃ stem, stem <+: baseId name ∧ (stem = baseId name ∨ stem.length = 57) ∧
      stem.filter isAlnum <+: dPrefix name ++ name.filter isAlnum ∧
      ((r = stem ∧ stem = baseId name ∧ 3 ≤ alnumCount name ∧ force = false) ∨
       (stem ≠ [] ∧ ∃ d ∈ ds, r = stem ++ '-' :: d.hex) ∨
       (stem = [] ∧ alnumCount name = 0 ∧ ∃ d ∈ ds, r = appendSuffix [] d)) := by
  rcases C32_derived_or_suffixed name force answers ds r h with ⟨hb, h3, hf⟩ | ⟨d, hd, hr⟩
  · exact ⟨baseId name, List.prefix_refl _, Or.inl rfl, C32_base_from_name name,
      Or.inl ⟨hb, rfl, h3, hf⟩⟩
  · cases hbase : baseId name with
    | nil =>
      refine ⟨[], List.prefix_refl _, Or.inl rfl, by simp, Or.inr (Or.inr ⟨rfl, ?_, d, hd, ?_⟩)⟩
      · exact (baseId_eq_nil_iff name).mp hbase
      · rw [hr, hbase]
    | cons c rest =>
      refine ⟨(c :: rest).take 57, List.take_prefix _ _, ?_, ?_, Or.inr (Or.inl ⟨by simp, d, hd, ?_⟩)⟩
      · by_cases hl : (c :: rest).length ≤ 57
        · exact Or.inl (List.take_of_length_le hl)
        · right; rw [List.length_take]; omega
      · have := C32_base_from_name name
        rw [hbase] at this
        exact ((List.take_prefix 57 (c :: rest)).filter _).trans this
      · rw [hr, hbase, appendSuffix_cons]

example : findId "1".toList false [false, true] [⟨"0beef".toList, 'c'⟩, ⟨"12345".toList, 'f'⟩]
    = some "d-1-12345".toList := by decide

/-- The id `create_deployment` derives (no explicit id given) is a DNS-1035 label of at most 63
characters, whatever the display name, the lookups' answers and the draws. -/
theorem C32_derive_valid_label (name : List Char) (answers : List Bool) (ds : List Draw)
    (hds : ∀ d ∈ ds, wfDraw d = true) (r : List Char) (h : deriveId name answers ds = some r) :
    isDns1035 r = true ∧ r.length ≤ 63 :=
  ⟨C32_valid_label name _ answers ds hds r h, C32_length_le name _ answers ds hds r h⟩

example : deriveId "Ünï çode".toList [true] [] = some "n-ode".toList := by decide

/-! ### reserved ids (`create_deployment` forces a suffix when `display_name.lower()` is reserved) -/

/-- A display name that is itself a reserved id never gets a reserved id: the id always carries a
drawn suffix, and no suffixed id equals an entry of the (regenerated) reserved table. -/
theorem C32_reserved_name_gets_fresh_id (name : List Char) (answers : List Bool) (ds : List Draw)
    (hds : ∀ d ∈ ds, wfDraw d = true) (hres : isReserved name = true) (r : List Char)
    (h : deriveId name answers ds = some r) :
    (∃ d ∈ ds, r = appendSuffix (baseId name) d) ∧ r ∉ reserved := by
  unfold deriveId at h
  rw [hres] at h
  rcases C32_derived_or_suffixed name true answers ds r h with ⟨_, _, hf⟩ | ⟨d, hd, hr⟩
  · cases hf
  · exact ⟨⟨d, hd, hr⟩, by rw [hr]; exact appendSuffix_not_reserved _ d (hds d hd)⟩

example : isReserved "version".toList = true := by decide
example : deriveId "version".toList [true] [⟨"0beef".toList, 'c'⟩] = some "version-0beef".toList := by
  decide

/-- Full-strength clause "a derived id is never a reserved id" (the reserved ids are routes of the
control-plane API). -/
def C32_statement_reserved_avoided : Prop :=
  ∀ (name : List Char) (answers : List Bool) (ds : List Draw) (r : List Char),
    (∀ d ∈ ds, wfDraw d = true) → deriveId name answers ds = some r → r ∉ reserved

/-- It is false of the code: the reserved test looks at `display_name.lower()`, the id is built
from the *sanitised* name, so `"list projects"` (or `"Version!"`) derives a reserved id. -/
theorem C32_reserved_avoided_refuted : ¬ C32_statement_reserved_avoided := by
  intro h
  exact absurd
    (h "list projects".toList [true] [] "list-projects".toList (by simp) (by decide)) (by decide)

/-- The strongest true part: the derived id is not reserved whenever the name is reserved itself
or its base id is not a reserved id. -/
theorem C32_reserved_avoided_partial (name : List Char) (answers : List Bool) (ds : List Draw)
    (hds : ∀ d ∈ ds, wfDraw d = true)
    (guard : (isReserved name || !reserved.contains (baseId name)) = true) (r : List Char)
    (h : deriveId name answers ds = some r) : r ∉ reserved := by
  cases hres : isReserved name with
  | true => exact (C32_reserved_name_gets_fresh_id name answers ds hds hres r h).2
  | false =>
    rw [hres] at guard
    simp only [Bool.false_or, Bool.not_eq_true', List.contains_eq_mem, decide_eq_false_iff_not] at guard
    unfold deriveId at h
    rcases C32_derived_or_suffixed name _ answers ds r h with ⟨hb, _, _⟩ | ⟨d, hd, hr⟩
    · rw [hb]; exact guard
    · rw [hr]; exact appendSuffix_not_reserved _ d (hds d hd)

example : (isReserved "my service".toList || !reserved.contains (baseId "my service".toList)) = true := by
  decide
example : (isReserved "list projects".toList || !reserved.contains (baseId "list projects".toList)) = false := by
  decide


/-! ### the label predicate is the pattern of `schema/deployments.py` -/

/-- `isDns1035` (the predicate every theorem above is stated with) is exactly the language of
`_DNS_1035_RE`: the pattern, as Python's own `re._parser` parses it (regenerated on every run),
is anchored at both ends, compiled without flags, used through `.match`, and a string matches it
in full iff `isDns1035` holds.  (Python's `$` additionally matches before a final newline; no
derived id contains one, by `C32_valid_label`.) -/
theorem C32_label_predicate_is_the_regex :
    Gen.DeployId.dnsAnchoredStart = true ∧ Gen.DeployId.dnsAnchoredEnd = true ∧
    Gen.DeployId.dnsFlags = 0 ∧ Gen.DeployId.dnsMethod = "match" ∧
    ∀ r : List Char, Lang Gen.DeployId.dnsRx r ↔ isDns1035 r = true :=
  ⟨by decide, by decide, by decide, by decide,
    fun r => (lang_dnsRx r).trans (labelShape_iff r)⟩

example : Lang Gen.DeployId.dnsRx "d-1-0beef".toList :=
  (C32_label_predicate_is_the_regex.2.2.2.2 _).mpr (by decide)
example : ¬ Lang Gen.DeployId.dnsRx "1abc".toList :=
  fun h => absurd ((C32_label_predicate_is_the_regex.2.2.2.2 _).mp h) (by decide)
