import WfProofs.EngineReduce
/-!
Routing (C02): what `_process_add_event_tick` does to every step, counted.
`size ss` = number of attempts a step holds (queued + in progress).
-/
set_option linter.unusedSimpArgs false
set_option linter.unusedVariables false

namespace Engine

def size (ss : StepState) : Nat := ss.queue.length + ss.inProg.length

/-- an attempt is placed exactly once: at the end of the queue, or into a fresh slot -/
theorem addOrEnqueue_places_once (att : Attempt) (step : Nat) (ss : StepState) (nw : Nat) (now : Int)
    (h : IdsOk ss nw) :
    ((addOrEnqueue att step ss nw now).1.queue = ss.queue ++ [att] ∧
        (addOrEnqueue att step ss nw now).1.inProg = ss.inProg) ∨
    (∃ ip : InProg, ip.ev = att.ev ∧ ip.rc = att.rc ∧
        (addOrEnqueue att step ss nw now).1.inProg = ss.inProg ++ [ip] ∧
        (addOrEnqueue att step ss nw now).1.queue = ss.queue ∧
        Cmd.runWorker step att.ev ip.wid ∈ (addOrEnqueue att step ss nw now).2) := by
  unfold addOrEnqueue
  by_cases hlt : ss.inProg.length < nw
  · simp only [hlt, ↓reduceIte]
    cases hfree : freeIds ss nw with
    | nil => exact absurd hfree (freeIds_ne_nil h hlt)
    | cons i rest =>
      right
      exact ⟨{ ev := att.ev, wid := i, snapEvents := ss.collected, snapWaiters := ss.waiters,
               attempts := orNat att.attempts 0, firstAt := orInt att.firstAt now,
               lastExc := att.lastExc, lastFailedAt := att.lastFailedAt, rc := att.rc }, by simp⟩
  · simp only [hlt, ↓reduceIte]
    left; simp

theorem addOrEnqueue_size (att : Attempt) (step : Nat) (ss : StepState) (nw : Nat) (now : Int)
    (h : IdsOk ss nw) : size (addOrEnqueue att step ss nw now).1 = size ss + 1 := by
  rcases addOrEnqueue_places_once att step ss nw now h with ⟨hq, hi⟩ | ⟨ip, _, _, hi, hq, _⟩
  · simp only [size, hq, hi, List.length_append, List.length_cons, List.length_nil]; omega
  · simp only [size, hq, hi, List.length_append, List.length_cons, List.length_nil]; omega

def matching (ev : Ev) (ws : List Waiter) : List Waiter := ws.filter (fun w => waiterMatches w ev)

/-- the waiter loop places one replay per matching waiter, marks exactly those waiters
resolved with the event, and reports `handled` iff there was one -/
theorem resolveLoop_spec (ev : Ev) (step nw : Nat) (now : Int) :
    ∀ (rest done : List Waiter) (ss : StepState) (cmds : List Cmd) (hd : Bool), IdsOk ss nw →
      size (resolveLoop ev step nw now done rest ss cmds hd).1 = size ss + (matching ev rest).length ∧
      (resolveLoop ev step nw now done rest ss cmds hd).1.waiters =
        done ++ rest.map (fun w => if waiterMatches w ev then { w with resolved := some ev } else w) ∧
      (resolveLoop ev step nw now done rest ss cmds hd).2.2 = (hd || !(matching ev rest).isEmpty)
  | [], done, ss, cmds, hd, h => by simp [resolveLoop, matching, size]
  | w :: rest, done, ss, cmds, hd, h => by
    unfold resolveLoop
    by_cases hm : waiterMatches w ev = true
    · simp only [hm, ↓reduceIte]
      have h1 : IdsOk { ss with waiters := done ++ { w with resolved := some ev } :: rest } nw := h
      obtain ⟨hs, hw, hh⟩ := resolveLoop_spec ev step nw now rest (done ++ [{ w with resolved := some ev }]) _
        (cmds ++ (addOrEnqueue w.replay step
          { ss with waiters := done ++ { w with resolved := some ev } :: rest } nw now).2) true
        (addOrEnqueue_idsOk _ step _ nw now h1)
      refine ⟨?_, ?_, ?_⟩
      · rw [hs, addOrEnqueue_size _ step _ nw now h1]
        simp only [matching, List.filter_cons, hm, ↓reduceIte, List.length_cons, size]
        omega
      · rw [hw]; simp [hm]
      · rw [hh]; simp [matching, List.filter_cons, hm]
    · simp only [hm, Bool.false_eq_true, ↓reduceIte]
      obtain ⟨hs, hw, hh⟩ := resolveLoop_spec ev step nw now rest (done ++ [w]) ss cmds hd h
      refine ⟨?_, ?_, ?_⟩
      · rw [hs]; simp [matching, List.filter_cons, hm]
      · rw [hw]; simp [hm]
      · rw [hh]; simp [matching, List.filter_cons, hm]

/-- is step `c` addressed by the tick? -/
def addressed (target : Option Nat) (c : StepCfg) : Bool := !(target.isSome && target != some c.name)

/-- number of attempts step `c` receives through its waiters -/
def wokenCount (ev : Ev) (target : Option Nat) (st : State) (c : StepCfg) : Nat :=
  if addressed target c then (matching ev (st.workers c.name).waiters).length else 0

theorem addEventWaiters_spec (cfg : Cfg) (hwf : cfg.WF) (ev : Ev) (target : Option Nat) (now : Int) :
    ∀ (cs : List StepCfg) (acc : AddAcc), (∀ c ∈ cs, c ∈ cfg.steps) → (cs.map (·.name)).Nodup →
      IdsInv cfg acc.st →
      (∀ c ∈ cs, size ((addEventWaiters cfg ev target now cs acc).st.workers c.name) =
          size (acc.st.workers c.name) + wokenCount ev target acc.st c) ∧
      (∀ t, t ∉ cs.map (·.name) → (addEventWaiters cfg ev target now cs acc).st.workers t = acc.st.workers t) ∧
      (∀ c ∈ cs, (c.name ∈ (addEventWaiters cfg ev target now cs acc).woken ↔
          (c.name ∈ acc.woken ∨ 0 < wokenCount ev target acc.st c))) ∧
      (∀ t, t ∉ cs.map (·.name) → (t ∈ (addEventWaiters cfg ev target now cs acc).woken ↔ t ∈ acc.woken)) ∧
      ((addEventWaiters cfg ev target now cs acc).handled =
          (acc.handled || cs.any (fun c => decide (0 < wokenCount ev target acc.st c))))
  | [], acc, _, _, _ => by simp [addEventWaiters]
  | c :: cs, acc, hsub, hnd, hinv => by
    simp only [List.map_cons, List.nodup_cons] at hnd
    have hc : c ∈ cfg.steps := hsub c (by simp)
    have hsub' : ∀ d ∈ cs, d ∈ cfg.steps := fun d hd => hsub d (by simp [hd])
    have hne : ∀ d ∈ cs, d.name ≠ c.name := by
      intro d hd heq; apply hnd.1; rw [← heq]; exact List.mem_map_of_mem hd
    unfold addEventWaiters
    by_cases haddr : addressed target c = true
    · have hcond : (target.isSome && target != some c.name) = false := by
        unfold addressed at haddr
        cases hb : (target.isSome && target != some c.name) with
        | false => rfl
        | true => rw [hb] at haddr; cases haddr
      simp only [hcond, Bool.false_eq_true, ↓reduceIte]
      obtain ⟨hs, hw, hh⟩ := resolveLoop_spec ev c.name c.numWorkers now (acc.st.workers c.name).waiters []
        (acc.st.workers c.name) [] false (hinv c hc)
      by_cases hany : (matching ev (acc.st.workers c.name).waiters).isEmpty = true
      · -- nobody woken in c: acc unchanged
        have hh' : (resolveLoop ev c.name c.numWorkers now [] (acc.st.workers c.name).waiters
            (acc.st.workers c.name) [] false).2.2 = false := by rw [hh]; simp [hany]
        simp only [hh', Bool.false_eq_true, ↓reduceIte]
        obtain ⟨r1, r2, r3, r4, r5⟩ := addEventWaiters_spec cfg hwf ev target now cs acc hsub' hnd.2 hinv
        have hz : wokenCount ev target acc.st c = 0 := by
          simp only [wokenCount, haddr, ↓reduceIte]
          simpa [List.isEmpty_iff] using hany
        refine ⟨?_, ?_, ?_, ?_, ?_⟩
        · intro d hd
          rcases List.mem_cons.mp hd with hd | hd
          · subst hd; rw [r2 d.name hnd.1, hz]; rfl
          · exact r1 d hd
        · intro t ht; simp only [List.map_cons, List.mem_cons, not_or] at ht; exact r2 t ht.2
        · intro d hd
          rcases List.mem_cons.mp hd with hd | hd
          · subst hd; rw [r4 d.name hnd.1, hz]; simp
          · exact r3 d hd
        · intro t ht; simp only [List.map_cons, List.mem_cons, not_or] at ht; exact r4 t ht.2
        · rw [r5]; simp [hz]
      · have hh' : (resolveLoop ev c.name c.numWorkers now [] (acc.st.workers c.name).waiters
            (acc.st.workers c.name) [] false).2.2 = true := by rw [hh]; simpa using hany
        simp only [hh', ↓reduceIte]
        have hinv' : IdsInv cfg (acc.st.set c.name (resolveLoop ev c.name c.numWorkers now []
            (acc.st.workers c.name).waiters (acc.st.workers c.name) [] false).1) :=
          IdsInv.set hwf hinv hc (resolveLoop_idsOk _ _ _ _ _ _ _ _ _ (hinv c hc))
        obtain ⟨r1, r2, r3, r4, r5⟩ := addEventWaiters_spec cfg hwf ev target now cs
          { st := acc.st.set c.name (resolveLoop ev c.name c.numWorkers now []
              (acc.st.workers c.name).waiters (acc.st.workers c.name) [] false).1,
            cmds := acc.cmds ++ (resolveLoop ev c.name c.numWorkers now []
              (acc.st.workers c.name).waiters (acc.st.workers c.name) [] false).2.1,
            handled := true, woken := acc.woken ++ [c.name] } hsub' hnd.2 hinv'
        have hpos : 0 < wokenCount ev target acc.st c := by
          simp only [wokenCount, haddr, ↓reduceIte]
          have : (matching ev (acc.st.workers c.name).waiters) ≠ [] := by
            intro he; apply hany; simp [he]
          exact List.length_pos_iff.mpr this
        have hother : ∀ d ∈ cs, wokenCount ev target
            (acc.st.set c.name (resolveLoop ev c.name c.numWorkers now []
              (acc.st.workers c.name).waiters (acc.st.workers c.name) [] false).1) d =
            wokenCount ev target acc.st d := by
          intro d hd
          simp [wokenCount, State.set, hne d hd]
        refine ⟨?_, ?_, ?_, ?_, ?_⟩
        · intro d hd
          rcases List.mem_cons.mp hd with hd | hd
          · subst hd
            rw [r2 d.name hnd.1]
            simp only [State.set, ↓reduceIte]
            rw [hs]; simp [wokenCount, haddr]
          · rw [r1 d hd, hother d hd]
            simp [State.set, hne d hd]
        · intro t ht
          simp only [List.map_cons, List.mem_cons, not_or] at ht
          rw [r2 t ht.2]; simp [State.set, ht.1]
        · intro d hd
          rcases List.mem_cons.mp hd with hd | hd
          · subst hd
            rw [r4 d.name hnd.1]
            simp [hpos]
          · rw [r3 d hd, hother d hd]
            simp only [List.mem_append, List.mem_singleton]
            constructor
            · rintro ((h | h) | h)
              · exact Or.inl h
              · exact absurd h (hne d hd)
              · exact Or.inr h
            · rintro (h | h)
              · exact Or.inl (Or.inl h)
              · exact Or.inr h
        · intro t ht
          simp only [List.map_cons, List.mem_cons, not_or] at ht
          rw [r4 t ht.2]
          simp only [List.mem_append, List.mem_singleton]
          constructor
          · rintro (h | h)
            · exact h
            · exact absurd h ht.1
          · intro h; exact Or.inl h
        · rw [r5]
          simp only [List.any_cons, hpos, decide_true, Bool.true_or, Bool.or_true]
    · have hcond : (target.isSome && target != some c.name) = true := by
        unfold addressed at haddr
        cases hb : (target.isSome && target != some c.name) with
        | true => rfl
        | false => rw [hb] at haddr; exact absurd rfl haddr
      simp only [hcond, ↓reduceIte]
      obtain ⟨r1, r2, r3, r4, r5⟩ := addEventWaiters_spec cfg hwf ev target now cs acc hsub' hnd.2 hinv
      have hz : wokenCount ev target acc.st c = 0 := by simp [wokenCount, haddr]
      refine ⟨?_, ?_, ?_, ?_, ?_⟩
      · intro d hd
        rcases List.mem_cons.mp hd with hd | hd
        · subst hd; rw [r2 d.name hnd.1, hz]; rfl
        · exact r1 d hd
      · intro t ht; simp only [List.map_cons, List.mem_cons, not_or] at ht; exact r2 t ht.2
      · intro d hd
        rcases List.mem_cons.mp hd with hd | hd
        · subst hd; rw [r4 d.name hnd.1, hz]; simp
        · exact r3 d hd
      · intro t ht; simp only [List.map_cons, List.mem_cons, not_or] at ht; exact r4 t ht.2
      · rw [r5]; simp [hz]

/-- does step `c` receive the event as a new input? -/
def routed (att : Attempt) (target : Option Nat) (woken : List Nat) (c : StepCfg) : Bool :=
  !woken.contains c.name && (c.accepted.contains att.ev.ty && (target.isNone || target == some c.name))

theorem addEventRoute_spec (cfg : Cfg) (hwf : cfg.WF) (att : Attempt) (target : Option Nat) (now : Int) :
    ∀ (cs : List StepCfg) (acc : AddAcc), (∀ c ∈ cs, c ∈ cfg.steps) → (cs.map (·.name)).Nodup →
      IdsInv cfg acc.st →
      (∀ c ∈ cs, size ((addEventRoute att target now cs acc).st.workers c.name) =
          size (acc.st.workers c.name) + (if routed att target acc.woken c then 1 else 0)) ∧
      (∀ t, t ∉ cs.map (·.name) → (addEventRoute att target now cs acc).st.workers t = acc.st.workers t) ∧
      ((addEventRoute att target now cs acc).handled =
          (acc.handled || cs.any (fun c => routed att target acc.woken c)))
  | [], acc, _, _, _ => by simp [addEventRoute]
  | c :: cs, acc, hsub, hnd, hinv => by
    simp only [List.map_cons, List.nodup_cons] at hnd
    have hc : c ∈ cfg.steps := hsub c (by simp)
    have hsub' : ∀ d ∈ cs, d ∈ cfg.steps := fun d hd => hsub d (by simp [hd])
    have hne : ∀ d ∈ cs, d.name ≠ c.name := by
      intro d hd heq; apply hnd.1; rw [← heq]; exact List.mem_map_of_mem hd
    unfold addEventRoute
    by_cases hw : acc.woken.contains c.name = true
    · simp only [hw, ↓reduceIte]
      obtain ⟨r1, r2, r3⟩ := addEventRoute_spec cfg hwf att target now cs acc hsub' hnd.2 hinv
      have hz : routed att target acc.woken c = false := by unfold routed; rw [hw]; rfl
      refine ⟨?_, ?_, ?_⟩
      · intro d hd
        rcases List.mem_cons.mp hd with hd | hd
        · subst hd; rw [r2 d.name hnd.1, hz]; rfl
        · exact r1 d hd
      · intro t ht; simp only [List.map_cons, List.mem_cons, not_or] at ht; exact r2 t ht.2
      · rw [r3]; simp [hz]
    · simp only [hw, Bool.false_eq_true, ↓reduceIte]
      by_cases hacc : (c.accepted.contains att.ev.ty && (target.isNone || target == some c.name)) = true
      · simp only [hacc, ↓reduceIte]
        have hinv' : IdsInv cfg (acc.st.set c.name (addOrEnqueue att c.name (acc.st.workers c.name) c.numWorkers now).1) :=
          IdsInv.set hwf hinv hc (addOrEnqueue_idsOk _ _ _ _ _ (hinv c hc))
        obtain ⟨r1, r2, r3⟩ := addEventRoute_spec cfg hwf att target now cs
          { acc with st := acc.st.set c.name (addOrEnqueue att c.name (acc.st.workers c.name) c.numWorkers now).1,
                     cmds := acc.cmds ++ (addOrEnqueue att c.name (acc.st.workers c.name) c.numWorkers now).2,
                     handled := true } hsub' hnd.2 hinv'
        have hr : routed att target acc.woken c = true := by
          unfold routed; rw [hacc, Bool.eq_false_iff.mpr hw]; rfl
        refine ⟨?_, ?_, ?_⟩
        · intro d hd
          rcases List.mem_cons.mp hd with hd | hd
          · subst hd
            rw [r2 d.name hnd.1]
            simp only [State.set, ↓reduceIte, hr]
            exact addOrEnqueue_size _ _ _ _ _ (hinv d hc)
          · rw [r1 d hd]; simp [State.set, hne d hd]
        · intro t ht
          simp only [List.map_cons, List.mem_cons, not_or] at ht
          rw [r2 t ht.2]; simp [State.set, ht.1]
        · rw [r3]; simp [hr]
      · simp only [hacc, Bool.false_eq_true, ↓reduceIte]
        obtain ⟨r1, r2, r3⟩ := addEventRoute_spec cfg hwf att target now cs acc hsub' hnd.2 hinv
        have hz : routed att target acc.woken c = false := by
          unfold routed; rw [Bool.eq_false_iff.mpr hacc]; simp
        refine ⟨?_, ?_, ?_⟩
        · intro d hd
          rcases List.mem_cons.mp hd with hd | hd
          · subst hd; rw [r2 d.name hnd.1, hz]; rfl
          · exact r1 d hd
        · intro t ht; simp only [List.map_cons, List.mem_cons, not_or] at ht; exact r2 t ht.2
        · rw [r3]; simp [hz]

end Engine

namespace Engine

/-- the only commands the add-event loops emit: worker starts, lifecycle telemetry, or the
(unreachable) crash marker -/
def StartCmd (c : Cmd) : Prop :=
  (∃ s e w, c = .runWorker s e w) ∨ (∃ ss s i o w, c = .publish (.stepState ss s i o w)) ∨ c = .crash

theorem addOrEnqueue_shape (att : Attempt) (step : Nat) (ss : StepState) (nw : Nat) (now : Int) :
    ∀ c ∈ (addOrEnqueue att step ss nw now).2, StartCmd c := by
  unfold addOrEnqueue
  split
  · split
    · intro c hc
      simp only [List.mem_cons, List.mem_nil_iff, or_false] at hc
      rcases hc with hc | hc
      · exact Or.inl ⟨_, _, _, hc⟩
      · exact Or.inr (Or.inl ⟨_, _, _, _, _, hc⟩)
    · intro c hc; simp only [List.mem_singleton] at hc; exact Or.inr (Or.inr hc)
  · intro c hc; simp only [List.mem_singleton] at hc; exact Or.inr (Or.inl ⟨_, _, _, _, _, hc⟩)

theorem resolveLoop_shape (ev : Ev) (step nw : Nat) (now : Int) :
    ∀ (rest done : List Waiter) (ss : StepState) (cmds : List Cmd) (hd : Bool),
      (∀ c ∈ cmds, StartCmd c) → ∀ c ∈ (resolveLoop ev step nw now done rest ss cmds hd).2.1, StartCmd c
  | [], done, ss, cmds, hd, h => by simpa [resolveLoop] using h
  | w :: rest, done, ss, cmds, hd, h => by
    unfold resolveLoop
    split
    · apply resolveLoop_shape
      intro c hc
      rcases List.mem_append.mp hc with hc | hc
      · exact h c hc
      · exact addOrEnqueue_shape _ _ _ _ _ c hc
    · exact resolveLoop_shape ev step nw now rest _ ss cmds hd h

theorem addEventWaiters_shape (cfg : Cfg) (ev : Ev) (target : Option Nat) (now : Int) :
    ∀ (cs : List StepCfg) (acc : AddAcc), (∀ c ∈ acc.cmds, StartCmd c) →
      ∀ c ∈ (addEventWaiters cfg ev target now cs acc).cmds, StartCmd c
  | [], acc, h => by simpa [addEventWaiters] using h
  | c :: cs, acc, h => by
    unfold addEventWaiters
    split
    · exact addEventWaiters_shape cfg ev target now cs acc h
    · apply addEventWaiters_shape cfg ev target now cs
      split
      · intro x hx
        rcases List.mem_append.mp hx with hx | hx
        · exact h x hx
        · exact resolveLoop_shape ev c.name c.numWorkers now _ [] _ [] false (by simp) x hx
      · exact h

theorem addEventRoute_shape (att : Attempt) (target : Option Nat) (now : Int) :
    ∀ (cs : List StepCfg) (acc : AddAcc), (∀ c ∈ acc.cmds, StartCmd c) →
      ∀ c ∈ (addEventRoute att target now cs acc).cmds, StartCmd c
  | [], acc, h => by simpa [addEventRoute] using h
  | c :: cs, acc, h => by
    unfold addEventRoute
    split
    · exact addEventRoute_shape att target now cs acc h
    · split
      · apply addEventRoute_shape att target now cs
        intro x hx
        rcases List.mem_append.mp hx with hx | hx
        · exact h x hx
        · exact addOrEnqueue_shape _ _ _ _ _ x hx
      · exact addEventRoute_shape att target now cs acc h

end Engine
