"""name-only (see package docstring)"""
from __future__ import annotations

from typing import Any


class URL:
    """the three attributes/methods runtime.py touches"""

    def __init__(self, drivername: str = "sqlite", database: str | None = None) -> None:
        self.drivername = drivername
        self.database = database

    def set(self, **kw: Any) -> "URL":
        u = URL(self.drivername, self.database)
        for k, v in kw.items():
            setattr(u, k, v)
        return u

    def render_as_string(self, hide_password: bool = True) -> str:
        return f"{self.drivername}:///{self.database or ''}"


class _Dialect:
    def __init__(self, name: str) -> None:
        self.name = name


class Engine:
    def __init__(self, url: URL) -> None:
        self.url = url
        self.dialect = _Dialect("sqlite" if url.drivername.startswith("sqlite") else "postgresql")
