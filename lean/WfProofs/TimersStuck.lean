import WfModel.Timers
import WfProofs.SerialLemmas
import WfProofs.EngineReduce
import WfProofs.TimersReload
import WfProofs.TimersErase
/-!
Helper lemmas for C14 (2): a run whose only pending work was a timer is *stuck for good* once
the timer is gone.

`Good cfg w st`: the run is marked running, every queue and in-progress table is empty, and no
waiter waits for event type `w` (nor needs re-pinging).  `inert w t`: the tick is an idle check, a
publish request, or the delivery of an event of type `w`, a type no step accepts.  On a good state
an inert tick changes nothing and emits only stream writes / an idle check.  Consequently
(`stuck_forever`) from any server state whose persisted log replays — at every clock — to a good
state, and whose in-memory control loop (if any) is good with an empty timer heap, **no sequence
of actions that feeds only inert ticks ever processes a non-inert tick, starts a worker, or ends
the run**: the handler stays `running` through any number of further idle releases, restarts,
resumes and reloads.
-/
set_option linter.unusedVariables false
namespace Engine

def inert (w : Nat) : Tick → Bool
  | .idleCheck => true
  | .publish _ => true
  | .addEvent att _ => att.ev.ty == w && !(att.ev.kind == .start)
  | _ => false

structure Good (cfg : Cfg) (w : Nat) (st : State) : Prop where
  running : st.isRunning = true
  quiet : ∀ c ∈ cfg.steps, (st.workers c.name).queue = [] ∧ (st.workers c.name).inProg = []
  waiters : ∀ c ∈ cfg.steps, ∀ x ∈ (st.workers c.name).waiters, x.waitTy ≠ w ∧ x.req = none ∧ x.hasReq = false

/-- no step accepts events of type `w` -/
def Unaccepted (cfg : Cfg) (w : Nat) : Prop := ∀ c ∈ cfg.steps, c.accepted.contains w = false

def harmless : Cmd → Bool
  | .publish _ => true
  | .scheduleIdleCheck => true
  | _ => false

/-! ### the reducer on inert ticks -/

theorem resolveLoop_nomatch (ev : Ev) (step nw : Nat) (now : Int) :
    ∀ (rest done : List Waiter) (ss : StepState) (cmds : List Cmd) (h : Bool),
      (∀ x ∈ rest, waiterMatches x ev = false) →
      resolveLoop ev step nw now done rest ss cmds h = ({ ss with waiters := done ++ rest }, cmds, h)
  | [], done, ss, cmds, h, _ => by simp [resolveLoop]
  | x :: rest, done, ss, cmds, h, hm => by
    unfold resolveLoop
    rw [if_neg (by simp [hm x (by simp)])]
    rw [resolveLoop_nomatch ev step nw now rest _ ss cmds h (fun y hy => hm y (by simp [hy]))]
    simp

theorem addEventWaiters_nomatch (cfg : Cfg) (ev : Ev) (target : Option Nat) (now : Int) :
    ∀ (cs : List StepCfg) (acc : AddAcc),
      (∀ c ∈ cs, ∀ x ∈ (acc.st.workers c.name).waiters, waiterMatches x ev = false) →
      addEventWaiters cfg ev target now cs acc = acc
  | [], acc, _ => by simp [addEventWaiters]
  | c :: cs, acc, h => by
    unfold addEventWaiters
    split
    · exact addEventWaiters_nomatch cfg ev target now cs acc (fun d hd => h d (by simp [hd]))
    · simp only []
      rw [resolveLoop_nomatch ev c.name c.numWorkers now _ [] _ [] false (h c (by simp))]
      simp only [Bool.false_eq_true, if_false]
      exact addEventWaiters_nomatch cfg ev target now cs acc (fun d hd => h d (by simp [hd]))

theorem addEventRoute_unaccepted (att : Attempt) (target : Option Nat) (now : Int) :
    ∀ (cs : List StepCfg) (acc : AddAcc), (∀ c ∈ cs, c.accepted.contains att.ev.ty = false) →
      addEventRoute att target now cs acc = acc
  | [], acc, _ => by simp [addEventRoute]
  | c :: cs, acc, h => by
    unfold addEventRoute
    split
    · exact addEventRoute_unaccepted att target now cs acc (fun d hd => h d (by simp [hd]))
    · have hc := h c (by simp)
      rw [if_neg (by rw [hc]; simp)]
      exact addEventRoute_unaccepted att target now cs acc (fun d hd => h d (by simp [hd]))

theorem good_nomatch {cfg : Cfg} {w : Nat} {st : State} (hg : Good cfg w st) (ev : Ev) (hty : ev.ty = w) :
    ∀ c ∈ cfg.steps, ∀ x ∈ (st.workers c.name).waiters, waiterMatches x ev = false := by
  intro c hc x hx
  have := (hg.waiters c hc x hx).1
  simp only [waiterMatches, Bool.and_eq_false_iff]
  left; right
  simp only [beq_eq_false_iff_ne, ne_eq, hty]
  exact fun h => this h.symm

theorem reduce_inert (cfg : Cfg) (pol : Policy) (w : Nat) (hacc : Unaccepted cfg w) (st : State)
    (hg : Good cfg w st) (t : Tick) (ht : inert w t = true) (now : Int) :
    (reduce cfg pol t st now).1 = st ∧ ∀ c ∈ (reduce cfg pol t st now).2, harmless c = true := by
  cases t with
  | idleCheck =>
    simp only [reduce]
    split <;> simp [harmless]
  | publish ev =>
    simp only [reduce]
    split <;> simp [harmless]
  | addEvent att tgt =>
    simp only [inert, Bool.and_eq_true, beq_iff_eq, Bool.not_eq_true', beq_eq_false_iff_ne, ne_eq] at ht
    obtain ⟨hty, hk⟩ := ht
    have hstart : addEventStart att st = st := by simp [addEventStart, hk]
    have h1 : addEventWaiters cfg att.ev tgt now cfg.steps { st := addEventStart att st } = { st := st } := by
      rw [hstart]
      exact addEventWaiters_nomatch cfg att.ev tgt now cfg.steps { st := st } (good_nomatch hg att.ev hty)
    have h2 : addEventRoute att tgt now cfg.steps { st := st } = { st := st } :=
      addEventRoute_unaccepted att tgt now cfg.steps { st := st } (fun c hc => by rw [hty]; exact hacc c hc)
    have hp : processAddEvent cfg att tgt st now =
        (st, unhandledCmds cfg att tgt { st := st }) := by
      simp only [processAddEvent, h1, h2, List.nil_append]
    simp only [reduce, hp]
    have hu : ∀ c ∈ unhandledCmds cfg att tgt { st := st }, harmless c = true := by
      intro c hc
      simp only [unhandledCmds, Bool.false_eq_true, if_false] at hc
      split at hc
      · simp at hc
      · simp only [List.mem_singleton] at hc; subst hc; rfl
    split
    · refine ⟨rfl, ?_⟩
      intro c hc
      rcases List.mem_append.mp hc with hc | hc
      · exact hu c hc
      · simp only [List.mem_singleton] at hc; subst hc; rfl
    · exact ⟨rfl, hu⟩
  | stepResult s wk e rs => simp [inert] at ht
  | cancelRun => simp [inert] at ht
  | idleRelease => simp [inert] at ht
  | timeout t => simp [inert] at ht
  | waiterTimeout s x => simp [inert] at ht

theorem harmless_not_crash {cmds : List Cmd} (h : ∀ c ∈ cmds, harmless c = true) : cmds.contains .crash = false := by
  cases hc : cmds.contains Cmd.crash with
  | false => rfl
  | true =>
    have hm : Cmd.crash ∈ cmds := by simpa using hc
    have := h _ hm
    simp [harmless] at this

theorem harmless_lastExitOf {cmds : List Cmd} (h : ∀ c ∈ cmds, harmless c = true) : lastExitOf cmds = none := by
  have : cmds.filter Cmd.isExit = [] := by
    apply List.filter_eq_nil_iff.mpr
    intro c hc
    have := h c hc
    cases c <;> simp_all [harmless, Cmd.isExit]
  simp [lastExitOf, this]

/-! ### the runner on harmless commands and inert ticks -/

structure RunnerStuck (cfg : Cfg) (w : Nat) (r : Runner) : Prop where
  good : Good cfg w r.st
  live : r.outcome = none
  idle : r.running = []
  heap : r.heap = []
  buf : ∀ t ∈ r.buf, inert w t = true
  mailbox : ∀ t ∈ r.mailbox, inert w t = true
  log : ∀ p ∈ r.log, inert w p.1 = true

theorem execCmd_harmless {cfg : Cfg} {w : Nat} (r : Runner) (c : Cmd) (hc : harmless c = true)
    (h : RunnerStuck cfg w r) : RunnerStuck cfg w (execCmd r c) := by
  cases c with
  | publish p => exact { h with }
  | scheduleIdleCheck =>
    simp only [execCmd]
    split
    · exact h
    · refine { h with buf := ?_ }
      intro t ht
      rcases List.mem_append.mp ht with ht | ht
      · exact h.buf t ht
      · simp only [List.mem_singleton] at ht; subst ht; rfl
  | _ => simp [harmless] at hc

theorem execCmds_harmless {cfg : Cfg} {w : Nat} : ∀ (cmds : List Cmd) (r : Runner),
    (∀ c ∈ cmds, harmless c = true) → RunnerStuck cfg w r → RunnerStuck cfg w (execCmds r cmds)
  | [], r, _, h => by simpa [execCmds] using h
  | c :: cs, r, hc, h => by
    simp only [execCmds]
    have h1 := execCmd_harmless r c (hc c (by simp)) h
    split
    · exact h1
    · exact execCmds_harmless cs _ (fun d hd => hc d (by simp [hd])) h1

/-- actions of the control loop's environment that feed only inert ticks -/
def Act.quietFor (w : Nat) : Act → Bool
  | .external t => inert w t
  | _ => true

theorem step_stuck (cfg : Cfg) (pol : Policy) (w : Nat) (hacc : Unaccepted cfg w) (r : Runner) (a : Act)
    (ha : a.quietFor w = true) (h : RunnerStuck cfg w r) : RunnerStuck cfg w (r.step cfg pol a) := by
  unfold Runner.step
  rw [if_neg (by simp [h.live])]
  cases a with
  | drain =>
    simp only
    cases hb : r.buf with
    | nil => exact h
    | cons t rest =>
      simp only
      have hti : inert w t = true := h.buf t (by simp [hb])
      obtain ⟨hst, hcm⟩ := reduce_inert cfg pol w hacc r.st h.good t hti r.now
      have hnc := harmless_not_crash hcm
      rw [if_neg (by rw [hnc]; simp)]
      apply execCmds_harmless _ _ hcm
      refine { good := ?_, live := h.live, idle := h.idle, heap := h.heap, buf := ?_, mailbox := h.mailbox, log := ?_ }
      · simp only [hst]; exact h.good
      · intro x hx; exact h.buf x (by simp [hb, hx])
      · intro p hp
        rcases List.mem_append.mp hp with hp | hp
        · exact h.log p hp
        · simp only [List.mem_singleton] at hp; subst hp; exact hti
  | workerDone s wk res =>
    simp only
    split
    · exact h
    · simp [h.idle]; exact h
  | pull =>
    simp only
    split
    · exact h
    · cases hm : r.mailbox with
      | nil => exact h
      | cons t m =>
        simp only
        refine { h with buf := ?_, mailbox := ?_ }
        · intro x hx; simp only [List.mem_singleton] at hx; subst hx; exact h.mailbox x (by simp [hm])
        · intro x hx; exact h.mailbox x (by simp [hm, hx])
  | timer =>
    simp only
    split
    · exact h
    · refine { h with buf := ?_, heap := ?_ }
      · simp [h.heap]
      · intro x hx; simp [h.heap, sortTimers] at hx
  | advance dt => exact { h with }
  | external t =>
    simp only [Act.quietFor] at ha
    simp only
    split
    · refine { h with mailbox := ?_ }
      intro x hx
      rcases List.mem_append.mp hx with hx | hx
      · exact h.mailbox x hx
      · simp only [List.mem_singleton] at hx; subst hx; exact ha
    · exact h
  | stepWrite p => exact { h with }


/-! ### replay, round trip and restart of a good state -/

theorem tmReplayFrom_append (cfg : Cfg) (pol : Policy) (now : Int) :
    ∀ (l1 l2 : List Tick) (acc : State × Option Cmd),
      tmReplayFrom cfg pol now (l1 ++ l2) acc = (tmReplayFrom cfg pol now l1 acc).bind (tmReplayFrom cfg pol now l2)
  | [], l2, acc => by simp [tmReplayFrom]
  | t :: l1, l2, acc => by
    simp only [List.cons_append, tmReplayFrom]
    split
    · simp
    · exact tmReplayFrom_append cfg pol now l1 l2 _

theorem tmReplayFrom_inert (cfg : Cfg) (pol : Policy) (w : Nat) (hacc : Unaccepted cfg w) (now : Int) :
    ∀ (l : List Tick) (st : State) (ex : Option Cmd), Good cfg w st → (∀ t ∈ l, inert w t = true) →
      tmReplayFrom cfg pol now l (st, ex) = some (st, ex)
  | [], st, ex, _, _ => by simp [tmReplayFrom]
  | t :: l, st, ex, hg, hl => by
    obtain ⟨hst, hcm⟩ := reduce_inert cfg pol w hacc st hg t (hl t (by simp)) now
    simp only [tmReplayFrom]
    rw [if_neg (by rw [harmless_not_crash hcm]; simp), harmless_lastExitOf hcm, hst]
    exact tmReplayFrom_inert cfg pol w hacc now l st ex hg (fun x hx => hl x (by simp [hx]))

theorem roundtrip_good {cfg : Cfg} {w : Nat} {st : State} (hg : Good cfg w st) : Good cfg w (roundtrip cfg st) := by
  have hw : ∀ c ∈ cfg.steps, (roundtrip cfg st).workers c.name = deserStep (serStep (st.workers c.name)) := by
    intro c hc
    rw [roundtrip_workers]
    have : cfg.hasStep c.name = true := (hasStep_iff_mem cfg c.name).mpr (List.mem_map.mpr ⟨c, hc, rfl⟩)
    simp [this]
  refine ⟨hg.running, ?_, ?_⟩
  · intro c hc
    rw [hw c hc]
    obtain ⟨hq, hi⟩ := hg.quiet c hc
    simp [deserStep, serStep, hq, hi]
  · intro c hc x hx
    rw [hw c hc] at hx
    simp only [deserStep, serStep, List.mem_map] at hx
    obtain ⟨sw, ⟨y, hy, rfl⟩, rfl⟩ := hx
    obtain ⟨h1, h2, h3⟩ := hg.waiters c hc y hy
    simp [deserWaiter, serWaiter, h1, h2, h3]

theorem mem_insertWaiter {x y : Waiter} : ∀ {l : List Waiter}, x ∈ insertWaiter y l → x = y ∨ x ∈ l
  | [], h => by simp [insertWaiter] at h; exact Or.inl h
  | u :: us, h => by
    simp only [insertWaiter] at h
    split at h
    · simp only [List.mem_cons] at h; simpa using h
    · simp only [List.mem_cons] at h
      rcases h with h | h
      · exact Or.inr (by simp [h])
      · rcases mem_insertWaiter h with h | h
        · exact Or.inl h
        · exact Or.inr (by simp [h])

theorem mem_foldr_insertWaiter {x : Waiter} : ∀ {l : List Waiter}, x ∈ l.foldr insertWaiter [] → x ∈ l
  | [], h => by simp at h
  | y :: ys, h => by
    simp only [List.foldr_cons] at h
    rcases mem_insertWaiter h with h | h
    · simp [h]
    · exact List.mem_cons_of_mem _ (mem_foldr_insertWaiter h)

theorem rehydrate_good {cfg : Cfg} {w : Nat} {st : State} (hg : Good cfg w st) : rehydrateTicks cfg st = [] := by
  unfold rehydrateTicks
  apply List.flatMap_eq_nil_iff.mpr
  intro c hc
  have hc' := mem_sortedSteps hc
  have : List.filter (fun x : Waiter => x.hasReq && x.req.isNone && x.resolved.isNone && !x.timedOut)
      ((st.workers c.name).waiters.foldr insertWaiter []) = [] := by
    apply List.filter_eq_nil_iff.mpr
    intro x hx
    have := (hg.waiters c hc' x (mem_foldr_insertWaiter hx)).2.2
    simp [this]
  simp [this]

/-- the part of `Good` that `rewind_in_progress` works on, kept across its loop -/
theorem rewindLoop_good {cfg : Cfg} {w : Nat} (now : Int) :
    ∀ (cs : List StepCfg) (st : State), (∀ c ∈ cs, c ∈ cfg.steps) → Good cfg w st →
      Good cfg w (rewindLoop now cs st []).1 ∧ (rewindLoop now cs st []).2 = []
  | [], st, _, hg => by simpa [rewindLoop] using hg
  | c :: cs, st, hcs, hg => by
    obtain ⟨hq, hi⟩ := hg.quiet c (hcs c (by simp))
    have hstep : rewindStep c (st.workers c.name) now = ({ st.workers c.name with queue := [], inProg := [] }, []) := by
      simp [rewindStep, hq, hi, drain]
    unfold rewindLoop
    simp only [hstep, List.append_nil]
    apply rewindLoop_good now cs _ (fun d hd => hcs d (by simp [hd]))
    refine ⟨hg.running, ?_, ?_⟩
    · intro d hd
      simp only [State.set]
      split
      · exact ⟨rfl, rfl⟩
      · exact hg.quiet d hd
    · intro d hd x hx
      simp only [State.set] at hx
      split at hx
      · rename_i heq
        exact hg.waiters c (hcs c (by simp)) x hx
      · exact hg.waiters d hd x hx

theorem rewind_good {cfg : Cfg} {w : Nat} {st : State} (now : Int) (hg : Good cfg w st) :
    Good cfg w (rewind cfg st now).1 ∧ (rewind cfg st now).2 = [] :=
  rewindLoop_good now (sortedSteps cfg) st (fun c hc => mem_sortedSteps hc) hg

/-- restarting a good state with no start event and no workflow timeout: nothing to do, ever -/
theorem init_good {cfg : Cfg} {w : Nat} {st : State} (now : Int) (hg : Good cfg w st) :
    RunnerStuck cfg w (Runner.init cfg st now none none) := by
  obtain ⟨hg', hc⟩ := rewind_good now hg
  unfold Runner.init
  simp only [hc, execCmds, rehydrate_good hg, List.append_nil]
  exact { good := hg', live := rfl, idle := rfl, heap := rfl, buf := by simp, mailbox := by simp, log := by simp }


/-! ### the server around it -/

/-- `Good`, as a check -/
def goodB (cfg : Cfg) (w : Nat) (st : State) : Bool :=
  st.isRunning && cfg.steps.all (fun c =>
    (st.workers c.name).queue.isEmpty && (st.workers c.name).inProg.isEmpty &&
      (st.workers c.name).waiters.all (fun x => x.waitTy != w && x.req.isNone && !x.hasReq))

theorem goodB_good {cfg : Cfg} {w : Nat} {st : State} (h : goodB cfg w st = true) : Good cfg w st := by
  simp only [goodB, Bool.and_eq_true, List.all_eq_true, List.isEmpty_iff, bne_iff_ne, ne_eq,
    Option.isNone_iff_eq_none, Bool.not_eq_true'] at h
  exact ⟨h.1, fun c hc => ⟨(h.2 c hc).1.1, (h.2 c hc).1.2⟩, fun c hc x hx => ⟨((h.2 c hc).2 x hx).1.1, ((h.2 c hc).2 x hx).1.2, ((h.2 c hc).2 x hx).2⟩⟩

theorem good_sim {cfg : Cfg} {w : Nat} {a b : State} (h : Sim a b) (hg : Good cfg w a) : Good cfg w b := by
  refine ⟨h.1 ▸ hg.running, ?_, ?_⟩
  · intro c hc
    have hs := h.2 c.name
    obtain ⟨hq, hi⟩ := hg.quiet c hc
    refine ⟨?_, ?_⟩
    · have hqq := hs.queue
      rw [hq] at hqq
      exact nil_of_map_eq_nil eraseA hqq
    have := hs.length
    rw [hi] at this
    exact List.length_eq_zero_iff.mp this.symm
  · intro c hc x hx
    have hm : eraseW x ∈ (a.workers c.name).waiters.map eraseW := by
      rw [(h.2 c.name).waiters]; exact List.mem_map_of_mem hx
    obtain ⟨y, hy, hyx⟩ := List.mem_map.mp hm
    obtain ⟨_, _, h3, h4, h5, _⟩ := eraseW_eq hyx
    rw [← h3, ← h4, ← h5]
    exact hg.waiters c hc y hy

/-- the persisted prefix replays (here: at clock 0), without raising and without an exit command,
to a good state -/
def replayGoodB (cfg : Cfg) (pol : Policy) (w : Nat) (base : List Tick) : Bool :=
  match tmReplayAt cfg pol base 0 with
  | some (P, none) => goodB cfg w P
  | _ => false

/-- what is assumed of the persisted prefix: it replays, without an exit command, to a good state
(checked at clock 0; `TimeIndep` carries it to every clock); no step accepts type `w`; the
workflow has no timeout -/
structure StuckBase (c : SrvCfg) (pol : Policy) (w : Nat) (base : List Tick) : Prop where
  unaccepted : Unaccepted c.cfg w
  noTimeout : c.timeout = none
  nonempty : base ≠ []
  timeIndep : TimeIndep pol
  replay0 : replayGoodB c.cfg pol w base = true

theorem StuckBase.replay {c : SrvCfg} {pol : Policy} {w : Nat} {base : List Tick} (hb : StuckBase c pol w base)
    (now : Int) : ∃ P, tmReplayAt c.cfg pol base now = some (P, none) ∧ Good c.cfg w P := by
  have h0 := hb.replay0
  have hs := tmReplayAt_sim c.cfg hb.timeIndep base 0 now
  unfold replayGoodB at h0
  cases h1 : tmReplayAt c.cfg pol base 0 with
  | none => simp [h1] at h0
  | some pe =>
    obtain ⟨P0, e0⟩ := pe
    cases e0 with
    | some x => simp [h1] at h0
    | none =>
      simp only [h1] at h0 hs
      cases h2 : tmReplayAt c.cfg pol base now with
      | none => simp [h2] at hs
      | some qe =>
        obtain ⟨Q, e⟩ := qe
        simp only [h2] at hs
        exact ⟨Q, by rw [← hs.2], good_sim hs.1 (goodB_good h0)⟩

structure SrvStuck (c : SrvCfg) (w : Nat) (base : List Tick) (s : Srv) : Prop where
  status : s.status = .running
  store : ∃ tail, s.store = base ++ tail ∧ ∀ t ∈ tail, inert w t = true
  live : ∀ r, s.live = some r → RunnerStuck c.cfg w r

def SAct.quietFor (w : Nat) : SAct → Bool
  | .run a => a.quietFor w
  | .send t => inert w t
  | _ => true

theorem stored_inert {w : Nat} {t : Tick} (h : inert w t = true) : t.stored = t := by
  cases t <;> simp_all [inert, Tick.stored]

theorem persisted_stuck {c : SrvCfg} {w : Nat} {base : List Tick} {s : Srv} (h : SrvStuck c w base s) :
    ∃ tail, s.persisted = base ++ tail ∧ ∀ t ∈ tail, inert w t = true := by
  obtain ⟨tail, hs, ht⟩ := h.store
  unfold Srv.persisted
  cases hl : s.live with
  | none => exact ⟨tail, by simp [hs], ht⟩
  | some r =>
    refine ⟨tail ++ r.log.map (fun p => p.1.stored), by simp [hs, List.append_assoc], ?_⟩
    intro t hm
    rcases List.mem_append.mp hm with hm | hm
    · exact ht t hm
    · obtain ⟨p, hp, rfl⟩ := List.mem_map.mp hm
      have hi := (h.live r hl).log p hp
      rw [stored_inert hi]; exact hi

theorem reload_stuck {c : SrvCfg} {pol : Policy} {w : Nat} {base : List Tick} (hb : StuckBase c pol w base)
    (tail : List Tick) (ht : ∀ t ∈ tail, inert w t = true) (now : Int) :
    ∃ r, reload c pol (base ++ tail) now = .ok r none ∧ RunnerStuck c.cfg w r := by
  obtain ⟨P, hP, hg⟩ := hb.replay now
  have hrep : tmReplayAt c.cfg pol (base ++ tail) now = some (P, none) := by
    unfold tmReplayAt at hP ⊢
    rw [tmReplayFrom_append, hP]
    exact tmReplayFrom_inert c.cfg pol w hb.unaccepted now tail P none hg ht
  have hg' := roundtrip_good hg
  refine ⟨Runner.init c.cfg (roundtrip c.cfg P) now none none, ?_, init_good now hg'⟩
  unfold reload
  cases hbt : base ++ tail with
  | nil =>
    have : base = [] := (List.append_eq_nil_iff.mp hbt).1
    exact absurd this hb.nonempty
  | cons x xs =>
    simp only
    rw [← hbt, hrep]
    simp only [hg'.running, if_true, hb.noTimeout]

theorem srvStuck_of {c : SrvCfg} {w : Nat} {base : List Tick} {s s' : Srv} (h : SrvStuck c w base s)
    (hs : s'.status = s.status) (ht : s'.store = s.store)
    (hl : ∀ r, s'.live = some r → RunnerStuck c.cfg w r) : SrvStuck c w base s' :=
  { status := hs ▸ h.status, store := ht ▸ h.store, live := hl }

theorem trackIdle_fields (a b : Runner) (s : Srv) :
    (trackIdle a b s).status = s.status ∧ (trackIdle a b s).store = s.store ∧ (trackIdle a b s).live = s.live := by
  unfold trackIdle
  split <;> exact ⟨rfl, rfl, rfl⟩

theorem srv_step_stuck (c : SrvCfg) (pol : Policy) (w : Nat) (base : List Tick) (hb : StuckBase c pol w base)
    (s : Srv) (a : SAct) (ha : a.quietFor w = true) (h : SrvStuck c w base s) :
    SrvStuck c w base (s.step c pol a) := by
  cases a with
  | run act =>
    simp only [SAct.quietFor] at ha
    simp only [Srv.step]
    cases hl : s.live with
    | none =>
      simp only
      exact srvStuck_of h rfl rfl (by intro r hr; simp [hl] at hr)
    | some r =>
      simp only
      have hr := h.live r hl
      rw [if_neg (by simp [hr.live])]
      have hr' := step_stuck c.cfg pol w hb.unaccepted r act ha hr
      have hout : (r.step c.cfg pol act).outcome = none := hr'.live
      simp only [trackOutcome, hout]
      obtain ⟨t1, t2, t3⟩ := trackIdle_fields r (r.step c.cfg pol act)
        { s with now := s.now + act.dt, live := some (r.step c.cfg pol act) }
      refine srvStuck_of h t1 t2 ?_
      intro r2 h2
      rw [t3] at h2
      simp at h2; subst h2; exact hr'
  | send t =>
    simp only [SAct.quietFor] at ha
    have hne : (s.status != HStatus.running) = false := by simp [h.status]
    simp only [Srv.step, hne, Bool.false_eq_true, if_false]
    cases hext : t.isExternal with
    | false =>
      simp only [Bool.not_false, if_true]
      exact srvStuck_of h rfl rfl h.live
    | true =>
      simp only [Bool.not_true, Bool.false_eq_true, if_false]
      cases hl : s.live with
      | some r =>
        simp only
        refine srvStuck_of h rfl rfl ?_
        intro r2 h2
        simp at h2; subst h2
        exact step_stuck c.cfg pol w hb.unaccepted r (.external t) (by simpa [Act.quietFor] using ha) (h.live r hl)
      | none =>
        simp only
        obtain ⟨tail, hp, ht⟩ := persisted_stuck h
        obtain ⟨r, hr, hrs⟩ := reload_stuck hb tail ht s.now
        rw [hp, hr]
        simp only
        refine { status := h.status, store := ⟨tail, rfl, ht⟩, live := ?_ }
        intro r2 h2
        simp at h2; subst h2
        exact step_stuck c.cfg pol w hb.unaccepted r (.external t) (by simpa [Act.quietFor] using ha) hrs
  | release =>
    simp only [Srv.step]
    obtain ⟨tail, hp, ht⟩ := persisted_stuck h
    split
    · split
      · exact { status := h.status, store := ⟨tail, hp, ht⟩, live := by intro r hr; simp at hr }
      · exact h
    · exact h
  | restart =>
    simp only [Srv.step]
    obtain ⟨tail, hp, ht⟩ := persisted_stuck h
    exact { status := h.status, store := ⟨tail, hp, ht⟩, live := by intro r hr; simp at hr }
  | resume =>
    simp only [Srv.step]
    cases hl : s.live with
    | some r => simpa [hl] using h
    | none =>
      have hne : (s.status != HStatus.running) = false := by simp [h.status]
      simp only [hne, Bool.false_or]
      split
      · exact h
      · obtain ⟨tail, hp, ht⟩ := persisted_stuck h
        obtain ⟨r, hr, hrs⟩ := reload_stuck hb tail ht s.now
        rw [hp, hr]
        simp only [Option.bind_none]
        exact { status := h.status, store := ⟨tail, rfl, ht⟩,
                live := by intro r2 h2; simp at h2; subst h2; exact hrs }

/-- **stuck for good**: from a stuck server state, any sequence of actions that feeds only inert
ticks — control-loop steps, time passing, idle releases, restarts, resumes, sends of unaccepted
events that reload the run — leaves it stuck -/
theorem stuck_forever (c : SrvCfg) (pol : Policy) (w : Nat) (base : List Tick) (hb : StuckBase c pol w base) :
    ∀ (acts : List SAct) (s : Srv), (∀ a ∈ acts, a.quietFor w = true) → SrvStuck c w base s →
      SrvStuck c w base (Srv.run c pol s acts)
  | [], s, _, h => h
  | a :: as, s, ha, h => by
    simp only [Srv.run, List.foldl_cons]
    exact stuck_forever c pol w base hb as _ (fun b hb' => ha b (by simp [hb']))
      (srv_step_stuck c pol w base hb s a (ha a (by simp)) h)

end Engine
