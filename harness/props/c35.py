"""C35 — step lifecycle telemetry on the stream is balanced and ordered."""
from __future__ import annotations

from ..engine import monitors, suite
from ..runner import Env, Outcome

THEOREMS = ["C35_stream_ordered", "C35_tick_ordered", "C35_preparing_when_queued", "C35_input_required_once",
            "C35_run_stream_ordered", "C35_resumed_stream_ordered", "C35_running_minus_not_running", "C35_input_required_once_per_run"]
LEAN_TARGETS = ["WfProps.C35"]
EXPLANATION = (
    "Lean: the StepStateChanged publishes of the concatenated command lists of ANY tick history (rewind + arbitrary "
    "ticks the reducer accepts) are a valid run of the open-slot automaton (RUNNING only on a closed slot, "
    "NOT_RUNNING only on an open one) ending exactly at the in-progress table; PREPARING is emitted iff the attempt "
    "is queued; a returned InputRequiredEvent yields exactly one publish command. On the runner LTS the 'reducer accepts' "
    "proviso is discharged (no schedule from Runner.init crashes): for every fresh or RESTORED initial state and every "
    "schedule the published stream itself - from its first event, i.e. including what the rewind at start-up re-initiates - is a "
    "valid run of the automaton, while live its open slots are exactly the in-progress invocations; counting form: in every "
    "stream prefix #RUNNING - #NOT_RUNNING per (step, worker) is 0 or 1, and 1 exactly for the slots in progress; over a whole "
    "run the copies of an InputRequiredEvent on the stream equal the number of times a step returned it (no re-queue, routing, "
    "wake-up, rewind or drain publishes it again). Tie: reducer/runner correspondence (the runner writes publish commands to "
    "the stream in list order - compared tick by tick incl. stream length), plus the CONTENT of the lifecycle telemetry after "
    "start-up and at the end of every run (driver op rlife), for fresh and resumed runs. Search: automaton on the real "
    "published stream of fresh runs and of runs RESUMED from a context serialised with pending work (mid-run, after cancel / "
    "timeout / a racing StopEvent), every step body starts under an open RUNNING slot, start-up announcements recomputed from "
    "the snapshot, PREPARING/RUNNING counts at quiescence, InputRequiredEvent counts."
)
ASSUMPTIONS = suite.ENGINE_ASSUMPTIONS + [
    "'unless the run ends first': a run that exits leaves RUNNING slots unmatched by design (workers are cancelled)",
    "step bodies do not forge StepStateChanged(RUNNING/NOT_RUNNING) events through ctx.write_event_to_stream (Act.noForge); "
    "the whole-run InputRequiredEvent count excludes events a step writes itself, publish-request ticks and wait_for_event(waiter_event=...)",
    "a resumed run's stream is judged from its own first event (the stream of the stopped run ends with its RUNNING slots unmatched)",
]


def _resumed_runs(env: Env, out: Outcome, n: int, corpus: list[dict]) -> None:
    """a run is stopped while it has pending work -- (a) ctx.to_dict() mid-run at a scheduler-chosen quiet point, then stopped;
    (b) ctx.to_dict() after the run ended by a cancel, by its timeout or by a StopEvent racing with other work -- and a fresh
    workflow is RESUMED from the JSON (Context.from_dict + run(ctx=...)).  The invocations the resumed run re-initiates at
    start-up are step invocations like any other: the balance/order rules are applied to the resumed run's stream from its
    first event, and the number of start-up announcements is recomputed from the snapshot."""
    import copy
    import random

    from ..engine import live, specgen
    rng = random.Random(env.rng.randrange(1 << 30))
    jobs: list[tuple[dict, int, list | None, list | None]] = []
    if env.replay is not None and isinstance(env.replay.get("payload", {}).get("case"), dict) and "resume" in env.replay["payload"]["case"]:
        c = env.replay["payload"]["case"]["resume"]
        jobs.append((c["spec"], c["seed"], c.get("actions1"), c.get("actions2")))
    for item in corpus:
        if "resume" in item:
            c = item["resume"]
            jobs.append((c["spec"], c["seed"], c.get("actions1"), c.get("actions2")))
    for _ in range(n):
        spec = specgen.gen_spec(rng, family=rng.choice(["general", "general", "fanin", "retry"]), allow_timeout=False)
        spec["externals"] = [e for e in spec.get("externals", []) if e["op"] == "send"]
        spec.pop("timeout", None)
        how = rng.choice(["mid_run", "mid_run", "mid_run", "cancel", "timeout", "ended"])
        if how == "mid_run":
            spec["externals"].append({"op": "snapshot_stop", "after_quiet": rng.choice([0, 1, 1, 2, 2, 3, 4])})
        else:
            spec["snapshot_after_end"] = True
            if how == "cancel":
                spec["externals"].append({"op": "cancel", "after_quiet": rng.choice([0, 1, 2, 3])})
            elif how == "timeout":
                spec["timeout"] = rng.choice([1, 4, 10])
        jobs.append((spec, rng.randrange(1 << 30), None, None))
    resumed = []
    for spec, seed, a1, a2 in jobs:
        tr1 = live.run_spec(spec, seed=seed, replay_actions=a1)
        out.evaluations += 1
        snaps = [s for s in tr1.snapshots if s.get("stopped") or s.get("after_end")]
        if not snaps or not isinstance(snaps[0]["dict"], dict):
            out.count("resume:no_snapshot")
            continue
        d = snaps[0]["dict"]
        nip = sum(len(w.get("in_progress", [])) for w in d.get("workers", {}).values())
        nq = sum(len(w.get("queue", [])) for w in d.get("workers", {}).values())
        kind = ("after_" + tr1.outcome[0]) if snaps[0].get("after_end") else "mid_run"
        out.count(f"resume:{kind}:in_progress:{min(nip, 3)}:queued:{min(nq, 2)}")
        if not (nip or nq):
            continue  # nothing to re-initiate: the resumed run starts like a fresh one
        spec2 = copy.deepcopy(spec)
        spec2.pop("snapshot_after_end", None)
        spec2.pop("timeout", None)
        spec2["externals"] = copy.deepcopy([e for e in getattr(tr1, "remaining_externals", []) if e["op"] == "send"])
        spec2["_resumed"] = True
        tr2 = live.run_spec(spec2, seed=seed + 1, replay_actions=a2, resume_from=d)
        resumed.append(tr2)
        out.count("resume:outcome:" + tr2.outcome[0])
        out.nontrivial(("resume", kind, repr(spec), tuple(tr1.actions), tuple(tr2.actions)))
        case = {"resume": {"spec": spec, "seed": seed, "actions1": tr1.actions, "actions2": tr2.actions}}
        for v in monitors.c35_resumed_announcements(tr2, d) + monitors.mon_c35(tr2):
            v.replay = case
            out.violations.append(v)
    suite.runner_corr(out, resumed, "engine-runner-resumed", lifecycle=True)


def run(env: Env) -> Outcome:
    out = Outcome()
    out.rule = ("direct (state,tick) pairs + live scripted workflows under random gate schedules; non-trivial = more than 2 ticks; "
                "distinct by (spec, schedule)")
    suite.direct_corr(env, out, env.budget(3000, 60000))
    suite.live_runs(env, out, env.budget(400, 8000), [monitors.mon_c35], extra_specs=[c for c in suite.load_corpus("C35") if "spec" in c], lifecycle=True)

    def _ire_consumer(spec: dict, rng) -> dict:
        """a step RETURNS an InputRequiredEvent subclass and another step, with zero-delay retries, CONSUMES it and fails once or
        twice: the event is then carried by re-queue commands too, and must still be published exactly once"""
        plain = [s for s in spec["steps"] if s.get("role") != "handler" and s["script"] and s["script"][-1][0] == "ret"
                 and not any(a[0] in ("collect", "wait") for a in s["script"])]
        if not plain or any(s["name"] == "s20" for s in spec["steps"]):
            return spec
        src = rng.choice(plain)
        src["script"][-1] = ["ret", rng.choice(["2", "2", "13"])]
        spec["steps"].append({"name": "s20", "accepts": [2, 13], "nw": rng.randint(1, 2),
                              "retry": rng.choice([{"kind": "attempts", "n": rng.randint(2, 4), "wait": 0}, {"kind": "legacy", "n": 3, "wait": 0}, None]),
                              "script": ([["gate"]] if rng.random() < 0.3 else []) + [["fail_until", rng.randint(1, 2), 4], ["ret", rng.choice(["none", "stop"])]]})
        return spec

    suite.live_runs(env, out, env.budget(120, 2400), [monitors.mon_c35], gen_kwargs={"family": "general"}, mutate_spec=_ire_consumer, lifecycle=True)
    # last, so that the streams above are what they were before this family existed
    _resumed_runs(env, out, env.budget(200, 4000), [c for c in suite.load_corpus("C35") if "resume" in c])
    return out
