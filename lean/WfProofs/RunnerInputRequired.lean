import WfProofs.RunnerTelemetry
import WfProofs.EngineRoute
/-!
`InputRequiredEvent` over a whole run (C35, third clause).

Per tick (`C35_input_required_once`) the reducer emits one publish command for an
`InputRequiredEvent` a step returned.  Here the count is taken over the whole published stream
of a run of the runner LTS: for an event `e` of kind `inputRequired`, the number of times `e`
is on the stream equals the number of times a step *returned* `e` in the ticks the loop has
processed (its log) — no other branch of the reducer (re-queueing for a retry, routing, waking a
waiter, rewinding at start-up, a collect re-run, draining a queue) publishes it again — as long as
the run is live; after an exit command cut a command list short it is at most that number.
Excluded by hypothesis, because they put an event on the stream by design: a step writing `e`
itself (`ctx.write_event_to_stream`), a publish-request tick for `e`, and
`wait_for_event(waiter_event = e)`.
-/
set_option linter.unusedSimpArgs false
set_option linter.unusedVariables false

namespace Engine

/-- how often `e` is published as a plain event by a command list / is on a stream -/
def evPubCount (e : Ev) (cmds : List Cmd) : Nat := cmds.count (.publish (.event e))
def streamCount (e : Ev) (s : List Pub) : Nat := s.count (.event e)

/-- the step returned `e` -/
def Res.returns (e : Ev) : Res → Bool
  | .result (some x) => x == e
  | _ => false

/-- `wait_for_event(waiter_event = e)` -/
def Res.waitsWith (e : Ev) : Res → Bool
  | .addWaiter _ (some x) _ _ _ => x == e
  | _ => false

/-- how often the step result carried by the tick returns `e` -/
def Tick.returned (e : Ev) : Tick → Nat
  | .stepResult _ _ _ res => res.countP (Res.returns e)
  | _ => 0

/-- ticks that put `e` on the stream by design, without a step returning it -/
def Tick.foreign (e : Ev) : Tick → Bool
  | .stepResult _ _ _ res => res.any (Res.waitsWith e)
  | .publish x => x == e
  | _ => false

/-- how often a step returned `e` in the processed ticks -/
def logReturned (e : Ev) (log : List (Tick × Int)) : Nat := (log.map (fun tn => tn.1.returned e)).sum

theorem evPubCount_append (e : Ev) (a b : List Cmd) : evPubCount e (a ++ b) = evPubCount e a + evPubCount e b := by
  simp [evPubCount, List.count_append]

theorem evPubCount_zero_of_start (e : Ev) (l : List Cmd) (h : ∀ c ∈ l, StartCmd c) : evPubCount e l = 0 := by
  unfold evPubCount
  rw [List.count_eq_zero]
  intro hm
  rcases h _ hm with ⟨s, x, w, hc⟩ | ⟨ss, s, i, o, w, hc⟩ | hc <;> cases hc

theorem drain_shape (step nw : Nat) (now : Int) :
    ∀ (fuel : Nat) (ss : StepState), ∀ c ∈ (drain step nw now fuel ss).2, StartCmd c
  | 0, ss => by intro c hc; simp [drain] at hc
  | fuel + 1, ss => by
    unfold drain
    split
    · intro c hc; simp at hc
    · split
      · intro c hc
        rcases List.mem_append.mp hc with hc | hc
        · exact addOrEnqueue_shape _ _ _ _ _ c hc
        · exact drain_shape step nw now fuel _ c hc
      · intro c hc; simp at hc

theorem rewind_shape (cfg : Cfg) (st : State) (now : Int) : ∀ c ∈ (rewind cfg st now).2, StartCmd c := by
  have hloop : ∀ (cs : List StepCfg) (st : State) (cmds : List Cmd), (∀ c ∈ cmds, StartCmd c) →
      ∀ c ∈ (rewindLoop now cs st cmds).2, StartCmd c := by
    intro cs
    induction cs with
    | nil => intro st cmds h; simpa [rewindLoop] using h
    | cons d ds ih =>
      intro st cmds h
      unfold rewindLoop
      apply ih
      intro c hc
      rcases List.mem_append.mp hc with hc | hc
      · exact h c hc
      · unfold rewindStep at hc
        exact drain_shape _ _ _ _ _ c hc
  unfold rewind
  exact hloop _ _ _ (by simp)

/-! ### the step-result branch -/

theorem applyRes_evPub (cfg : Cfg) (pol : Policy) (step : Nat) (tickEv : Ev) (dc : Bool) (acc : ResAcc)
    (r : Res) (e : Ev) (hk : e.kind = .inputRequired) (hw : r.waitsWith e = false) :
    evPubCount e (applyRes cfg pol step tickEv dc acc r).cmds = evPubCount e acc.cmds + b2n (r.returns e) := by
  cases r with
  | result ro =>
    cases ro with
    | none => simp [applyRes, Res.returns, b2n]
    | some ev =>
      by_cases hev : ev = e
      · subst hev
        simp [applyRes, hk, Res.returns, b2n, evPubCount, List.count_append, List.count_cons]
      · have hne : (ev == e) = false := by simpa using hev
        simp only [applyRes, Res.returns, hne, b2n]
        split
        · simp [evPubCount, List.count_append, List.count_cons, hev]
        · split <;> simp [evPubCount, List.count_append, List.count_cons, hev]
  | failed exc failedAt =>
    simp only [applyRes, Res.returns, b2n]
    split
    · simp
    · split
      · simp [evPubCount, List.count_append, List.count_cons]
      all_goals
        split
        · split <;> simp [evPubCount, List.count_append, List.count_cons]
        · simp [evPubCount, List.count_append, List.count_cons]
  | addCollected buf ev =>
    simp only [applyRes, Res.returns, b2n]
    split
    · simp
    · split <;> simp [evPubCount, List.count_append, List.count_cons]
  | deleteCollected buf =>
    simp only [applyRes, Res.returns, b2n]
    split <;> simp
  | addWaiter wid waiterEv req timeout ty =>
    simp only [applyRes, Res.returns, b2n]
    split
    · simp
    · cases waiterEv with
      | none => cases timeout <;> simp [evPubCount, List.count_append, List.count_cons]
      | some x =>
        have hx : x ≠ e := by simpa [Res.waitsWith] using hw
        cases timeout <;> simp [evPubCount, List.count_append, List.count_cons, hx]
  | deleteWaiter wid =>
    simp only [applyRes, Res.returns, b2n]
    split <;> simp

theorem foldl_applyRes_evPub (cfg : Cfg) (pol : Policy) (step : Nat) (tickEv : Ev) (dc : Bool) (e : Ev)
    (hk : e.kind = .inputRequired) :
    ∀ (res : List Res) (acc : ResAcc), res.any (Res.waitsWith e) = false →
      evPubCount e (res.foldl (applyRes cfg pol step tickEv dc) acc).cmds =
        evPubCount e acc.cmds + res.countP (Res.returns e)
  | [], acc, _ => by simp
  | r :: rs, acc, h => by
    simp only [List.any_cons, Bool.or_eq_false_iff] at h
    simp only [List.foldl_cons, List.countP_cons]
    rw [foldl_applyRes_evPub cfg pol step tickEv dc e hk rs _ h.2,
      applyRes_evPub cfg pol step tickEv dc acc r e hk h.1]
    simp only [b2n]
    omega

theorem settle_evPub (acc : ResAcc) (step worker : Nat) (tickEv : Ev) (e : Ev) :
    evPubCount e (settle acc step worker tickEv).2 = evPubCount e acc.cmds := by
  unfold settle
  simp only
  split
  · rfl
  · simp [evPubCount, List.count_cons]

theorem processStepResult_evPub (cfg : Cfg) (pol : Policy) (step worker : Nat) (tickEv : Ev)
    (res : List Res) (st : State) (now : Int) (e : Ev) (hk : e.kind = .inputRequired)
    (hf : res.any (Res.waitsWith e) = false)
    (hnc : Cmd.crash ∉ (processStepResult cfg pol step worker tickEv res st now).2) :
    evPubCount e (processStepResult cfg pol step worker tickEv res st now).2 = res.countP (Res.returns e) := by
  unfold processStepResult at hnc ⊢
  split
  · rename_i h; simp [h] at hnc
  · rename_i hstep
    simp only [hstep] at hnc
    split
    · rename_i hfind; simp [hfind] at hnc
    · rename_i exec hfind
      have hfold := foldl_applyRes_evPub cfg pol step tickEv (res.any isResult) e hk res
        { st := st, exec := exec } hf
      simp only
      split
      · rw [settle_evPub, hfold]; simp [evPubCount]
      · rw [evPubCount_append, settle_evPub, hfold, evPubCount_zero_of_start e _ (drain_shape _ _ _ _ _)]
        simp [evPubCount]

/-! ### the other branches -/

theorem processAddEvent_evPub (cfg : Cfg) (att : Attempt) (target : Option Nat) (st : State) (now : Int)
    (e : Ev) : evPubCount e (processAddEvent cfg att target st now).2 = 0 := by
  unfold processAddEvent
  simp only
  rw [evPubCount_append]
  have h1 : ∀ c ∈ (addEventRoute att target now cfg.steps
      (addEventWaiters cfg att.ev target now cfg.steps { st := addEventStart att st })).cmds, StartCmd c :=
    addEventRoute_shape att target now cfg.steps _
      (addEventWaiters_shape cfg att.ev target now cfg.steps _ (by intro c hc; cases hc))
  rw [evPubCount_zero_of_start e _ h1]
  unfold unhandledCmds
  split
  · simp [evPubCount]
  · split <;> simp [evPubCount, List.count_cons]

theorem processWaiterTimeout_evPub (cfg : Cfg) (step waiter : Nat) (st : State) (now : Int) (e : Ev) :
    evPubCount e (processWaiterTimeout cfg step waiter st now).2 = 0 := by
  unfold processWaiterTimeout
  split
  · simp [evPubCount]
  · simp only
    split
    · simp [evPubCount]
    · split
      · simp [evPubCount]
      · exact evPubCount_zero_of_start e _ (addOrEnqueue_shape _ _ _ _ _)

/-- **one tick**: the publish commands for `e` are exactly the returns of `e` -/
theorem reduce_evPub (cfg : Cfg) (pol : Policy) (t : Tick) (st : State) (now : Int) (e : Ev)
    (hk : e.kind = .inputRequired) (hf : t.foreign e = false)
    (hnc : Cmd.crash ∉ (reduce cfg pol t st now).2) :
    evPubCount e (reduce cfg pol t st now).2 = t.returned e := by
  have wrap : ∀ (r : State × List Cmd),
      evPubCount e (if checkIdle cfg r.1 then (r.1, r.2 ++ [Cmd.scheduleIdleCheck]) else r).2 = evPubCount e r.2 := by
    intro r
    split
    · simp [evPubCount, List.count_append, List.count_cons]
    · rfl
  unfold reduce at hnc ⊢
  cases t with
  | stepResult step worker ev res =>
    simp only at hnc ⊢
    rw [wrap]
    apply processStepResult_evPub cfg pol step worker ev res st now e hk (by simpa [Tick.foreign] using hf)
    intro hcr
    apply hnc
    split
    · simp [hcr]
    · exact hcr
  | addEvent att target =>
    simp only
    rw [wrap, processAddEvent_evPub]
    rfl
  | cancelRun =>
    simp only
    refine (wrap (st, _)).trans ?_
    simp [evPubCount, List.count_cons, Tick.returned]
  | idleRelease => simp [evPubCount, List.count_cons, Tick.returned]
  | publish x =>
    simp only
    refine (wrap (st, _)).trans ?_
    have hx : x ≠ e := by simpa [Tick.foreign] using hf
    simp [evPubCount, List.count_cons, Tick.returned, hx]
  | timeout tm =>
    simp only
    refine (wrap ({ st with isRunning := false }, _)).trans ?_
    simp [evPubCount, List.count_cons, Tick.returned]
  | waiterTimeout step waiter =>
    simp only
    rw [wrap, processWaiterTimeout_evPub]
    rfl
  | idleCheck =>
    simp only
    split <;> simp [evPubCount, List.count_cons, Tick.returned]

/-! ### the runner -/

theorem execCmd_streamCount (e : Ev) (r : Runner) (c : Cmd) :
    streamCount e (execCmd r c).stream = streamCount e r.stream + evPubCount e [c] := by
  rw [execCmd_stream]
  cases c with
  | publish p =>
    by_cases hp : p = .event e
    · subst hp; simp [streamCount, evPubCount, List.count_append]
    · simp [streamCount, evPubCount, List.count_append, List.count_cons, hp]
  | _ => simp [streamCount, evPubCount, List.count_cons]

theorem execCmd_log_ire (r : Runner) (c : Cmd) : (execCmd r c).log = r.log := by
  cases c with
  | queueEvent att step delay =>
    cases delay with
    | none => simp [execCmd]
    | some d => simp only [execCmd]; split <;> simp [Runner.push]
  | scheduleIdleCheck => simp only [execCmd]; split <;> simp
  | _ => simp [execCmd, Runner.finish, Runner.push]

theorem execCmds_log_ire : ∀ (cmds : List Cmd) (r : Runner), (execCmds r cmds).log = r.log
  | [], r => by simp [execCmds]
  | c :: cs, r => by
    simp only [execCmds]
    split
    · exact execCmd_log_ire r c
    · rw [execCmds_log_ire cs _, execCmd_log_ire r c]

theorem evPubCount_cons (e : Ev) (c : Cmd) (cs : List Cmd) :
    evPubCount e (c :: cs) = evPubCount e [c] + evPubCount e cs := by
  have := evPubCount_append e [c] cs
  simpa using this

/-- what executing a command list adds to the stream: at most its publish commands for `e`, and
exactly those when no exit command cut the execution short -/
theorem execCmds_streamCount (e : Ev) : ∀ (cmds : List Cmd) (r : Runner),
    streamCount e (execCmds r cmds).stream ≤ streamCount e r.stream + evPubCount e cmds ∧
      ((execCmds r cmds).outcome = none →
        streamCount e (execCmds r cmds).stream = streamCount e r.stream + evPubCount e cmds)
  | [], r => by simp [execCmds, evPubCount]
  | c :: cs, r => by
    have h1 := execCmd_streamCount e r c
    rw [evPubCount_cons]
    simp only [execCmds]
    split
    · rename_i hsome
      refine ⟨by omega, fun hn => ?_⟩
      rw [hn] at hsome
      simp at hsome
    · obtain ⟨ih1, ih2⟩ := execCmds_streamCount e cs (execCmd r c)
      refine ⟨by omega, fun hn => ?_⟩
      have := ih2 hn
      omega

/-- the stream never holds more copies of `e` than steps returned, and exactly as many while the run is live -/
def IreInv (e : Ev) (r : Runner) : Prop :=
  streamCount e r.stream ≤ logReturned e r.log ∧
    (r.outcome = none → streamCount e r.stream = logReturned e r.log)

theorem logReturned_snoc (e : Ev) (log : List (Tick × Int)) (t : Tick) (n : Int) :
    logReturned e (log ++ [(t, n)]) = logReturned e log + t.returned e := by
  simp [logReturned]

def Act.writes (e : Ev) : Act → Bool
  | .stepWrite p => p == .event e
  | _ => false

theorem step_log_mono (cfg : Cfg) (pol : Policy) (r : Runner) (a : Act) :
    ∀ x ∈ r.log, x ∈ (r.step cfg pol a).log := by
  intro x hx
  unfold Runner.step
  split
  · exact hx
  cases a with
  | drain =>
    simp only
    cases hbuf : r.buf with
    | nil => simp only; exact hx
    | cons t rest =>
      simp only
      split
      · exact hx
      · rw [execCmds_log_ire]; simp [hx]
  | workerDone s w res =>
    simp only
    split
    · exact hx
    · split <;> exact hx
  | pull =>
    simp only
    split
    · exact hx
    · split <;> exact hx
  | timer => simp only; split <;> exact hx
  | advance dt => exact hx
  | external t => simp only; split <;> exact hx
  | stepWrite p => exact hx

theorem run_log_mono (cfg : Cfg) (pol : Policy) : ∀ (acts : List Act) (r : Runner),
    ∀ x ∈ r.log, x ∈ (Runner.run cfg pol r acts).log
  | [], r, x, hx => hx
  | a :: as, r, x, hx => by
    simp only [Runner.run, List.foldl_cons]
    exact run_log_mono cfg pol as _ x (step_log_mono cfg pol r a x hx)

theorem step_ireInv (cfg : Cfg) (pol : Policy) (e : Ev) (hk : e.kind = .inputRequired) (r : Runner) (a : Act)
    (hw : a.writes e = false) (hlog : ∀ tn ∈ (r.step cfg pol a).log, tn.1.foreign e = false)
    (h : IreInv e r) : IreInv e (r.step cfg pol a) := by
  have hlog0 := hlog
  unfold Runner.step
  split
  · exact h
  rename_i hlive
  have hnone : r.outcome = none := by
    cases ho : r.outcome with
    | none => rfl
    | some x => simp [ho] at hlive
  cases a with
  | drain =>
    simp only
    cases hbuf : r.buf with
    | nil => simp only; exact h
    | cons t rest =>
      simp only
      split
      · -- the reducer rejected the tick: nothing is written, nothing is logged
        refine ⟨h.1, fun hn => ?_⟩
        simp [Runner.finish] at hn
      · rename_i hcr
        have hnc : Cmd.crash ∉ (reduce cfg pol t r.st r.now).2 := by simpa using hcr
        have hfor : t.foreign e = false := by
          apply hlog0 (t, r.now)
          unfold Runner.step
          rw [if_neg hlive]
          simp only [hbuf]
          rw [if_neg hcr, execCmds_log_ire]
          simp
        have hcount := reduce_evPub cfg pol t r.st r.now e hk hfor hnc
        obtain ⟨e1, e2⟩ := execCmds_streamCount e (reduce cfg pol t r.st r.now).2
          { r with buf := rest, idlePending := if t = Tick.idleCheck then false else r.idlePending,
                   st := (reduce cfg pol t r.st r.now).1, log := r.log ++ [(t, r.now)] }
        simp only [IreInv]
        rw [execCmds_log_ire]
        simp only [logReturned_snoc]
        rw [hcount] at e1 e2
        have h2 := h.2 hnone
        have h1 := h.1
        simp only at e1 e2
        refine ⟨by omega, fun hn => ?_⟩
        have := e2 hn
        omega
  | workerDone s w res =>
    simp only
    split
    · exact h
    · split <;> exact h
  | pull =>
    simp only
    split
    · exact h
    · split <;> exact h
  | timer => simp only; split <;> exact h
  | advance dt => exact h
  | external t => simp only; split <;> exact h
  | stepWrite p =>
    have hp : p ≠ .event e := by simpa [Act.writes] using hw
    have hc : streamCount e (r.stream ++ [p]) = streamCount e r.stream := by
      simp [streamCount, List.count_append, List.count_cons, hp]
    exact ⟨by simp only [hc]; exact h.1, fun hn => by simp only [hc]; exact h.2 hn⟩

theorem run_ireInv (cfg : Cfg) (pol : Policy) (e : Ev) (hk : e.kind = .inputRequired) :
    ∀ (acts : List Act) (r : Runner), (∀ a ∈ acts, a.writes e = false) →
      (∀ tn ∈ (Runner.run cfg pol r acts).log, tn.1.foreign e = false) → IreInv e r →
      IreInv e (Runner.run cfg pol r acts)
  | [], r, _, _, h => h
  | a :: as, r, hw, hlog, h => by
    simp only [Runner.run, List.foldl_cons] at hlog ⊢
    apply run_ireInv cfg pol e hk as _ (fun b hb => hw b (by simp [hb])) hlog
    apply step_ireInv cfg pol e hk r a (hw a (by simp)) _ h
    intro tn htn
    exact hlog tn (run_log_mono cfg pol as _ tn htn)

theorem init_ireInv (cfg : Cfg) (st0 : State) (now : Int) (start : Option Ev) (timeout : Option Nat) (e : Ev) :
    IreInv e (Runner.init cfg st0 now start timeout) := by
  unfold Runner.init
  simp only
  have key : ∀ r1 : Runner, r1.stream = [] → r1.log = [] →
      IreInv e (execCmds r1 (rewind cfg st0 now).2) := by
    intro r1 hs hl
    obtain ⟨e1, _⟩ := execCmds_streamCount e (rewind cfg st0 now).2 r1
    rw [evPubCount_zero_of_start e _ (rewind_shape cfg st0 now), hs] at e1
    simp only [streamCount, List.count_nil, Nat.add_zero, Nat.le_zero_eq] at e1
    simp only [IreInv, streamCount, e1, execCmds_log_ire, hl, logReturned, List.map_nil, List.sum_nil,
      Nat.le_refl, implies_true, and_self]
  apply key
  · cases timeout <;> rfl
  · cases timeout <;> rfl

end Engine
