"""C36 — idle runs are released after the idle timeout and reloaded on demand."""
from __future__ import annotations

import json
import random

from ..runner import Divergence, Driver, Env, Outcome, Violation
from ..server import dbos_timer as DT
from ..server import idle_check as IC
from ..server import lifecycle_db as LDB
from ..server import lifecycle_props as LP

THEOREMS = ["C36_source_shape", "C36_release_after_timeout", "C36_never_released_early", "C36_early_release_window_witness",
            "C36_reload_on_send", "C36_send_to_active_run", "C36_reload_state_is_replay", "C36_no_release_while_sending",
            "C36_refuted_dbos_never_released", "C36_dbos_release_resume_partial", "C36_dbos_release_not_abandoned",
            # every history, in-process stack (WfProofs/LifecycleIdle.lean)
            "C36_released_run_marked_idle", "C36_reloads_match_releases", "C36_reload_from_all_persisted", "C36_release_when_timers_quiescent",
            # DBOS stack: when a release is attempted (M7 (C), WfModel/DbosTimer.lean)
            "C36_dbos_timer_source_shape", "C36_dbos_timer_discipline", "C36_dbos_release_attempt_after_timeout", "C36_dbos_timer_cover",
            "C36_dbos_no_timer_outlives_its_workflow",
            # DBOS stack: `released` row vs. workflow in memory (machine (B), WfProofs/LifecycleCalm.lean)
            "C36_dbos_released_means_unloaded_refuted", "C36_dbos_released_means_unloaded_partial"]
LEAN_TARGETS = ["WfProps.C36"]
EXPLANATION = (
    "Lean (same model M7 as C26): for every schedule — every release was decided on an idle_since at least idle_timeout old, idle_since holds the "
    "last announcement or nothing, and whenever the row says idle-since-t with a registered loop a release task that will act on that t is pending; "
    "running it releases: loop aborted, run inactive, handler still marked idle (C36_release_after_timeout); with truthful announcements outside "
    "the query->decide window no release is early w.r.t. the LAST announcement (C36_never_released_early; model witness of the window: "
    "C36_early_release_window_witness); a send to a released run reloads exactly once, from all persisted ticks, clears idle_since and delivers to "
    "the new loop, a send to an active run starts nothing (C36_reload_on_send, C36_send_to_active_run); what is rebuilt is the live reducer state "
    "and on a quiescent state rewind_in_progress is the identity (C36_reload_state_is_replay, via C11); a loop is aborted / started only by the "
    "lock holder (C36_no_release_while_sending). DBOS stack: release/resume cycle proved given the lifecycle row (C36_dbos_release_resume_partial); "
    "the production code never inserts the row, so no DBOS run is ever released (C36_refuted_dbos_never_released; known finding, reproduced by "
    "running the real DBOSIdleReleaseDecorator + SqliteRunLifecycleLock over a stand-in runtime and by re-extracting the call sites); with the row, "
    "along every schedule without a process crash a release that has begun is carried through — the `releasing` row is held by a live releaser "
    "whose TickIdleRelease / complete_release is enabled, whatever ticks the run consumes meanwhile (C36_dbos_release_not_abandoned; that the timer "
    "task de-registers itself before it starts the release is part of C36_source_shape). DBOS half under latency (harness/server/dbos_gated.py): "
    "virtual-time latency on every lifecycle-store call and on every delivery to the run, client sends placed in the windows of a release; every "
    "observed protocol action is compared with the protocol machine of M7 (B) (row, incarnation, mailbox, consumed ticks, releaser / sender "
    "positions, releaser task ended early), and the monitors: a committed begin_release is followed by TickIdleRelease and complete_release within "
    "the case's own latencies, an idle undisturbed run is out of memory after idle_timeout + the longest release, a released run is marked idle, "
    "the next send reloads exactly once and the run finishes with everything it consumed. "
    "Every history, in-process stack: a run that is out of memory is marked idle (idle_since = the last announcement) in EVERY reachable state "
    "(C36_released_run_marked_idle); loops started = releases + [loaded]: each release is answered by at most one reload, no reload without a release "
    "(C36_reloads_match_releases); whatever the interleaving, an action that starts a loop starts it from the entire tick log as it is at that instant, "
    "a live loop's rebuilt-from list is a prefix of the log, the log only grows (C36_reload_from_all_persisted); an idle-marked run whose still-sleeping "
    "release tasks were all armed for earlier announcements IS out of memory (C36_release_when_timers_quiescent: liveness as safety, via the cover invariant). "
    "DBOS stack, when a release is attempted (model M7 (C) of the deferred-release timer bookkeeping, `_schedule_/_cancel_deferred_release`, `_deferred_release`): "
    "for every sequence of announcements, received ticks, resumes, expiries — at most one timer sleeps, it is the registered one, armed by the last announcement "
    "with no tick since; what is registered is never inside a release, so the pop is never foreign and no cancel reaches a running release "
    "(C36_dbos_timer_discipline); every attempt (begin_release) comes >= idle_timeout after the LAST announcement with no tick/resume since, unconditionally "
    "(C36_dbos_release_attempt_after_timeout); an announced-idle undisturbed run always has its attempt ahead at exactly announcement + idle_timeout "
    "(C36_dbos_timer_cover); any received tick — the TickIdleRelease a workflow exits on included — or resume leaves no timer asleep "
    "(C36_dbos_no_timer_outlives_its_workflow); protocol machine (B): `row = released => no workflow executing` is REFUTED at full strength by two model "
    "witnesses (a release that begins during a resume; a live releaser slower than the crash timeout whose late complete_release closes another "
    "releaser's release — complete_release is guarded by the row's state, not its holder; both replayed as CAS sequences on the real SQLite lock) and PROVED "
    "for every schedule in which a release begins only while the workflow is up and no `releasing` row is taken over, together with: from every such "
    "reachable released state the next sender reloads at once, exactly once, with its event folded in (C36_dbos_released_means_unloaded_refuted / _partial); "
    "the bodies and call sites the actions are cut along are re-extracted (C36_dbos_timer_source_shape). Tie: the real decorator's "
    "timer code runs op by op (harness/server/dbos_timer.py: real internal adapter + decorator over stub inner adapter / lock / store, several runs, virtual time, "
    "release latencies) and after each observed action (idle, tick, resume, fire, finish) the registry, every timer task's state and the end of its sleep read from "
    "the loop's timer heap, and the attempts are compared with the compiled model; monitors on the log alone: attempt early / with a tick since / without "
    "announcement / late, two sleepers, registered task not asleep, running release cancelled, idle run without attempt, won CAS not carried through, cross-run effect. "
    "Tie and search as C26 (same observation stream); C36's monitors: release timing against the stream's own idle announcements, release "
    "liveness (announced idle, undisturbed for idle_timeout => released exactly then, handler marked idle), reload exactly once, state after "
    "release / reload, lock sections, final result equals the run without idle release."
)
LEVEL_TEXT = ("proof (Lean 4) over the lifecycle model M7 (release after the timeout, reload on send, lock discipline; DBOS release/resume "
              "given the lifecycle row) + per-action correspondence with the real in-process server stack + monitors; PARTIAL for the DBOS "
              "half: dbos/asyncpg/sqlalchemy are absent (stand-in inner runtime, PostgreSQL lock extracted, not run); the DBOS clause itself is "
              "refuted on the tree (no lifecycle row is ever created)")
ASSUMPTIONS = LP.COMMON_ASSUMPTIONS + [
    "M7 (C) (DBOS timer): `task.cancel()` of a sleeping timer task takes effect before the task runs again, whatever its due time (asyncio semantics; observed on the "
    "real loop, incl. a tick at the very instant the sleep ends); the attempt is the entry into _release_idle_handler (the pop and the begin_release call are one "
    "await-free section when the lifecycle-lock factory is synchronous, as in the shipped wiring); what happens to a tick that arrives AFTER the attempt began is "
    "machine (B)'s business (C26: tick_arrived_during_release); a timer task cancelled before its first step never sleeps (the end of its sleep is then not observable)",
    "C36_release_after_timeout(b) runs the pending release task from a state with the lock free and no send in between; fairness of the asyncio scheduler "
    "(the timer task eventually runs) is not modelled — the monitor checks on the real stack that the release happens at exactly announcement + idle_timeout",
    "DBOS half under latency: what DBOS adds to the decorator is taken to be latency (and suspension of the calling task) on the lifecycle statements and on "
    "deliveries; a process crash in the middle of a release (C26's crash timeout) is not injected; the protocol machine's `processed` is what the run has reduced, "
    "including the reloading tick that _do_resume folds into the rebuilt state (which is NOT in the tick log: finding C36/dbos_second_reload_fails)",
    "'continues from where it stopped': the reducer state (C11) — context state store contents are persisted by the store itself (C19-C21), not modelled here; "
    "the monitor compares the final result with the uninterrupted run",
]
TRUSTED_EXTRA = LP.TRUSTED_EXTRA + [
    "harness/server/dbos_timer.py: stub inner adapter / inner runtime / lifecycle lock / store under the real DBOSIdleReleaseDecorator and its real internal adapter; the "
    "observation of timer tasks (a `_spawn_task` override that only records, asyncio task state, the loop's timer heap for the end of a sleep); `resume` is the direct call "
    "`_cancel_deferred_release(run_id)` (first statement of `_do_resume`, re-extracted)",
    "harness/gen/dbos_timer.py (AST extraction into WfModel/GenDbosTimer.lean)",
    "harness/server/dbos_gated.py: the stand-in engine under DBOSIdleReleaseDecorator (BasicRuntime; ticks delivered by run id after a virtual-time latency, "
    "as DBOS.send is; DBOS.retrieve_workflow_async / delete_workflow_async emulated by hooks), the latency wrapper around the real SqliteRunLifecycleLock, the "
    "task bookkeeping that attributes lock calls to releasers / senders, the lifecycle row inserted by the harness",
]

WITNESSES = [
    ("premature_idle(F14)", IC.WITNESS_PREMATURE_IDLE, "C36/released_while_not_idle:premature_idle"),
    ("send_window", IC.WITNESS_SEND_WINDOW, "C36/released_while_not_idle:send_window"),
    ("query_window", IC.WITNESS_QUERY_WINDOW, "C36/released_early:query_window"),
    ("wait_requirements_lost", IC.WITNESS_REQUIREMENTS_LOST, "C36/wait_requirements_lost_on_reload"),
]


def _dbos_never_released(out: Outcome) -> None:
    """known finding: no production code path inserts the run_lifecycle row"""
    sites = LDB.create_call_sites()
    out.count("RunLifecycleLock.create call sites", len(sites))
    o = LP.run_dbos_standin(out, create_row=False)
    tl = {t["tag"]: t for t in o["timeline"]}
    idle = tl.get("after_idle", {})
    begins = [c for c in o["lock_calls"] if c[0] == "begin_release"]
    if (not sites and begins and all(c[1] == "False" for c in begins) and idle.get("row") == "row=-"
            and idle.get("first_loop_done") is False and idle.get("idle_since_set") is False and o.get("idle_release_ticks") == 0):
        out.violations.append(Violation(
            "C36/dbos_never_released",
            f"DBOSIdleReleaseDecorator (idle_timeout 0.2 s): 1.0 s after the idle announcement the run is still in memory, begin_release returned {begins[0][1]} "
            f"because no run_lifecycle row exists (RunLifecycleLock.create has {len(sites)} production call sites), no TickIdleRelease was sent, idle_since is unset",
            {"kind": "dbos_standin", "create_row": False}))
    else:
        out.notes.append(f"dbos_never_released did not reproduce: sites={sites} begins={begins} after_idle={idle}")
    # positive control: with the row present (inserted by the harness where the start hook is missing) the same stack releases and resumes
    o2 = LP.run_dbos_standin(out, create_row=True)
    tl2 = {t["tag"]: t for t in o2["timeline"]}
    ok = (tl2.get("after_idle", {}).get("row", "").startswith("row=released") and tl2.get("after_idle", {}).get("first_loop_done") is True
          and tl2.get("after_idle", {}).get("idle_since_set") is True and tl2.get("after_send_1", {}).get("row", "").startswith("row=active")
          and tl2.get("after_send_1", {}).get("idle_since_set") is False and tl2.get("after_send_99", {}).get("result") == [1, 99])
    if not ok:
        out.violations.append(Violation("C36/dbos_standin_cycle", f"with the lifecycle row present the run was not released after the timeout and resumed by the next send: {o2['timeline']}",
                                        {"kind": "dbos_standin", "create_row": True}))


ROW_WITNESSES = [
    # the lock-level projection of C36.lateReleaseActs / C36.supersededCompleteActs (WfProps/C36.lean): ordinary CAS sequences for the real lock
    ("late_release", [("create", 0), ("begin", 0), ("complete", 0), ("resume", 120000), ("begin", 0), ("complete", 0)],
     ["None", "True", "None", "released", "True", "None"]),
    ("superseded_complete", [("create", 0), ("begin", 0), ("sleep", 120001), ("resume", 120000), ("begin", 0), ("complete", 0)],
     ["None", "True", "released", "True", "None"]),
]


def _row_witnesses(out: Outcome) -> None:
    """C36_dbos_released_means_unloaded_refuted at the level of the real SqliteRunLifecycleLock: both witness schedules are CAS sequences the
    lock accepts, ending in `released` (the second: complete_release by a releaser whose release had been taken over closes the release of
    another one — the statement is guarded by the row's state only); answers and rows compared with the row model"""
    import asyncio
    import os

    from ..runner import diff_streams
    from ..vloop import run_virtual

    for name, items, want in ROW_WITNESSES:
        LC = LDB._patch_clocks()
        db = LDB.make_db()
        ops: list[str] = []
        impl: list[str] = []
        answers: list[str] = []

        async def main(loop, items=items, db=db, ops=ops, impl=impl, answers=answers, LC=LC):  # noqa: ANN001
            lock = LC.SqliteRunLifecycleLock(db)
            rid = "run-0"
            for kind, arg in items:
                now = LDB.ms(loop.time())
                if kind == "sleep":
                    await asyncio.sleep(arg / 1000.0)
                    continue
                if kind == "create":
                    res = await lock.create(rid)
                    ops.append(f"db|0|create|{now}")
                elif kind == "begin":
                    res = await lock.begin_release(rid)
                    ops.append(f"db|0|begin|{now}")
                elif kind == "complete":
                    res = await lock.complete_release(rid)
                    ops.append(f"db|0|complete|{now}")
                else:
                    res = await lock.try_begin_resume(rid, crash_timeout_seconds=arg / 1000.0)
                    ops.append(f"db|0|resume|{now}|{arg}")
                answers.append(LDB.show_result(res))
                impl.append(f"{LDB.show_result(res)} {LDB.read_row(db, rid)}")

        try:
            run_virtual(main, start=LDB.T0)
        finally:
            for suf in ("", "-wal", "-shm"):
                try:
                    os.unlink(db + suf)
                except OSError:
                    pass
        m = Driver("lifecycle").run(ops)
        d = diff_streams("lifecycle-row", ops, m, impl, context={"row_witness": name})
        if d is not None and not out.divergences:
            out.divergences.append(d)
        out.evaluations += len(ops)
        out.count(f"row witness {name}: final {impl[-1].split(' ')[-1].split('@')[0] if impl else '?'}")
        if answers != want or not impl or not impl[-1].split(" ")[-1].startswith("row=released@"):
            out.notes.append(f"row witness {name}: the real lock answered {answers}, final {impl[-1:] or '-'} (recorded: {want}, final released): "
                             f"the lock-level half of C36_dbos_released_means_unloaded_refuted no longer replays")


TIMER_MALFORMED = [("reset", "ok"), ("init|0", "bad-op"), ("idle|0", "no-run"), ("init|0|200", "ok"), ("fire|0|0", "disabled"), ("finish|0|3", "disabled"),
                   ("idle|x", "bad-op"), ("adv|-3", "bad-op"), ("", "bad-op"), ("fire|0", "bad-op"), ("tick|0", "ok"), ("resume|7", "no-run")]


def run_dbos_timer(env: Env, out: Outcome, n_cases: int) -> None:
    """DBOS stack, when a release is attempted: the real decorator's timer bookkeeping vs M7 (C), op by op, + its monitors"""
    rng = random.Random(env.rng.randrange(1 << 30))
    got = Driver("dbostimer").run([o for o, _ in TIMER_MALFORMED])
    out.evaluations += len(TIMER_MALFORMED)
    out.count("timer: malformed ops", len(TIMER_MALFORMED))
    for k, ((op, exp), g) in enumerate(zip(TIMER_MALFORMED, got)):
        if g.split(" ")[0] != exp and not out.divergences:
            out.divergences.append(Divergence("dbostimer", k, op, g, exp, {"stream": "malformed"}))

    def take(results: list[dict], tag: str) -> None:
        for r in results:
            o = r["run"]
            out.evaluations += len(o["ops"])
            out.disagreements_checked += len(o["ops"])
            out.traces_validated += 1
            out.count(f"timer:{tag}")
            out.count(f"timer: runs per case = {len(r['case']['taus'])}")
            for op in o["ops"]:
                out.count("top:" + op.split("|")[0])
            ev = o["events"]
            n_att = sum(1 for e in ev if e["ev"] == "attempt")
            out.count("timer: release attempts", n_att)
            out.count("timer: attempts that won the CAS", sum(1 for e in ev if e["ev"] == "attempt" and e["win"]))
            out.count("timer: timer tasks cancelled while asleep", sum(f["facts"]["states"].count("cancelled") for f in (o.get("final") or {}).get("runs", [])))
            out.count("timer: sleeps never observed (task cancelled before its first step)", o.get("unobserved_sleeps", 0))
            if any(e["ev"] in ("tick", "idle", "resume") and any(a["ev"] == "attempt" and a["run"] == e["run"] and a["t"] <= e["t"] < a["t"] + a["lat"] for a in ev) for e in ev):
                out.count("timer: tick / announcement / resume while a release of the run was inside begin_release")
            if any(e["ev"] == "tick" and any(a["ev"] == "attempt" and a["run"] == e["run"] and a["t"] == e["t"] for a in ev) for e in ev) or \
                    any(e["ev"] == "tick" and any(i["ev"] == "idle" and i["run"] == e["run"] and i["t"] + r["case"]["taus"][e["run"]] == e["t"] for i in ev) for e in ev):
                out.count("timer: tick at the very instant the sleep ends")
            if n_att and any(e["ev"] == "tick" for e in ev):
                out.nontrivial(json.dumps(r["case"], sort_keys=True))
            out.sample({"dbos_timer": r["case"], "ops": o["ops"][:30]}, cap=2)
            if r["divergence"] is not None and not out.divergences:
                out.divergences.append(r["divergence"])
            if o["errors"]:
                out.notes.append(f"dbos-timer {tag}: {o['errors'][:3]} in {json.dumps(r['case'])}")
            seen = set()
            for sig, what in r["findings"]:
                if sig not in seen:
                    seen.add(sig)
                    out.violations.append(Violation(sig, what, {"kind": "dbos_timer", "case": r["case"]}))

    if env.replay is not None:
        payload = env.replay.get("payload", {})
        c = payload.get("case") or {}
        if c.get("kind") == "dbos_timer":
            take(DT.check_cases([c["case"]]), "replay")
        for d in payload.get("divergence") or []:
            ctx = d.get("context") or {}
            if isinstance(ctx, dict) and ctx.get("kind") == "dbos_timer":
                take(DT.check_cases([ctx["case"]]), "replay")
    take(DT.check_cases([c for _n, c in DT.CORPUS]), "corpus")
    cases = [DT.gen_case(rng) for _ in range(n_cases)]
    B = 200
    for i in range(0, len(cases), B):
        take(DT.check_cases(cases[i:i + B]), "generated")


def run(env: Env) -> Outcome:
    out = Outcome()
    out.rule = ("generated idle workflows (1-5 external events + optional final, durations and send times on a grid around idle_timeout incl. +-1 ms, 1-2 workers, "
                "memory/sqlite store, 1/3 with scheduler-controlled store suspension, 1/4 with work longer than idle_timeout and retries); "
                "non-trivial = at least one release and one reload; distinct by (case, schedule). DBOS timer stream: 1-3 runs, idle_timeout in {100,200,250} ms, "
                "5-14 ops (idle 32%, tick 18%, resume 7%, other event 6%, wait timeout 5%, time steps on a grid around the timeouts incl. +-1 ms 32%), begin_release latency "
                "in {0,15,60,130} ms and answer True 60%, TickIdleRelease / get_result latencies; non-trivial = at least one release attempt and one received tick")
    LP.run_malformed(out)
    LP.run_inprocess(env, out, "C36", env.budget(24, 2400), WITNESSES)
    LP.run_row_corr(env, out, env.budget(150, 20000), "C36")
    _dbos_never_released(out)
    _row_witnesses(out)
    LP.run_dbos_gated(env, out, "C36", env.budget(40, 1500))
    run_dbos_timer(env, out, env.budget(150, 6000))
    return out
