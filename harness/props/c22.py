"""C22 — resource injection honors caching and cycle detection under concurrency."""
from __future__ import annotations

import json
import os
import random
from typing import Any

from ..boot import VERIF
from ..runner import Divergence, Driver, Env, Outcome, Violation, diff_streams
from .. import resources_live as RL

THEOREMS = [
    "C22_source_shape",
    "C22_created_by_finished_is_fresh",
    "C22_mutual_exclusion",
    "C22_cached_created_once",
    "C22_created_once_per_invocation",
    "C22_value_independent",
    "C22_cached_same_object",
    "C22_scope_isolation",
    "C22_injected_by_factory",
    "C22_no_false_cycle",
    "C22_cycle_reported",
    "C22_outcome_sound",
    "C22_resolution_terminates",
    "C22_neutral_after_cancellations",
    "C22_lock_free_after_all_ended",
    "C22_concurrent",
    "C22_sequential",
    "C22_resolution_terminates_sequential",
    "C22_refuted_unlocked_false_cycle",
    "C22_refuted_unlocked_scope_leak",
    "C22_refuted_unlocked_stale_scope",
]
EXPLANATION = (
    "Lean model M9 (WfModel/Resource.lean): dependency graphs of cached/non-cached, sync/async, possibly raising "
    "factories; the ResourceManager state as the code keeps it (resources, _resolving, _resolution_cache, "
    "_resolution_depth, the scope lock and its FIFO waiters); ResourceManager.get/_get, _Resource.call, "
    "resolution_scope and partial() as a labelled transition system whose atomic actions are the await-free sections "
    "of each resolving task (tick = one micro-step of the running task; spawn/resume only when no task runs), any "
    "number of tasks, object identities as a counter. Theorems for every graph and every action list: with exclusive "
    "scopes (the repaired code) at most one task is inside a scope; a cached resource is made at most once and every "
    "injection of it is that object; a non-cached resource is shared inside one invocation and differs between "
    "invocations; injected objects come from the right factory; a cycle error names a genuine dependency path back "
    "to one of its members and the requested resource is not well-founded; an invocation that completes has only "
    "well-founded requests; a raising factory is the only other failure; every await-free section of a resolution ends "
    "after finitely many micro-steps on every graph (lexicographic measure: scoped cache, stack, dependencies left). "
    "An invocation created by a finished invocation -- asyncio.create_task copies the creator's context, _held_scopes "
    "binding included -- is an ordinary invocation (C22_created_by_finished_is_fresh), so the theorems cover "
    "resolve-then-spawn task trees; the runs exercise them (invocations created in a copy of a finished invocation's "
    "context, child workflows run from a step with injected resources, callers that resolve before run()). "
    "Factories carry the value they return (object, None, 0, '', [], False): a factory returns at most once per "
    "invocation (C22_created_once_per_invocation) and no transition reads the value (C22_value_independent: the runs "
    "of a graph and of the same graph with all values replaced by ordinary objects are equal), so a stored falsy "
    "value is a cache hit like any other. Schedules include cancel actions (CancelledError thrown into an invocation "
    "suspended in an async factory at any depth of its chain, or queued on the scope lock), so all of the above holds "
    "after any mix of completions, errors and cancellations, and whenever no invocation is inside a scope _resolving, "
    "the depth and the scoped cache are neutral (C22_neutral_after_cancellations), and once every invocation has ended "
    "the lock is free and its queue empty (C22_lock_free_after_all_ended); the runs cancel invocations at "
    "those points, end workflow runs with cancel_run while a step is suspended in a resource factory and run the same "
    "workflow instance again. The same statements for serial schedules of "
    "the unlocked code (C22_sequential), and three refutations of the unlocked code by concrete interleavings (false "
    "cycle error, non-cached object shared by two invocations, stale scoped value after a bare get). C22_concurrent "
    "is stated for the configuration regenerated from the sources, so it only checks on a tree with exclusive scopes. "
    "Tie: statement shapes of _get/get/resolution_scope/_Resource.call/partial regenerated from /repo "
    "(C22_source_shape); op-by-op correspondence of the real partial()/ResourceManager.get on random graphs and "
    "scripted schedules against the model driver (events with identities, _resolving, depth, caches, lock, task "
    "phases; injected values rendered as the serial of their creation or, for interned values, as the value), and of "
    "real workflows with concurrent worker steps. Search: monitors on the real code alone -- identities of injected "
    "objects where creations are distinguishable, and factory-return counts per manager / per invocation (for "
    "back-to-back invocations the exact count recomputed from the graph) whatever the value."
)
LEVEL_TEXT = "proof (all graphs, all interleavings of any number of tasks) + correspondence + implementation-side monitors"
ASSUMPTIONS = [
    "tasks switch only where Python really suspends: at the await inside an async factory body and at the acquisition "
    "of a held asyncio.Lock (asyncio's single-threaded run-to-suspension semantics and the FIFO hand-off of "
    "asyncio.Lock are assumed, exercised by the correspondence runs, not proved)",
    "an async factory suspends exactly once per call; a sync factory never (a factory that awaits several times "
    "changes no manager state in between)",
    "cancellation is modelled where a task can receive it at a quiescent point: suspended at the await of an async "
    "factory (CancelledError then unwinds every _get activation like an exception) or queued on the scope lock; that "
    "asyncio.Lock passes a lock on when a woken waiter is cancelled, and that the engine cancels all workers of a run "
    "before any of them runs again (cleanup_tasks), is exercised by the correspondence runs, not proved; a run ended by the workflow timeout goes through the "
    "same cleanup_tasks as cancel_run and is not driven separately",
    "one descriptor per resource name; ResourceManager.set() by hand and _ResourceConfig (no dependencies, always "
    "cached) are outside the model",
    "tasks are created by invocations that have finished resolving (their scope is closed); a task created while its "
    "creator is still inside a resolution scope inherits the creator's _held_scopes binding and joins that scope "
    "without the lock -- partial() and _Resource.call create no tasks (source shape); user factories that fan out "
    "resolutions to child tasks are outside the model and the generators",
    "one event loop at a time per manager (the repaired code re-creates its lock when the running loop changes)",
    "termination of every await-free section is a theorem (C22_resolution_terminates); absence of deadlock between "
    "invocations (a released lock is handed on, every suspended invocation can be resumed) is only exercised by the "
    "monitors (rule C22/stuck), not stated as a theorem",
]
TRUSTED_EXTRA = [
    "harness/gen/resource.py (statement classification of resource.py / step_function.py)",
    "harness/resources_live.py (instrumented factories, quiescence-driven scheduler, observation of partial())",
    "harness/vloop.py quiescence hook",
]
LEAN_TARGETS = ["WfProps.C22"]

CORPUS = os.path.join(VERIF, "harness", "corpus")


# --------------------------------------------------------------------------
# tree configuration (which model configuration the sources implement)


def tree_cfg() -> dict:
    from ..gen import resource as G

    notes: list[str] = []
    lines = G.generate(notes)
    text = "\n".join(lines)
    return {"excl": "def scopesExclusive : Bool := true" in text,
            "skip": "def partialSkipsEmpty : Bool := true" in text}


def cfg_line(cfg: dict) -> str:
    return f"cfg|{int(cfg['excl'])}|{int(cfg['skip'])}"


# --------------------------------------------------------------------------
# independent oracle on graphs


def wellfounded(g: list[dict]) -> list[bool]:
    """wf[x]: no dependency cycle is reachable from x (least fixed point)."""
    n = len(g)
    wf = [False] * n
    changed = True
    while changed:
        changed = False
        for x in range(n):
            if not wf[x] and all(0 <= d < n and wf[d] for d in g[x]["d"]):
                wf[x] = True
                changed = True
    return wf


def reach(g: list[dict], x: int) -> set[int]:
    seen, todo = set(), [x]
    while todo:
        y = todo.pop()
        if y in seen:
            continue
        seen.add(y)
        todo += g[y]["d"]
    return seen


# --------------------------------------------------------------------------
# generators (all randomness from the rng handed in)


def gen_graph(rng: random.Random, maxn: int = 6) -> tuple[list[dict], str]:
    n = rng.choice([1, 2, 2, 3, 3, 4, 4, 5, 6][: 3 + maxn])
    kind = rng.choices(["dag", "diamond", "cycle", "selfcycle", "dense"], [5, 2, 2, 1, 1])[0]
    p_async = rng.choice([0.0, 0.3, 0.5, 0.8, 1.0])
    p_cached = rng.choice([0.0, 0.3, 0.5, 0.7, 1.0])
    p_fail = rng.choice([0.0, 0.0, 0.0, 0.0, 0.15, 0.3])
    g = [{"c": int(rng.random() < p_cached), "a": int(rng.random() < p_async), "f": int(rng.random() < p_fail), "d": []}
         for _ in range(n)]
    # dependencies point to lower ids in a dag; resource n-1 tends to be the root
    for i in range(n):
        if i == 0:
            continue
        k = rng.choice([0, 1, 1, 2, 2, 3]) if kind != "dense" else rng.randint(1, i)
        g[i]["d"] = rng.sample(range(i), min(k, i))
        if rng.random() < 0.1 and g[i]["d"]:
            g[i]["d"].append(g[i]["d"][0])  # the same dependency twice
    if kind == "diamond" and n >= 4:
        g[0]["d"] = []
        g[1]["d"] = [0]
        g[2]["d"] = [0]
        g[3]["d"] = [1, 2]
        g[0]["c"] = int(rng.random() < 0.3)
    if kind == "cycle" and n >= 2:
        a, b = sorted(rng.sample(range(n), 2))
        g[a]["d"] = g[a]["d"] + [b]  # back edge: b already (maybe) reaches a
        if a not in reach(g, b):
            g[b]["d"] = g[b]["d"] + [a]
        rng.shuffle(g[a]["d"])
    if kind == "selfcycle":
        x = rng.randrange(n)
        g[x]["d"] = g[x]["d"] + [x]
        rng.shuffle(g[x]["d"])
    # what the factories return: mostly ordinary objects; in some graphs some or all factories return a
    # falsy value (None: an optional client that is not configured; 0, "", [], False) -- a legal resource value
    p_falsy = rng.choice([0.0, 0.0, 0.0, 0.25, 0.5, 1.0])
    for r in g:
        if rng.random() < p_falsy:
            r["v"] = rng.choice([1, 1, 1, 2, 3, 4, 5])
    return g, kind


def gen_reqs(rng: random.Random, g: list[dict]) -> list[int]:
    n = len(g)
    r = rng.random()
    if r < 0.06:
        return []
    if r < 0.55:
        return [rng.choice([n - 1, rng.randrange(n)])]
    k = rng.randint(2, 3)
    return [rng.randrange(n) for _ in range(k)]


class Chooser:
    """Adaptive schedule: at every quiescent point spawn the next task or open a gate."""

    def __init__(self, rng: random.Random, g: list[dict], ntasks: int, style: str, excl: bool = True,
                 tree: bool = False, cancel: bool = False):
        self.rng, self.g, self.ntasks, self.style = rng, g, ntasks, style
        # task trees: an invocation that has finished (it resolved its resources, its scope is closed) creates
        # later invocations, which start in a copy of its context -- resolve-then-spawn, nested to any depth
        self.tree = tree
        self.p_child = rng.choice([0.5, 0.8, 1.0])
        self.one_root = tree and rng.random() < 0.7
        # Unlocked tree only: a bare get that joined another invocation's scope re-checks the shared depth at
        # each nested get and opens scopes of its own once that scope has closed; the unlocked model
        # configuration does not follow this (see WfModel/Resource.lean), so bare gets there ask for leaves.
        self.bare_pool = list(range(len(g))) if excl else [i for i, r in enumerate(g) if not r["d"]]
        self.spawned = 0
        self.stop_early = rng.random() < 0.08
        self.bad = rng.random() < 0.15
        self.reloop = rng.random() < 0.2
        # cancellation: an unfinished invocation -- suspended at the await inside an async factory (at any
        # depth of its dependency chain) or queued on the scope lock -- is cancelled, as the engine does to
        # step workers on cancel_run / workflow timeout / cleanup; the schedule then goes on with the same
        # manager (invocations queued behind it, later ones)
        self.p_cancel = rng.choice([0.15, 0.3, 0.5]) if cancel else 0.0
        self.cancels = 0
        self.after_cancel = 0  # extra invocations granted after a cancellation

    def _spawn(self, mode: str, reqs: list[int], finished: list[int]) -> list:
        if self.tree and finished and self.rng.random() < self.p_child:
            # mostly the same parent (siblings share what their parent left behind), sometimes a nested spawn
            parent = finished[0] if self.rng.random() < 0.6 else self.rng.choice(finished)
            return ["spawn", mode, reqs, parent]
        return ["spawn", mode, reqs]

    def __call__(self, gates: list[int], ntasks_now: int, finished: list[int] = (),  # type: ignore[assignment]
                 live: list[int] = ()) -> list | None:  # type: ignore[assignment]
        rng = self.rng
        finished = list(finished)
        live = list(live)
        if live and self.cancels < 3 and rng.random() < self.p_cancel:
            self.cancels += 1
            if self.after_cancel < 2:
                self.after_cancel += 1
                self.ntasks += 1  # somebody resolves on this manager afterwards
            # mostly the invocation inside the scope (suspended in a factory), sometimes one queued on the lock
            pool = [t for t in live if t in gates] if gates and rng.random() < 0.7 else live
            return ["cancel", rng.choice(pool)]
        can_spawn = self.spawned < self.ntasks
        if not can_spawn and not gates:
            return None
        if self.reloop and not gates and self.spawned >= 1 and rng.random() < 0.4:
            return ["loop"]  # every invocation has finished: go on with the same manager on a fresh event loop
        if self.stop_early and self.spawned >= 1 and rng.random() < 0.15:
            return None
        if self.bad and rng.random() < 0.1:
            if self.p_cancel and rng.random() < 0.5:
                return ["cancel", rng.choice([t for t in range(ntasks_now + 2) if t not in live])]
            return ["open", rng.choice([t for t in range(ntasks_now + 2) if t not in gates])]
        if self.style == "serial":
            spawn = can_spawn and not gates
        elif self.style == "burst":
            spawn = can_spawn
        else:
            spawn = can_spawn and (not gates or rng.random() < 0.5)
        if self.one_root and self.spawned == 1 and gates and not finished:
            spawn = False  # let the root of the tree finish its resolution first
        if spawn:
            self.spawned += 1
            if rng.random() < 0.12 and self.bare_pool:
                return self._spawn("b", [rng.choice(self.bare_pool)], finished)
            return self._spawn("p", gen_reqs(rng, self.g), finished)
        return ["open", rng.choice(gates)]


# --------------------------------------------------------------------------
# (S) monitors: the property on the real code's observable behaviour alone


def _int(x: Any) -> Any:
    try:
        return int(x)
    except (ValueError, TypeError):
        return x  # a value token (N, Z, E, F) or "?" (not one of our objects)


def expected_creations(g: list[dict], reqs: list[int], created: set[int]) -> tuple[dict[int, int], str | None]:
    """Independent oracle, from the graph alone: how often each factory has to return while ONE invocation
    resolves `reqs` in order, given the cached resources `created` earlier in this manager's life.  Depth-first
    in signature order; a resource is created when first needed and then served from the manager-wide cache
    (cached) or from the values of this resolution (non-cached), WHATEVER its value is.  Returns (counts, None)
    for a resolution that completes, (counts so far, "failed:r" | "cycle") when it must stop."""
    counts: dict[int, int] = {}
    scope: set[int] = set()
    stack: list[int] = []

    def get(x: int) -> str | None:
        if x in stack:
            return "cycle"
        if (g[x]["c"] and x in created) or x in scope:
            return None
        stack.append(x)
        try:
            for d in g[x]["d"]:
                e = get(d)
                if e is not None:
                    return e
            if g[x]["f"]:
                return f"failed:{x}"
            counts[x] = counts.get(x, 0) + 1
            scope.add(x)
            if g[x]["c"]:
                created.add(x)
            return None
        finally:
            stack.pop()

    for r in reqs:
        e = get(r)
        if e is not None:
            return counts, e
    return counts, None


def parse_events(events: list[str]) -> list[tuple]:
    out = []
    for e in events:
        p = e.split(":")
        if p[0] == "call":
            out.append(("call", int(p[1]), int(p[2]), int(p[3]), [_int(x) for x in p[4].split(".") if x != ""]))
        elif p[0] in ("made", "raised"):
            out.append((p[0], int(p[1]), int(p[2]), int(p[3])))
        elif p[0] == "fin":
            out.append(("fin", int(p[1]), ":".join(p[2:])))
    return out


def ctag(info: dict) -> str:
    """Classifying facts of the execution, part of every signature that depends on the schedule."""
    tag = "[concurrent]" if info.get("overlapped", False) else "[sequential]"
    if any(rec.get("parent") is not None for rec in info["tasks"]) or info.get("ancestor_resolved"):
        # some invocation was created by a task that had resolved resources before (it started in a copy of
        # that task's context: a child workflow run from a step with injected resources, a warmed-up caller)
        tag += "[created-by-a-resolver]"
    if any(rec.get("outcome") == "cancelled" for rec in info["tasks"]) or info.get("run_cancelled"):
        # some invocation was cancelled while it was resolving (suspended in a factory / queued on the lock)
        tag += "[after-cancellation]"
    return tag


def neutral_violations(states: list[str], tag: str) -> list[tuple[str, str]]:
    """While no invocation is inside a resolution scope -- none is suspended in a factory; in particular once
    every invocation has ended, however it ended -- the manager's resolution bookkeeping has to be what a new
    manager has: nothing marked as being resolved, depth 0, no scoped value, lock free.  `states`: the
    manager's bookkeeping + the phases of the invocations (D ended, S suspended in a factory, W queued on the
    scope lock) at quiescent points."""
    for st_line in states:
        st = dict(kv.split("=", 1) for kv in st_line.split(" "))
        if "S" in st["ph"] or "A" in st["ph"]:
            continue
        left = [name for name, dirty in (("_resolving", bool(st["rs"])), ("depth", st["d"] != "0"),
                                         ("scoped-cache", bool(st["sc"])), ("lock", st["lk"] != "0")) if dirty]
        if left:
            when = "every invocation has ended" if set(st["ph"]) <= {"D"} else "no invocation is inside a scope"
            return [(f"C22/stale_resolution_state[{','.join(left)}]{tag}",
                     f"{when} but the manager keeps {st_line}")]
    return []


def monitor(g: list[dict], info: dict, all_opened: bool, states: list[str] | None) -> list[tuple[str, str]]:
    """Returns (signature, what) pairs."""
    res: list[tuple[str, str]] = []
    evs = parse_events(info["events"])
    wf = wellfounded(g)
    n = len(g)
    overlapped = info.get("overlapped", False)
    tag = ctag(info)

    made: dict[int, list[tuple[int, int]]] = {}  # rid -> [(task, serial)]
    serial_rid: dict[int, int] = {}
    for e in evs:
        if e[0] == "call":
            serial_rid[e[3]] = e[2]
        if e[0] == "made":
            made.setdefault(e[2], []).append((e[1], e[3]))
    # injections: (task, rid, serial) into factories' arguments and into the steps
    inj: list[tuple[int, int, Any]] = []
    for e in evs:
        if e[0] == "call":
            deps = g[e[2]]["d"]
            if len(deps) != len(e[4]):
                res.append(("C22/wrong_arguments", f"factory r{e[2]} called with {len(e[4])} arguments for dependencies {deps}"))
            for d, s in zip(deps, e[4]):
                inj.append((e[1], d, s))
    for t, rec in enumerate(info["tasks"]):
        if rec.get("objs") is not None:
            if len(rec["objs"]) != len(rec["reqs"]):
                res.append(("C22/wrong_arguments", f"task {t} requested {rec['reqs']} and got {len(rec['objs'])} objects"))
            for r, s in zip(rec["reqs"], rec["objs"]):
                inj.append((t, r, s))
    def vtag(r: int) -> str:
        # classifying fact: the value the factory of r returns, when it is not an ordinary object
        k = RL.vkind(g[r])
        return f"[value={RL.VAL_NAMES.get(k, k)}]" if k else ""

    for t, r, s in inj:
        k = RL.vkind(g[r])
        if k not in RL.FRESH_KINDS:
            # an interned value: all there is to see is the value itself and that some factory call produced it
            if s != RL.VAL_TOKEN.get(k):
                res.append(("C22/wrong_object", f"task {t} was handed {s!r} for resource r{r} whose factory returns {RL.VAL_NAMES.get(k, k)}"))
            elif not made.get(r):
                res.append(("C22/wrong_object", f"task {t} was handed a value for r{r} whose factory never returned"))
        elif not isinstance(s, int) or serial_rid.get(s) != r:
            res.append(("C22/wrong_object", f"task {t} was handed object #{s} (made by r{serial_rid.get(s) if isinstance(s, int) else None}) for resource r{r}"))
        elif not any(s == s2 for _t, s2 in made.get(r, [])):
            res.append(("C22/wrong_object", f"task {t} was handed object #{s} of r{r} whose factory never returned"))
    # creation counts (factory invocations that returned), whatever the value: the only observable of the
    # caching clauses when the value is an interned singleton
    made_by: dict[tuple[int, int], list[int]] = {}
    for r, l in made.items():
        for t, s in l:
            made_by.setdefault((t, r), []).append(s)
    for (t, r), l in sorted(made_by.items()):
        if not g[r]["c"] and len(l) > 1:
            res.append((f"C22/noncached_created_twice_in_scope{tag}{vtag(r)}",
                        f"invocation {t} created non-cached r{r} {len(l)} times (objects {l}) inside one dependency resolution"))
    for t, r in sorted({(t, r) for t, r, _s in inj}):
        if not g[r]["c"] and (t, r) not in made_by:
            res.append((f"C22/noncached_not_fresh{tag}{vtag(r)}",
                        f"invocation {t} was handed non-cached r{r} but its factory did not run for this invocation"))
    for r in range(n):
        # identity of what was injected: only where creations are distinguishable (an interned value is the same
        # object whoever created it; its creations are counted above)
        mine = [(t, s) for t, r2, s in inj if r2 == r] if RL.vkind(g[r]) in RL.FRESH_KINDS else []
        if g[r]["c"]:
            if len(made.get(r, [])) > 1:
                res.append((f"C22/cached_created_twice{tag}{vtag(r)}", f"cached r{r} was created {len(made[r])} times: {made[r]}"))
            if len({s for _t, s in mine}) > 1:
                res.append((f"C22/cached_identity_differs{tag}", f"cached r{r} was injected as different objects {sorted({s for _t, s in mine})}"))
        else:
            by_task: dict[int, set] = {}
            for t, s in mine:
                by_task.setdefault(t, set()).add(s)
            for t, ss in by_task.items():
                if len(ss) > 1:
                    res.append((f"C22/noncached_not_shared_in_scope{tag}", f"invocation {t} saw non-cached r{r} as different objects {sorted(ss)}"))
            owners: dict[Any, set] = {}
            for t, s in mine:
                owners.setdefault(s, set()).add(t)
            for s, ts in owners.items():
                if len(ts) > 1:
                    res.append((f"C22/noncached_leaks_across_scopes{tag}", f"non-cached r{r} object #{s} was injected into invocations {sorted(ts)}"))
    if not overlapped:
        # invocations ran one after another: the exact number of creations per invocation follows from the graph
        created: set[int] = set()
        for t, rec in enumerate(info["tasks"]):
            if rec["outcome"] is None or any(not 0 <= r < n for r in rec["reqs"]):
                break
            if rec["outcome"] == "cancelled":
                # it stopped where the schedule cancelled it: what it had completed by then stays created
                # (cached) or is dropped with its scope (non-cached); the invocations after it start afresh
                created |= {r for (t2, r) in made_by if t2 == t and g[r]["c"]}
                continue
            exp, _stop = expected_creations(g, rec["reqs"], created)
            act = {r: len(l) for (t2, r), l in made_by.items() if t2 == t}
            bad = [r for r in sorted(set(act) | set(exp)) if act.get(r, 0) != exp.get(r, 0)]
            if bad:
                r = bad[0]
                res.append((f"C22/creation_count[{'cached' if g[r]['c'] else 'noncached'},"
                            f"{'more' if act.get(r, 0) > exp.get(r, 0) else 'fewer'}]{tag}{vtag(r)}",
                            f"invocation {t} requesting {rec['reqs']} created r{r} {act.get(r, 0)} times; the graph "
                            f"(cached resources already created: {sorted(created - set(exp))}) requires {exp.get(r, 0)}"))
                break
    any_fail = any(r["f"] for r in g)
    for t, rec in enumerate(info["tasks"]):
        o = rec["outcome"]
        reqs = rec["reqs"]
        genuine = any(not wf[r] for r in reqs)
        if o is None:
            if all_opened:
                res.append((f"C22/stuck{tag}", f"invocation {t} requesting {reqs} never finished although every gate was opened"))
            continue
        if o.startswith("cycle:"):
            if not genuine:
                res.append((f"C22/false_cycle_error{tag}", f"invocation {t} requesting {reqs} got a cycle error ({o}) but no cycle is reachable from its requests"))
        elif o.startswith("ok:"):
            if genuine:
                res.append((f"C22/cycle_not_reported{tag}", f"invocation {t} requesting {reqs} completed although a dependency cycle is reachable"))
        elif o.startswith("failed:"):
            r = int(o.split(":")[1])
            if not g[r]["f"]:
                res.append(("C22/unexpected_exception", f"invocation {t}: {o} but r{r} does not raise"))
        elif o == "cancelled":
            pass
        else:
            res.append(("C22/unexpected_exception", f"invocation {t} requesting {reqs}: {o}"))
        if genuine and not any_fail and not (o.startswith("cycle:") or o == "cancelled"):
            if not o.startswith("ok:"):
                res.append((f"C22/cycle_not_reported{tag}", f"invocation {t} requesting {reqs}: a cycle is reachable, outcome {o}"))
    if states:
        res += neutral_violations(states, tag)
    return res


def overlapped(lines: list[str]) -> bool:
    """Some invocation started while another one had not finished."""
    prev = ""
    for l in lines:
        if " ph=" in l:
            ph = l.rsplit(" ph=", 1)[1]
            if len(ph) > len(prev) and any(c != "D" for c in prev):
                return True
            prev = ph
    return False


# --------------------------------------------------------------------------
# one direct case: real partial()/get vs model + monitors


def count_values(out: Outcome, label: str, g: list[dict]) -> None:
    kinds = {RL.vkind(r) for r in g if not r["f"]}
    if kinds - {0}:
        out.count(f"{label}:graph-with-a-falsy-valued-factory")
        for k in sorted(kinds - {0}):
            out.count(f"{label}:value:{RL.VAL_NAMES.get(k, k)}")
        if any(RL.vkind(r) and sum(1 for q in g if i in q["d"]) + sum(q["d"].count(i) > 1 for q in g) >= 2
               for i, r in enumerate(g)):
            out.count(f"{label}:falsy-valued-resource-with-two-consumers")


def count_cancels(out: Outcome, label: str, g: list[dict], ops: list[list], lines: list[str], info: dict) -> None:
    """Input distribution of the cancellation scenarios (from the executed schedule)."""
    prev_ph, prev_rs = "", ""
    seen_cancel = False
    i = 0
    for op in ops:
        if i >= len(lines):
            break
        if op[0] == "loop" and lines[i] != "bad-op":
            continue  # a new event loop: no line
        l = lines[i]
        i += 1
        if " | " not in l:
            continue
        st = dict(kv.split("=", 1) for kv in l.split(" | ", 1)[1].split(" "))
        if op[0] == "cancel":
            t = op[1]
            ph = prev_ph[t] if 0 <= t < len(prev_ph) else "?"
            out.count(f"{label}:cancel:" + {"S": "suspended-in-a-factory", "W": "queued-on-the-scope-lock"}.get(ph, ph))
            if ph == "S":
                if "." in prev_rs:
                    out.count(f"{label}:cancel:inside-a-dependency-of-the-requested-resource")
                if "W" in prev_ph:
                    out.count(f"{label}:cancel:with-invocations-queued-behind-it")
            seen_cancel = True
        elif op[0] == "spawn" and seen_cancel:
            out.count(f"{label}:invocation-started-after-a-cancellation")
        prev_ph, prev_rs = st["ph"], st["rs"]
    if seen_cancel:
        out.count(f"{label}:cases-with-a-cancellation")


def run_cases(cases: list[dict], cfg: dict, out: Outcome, label: str) -> None:
    """Real runs of every case, one batched model run, per-case diff + monitors."""
    real: list[tuple[dict, list[str], dict]] = []
    mlines: list[str] = []
    for case in cases:
        g, ops = case["g"], case["ops"]
        lines, info = RL.run_direct(g, ops)
        info["overlapped"] = overlapped(lines)
        real.append((case, lines, info))
        mlines += [cfg_line(cfg), RL.graph_line(g)] + [RL.op_line(o) for o in ops if o[0] != "loop"]
    mo_all: list[str] | None
    try:
        mo_all = Driver("resource").run(mlines) if mlines else []
    except Exception as ex:
        out.divergences.append(Divergence("resource", 0, "<driver>", repr(ex), ""))
        mo_all = None
    pos = 0
    for case, lines, info in real:
        g, ops = case["g"], case["ops"]
        n = 2 + sum(1 for o in ops if o[0] != "loop")
        out.evaluations += len(ops)
        out.count(f"{label}:cases")
        if info.get("loops", 1) > 1:
            out.count(f"{label}:manager-reused-on-a-new-event-loop")
        out.count(f"{label}:ops", len(ops))
        out.count(f"{label}:graph:{case.get('shape', '?')}")
        if info["overlapped"]:
            out.count(f"{label}:overlapping")
        if any(rec.get("parent") is not None for rec in info["tasks"]):
            out.count(f"{label}:task-tree(created-by-a-finished-invocation)")
            if info["overlapped"]:
                out.count(f"{label}:task-tree:overlapping")
        count_values(out, label, g)
        count_cancels(out, label, g, ops, lines, info)
        for rec in info["tasks"]:
            o = rec["outcome"]
            out.count(f"{label}:outcome:" + ("pending" if o is None else o.split(":")[0]))
        if len(info["tasks"]) >= 2 or any(r["d"] for r in g):
            out.nontrivial((g, ops))
        out.sample({"graph": RL.graph_line(g), "ops": [RL.op_line(o) for o in ops], "impl": lines[:6]})
        if mo_all is not None:
            mo = mo_all[pos + 2: pos + n]
            out.traces_validated += 1
            out.disagreements_checked += len(lines)
            d = diff_streams("resource", mlines[pos + 2: pos + n], mo, lines, context=case)
            if d is not None and not out.divergences:
                out.divergences.append(d)
        pos += n
        states = [l.split(" | ", 1)[1] for l in lines if " | " in l]
        all_opened = not info.get("gates")
        for sig, what in monitor(g, info, all_opened, states):
            out.violations.append(Violation(sig, what, {"kind": "direct", **case}))


def run_case(case: dict, cfg: dict, out: Outcome, label: str) -> None:
    run_cases([case], cfg, out, label)


def gen_case(rng: random.Random, style: str | None = None, max_tasks: int = 4, excl: bool = True,
             tree: bool | None = None, cancel: bool | None = None) -> dict:
    g, kind = gen_graph(rng)
    style = style or rng.choices(["mixed", "burst", "serial"], [6, 3, 2])[0]
    tree = rng.random() < 0.3 if tree is None else tree
    # cancellation needs exclusive scopes on the model side (the unlocked configuration is only modelled for
    # the schedules of its witnesses) and a factory that suspends
    cancel = (excl and rng.random() < 0.35) if cancel is None else cancel
    if cancel and not any(r["a"] for r in g):
        g[rng.randrange(len(g))]["a"] = 1
    ntasks = rng.randint(3 if tree else 1, max(3, max_tasks))
    ch = Chooser(rng, g, ntasks, style, excl, tree, cancel)
    ops = RL.explore_direct(g, ch)
    return {"g": g, "ops": ops, "shape": kind,
            "style": style + ("+tree" if tree else "") + ("+cancel" if cancel else "")}


# --------------------------------------------------------------------------
# workflow-level case


def run_wf_cases(cases: list[dict], cfg: dict, out: Outcome) -> None:
    """Real workflow runs, one batched model run, flattened comparison + monitors."""
    real = []
    mlines: list[str] = []
    for case in cases:
        lines, ops, info = RL.run_workflow(case)
        info["overlapped"] = overlapped(lines)
        real.append((case, lines, ops, info))
        mlines += [cfg_line(cfg), RL.graph_line(case["g"])] + [RL.op_line(o) for o in ops]
    try:
        mo_all: list[str] | None = Driver("resource").run(mlines) if mlines else []
    except Exception as ex:
        out.divergences.append(Divergence("resource-workflow", 0, "<driver>", repr(ex), ""))
        mo_all = None
    pos = 0
    for case, lines, ops, info in real:
        g = case["g"]
        n = 2 + len(ops)
        out.evaluations += len(ops)
        out.count("workflow:cases")
        out.count("workflow:invocations", len(info["tasks"]))
        if info["overlapped"]:
            out.count("workflow:overlapping")
        if case.get("outer"):
            out.count("workflow:run-from-a-step-of-an-enclosing-workflow")
        if case.get("pre"):
            out.count("workflow:caller-resolved-a-resource-first")
        if info.get("run_results"):
            out.count("workflow:second-run-of-the-same-instance")
            if info.get("run_cancelled"):
                out.count("workflow:earlier-run-cancelled-with-a-step-suspended-in-a-resource-factory")
                if any(st.count("W") for st in [l.rsplit(" ph=", 1)[1] for l in lines if " ph=" in l]):
                    out.count("workflow:...with-steps-queued-on-the-scope-lock")
            for rr in info["run_results"]:
                out.count("workflow:earlier-run:" + rr.split(":")[0] + (":" + rr.split(":")[1] if rr.startswith("error") else ""))
        count_values(out, "workflow", g)
        out.count("workflow:result:" + info["result"].split(":")[0])
        out.nontrivial(("wf", g, case["workers"], ops))
        out.sample({"graph": RL.graph_line(g), "workers": case["workers"], "ops": [RL.op_line(o) for o in ops][:8],
                    "result": info["result"]}, cap=10)
        # The engine starts workers while a lock hand-off chain is still in progress, so op boundaries fall
        # differently than in the model driver (which runs woken waiters at once); the order of events is the
        # same.  Compare the flattened event stream -- up to the first failing invocation, after which the engine
        # cancels the other workers (the model has no cancellation) -- and, without a failure, the final state.
        empty = {t for t, rec in enumerate(info["tasks"]) if not rec["reqs"]}  # never wait, never resolve
        multi = bool(info.get("run_results"))  # earlier runs of the same instance, ended by cancel_run

        def flat(ls: list[str]) -> tuple[list[str], bool]:
            toks: list[str] = []
            for l in ls:
                if " | " not in l:  # disabled / bad-op / fuel-exhausted
                    toks.append(l)
                    continue
                for tok in l.split(" | ")[0].split(" "):
                    if tok and int(tok.split(":")[1]) not in empty:
                        if multi and tok.startswith("fin:") and tok.split(":")[2] == "cancelled":
                            continue  # the workers of a run that is ended are cancelled in no observable order
                        toks.append(tok)
                        if tok.startswith("fin:") and tok.split(":")[2] != "ok":
                            return toks, True
            return toks, False

        if mo_all is not None:
            mo = mo_all[pos + 2: pos + n]
            out.traces_validated += 1
            rt, rfail = flat(lines)
            mt, mfail = flat(mo)
            if not rfail and not mfail and lines and mo and " | " in mo[-1]:
                rt.append("final " + lines[-1].split(" | ", 1)[1])
                mt.append("final " + mo[-1].split(" | ", 1)[1])
            out.disagreements_checked += len(rt)
            d = diff_streams("resource-workflow", rt, mt, rt, context=case)
            if d is not None and not out.divergences:
                out.divergences.append(d)
        pos += n
        # between the runs of the instance and at the end no invocation is inside a scope
        ends = [st for st in info.get("run_end_states", []) if set(st.rsplit(" ph=", 1)[1]) <= {"D"}]
        for sig, what in monitor(g, info, info["all_opened"], ends):
            out.violations.append(Violation(sig, what, {"kind": "workflow", **case}))
        if info["result"] == "stuck":
            out.violations.append(Violation(
                "C22/stuck" + ctag(info),
                "workflow never finished: no invocation can run and no gate is left to open", {"kind": "workflow", **case}))
        if info["result"].startswith("error:") and all(wellfounded(g)) and not any(r["f"] for r in g):
            out.violations.append(Violation(
                "C22/workflow_failed" + ctag(info),
                f"workflow over an acyclic graph of non-raising factories failed: {info['result']}", {"kind": "workflow", **case}))


def run_wf_case(case: dict, cfg: dict, out: Outcome) -> None:
    run_wf_cases([case], cfg, out)


def gen_wf_case(rng: random.Random) -> dict:
    while True:
        g, kind = gen_graph(rng, maxn=5)
        if kind in ("cycle", "selfcycle") and rng.random() < 0.7:
            continue
        if any(r["f"] for r in g) and rng.random() < 0.7:
            continue
        break
    nsteps = rng.randint(1, 3)
    workers = []
    for _ in range(nsteps):
        reqs = gen_reqs(rng, g)
        reqs = list(dict.fromkeys(reqs))
        workers.append({"reqs": reqs, "num_workers": rng.choice([1, 2, 3, 4]), "count": rng.randint(1, 4)})
    order = [i for i, w in enumerate(workers) for _ in range(w["count"])]
    rng.shuffle(order)
    case = {"g": g, "workers": workers, "order": order, "seed": rng.randrange(1 << 30), "shape": kind}
    # history in an ancestor context of the step tasks: the workflow runs inside a step (with an injected
    # resource) of 1-2 enclosing workflows, and/or its caller resolved something through the manager first
    if rng.random() < 0.4:
        case["outer"] = rng.choice([1, 1, 2])
    if rng.random() < 0.25:
        case["pre"] = [rng.randrange(len(g)) for _ in range(rng.choice([1, 1, 2]))]
    # earlier runs of the same workflow instance (one ResourceManager per instance), ended by cancel_run while a
    # step is suspended inside a resource factory; then the run that has to complete
    if "outer" not in case and rng.random() < 0.45:
        if not any(r["a"] for r in g):
            g[rng.randrange(len(g))]["a"] = 1
        case["runs"] = [{"end": "cancel", "after": rng.choice([0, 0, 1, 2])} for _ in range(rng.choice([1, 1, 2]))]
    return case


# --------------------------------------------------------------------------
# corpus


def load_corpus() -> list[dict]:
    res = []
    for fn in sorted(os.listdir(CORPUS)):
        if fn.startswith("c22_") and fn.endswith(".json"):
            d = json.load(open(os.path.join(CORPUS, fn)))
            cases = d.get("cases") or [d["payload"]["case"]]
            for c in cases:
                res.append(c)
    return res


def run_any(case: dict, cfg: dict, out: Outcome, label: str) -> None:
    if case.get("kind") == "workflow" or "workers" in case:
        run_wf_case(case, cfg, out)
    else:
        run_case(case, cfg, out, label)


def run(env: Env) -> Outcome:
    out = Outcome()
    out.rule = ("random dependency graphs (1-6 resources; dag/diamond/cycle/self-cycle/dense; cached, async, raising mixes; "
                "factories returning an object or, in half of the graphs, None/0/''/[]/False) "
                "x adaptive schedules of 1-6 invocations (real partial() or bare get) opening gates at quiescent points, "
                "in 30% of the cases as a task tree (invocations created by finished invocations, in a copy of their "
                "context, nested); real workflows with concurrent worker steps, 40% run from a step with an injected "
                "resource of 1-2 enclosing workflows, 25% after the caller resolved resources through the manager; 35% of the "
                "direct schedules cancel up to 3 unfinished invocations (suspended in a factory / queued on the lock) and go on; "
                "45% of the stand-alone workflows first have 1-2 runs ended by cancel_run with a step suspended in a resource "
                "factory, then run the same instance to completion; non-trivial = at least two invocations or a dependency edge; "
                "distinct by (graph, op list)")
    cfg = tree_cfg()
    out.notes.append(f"tree configuration: exclusive scopes={cfg['excl']} partial skips empty={cfg['skip']}")
    if env.replay is not None:
        try:
            run_any(env.replay["payload"]["case"], cfg, out, "replay")
        except KeyError:
            pass
    corpus = load_corpus()
    run_cases([c for c in corpus if "workers" not in c], cfg, out, "corpus")
    run_wf_cases([c for c in corpus if "workers" in c], cfg, out)
    rng = random.Random(env.rng.randrange(1 << 30))
    n1, n2 = env.budget(1400, 34000), env.budget(200, 5000)
    for lo in range(0, n1, 500):
        run_cases([gen_case(rng, excl=cfg["excl"]) for _ in range(min(500, n1 - lo))], cfg, out, "direct")
    for lo in range(0, n2, 500):
        run_cases([gen_case(rng, max_tasks=6, excl=cfg["excl"]) for _ in range(min(500, n2 - lo))], cfg, out, "direct6")
    # malformed stream for the driver protocol
    bad = ["spawn|x|1", "spawn|b|1,2", "open|z", "graph|1:2", "nonsense", "spawn|p|a"]
    try:
        mo = Driver("resource").run([cfg_line(cfg), "graph|100:"] + bad)[2:]
        out.disagreements_checked += len(bad)
        d = diff_streams("resource", bad, mo, ["bad-op"] * len(bad))
        if d is not None and not out.divergences:
            out.divergences.append(d)
    except Exception as ex:
        out.divergences.append(Divergence("resource", 0, "<driver>", repr(ex), ""))
    wrng = random.Random(env.rng.randrange(1 << 30))
    nw = env.budget(80, 2000)
    for lo in range(0, nw, 200):
        run_wf_cases([gen_wf_case(wrng) for _ in range(min(200, nw - lo))], cfg, out)
    return out
