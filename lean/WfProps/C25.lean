import WfProofs.KeyedLockGlobal
import WfProofs.KeyedLockExt
import WfProofs.KeyedLockRefine
/-!
# C25 — the keyed lock gives per-key mutual exclusion and cleans up

Model: `WfModel/KeyedLock.lean` (M6).  Schedules are arbitrary lists of the
code's await-free sections (`run acts`), over unboundedly many agents and keys,
with cancellation at every suspension point.  Disabled actions are skipped.
-/
open KeyedLock GenKeyedLock

/-- The constants and the control shape the model is written against, re-read
from `_keyed_lock.py` on every run: refcounts start at 0, move by 1, the entry
is deleted at 0; `__call__` has no explicit `await` (its only suspension points
are its three `async with`), the `yield` sits inside the `async with` on the
per-key lock, registration precedes the `try`, deregistration is in its `finally`. -/
theorem C25_source_shape :
    refInit = 0 ∧ refInc = 1 ∧ refDec = 1 ∧ delAt = 0 ∧ awaitCount = 0 ∧ asyncWithCount = 3 ∧
    yieldInsideKeyLockWith = true ∧ registerBeforeTry = true ∧ deregisterInFinally = true := by decide

/-! ## mutual exclusion -/

/-- At most one agent is inside the critical section of a key, in every
reachable state; and `_locked` says exactly whether somebody is. -/
theorem C25_mutex (acts : List Act) (k : Nat) :
    ((run acts).slot k).inside.length ≤ 1 ∧
    (∀ a b, a ∈ ((run acts).slot k).inside → b ∈ ((run acts).slot k).inside → a = b) ∧
    (∀ l, ((run acts).slot k).lock = some l → (l.locked = true ↔ ((run acts).slot k).inside ≠ [])) := by
  have hi := ((ginv_run acts).2 k).1
  generalize (run acts).slot k = st at hi
  rcases Inv.shape hi with hs | ⟨l, ins, hs, hl⟩
  · subst hs; simp
  · subst hs
    have hm := hl.mutex; simp only at hm
    have hlen : ins.length ≤ 1 := by split at hm <;> omega
    refine ⟨hlen, ?_, ?_⟩
    · intro a b ha hb
      match ins, hlen, ha, hb with
      | [x], _, ha, hb => simp at ha hb; rw [ha, hb]
    · intro l' hl'; simp at hl'; subst hl'
      cases hlk : l.locked <;> simp [hlk] at hm ⊢
      · exact hm
      · intro h; simp [h] at hm

/-- non-vacuity: three agents contend for key 7, one is cancelled while queued,
the lock is handed over; a holder of key 8 coexists. -/
example :
    let s := run [⟨7, .enter 1⟩, ⟨7, .enter 2⟩, ⟨8, .enter 1⟩, ⟨7, .enter 3⟩, ⟨7, .cancel 2⟩, ⟨7, .exit 1⟩,
                  ⟨7, .resume 2⟩, ⟨7, .resume 3⟩]
    (s.slot 7).inside = [3] ∧ (s.slot 8).inside = [1] ∧ (s.slot 7).refs = some 1 := by decide

/-! ## independence of keys -/

/-- An action on key `x.key` leaves the whole state of every other key
(`_locks[k]`, `_refs[k]`, who is inside, who waits) unchanged. -/
theorem C25_independent_keys_frame (s : KL) (x : Act) (k : Nat) (h : k ≠ x.key) :
    (stepD s x).slot k = s.slot k := stepD_frame s x h

/-- Whether an action on key `k` is enabled, and what it does to key `k`, depends
on key `k`'s own state only: two reachable states that agree on `k` agree on the outcome. -/
theorem C25_independent_keys_local (acts₁ acts₂ : List Act) (k : Nat) (xa : KAct)
    (h : (run acts₁).slot k = (run acts₂).slot k) :
    ((step (run acts₁) ⟨k, xa⟩).toOption.map (·.slot k)) = ((step (run acts₂) ⟨k, xa⟩).toOption.map (·.slot k)) := by
  have h1 := (ginv_run acts₁).1
  have h2 := (ginv_run acts₂).1
  simp only [step, h1, h2, h]
  cases kstep false ((run acts₂).slot k) xa <;> simp [Except.toOption, KL.set]

/-- Holders of other keys do not block: on a key nobody holds or waits for, a new
acquirer is inside its critical section after its first step, whatever the other keys' states. -/
theorem C25_independent_keys_nonblocking (acts : List Act) (k a : Nat)
    (hfree : ids ((run acts).slot k) = []) :
    a ∈ ((stepD (run acts) ⟨k, .enter a⟩).slot k).inside := by
  have hg := ginv_run acts
  rw [show k = (⟨k, KAct.enter a⟩ : Act).key from rfl, stepD_slot _ _ hg.1]
  simp only
  have hi := (hg.2 k).1
  generalize (run acts).slot k = st at hi hfree
  rcases Inv.shape hi with hs | ⟨l, ins, hs, hl⟩
  · subst hs
    simp [kstepD, kstep, present, mainSection, register, acquire, Lock.fastPath]
  · subst hs
    simp only [ids, List.append_eq_nil_iff, List.map_eq_nil_iff] at hfree
    have := hl.pos; simp [hfree.1, hfree.2] at this

example :
    ids ((run [⟨8, .enter 1⟩, ⟨9, .enter 2⟩, ⟨9, .enter 3⟩]).slot 7) = [] ∧
    5 ∈ ((stepD (run [⟨8, .enter 1⟩, ⟨9, .enter 2⟩, ⟨9, .enter 3⟩]) ⟨7, .enter 5⟩).slot 7).inside := by decide

/-- Actions on different keys commute. -/
theorem C25_independent_keys_commute (s : KL) (x y : Act) (h : x.key ≠ y.key) :
    (stepD (stepD s x) y).main = (stepD (stepD s y) x).main ∧
    ∀ k, (stepD (stepD s x) y).slot k = (stepD (stepD s y) x).slot k := by
  refine ⟨by simp [stepD_main], fun k => ?_⟩
  have key : ∀ (s : KL) (x : Act) (k : Nat), (stepD s x).slot k =
      if k = x.key then (match kstep s.main (s.slot x.key) x.act with | .ok st => st | .error _ => s.slot x.key)
      else s.slot k := by
    intro s x k
    split
    · rename_i hk; subst hk
      unfold stepD step
      cases kstep s.main (s.slot x.key) x.act <;> simp [KL.set]
    · rename_i hk; exact stepD_frame s x hk
  rw [key (stepD s x) y k, key (stepD s y) x k, stepD_main, stepD_main, key s x, key s y, key s x, key s y]
  by_cases h1 : k = x.key <;> by_cases h2 : k = y.key
  · exact absurd (h1.symm.trans h2) h
  · simp [h1, h]
  · simp [h2, Ne.symm h]
  · simp [h1, h2]

/-! ## reference counts and cleanup -/

/-- `_refs[k]` is the number of agents inside plus the number queued; a key is in
`_locks` iff it is in `_refs` iff that number is positive; agents are distinct. -/
theorem C25_refcount (acts : List Act) (k : Nat) :
    (match ((run acts).slot k).lock with
     | none => ((run acts).slot k).refs = none ∧ ids ((run acts).slot k) = []
     | some l => ((run acts).slot k).refs
          = some ((((run acts).slot k).inside.length + l.waiters.length : Nat) : Int) ∧
        0 < ((run acts).slot k).inside.length + l.waiters.length) ∧
    (ids ((run acts).slot k)).Nodup := by
  have hi := (ginv_run acts).2 k
  generalize (run acts).slot k = st at hi
  refine ⟨?_, hi.2⟩
  rcases Inv.shape hi.1 with hs | ⟨l, ins, hs, hl⟩
  · subst hs; simp [ids]
  · subst hs; exact ⟨hl.refs, hl.pos⟩

/-- Once nobody is inside or queued on a key — cancelled waiters included, they
count until their task has run — the key has no entry in `_locks` or `_refs`. -/
theorem C25_cleanup_key (acts : List Act) (k : Nat) (hgone : ids ((run acts).slot k) = []) :
    (run acts).slot k = {} := by
  have hi := ((ginv_run acts).2 k).1
  generalize (run acts).slot k = st at hi hgone
  rcases Inv.shape hi with hs | ⟨l, ins, hs, hl⟩
  · exact hs
  · subst hs
    simp only [ids, List.append_eq_nil_iff, List.map_eq_nil_iff] at hgone
    have := hl.pos; simp [hgone.1, hgone.2] at this

/-- When all holders and waiters are gone from every key, no lock state remains at all. -/
theorem C25_cleanup (acts : List Act) (hgone : ∀ k, ids ((run acts).slot k) = []) :
    (run acts).main = false ∧ (run acts).slot = fun _ => {} :=
  ⟨(ginv_run acts).1, funext fun k => C25_cleanup_key acts k (hgone k)⟩

example :
    let acts : List Act := [⟨7, .enter 1⟩, ⟨7, .enter 2⟩, ⟨7, .enter 3⟩, ⟨7, .cancel 2⟩, ⟨7, .exit 1⟩, ⟨7, .cancel 3⟩,
                  ⟨7, .resume 3⟩, ⟨7, .resume 2⟩]
    ids ((run acts).slot 7) = [] ∧ (run (acts.take 6)).slot 7 ≠ {} := by decide

/-! ## the code's own failure branches are unreachable -/

/-- In every reachable state an action either is not enabled or succeeds: no
`KeyError`, no `release()` of an unlocked lock, no lost lock object. -/
theorem C25_no_internal_error (acts : List Act) (x : Act) (e : Err)
    (h : step (run acts) x = .error e) : e = .disabled := by
  have hg := ginv_run acts
  simp only [step, hg.1] at h
  cases hk : kstep false ((run acts).slot x.key) x.act with
  | ok st => simp [hk] at h
  | error e' =>
    simp [hk] at h; subst h
    exact kstep_error_disabled (hg.2 _).1 hk

/-- The main lock is free at every action boundary: each of its sections lies
inside one await-free action, so `main.acquire()` always takes its fast path. -/
theorem C25_main_lock_uncontended (acts : List Act) (x : Act) :
    (run acts).main = false ∧ step (run acts) x ≠ .error .mainWouldBlock := by
  refine ⟨(ginv_run acts).1, fun h => ?_⟩
  have := C25_no_internal_error acts x _ h
  cases this

/-! ## progress -/

/-- No lost wake-up: whenever somebody is queued on `k`, a fairness step is
enabled — the holder can leave, or the task at the head of the queue is scheduled. -/
theorem C25_no_lost_wakeup (acts : List Act) (k : Nat) (l : Lock)
    (hl : ((run acts).slot k).lock = some l) (hq : l.waiters ≠ []) :
    ∃ x, isProgressG (run acts) k x = true ∧ ∃ s', step (run acts) x = .ok s' := by
  have hg := ginv_run acts
  obtain ⟨xa, hp⟩ := exists_progress (hg.2 k).1 hl hq
  obtain ⟨st', hst⟩ := progress_enabled (hg.2 k).1 hp
  exact ⟨⟨k, xa⟩, by simp [isProgressG, hp], by simp [step, hg.1, hst]⟩

/-- No barging: while a live (not cancelled) waiter is queued on `k`, a newcomer
`b` does not get into the critical section by its `enter` step. -/
theorem C25_fifo_no_barging (acts : List Act) (k a b : Nat)
    (hl : live ((run acts).slot k) a = true) (hb : b ∉ ((run acts).slot k).inside) :
    b ∉ ((stepD (run acts) ⟨k, .enter b⟩).slot k).inside := by
  have hg := ginv_run acts
  rw [show k = (⟨k, KAct.enter b⟩ : Act).key from rfl, stepD_slot _ _ hg.1]
  simp only
  have hi := (hg.2 k).1
  generalize (run acts).slot k = st at hi hl hb
  unfold kstepD
  cases hk : kstep false st (.enter b) with
  | error e => exact hb
  | ok st' =>
    obtain ⟨l, hlk, hlv⟩ := live_iff.mp hl
    rcases Inv.shape hi with hs | ⟨l', ins, hs, _⟩
    · subst hs; simp at hlk
    · subst hs
      simp at hlk; subst hlk
      obtain ⟨hp, h⟩ := enter_some hk
      rw [not_fastPath_of_live hlv] at h
      simp only [Bool.false_eq_true, if_false] at h
      subst h
      exact hb

example :
    live ((run [⟨7, .enter 1⟩, ⟨7, .enter 2⟩, ⟨7, .exit 1⟩]).slot 7) 2 = true ∧
    9 ∉ ((run [⟨7, .enter 1⟩, ⟨7, .enter 2⟩, ⟨7, .exit 1⟩]).slot 7).inside ∧
    ((run [⟨7, .enter 1⟩, ⟨7, .enter 2⟩, ⟨7, .exit 1⟩]).slot 7).lock = some ⟨false, [(2, .woken)]⟩ := by decide

/-- Bounded waiting.  Fairness steps for `k` are: the holder of `k` leaves (`exit`),
or the scheduled task at the head of `k`'s queue runs (`resume` of a head whose
future is done).  For a waiter `a` that is queued and not cancelled, with
`measure = 2·(FIFO position) + (1 if locked)`: along ANY continuation `acts` in
which `a` itself is not cancelled and which contains more than `measure` fairness
steps, `a` is inside the critical section at some point.  Other actions
(newcomers, cancellations, other keys) never increase the measure. -/
theorem C25_fifo_progress (pre acts : List Act) (k a : Nat)
    (hl : live ((run pre).slot k) a = true)
    (hnc : (⟨k, .cancel a⟩ : Act) ∉ acts)
    (hfair : measure ((run pre).slot k) a < progressCount k (run pre) acts) :
    ∃ n, a ∈ ((run (pre ++ acts.take n)).slot k).inside := by
  obtain ⟨n, hn⟩ := bounded_wait acts (ginv_run pre) hl hnc hfair
  exact ⟨n, by rw [run_append]; exact hn⟩

example :
    let pre : List Act := [⟨7, .enter 1⟩, ⟨7, .enter 2⟩, ⟨7, .enter 3⟩, ⟨7, .cancel 2⟩]
    let acts : List Act := [⟨7, .exit 1⟩, ⟨7, .enter 4⟩, ⟨7, .resume 2⟩, ⟨8, .enter 1⟩, ⟨7, .resume 3⟩, ⟨7, .exit 3⟩,
                            ⟨7, .resume 4⟩, ⟨7, .exit 4⟩]
    live ((run pre).slot 7) 3 = true ∧ (⟨7, .cancel 3⟩ : Act) ∉ acts ∧
    measure ((run pre).slot 7) 3 = 3 ∧ progressCount 7 (run pre) acts = 6 := by decide

/-- Every waiter eventually enters.  For an infinite schedule `sched` continuing a
reachable state, under the fairness hypothesis "as long as `a` waits, eventually a
fairness step for `k` is taken" (every holder eventually releases; every scheduled
task eventually runs) and provided `a` is never cancelled, `a` enters. -/
theorem C25_eventually_enters (pre : List Act) (sched : Nat → Act) (k a : Nat)
    (hnc : ∀ n, sched n ≠ ⟨k, .cancel a⟩)
    (hfair : ∀ n, live ((trace sched (run pre) n).slot k) a = true →
      ∃ m, n ≤ m ∧ isProgressG (trace sched (run pre) m) k (sched m) = true)
    (n : Nat) (hl : live ((trace sched (run pre) n).slot k) a = true) :
    ∃ i, a ∈ ((trace sched (run pre) i).slot k).inside :=
  eventually_enters sched (ginv_run pre) hnc hfair n hl

/-- non-vacuity: a concrete fair infinite schedule (after agent 3 is in, the
schedule idles on a disabled action and the fairness premise is vacuous). -/
def C25.exPre : List Act := [⟨7, .enter 1⟩, ⟨7, .enter 2⟩, ⟨7, .enter 3⟩, ⟨7, .cancel 2⟩]
def C25.exSched : Nat → Act
  | 0 => ⟨7, .exit 1⟩
  | 1 => ⟨7, .resume 2⟩
  | _ => ⟨7, .resume 3⟩

example :
    (∀ n, C25.exSched n ≠ ⟨7, .cancel 3⟩) ∧
    (∀ n, live ((trace C25.exSched (run C25.exPre) n).slot 7) 3 = true →
      ∃ m, n ≤ m ∧ isProgressG (trace C25.exSched (run C25.exPre) m) 7 (C25.exSched m) = true) ∧
    live ((trace C25.exSched (run C25.exPre) 0).slot 7) 3 = true := by
  have hs : ∀ n, C25.exSched (n + 2) = ⟨7, .resume 3⟩ := fun _ => rfl
  have hstable : ∀ n, trace C25.exSched (run C25.exPre) (n + 3) = trace C25.exSched (run C25.exPre) 3 := by
    intro n
    induction n with
    | zero => rfl
    | succ n ih =>
      show stepD (trace C25.exSched (run C25.exPre) (n + 3)) (C25.exSched (n + 3)) = _
      rw [ih, show n + 3 = (n + 1) + 2 from rfl, hs]
      exact stepD_of_error (e := .disabled) (by rfl)
  refine ⟨?_, ?_, by decide⟩
  · intro n; match n with
    | 0 => decide
    | 1 => decide
    | n + 2 => rw [hs]; decide
  · intro n hn
    match n with
    | 0 => exact ⟨0, Nat.le_refl _, by decide⟩
    | 1 => exact ⟨1, Nat.le_refl _, by decide⟩
    | 2 => exact ⟨2, Nat.le_refl _, by decide⟩
    | n + 3 => rw [hstable n] at hn; exfalso; revert hn; decide


/-! ## extensions: draining, cancelled waiters -/

/-- Deadlock freedom of every key, from every reachable state: there is a continuation
made of fairness steps for `k` only (holder leaves / scheduled head of the queue runs — no
cancellation, no help from other keys), at most `holders + 2·waiters` long, after which key
`k` has no lock state at all.  So whatever the history (cancellations at any await
included), a key never gets into a state from which its entry cannot be cleaned up. -/
theorem C25_key_drains (acts : List Act) (k : Nat) :
    ∃ cont : List Act, cont.length ≤ drainMeasure ((run acts).slot k) ∧
      progressCount k (run acts) cont = cont.length ∧ (∀ x ∈ cont, x.key = k) ∧
      (run (acts ++ cont)).slot k = {} := by
  obtain ⟨cont, h1, h2, h3, h4⟩ := c25x_drain (k := k) _ (ginv_run acts) (Nat.le_refl _)
  exact ⟨cont, h1, h2, h3, by rw [run_append]; exact h4⟩

/-- non-vacuity: holder 1, cancelled waiter 2, live waiter 3: measure 5, and the state is not empty. -/
example :
    drainMeasure ((run [⟨7, .enter 1⟩, ⟨7, .enter 2⟩, ⟨7, .enter 3⟩, ⟨7, .cancel 2⟩]).slot 7) = 5 ∧
    (run [⟨7, .enter 1⟩, ⟨7, .enter 2⟩, ⟨7, .enter 3⟩, ⟨7, .cancel 2⟩]).slot 7 ≠ {} ∧
    (run ([⟨7, .enter 1⟩, ⟨7, .enter 2⟩, ⟨7, .enter 3⟩, ⟨7, .cancel 2⟩] ++
          [⟨7, .exit 1⟩, ⟨7, .resume 2⟩, ⟨7, .resume 3⟩, ⟨7, .exit 3⟩])).slot 7 = {} := by decide

/-- A cancelled waiter (cancelled while pending, or after it had been handed the lock)
never has to wait for anybody: in every reachable state its next task step is enabled,
removes it from the queue and the refcount, and lets nobody into the critical section
in its place by that step (the hand-over to the next waiter is a wake-up, see
`C25_no_lost_wakeup`). -/
theorem C25_cancelled_waiter_leaves (acts : List Act) (k a : Nat) (l : Lock)
    (hl : ((run acts).slot k).lock = some l)
    (hc : findW a l.waiters = some .cancelled ∨ findW a l.waiters = some .wokenCancelled) :
    ∃ s', step (run acts) ⟨k, .resume a⟩ = .ok s' ∧ a ∉ ids (s'.slot k) ∧
      (s'.slot k).inside = ((run acts).slot k).inside := by
  have hg := ginv_run acts
  obtain ⟨st', hst, h1, h2⟩ := c25x_cancelled_leaves (hg.2 k).1 (hg.2 k).2 hl hc
  refine ⟨(run acts).set k st', by simp [step, hg.1, hst], ?_, ?_⟩ <;> simpa [KL.set]

example :
    ((run [⟨7, .enter 1⟩, ⟨7, .enter 2⟩, ⟨7, .enter 3⟩, ⟨7, .exit 1⟩, ⟨7, .cancel 2⟩]).slot 7).lock
      = some ⟨false, [(2, .wokenCancelled), (3, .pending)]⟩ := by decide

/-! ## refinement: KeyedLock is a per-key FIFO ticket lock -/

/-- For every history and every key, the lock state of key `k` (who is inside, the FIFO
queue with who is cancelled), seen through the abstraction `absK` that forgets `_refs`,
the `_locks` entry, `_locked` and the future states, is exactly the state of the
specification (`WfModel/KeyedLockSpec.lean`: one holder, one FIFO queue, entitlement by
position, no wake-ups, no refcounts) after the actions of the history that are on key `k`
— actions on other keys do not appear at all. -/
theorem C25_refines_ticket_lock (acts : List Act) (k : Nat) :
    absK ((run acts).slot k) = specRun k acts := by
  have := c25x_refines_run acts k ginv_init
  simpa [specRun, absK, init] using this

/-- non-vacuity: hand-over past a cancelled waiter, with interleaved actions on another key. -/
example :
    specRun 7 [⟨7, .enter 1⟩, ⟨7, .enter 2⟩, ⟨8, .enter 1⟩, ⟨7, .enter 3⟩, ⟨7, .cancel 2⟩, ⟨7, .exit 1⟩,
               ⟨7, .enter 4⟩] = ⟨none, [(2, .cancelled), (3, .waiting), (4, .waiting)]⟩ ∧
    specRun 7 [⟨7, .enter 1⟩, ⟨7, .enter 2⟩, ⟨7, .exit 1⟩, ⟨7, .cancel 2⟩, ⟨7, .enter 3⟩] =
      ⟨none, [(2, .grantCancelled), (3, .waiting)]⟩ := by decide

/-- The refinement is action by action and covers enabledness: in every reachable state
an action succeeds in the implementation model iff the specification enables it, and then
the resulting states correspond (so no implementation step is invisible to, or refused by, the
specification: wake-ups, refcounts and entry creation/deletion are pure bookkeeping). -/
theorem C25_refines_ticket_lock_step (acts : List Act) (x : Act) :
    tstep (absK ((run acts).slot x.key)) x.act =
      (match step (run acts) x with
       | .ok s' => some (absK (s'.slot x.key))
       | .error _ => none) := by
  have hg := ginv_run acts
  rw [c25x_refines_step x.act (hg.2 x.key).1]
  simp only [step, hg.1]
  cases kstep false ((run acts).slot x.key) x.act <;> simp [KL.set]

example :
    tstep (absK ((run [⟨7, .enter 1⟩, ⟨7, .enter 2⟩]).slot 7)) (.resume 2) = none ∧
    tstep (absK ((run [⟨7, .enter 1⟩, ⟨7, .enter 2⟩, ⟨7, .exit 1⟩]).slot 7)) (.resume 2) = some ⟨some 2, []⟩ := by
  decide

/-- The abstraction loses nothing about emptiness: in a reachable state key `k` has lock
state (`_locks`/`_refs` entry, holder) iff the specification has a holder or a waiter. -/
theorem C25_spec_empty_iff (acts : List Act) (k : Nat) :
    specRun k acts = {} ↔ (run acts).slot k = {} := by
  rw [← C25_refines_ticket_lock]
  constructor
  · intro h
    apply C25_cleanup_key
    have h1 : ((run acts).slot k).inside.head? = none := congrArg TSt.holder h
    have h2 := congrArg TSt.queue h
    simp only [absK] at h2
    have hin : ((run acts).slot k).inside = [] := List.head?_eq_none_iff.mp h1
    simp only [ids, hin, List.nil_append]
    cases hl : ((run acts).slot k).lock with
    | none => rfl
    | some l =>
      rw [hl] at h2
      have : l.waiters = [] := List.map_eq_nil_iff.mp h2
      simp [this]
  · intro h; rw [h]; rfl

/-! ## FIFO over histories -/

/-- No overtaking, for every history.  Let `a` be a live (queued, not cancelled) waiter
on `k` and `b ≠ a` any agent that is not inside and is either not present or queued
behind `a` (`behind`).  Along ANY continuation in which `a` is not cancelled — newcomers,
cancellations of others, `b` leaving and re-queueing, actions on other keys — whenever
`b` is inside the critical section, `a` has been inside it before (or is now: impossible by
`C25_mutex`).  Together with `C25_fifo_progress` this is full FIFO service among
uncancelled waiters; `C25_fifo_no_barging` is its one-step instance for an absent `b`. -/
theorem C25_fifo_no_overtaking (pre acts : List Act) (k a b : Nat)
    (hl : live ((run pre).slot k) a = true) (hab : a ≠ b)
    (hb : behind ((run pre).slot k) a b = true)
    (hnc : (⟨k, .cancel a⟩ : Act) ∉ acts) (n : Nat)
    (hin : b ∈ ((run (pre ++ acts.take n)).slot k).inside) :
    ∃ m, m ≤ n ∧ a ∈ ((run (pre ++ acts.take m)).slot k).inside := by
  rw [run_append] at hin
  obtain ⟨m, hm, hma⟩ := c25x_no_overtake acts (ginv_run pre) hl hab (c25x_behind_sound hb) hnc n hin
  exact ⟨m, hm, by rw [run_append]; exact hma⟩

/-- non-vacuity: 3 waits behind 2 behind holder 1; 9 is a newcomer-to-be; 3 gets in at step 6 of
the continuation, 2 was in after step 2. -/
example :
    let pre : List Act := [⟨7, .enter 1⟩, ⟨7, .enter 2⟩, ⟨7, .enter 3⟩]
    let acts : List Act := [⟨7, .exit 1⟩, ⟨7, .resume 2⟩, ⟨7, .enter 9⟩, ⟨7, .cancel 9⟩, ⟨7, .exit 2⟩, ⟨7, .resume 3⟩]
    live ((run pre).slot 7) 2 = true ∧ behind ((run pre).slot 7) 2 3 = true ∧ behind ((run pre).slot 7) 2 9 = true ∧
    (⟨7, .cancel 2⟩ : Act) ∉ acts ∧ 3 ∈ ((run (pre ++ acts.take 6)).slot 7).inside ∧
    2 ∈ ((run (pre ++ acts.take 2)).slot 7).inside := by decide

/-! ## the rest of the anchored source, and the `asyncio.Lock` the model is written over -/

/-- Re-read from `_keyed_lock.py` on every run: the constructor starts with no main lock and
empty `_locks`/`_refs` (the model's `init`); `_get_main_lock` creates the main lock once and
returns the same object afterwards (one `main` bit); the per-key lock is an `asyncio.Lock()`
created only under `if key not in self._locks` (`register`); at refcount zero exactly
`_locks[key]` and `_refs[key]` are deleted (`deregister`). -/
theorem C25_source_shape_ext :
    initEmptyState = true ∧ mainLockLazyOnce = true ∧ keyLockIsAsyncioLock = true ∧
    createGuardedByAbsent = true ∧ delBothAtZero = true := by decide

/-- Re-read from the `asyncio/locks.py` of the interpreter that runs the correspondence: the
statements of `Lock.acquire`/`release`/`_wake_up_first` that `Lock.fastPath`, the FIFO append,
`removeW` (in the `finally` around the single `await`), `wakeFirst` on the cancellation path only
when unlocked, `release` and "wake only a head that is not done" are modelled after. -/
theorem C25_asyncio_lock_shape :
    lockFastPathShape = true ∧ lockAppendsFifo = true ∧ lockRemoveInFinally = true ∧
    lockCancelWakesIfUnlocked = true ∧ lockReleaseShape = true ∧ lockWakeFirstShape = true ∧
    lockAcquireAwaits = 1 := by decide
