"""`_ControlLoopRunner.cleanup_tasks` on real asyncio tasks, against the worker-cleanup model (C04).

The real method (workflows/runtime/control_loop.py) is called on a runner object that carries just what the method
touches (`_pending_workers`, `adapter.close()`, `worker_tasks`, `_task_keys`), under the virtual-time loop.  The worker
tasks are the harness's: each is "at work" until cancelled and then unwinds as its *program* says -- a list of segments
`<len>:<a|s|i>:<0|1>` (wait `len` eighths of a second; a further cancellation while waiting aborts the body / is caught and
ends the waiting at once / is caught and the waiting resumed; then possibly a word on the stream).  Written down in the
driver's format (lean/Driver/WorkerCleanup.lean): when the method returned, when each worker was done, who was still
running at the return, all writes, the writes after the return -- observed on the tasks and bodies themselves (the harness
keeps its own references; the runner's table is cleared by the method).
(K) the same op goes to `wfdriver workercleanup`.  (S) the terminal event is published right after the method returns:
no worker may be running then, nothing may be written later.
"""
from __future__ import annotations

import asyncio
import random
from typing import Any

from workflows.runtime import control_loop as CL

from ..runner import Violation
from ..vloop import run_virtual

UNIT = 0.125
REACTS = "asi"
MALFORMED = ["cleanup", "cleanup|3:a", "cleanup|3:x:1", "cleanup|-1:a:1", "cleanup|2:a:2", "clean|2:a:1", "cleanup|2:a:1|", ""]


def parse(op: str) -> list[list[tuple[int, str, bool]]] | None:
    parts = op.split("|")
    if len(parts) != 2 or parts[0] != "cleanup":
        return None
    if parts[1] == "-":
        return []
    ws = []
    for w in parts[1].split(";"):
        prog = []
        if w:
            for seg in w.split(","):
                f = seg.split(":")
                if len(f) != 3 or not (f[0].isascii() and f[0].isdigit()) or f[1] not in REACTS or len(f[1]) != 1 or f[2] not in ("0", "1"):
                    return None
                prog.append((int(f[0]), f[1], f[2] == "1"))
        ws.append(prog)
    return ws


def _ties(prog: list[tuple[int, str, bool]], grace: int) -> bool:
    t = 0
    for ln, _r, _w in prog:
        if grace < t + ln:
            return False
        if ln and t + ln == grace:
            return True
        t += ln
    return False


def gen_op(rng: random.Random, avoid_tie_at: tuple[int, ...] = (4,)) -> str:
    """0..4 workers; segment lengths 0..20 eighths (both sides of the usual grace period), all reactions"""
    n = rng.choice([0, 1, 1, 2, 2, 3, 4])
    if n == 0:
        return "cleanup|-"
    ws = []
    for _ in range(n):
        while True:
            prog = [(rng.choice([0, 1, 2, 3, 5, 6, 9, 10, 20]), rng.choice(REACTS), rng.random() < 0.6) for _ in range(rng.choice([0, 1, 1, 1, 2, 2, 3]))]
            if not any(_ties(prog, g) for g in avoid_tie_at):
                break
        ws.append(",".join(f"{ln}:{r}:{int(w)}" for ln, r, w in prog))
    return "cleanup|" + ";".join(ws)


class _Adapter:
    async def close(self) -> None:
        return None


def run_real(op: str) -> tuple[str, dict]:
    """answer line in the driver's format + facts for the monitor"""
    ws = parse(op)
    if ws is None:
        return "bad-op", {}
    facts: dict[str, Any] = {}

    async def main(loop: Any) -> None:
        t0 = [0.0]
        writes: list[tuple[int, int]] = []
        done: dict[int, int] = {}
        more: dict[int, int] = {}

        def now8() -> int:
            x = (loop.time() - t0[0]) / UNIT
            assert float(x).is_integer(), x
            return int(x)

        async def worker(i: int, prog: list[tuple[int, str, bool]]) -> None:
            try:
                try:
                    await asyncio.Event().wait()  # at work until the run ends
                except asyncio.CancelledError:
                    for ln, react, write in prog:
                        if ln:
                            deadline = loop.time() + ln * UNIT
                            try:
                                await asyncio.sleep(ln * UNIT)
                            except asyncio.CancelledError:
                                more[i] = more.get(i, 0) + 1
                                if react == "a":
                                    raise
                                if react == "i":
                                    while loop.time() < deadline:
                                        try:
                                            await asyncio.sleep(deadline - loop.time())
                                        except asyncio.CancelledError:
                                            more[i] = more.get(i, 0) + 1
                        if write:
                            writes.append((now8(), i))
                    raise
            finally:
                done[i] = now8()

        tasks = [loop.create_task(worker(i, p)) for i, p in enumerate(ws)]
        await asyncio.sleep(1)  # everybody is at work
        runner = object.__new__(CL._ControlLoopRunner)
        runner._pending_workers = []
        runner.adapter = _Adapter()
        runner.worker_tasks = set(tasks)
        runner._task_keys = {t: ("w", i) for i, t in enumerate(tasks)}
        t0[0] = loop.time()
        err = None
        try:
            await runner.cleanup_tasks()
        except Exception as e:  # noqa: BLE001
            err = f"{type(e).__name__}: {e}"
        returned = now8()
        alive = [i for i, t in enumerate(tasks) if not t.done()]
        table_cleared = not runner.worker_tasks and not runner._task_keys
        # the "run" is over; let whoever is still running come to its end
        for _ in range(400):
            if all(t.done() for t in tasks):
                break
            await asyncio.sleep(UNIT)
        for t in tasks:
            if not t.done():
                t.cancel()
        await asyncio.gather(*tasks, return_exceptions=True)
        facts.update(returned=returned, alive=alive, writes=sorted(writes), done=[done.get(i, -1) for i in range(len(ws))],
                     late=sorted(w for w in writes if w[0] > returned), error=err, more=dict(more), table_cleared=table_cleared)

    run_virtual(main, max_time=100000.0)
    if facts.get("error"):
        return "raised " + facts["error"], facts
    pairs = lambda l: ",".join(f"{t}:{w}" for t, w in l)
    line = (f"returned={facts['returned']} done={','.join(str(d) for d in facts['done'])} alive={','.join(str(i) for i in facts['alive'])} "
            f"writes={pairs(facts['writes'])} late={pairs(facts['late'])}")
    return line, facts


def monitor(op: str, facts: dict) -> list[Violation]:
    """the property, on the real method alone: its return is the moment the terminal event goes out"""
    out: list[Violation] = []
    if not facts:
        return out
    case = {"cleanup_op": op}
    if facts.get("error"):
        out.append(Violation("C04/cleanup_raised", f"cleanup_tasks raised {facts['error']} for workers {op}", case))
        return out
    if facts["alive"]:
        out.append(Violation("C04/cleanup_returns_with_worker_alive",
                             f"cleanup_tasks returned at +{facts['returned']}/8 s while worker(s) {facts['alive']} were still running "
                             f"(done at {facts['done']}); the terminal event is published next", case))
    if facts["late"]:
        out.append(Violation("C04/cleanup_worker_writes_after_return",
                             f"worker(s) wrote at {facts['late']} (eighths, worker) after cleanup_tasks had returned at +{facts['returned']}/8 s, "
                             "i.e. after the terminal event", case))
    return out
