"""name-only (see package docstring)"""
from __future__ import annotations


class PoolConnectionProxy:  # pragma: no cover
    pass
