import WfProofs.Archive
/-!
Helper lemmas for C33, part 2: reading back what the writer wrote.
-/
namespace Archive
open GenArchive

variable {Y : Type}

/-! ## association lists -/

theorem upsert_fresh {α : Type} (k : Name) (v : α) :
    ∀ l : List (Name × α), k ∉ l.map Prod.fst → upsert k v l = l ++ [(k, v)]
  | [], _ => rfl
  | (k', v') :: rest, h => by
    simp only [List.map_cons, List.mem_cons, not_or] at h
    have hne : ¬ k' = k := fun e => h.1 e.symm
    simp only [upsert, hne, if_false, List.cons_append]
    rw [upsert_fresh k v rest h.2]

theorem alookup_none {α : Type} (k : Name) :
    ∀ l : List (Name × α), k ∉ l.map Prod.fst → alookup k l = none
  | [], _ => rfl
  | (k', v') :: rest, h => by
    simp only [List.map_cons, List.mem_cons, not_or] at h
    have hne : ¬ k' = k := fun e => h.1 e.symm
    simp only [alookup, hne, if_false]
    exact alookup_none k rest h.2

theorem alookup_append_fresh {α : Type} (k : Name) (l₁ l₂ : List (Name × α)) (h : k ∉ l₁.map Prod.fst) :
    alookup k (l₁ ++ l₂) = alookup k l₂ := by
  induction l₁ with
  | nil => rfl
  | cons p rest ih =>
    obtain ⟨k', v'⟩ := p
    simp only [List.map_cons, List.mem_cons, not_or] at h
    have hne : ¬ k' = k := fun e => h.1 e.symm
    simp only [List.cons_append, alookup, hne, if_false]
    exact ih h.2

/-- looking a deployment's own name up in the list built from all deployments (distinct names) -/
theorem alookup_filterMap {α D : Type} (nm : D → Name) (f : D → Option α) :
    ∀ ds : List D, (ds.map nm).Nodup → ∀ d ∈ ds,
      alookup (nm d) (ds.filterMap fun d' => (f d').map fun v => (nm d', v)) = f d
  | [], _, d, hd => by cases hd
  | d0 :: rest, hnd, d, hd => by
    simp only [List.map_cons, List.nodup_cons] at hnd
    rcases List.mem_cons.mp hd with rfl | hin
    · cases hf : f d with
      | some v => simp [hf, alookup]
      | none =>
        simp only [List.filterMap_cons, hf, Option.map_none]
        apply alookup_none
        intro hm
        apply hnd.1
        simp only [List.map_filterMap, List.mem_filterMap] at hm
        obtain ⟨d', hd', he⟩ := hm
        cases hf' : f d' with
        | none => simp [hf'] at he
        | some v =>
          simp [hf'] at he
          exact List.mem_map.mpr ⟨d', hd', he⟩
    · have hne : ¬ nm d0 = nm d := by
        intro e; apply hnd.1; rw [e]; exact List.mem_map.mpr ⟨d, hin, rfl⟩
      cases hf : f d0 with
      | some v =>
        simp only [List.filterMap_cons, hf, Option.map_some, alookup, hne, if_false]
        exact alookup_filterMap nm f rest hnd.2 d hin
      | none =>
        simp only [List.filterMap_cons, hf, Option.map_none]
        exact alookup_filterMap nm f rest hnd.2 d hin

theorem keys_filterMap_subset {α D : Type} (nm : D → Name) (f : D → Option α) (ds : List D) (k : Name)
    (h : k ∈ (ds.filterMap fun d' => (f d').map fun v => (nm d', v)).map Prod.fst) : k ∈ ds.map nm := by
  simp only [List.map_filterMap, List.mem_filterMap] at h
  obtain ⟨d', hd', he⟩ := h
  cases hf' : f d' with
  | none => simp [hf'] at he
  | some v =>
    simp [hf'] at he
    exact List.mem_map.mpr ⟨d', hd', he⟩

/-! ## reading a list of members -/

theorem readMembers_append (A : Aead) (C : Codec Y) (pw : Option Bytes) :
    ∀ (ms₁ ms₂ : List Member) (st : RState Y),
      readMembers A C pw st (ms₁ ++ ms₂) =
        match readMembers A C pw st ms₁ with
        | .error e => .error e
        | .ok st' => readMembers A C pw st' ms₂
  | [], _, _ => rfl
  | m :: ms, ms₂, st => by
    simp only [List.cons_append, readMembers]
    cases readMember A C pw st m with
    | error e => rfl
    | ok st' => exact readMembers_append A C pw ms ms₂ st'

/-- nothing is known yet under name `n` -/
def Fresh (st : RState Y) (n : Name) : Prop :=
  n ∉ st.crs.map Prod.fst ∧ n ∉ st.secs.map Prod.fst ∧ n ∉ st.metas.map Prod.fst

def crPairs (ds : List (Option Name × Y)) : List (Name × Y) := ds.map fun d => (depName d, d.2)
def secPairs (secrets : List (Name × Y)) (ds : List (Option Name × Y)) : List (Name × Y) :=
  ds.filterMap fun d => (alookup (depName d) secrets).map fun v => (depName d, v)
def metaPairs (gens : Option (List (Name × Int))) (ds : List (Option Name × Y)) : List (Name × Option Int) :=
  ds.filterMap fun d => ((genOf gens (depName d)).map some).map fun v => (depName d, v)

/-- the reader state after the members of `ds` have been read -/
def stAfter (st : RState Y) (secrets : List (Name × Y)) (gens : Option (List (Name × Int)))
    (ds : List (Option Name × Y)) : RState Y :=
  { crs := st.crs ++ crPairs ds, secs := st.secs ++ secPairs secrets ds,
    metas := st.metas ++ metaPairs gens ds, manifest := st.manifest }

theorem stAfter_nil (st : RState Y) (secrets : List (Name × Y)) (gens : Option (List (Name × Int))) :
    stAfter st secrets gens [] = st := by
  simp [stAfter, crPairs, secPairs, metaPairs]

theorem stAfter_cons (st : RState Y) (secrets : List (Name × Y)) (gens : Option (List (Name × Int)))
    (d : Option Name × Y) (ds : List (Option Name × Y)) :
    stAfter (stAfter st secrets gens [d]) secrets gens ds = stAfter st secrets gens (d :: ds) := by
  simp only [stAfter, crPairs, secPairs, metaPairs, List.append_assoc, List.map_cons, List.map_nil,
    List.filterMap_cons, List.filterMap_nil]
  congr 1
  · cases alookup (depName d) secrets <;> simp
  · cases genOf gens (depName d) <;> simp

def members (ts : List Tagged) : List Member := ts.map (·.member)

/-- reader password `rpw` can read what writer password `wpw` wrote for secret `s?` -/
def Compat (wpw rpw : Option Bytes) (s? : Option Y) : Prop :=
  s? = none ∨ encPw writeEncTest wpw = none ∨ decPw readNoPwTest rpw = encPw writeEncTest wpw

/-- the members of one deployment are read back into exactly that deployment's slots -/
theorem read_writeDep {A : Aead} (hA : A.Lawful) {C : Codec Y} (hC : C.Lawful) (wpw rpw : Option Bytes)
    {rnd : Nat → Bytes × Bytes} (hr : rndWf rnd) (secrets : List (Name × Y)) (gens : Option (List (Name × Int)))
    (k : Nat) (d : Option Name × Y) (st : RState Y) (hdot : '.' ∉ depName d)
    (hf : Fresh st (depName d)) (hc : Compat wpw rpw (alookup (depName d) secrets)) :
    readMembers A C rpw st (members (writeDep A C wpw rnd secrets gens k d).1) =
      .ok (stAfter st secrets gens [d]) := by
  obtain ⟨hf1, hf2, hf3⟩ := hf
  -- the generation member, read in any state that keeps `metas` of `st`
  have hmeta : ∀ st' : RState Y, st'.metas = st.metas →
      readMembers A C rpw st' (members (metaTagged C gens (depName d))) =
      .ok { st' with metas := st.metas ++ metaPairs gens [d] } := by
    intro st' hm
    cases hg : genOf gens (depName d) with
    | none => simp [metaTagged, members, readMembers, metaPairs, hg, ← hm]
    | some g =>
      simp only [metaTagged, members, List.map_cons, List.map_nil, readMembers, readMember, classify_meta hdot,
        hC.meta_rt, metaPairs, List.filterMap_cons, List.filterMap_nil, hg, Option.map_some]
      rw [hm, upsert_fresh _ _ _ hf3]
  simp only [writeDep]
  cases hs : alookup (depName d) secrets with
  | none =>
    simp only [members, List.map_cons, readMembers, readMember, classify_cr hdot, hC.y_rt]
    rw [upsert_fresh _ _ _ hf1]
    have := hmeta { st with crs := st.crs ++ [(depName d, d.2)] } rfl
    simp only [members] at this
    rw [this]
    simp [stAfter, crPairs, secPairs, hs]
  | some s =>
    cases hw : encPw writeEncTest wpw with
    | none =>
      simp only [members, List.map_cons, readMembers, readMember, classify_cr hdot, classify_secClear hdot,
        hC.y_rt]
      rw [upsert_fresh _ _ _ hf1, upsert_fresh _ _ _ hf2]
      have := hmeta { st with crs := st.crs ++ [(depName d, d.2)], secs := st.secs ++ [(depName d, s)] } rfl
      simp only [members] at this
      rw [this]
      simp [stAfter, crPairs, secPairs, hs]
    | some p =>
      have hrp : decPw readNoPwTest rpw = some p := by
        rcases hc with h | h | h
        · rw [hs] at h; cases h
        · rw [hw] at h; cases h
        · rw [h, hw]
      simp only [members, List.map_cons, readMembers, readMember, classify_cr hdot, classify_secEnc hdot,
        hC.y_rt, hrp, decrypt_encrypt hA p _ _ _ (hr k).1 (hr k).2]
      rw [upsert_fresh _ _ _ hf1, upsert_fresh _ _ _ hf2]
      have := hmeta { st with crs := st.crs ++ [(depName d, d.2)], secs := st.secs ++ [(depName d, s)] } rfl
      simp only [members] at this
      rw [this]
      simp [stAfter, crPairs, secPairs, hs]

theorem fresh_stAfter {st : RState Y} {secrets : List (Name × Y)} {gens : Option (List (Name × Int))}
    {d : Option Name × Y} {n : Name} (hf : Fresh st n) (hne : n ≠ depName d) :
    Fresh (stAfter st secrets gens [d]) n := by
  obtain ⟨h1, h2, h3⟩ := hf
  refine ⟨?_, ?_, ?_⟩
  · simp only [stAfter, crPairs, List.map_append, List.mem_append, not_or]
    exact ⟨h1, by simp [hne]⟩
  · simp only [stAfter, List.map_append, List.mem_append, not_or]
    refine ⟨h2, fun hm => ?_⟩
    have := keys_filterMap_subset depName (fun d => alookup (depName d) secrets) [d] n hm
    simp at this; exact hne this
  · simp only [stAfter, List.map_append, List.mem_append, not_or]
    refine ⟨h3, fun hm => ?_⟩
    have := keys_filterMap_subset depName (fun d => (genOf gens (depName d)).map some) [d] n hm
    simp at this; exact hne this

/-- reading all deployments' members -/
theorem read_writeDeps {A : Aead} (hA : A.Lawful) {C : Codec Y} (hC : C.Lawful) (wpw rpw : Option Bytes)
    {rnd : Nat → Bytes × Bytes} (hr : rndWf rnd) (secrets : List (Name × Y)) (gens : Option (List (Name × Int))) :
    ∀ (ds : List (Option Name × Y)) (k : Nat) (st : RState Y),
      (∀ d ∈ ds, '.' ∉ depName d) → (ds.map depName).Nodup →
      (∀ d ∈ ds, Fresh st (depName d)) → (∀ d ∈ ds, Compat wpw rpw (alookup (depName d) secrets)) →
      readMembers A C rpw st (members (writeDeps A C wpw rnd secrets gens k ds)) =
        .ok (stAfter st secrets gens ds)
  | [], k, st, _, _, _, _ => by simp [writeDeps, members, readMembers, stAfter_nil]
  | d :: ds, k, st, hv, hnd, hf, hc => by
    simp only [writeDeps, members, List.map_append]
    rw [readMembers_append]
    have h1 := read_writeDep hA hC wpw rpw hr secrets gens k d st (hv d (List.mem_cons_self ..))
      (hf d (List.mem_cons_self ..)) (hc d (List.mem_cons_self ..))
    simp only [members] at h1
    rw [h1]
    dsimp only
    simp only [List.map_cons, List.nodup_cons] at hnd
    have ih := read_writeDeps hA hC wpw rpw hr secrets gens ds
      (writeDep A C wpw rnd secrets gens k d).2 (stAfter st secrets gens [d])
      (fun d' hd' => hv d' (List.mem_cons_of_mem _ hd')) hnd.2
      (fun d' hd' => fresh_stAfter (hf d' (List.mem_cons_of_mem _ hd'))
        (fun e => hnd.1 (by rw [← e]; exact List.mem_map.mpr ⟨d', hd', rfl⟩)))
      (fun d' hd' => hc d' (List.mem_cons_of_mem _ hd'))
    simp only [members] at ih
    rw [ih, stAfter_cons]

end Archive
