import WfModel.Policy
/-! Bounds and algebra of the retry building blocks (C07), budgets (C05), indexing (C06). -/
set_option linter.unusedVariables false
namespace Policy
open Gen.RP

theorem pow_nonneg' (b : Rat) (hb : 0 ≤ b) : ∀ n : Nat, 0 ≤ b ^ n
  | 0 => by rw [Rat.pow_zero]; decide
  | n + 1 => by
    rw [Rat.pow_succ]
    exact Rat.mul_nonneg (pow_nonneg' b hb n) hb

theorem capped_le (m b : Rat) (a : Nat) (cap : Rat) : cappedExponential m b a cap ≤ cap := by
  unfold cappedExponential; grind

theorem capped_nonneg (m b : Rat) (a : Nat) (cap : Rat) (hm : 0 ≤ m) (hb : 0 ≤ b) (hc : 0 ≤ cap) :
    0 ≤ cappedExponential m b a cap := by
  unfold cappedExponential
  have := Rat.mul_nonneg hm (pow_nonneg' b hb a)
  grind

/-- `uniform(a, b)` with `a ≤ b` and `u ∈ [0,1]` lies in `[a, b]` -/
theorem uniform_bounds (a b u : Rat) (hab : a ≤ b) (h0 : 0 ≤ u) (h1 : u ≤ 1) :
    a ≤ a + u * (b - a) ∧ a + u * (b - a) ≤ b := by
  have hba : 0 ≤ b - a := by grind
  have hlo : 0 ≤ u * (b - a) := Rat.mul_nonneg h0 hba
  have hhi : u * (b - a) ≤ 1 * (b - a) := Rat.mul_le_mul_of_nonneg_right h1 hba
  constructor
  · grind
  · grind

end Policy
