import WfModel.EventLog
/-!
Helper lemmas for the event-log model (M3): consecutive logs, the list facts about
`filter` / `drop` / `takeWhile` on them, the cut at the first terminal event.
-/
namespace EventLog

/-! ## consecutive logs -/

/-- the sequences of `l` are `b, b+1, b+2, …` -/
def Consec : Int → List Ev → Prop
  | _, [] => True
  | b, e :: es => e.seq = b ∧ Consec (b + 1) es

theorem consec_append {b : Int} {l : List Ev} {e : Ev} (h : Consec b l) (he : e.seq = b + l.length) :
    Consec b (l ++ [e]) := by
  induction l generalizing b with
  | nil => simp [Consec] at *; exact he
  | cons x xs ih =>
    obtain ⟨h1, h2⟩ := h
    refine ⟨h1, ih h2 ?_⟩
    simp at he; omega

theorem consec_drop {b : Int} {l : List Ev} (n : Nat) (h : Consec b l) : Consec (b + n) (l.drop n) := by
  induction n generalizing b l with
  | zero => simpa using h
  | succ n ih =>
    cases l with
    | nil => simp [Consec]
    | cons x xs =>
      obtain ⟨_, h2⟩ := h
      have := ih h2
      simp only [List.drop_succ_cons]
      have e : b + ((n + 1 : Nat) : Int) = b + 1 + (n : Int) := by omega
      rw [e]; exact this

theorem consec_getElem? {b : Int} {l : List Ev} (h : Consec b l) {i : Nat} {e : Ev} (hi : l[i]? = some e) :
    e.seq = b + i := by
  induction l generalizing b i with
  | nil => simp at hi
  | cons x xs ih =>
    obtain ⟨h1, h2⟩ := h
    cases i with
    | zero => simp at hi; subst hi; simpa using h1
    | succ i =>
      simp at hi
      have := ih h2 hi
      omega

theorem consec_mem_ge {b : Int} {l : List Ev} (h : Consec b l) {e : Ev} (he : e ∈ l) : b ≤ e.seq := by
  obtain ⟨i, hi⟩ := List.mem_iff_getElem?.mp he
  have := consec_getElem? h hi
  omega

theorem consec_getLast? {b : Int} {l : List Ev} (h : Consec b l) {e : Ev} (hl : l.getLast? = some e) :
    e.seq = b + l.length - 1 := by
  rw [List.getLast?_eq_getElem?] at hl
  have := consec_getElem? h hl
  have hne : l ≠ [] := by intro h0; subst h0; simp at hl
  have : 0 < l.length := List.length_pos_iff.mpr hne
  omega

theorem maxSeq_consec {b : Int} {l : List Ev} (h : Consec b l) :
    maxSeq l = if l = [] then none else some (b + l.length - 1) := by
  induction l generalizing b with
  | nil => simp [maxSeq]
  | cons x xs ih =>
    obtain ⟨h1, h2⟩ := h
    have := ih h2
    simp only [maxSeq, this]
    cases xs with
    | nil => simp [h1]
    | cons y ys =>
      simp
      rw [h1]
      split
      · omega
      · omega

theorem nextSeq_consec (bk : Backend) {l : List Ev} (h : Consec 0 l) : nextSeq bk l = l.length := by
  cases bk with
  | mem =>
    cases hl : l.getLast? with
    | none =>
      have : l = [] := by simpa using hl
      subst this; simp [nextSeq]
    | some e =>
      have := consec_getLast? h hl
      simp [nextSeq, hl]; omega
  | sql =>
    simp only [nextSeq]
    rw [maxSeq_consec h]
    cases l with
    | nil => simp
    | cons x xs => simp

theorem consec_step (bk : Backend) {l : List Ev} (h : Consec 0 l) (tag : Nat) (ty : String) (tys : List String) :
    Consec 0 (l ++ [mkEv bk l tag ty tys]) := by
  apply consec_append h
  simp [mkEv, nextSeq_consec bk h]

/-- on a consecutive log `sequence > c` is a suffix -/
theorem filter_gt_consec {b : Int} {l : List Ev} (h : Consec b l) (c : Int) :
    l.filter (fun e => decide (e.seq > c)) = l.drop (c + 1 - b).toNat := by
  induction l generalizing b with
  | nil => simp
  | cons x xs ih =>
    obtain ⟨h1, h2⟩ := h
    have := ih h2
    rw [List.filter_cons]
    by_cases hc : x.seq > c
    · have e0 : (c + 1 - b).toNat = 0 := by omega
      have e1 : (c + 1 - (b + 1)).toNat = 0 := by omega
      simp [hc, e0, this, e1]
    · have e0 : (c + 1 - b).toNat = (c + 1 - (b + 1)).toNat + 1 := by omega
      simp [hc, e0, this]

theorem filter_le_consec_gt {b : Int} {l : List Ev} (h : Consec b l) (k : Int) (hk : k < b) :
    l.filter (fun e => decide (e.seq ≤ k)) = [] := by
  rw [List.filter_eq_nil_iff]
  intro e he
  have := consec_mem_ge h he
  simp; omega

theorem filter_gt_consec_all {b : Int} {l : List Ev} (h : Consec b l) (k : Int) (hk : k < b) :
    l.filter (fun e => decide (e.seq > k)) = l := by
  rw [List.filter_eq_self]
  intro e he
  have := consec_mem_ge h he
  simp; omega

/-- a consecutive list splits at any `k` into its `≤ k` part followed by its `> k` part -/
theorem split_consec {b : Int} {l : List Ev} (h : Consec b l) (k : Int) :
    l.filter (fun e => decide (e.seq ≤ k)) ++ l.filter (fun e => decide (e.seq > k)) = l := by
  induction l generalizing b with
  | nil => simp
  | cons x xs ih =>
    have hfull := h
    obtain ⟨h1, h2⟩ := h
    by_cases hc : x.seq ≤ k
    · have hc' : ¬ x.seq > k := by omega
      simp [hc, hc', ih h2]
    · have hk : k < b := by omega
      rw [filter_le_consec_gt hfull k hk, filter_gt_consec_all hfull k hk]; simp

theorem takeWhile_le_consec {b : Int} {l : List Ev} (h : Consec b l) (a : Int) :
    (l.takeWhile fun e => decide (e.seq ≤ a)).length = min l.length (a + 1 - b).toNat := by
  induction l generalizing b with
  | nil => simp
  | cons x xs ih =>
    obtain ⟨h1, h2⟩ := h
    have := ih h2
    rw [List.takeWhile_cons]
    by_cases hc : x.seq ≤ a
    · simp [hc, this]; omega
    · simp [hc]; omega

theorem insertBySeq_consec {b : Int} {l : List Ev} (h : Consec (b + 1) l) (e : Ev) (he : e.seq = b) :
    insertBySeq e l = e :: l := by
  cases l with
  | nil => rfl
  | cons x xs =>
    obtain ⟨h1, _⟩ := h
    have : ¬ x.seq ≤ e.seq := by omega
    simp [insertBySeq, this]

theorem orderBySeq_consec {b : Int} {l : List Ev} (h : Consec b l) : orderBySeq l = l := by
  induction l generalizing b with
  | nil => rfl
  | cons x xs ih =>
    obtain ⟨h1, h2⟩ := h
    simp only [orderBySeq, ih h2]
    exact insertBySeq_consec h2 x h1

/-! ## prefixes of growing logs -/

theorem drop_prefix_append (l m : List Ev) (n : Nat) : l.drop n <+: (l ++ m).drop n := by
  rw [List.drop_append]
  exact List.prefix_append _ _

theorem prefix_drop_split {out l : List Ev} (h : out <+: l) : l = out ++ l.drop out.length := by
  obtain ⟨t, rfl⟩ := h
  simp

/-! ## the cut at the first terminal event -/

theorem cut_mem {l : List Ev} {e : Ev} (h : e ∈ cutAfterTerminal l) : e ∈ l := by
  induction l with
  | nil => simp [cutAfterTerminal] at h
  | cons x xs ih =>
    simp only [cutAfterTerminal] at h
    split at h
    · simp at h; simp [h]
    · simp at h
      rcases h with h | h
      · simp [h]
      · simp [ih h]

theorem cut_prefix (l : List Ev) : cutAfterTerminal l <+: l := by
  induction l with
  | nil => simp [cutAfterTerminal]
  | cons x xs ih =>
    simp only [cutAfterTerminal]
    split
    · exact ⟨xs, rfl⟩
    · exact (List.prefix_cons_inj x).mpr ih

theorem cut_noterm {l : List Ev} (h : ∀ e ∈ l, e.terminal = false) : cutAfterTerminal l = l := by
  induction l with
  | nil => rfl
  | cons x xs ih =>
    have hx := h x (by simp)
    simp [cutAfterTerminal, hx]
    exact ih fun e he => h e (by simp [he])

theorem cut_append_noterm {l r : List Ev} (h : ∀ e ∈ l, e.terminal = false) :
    cutAfterTerminal (l ++ r) = l ++ cutAfterTerminal r := by
  induction l with
  | nil => rfl
  | cons x xs ih =>
    have hx := h x (by simp)
    simp [cutAfterTerminal, hx]
    exact ih fun e he => h e (by simp [he])

/-- the cut never contains a terminal event except as its last element -/
theorem cut_dropLast_noterm (l : List Ev) : ∀ e ∈ (cutAfterTerminal l).dropLast, e.terminal = false := by
  induction l with
  | nil => simp [cutAfterTerminal]
  | cons x xs ih =>
    simp only [cutAfterTerminal]
    split
    · simp
    · rename_i hx
      cases hc : cutAfterTerminal xs with
      | nil => simp
      | cons y ys =>
        rw [List.dropLast_cons_cons]
        intro e he
        simp at he
        rcases he with he | he
        · subst he; simpa using hx
        · apply ih; rw [hc]; exact he

theorem prefix_cut {out l : List Ev} (hp : out <+: l) (hn : ∀ e ∈ out.dropLast, e.terminal = false) :
    out <+: cutAfterTerminal l := by
  induction out generalizing l with
  | nil => exact List.nil_prefix
  | cons a rest ih =>
    cases l with
    | nil => simp at hp
    | cons x xs =>
      obtain ⟨hax, hrest⟩ := List.cons_prefix_cons.mp hp
      subst hax
      cases rest with
      | nil =>
        simp only [cutAfterTerminal]
        split
        · exact List.prefix_refl _
        · exact List.cons_prefix_cons.mpr ⟨rfl, List.nil_prefix⟩
      | cons a' rest' =>
        have ha : a.terminal = false := hn a (by simp [List.dropLast_cons_cons])
        simp only [cutAfterTerminal, ha]
        apply List.cons_prefix_cons.mpr ⟨rfl, ?_⟩
        apply ih hrest
        intro e he
        apply hn
        rw [List.dropLast_cons_cons]
        simp [he]

theorem cut_eq_of_prefix_terminal {out l : List Ev} (hp : out <+: l)
    (hn : ∀ e ∈ out.dropLast, e.terminal = false) {e : Ev} (hl : out.getLast? = some e)
    (ht : e.terminal = true) : cutAfterTerminal l = out := by
  induction out generalizing l with
  | nil => simp at hl
  | cons a rest ih =>
    cases l with
    | nil => simp at hp
    | cons x xs =>
      obtain ⟨hax, hrest⟩ := List.cons_prefix_cons.mp hp
      subst hax
      cases rest with
      | nil =>
        simp at hl; subst hl
        simp [cutAfterTerminal, ht]
      | cons a' rest' =>
        have ha : a.terminal = false := hn a (by simp [List.dropLast_cons_cons])
        simp only [cutAfterTerminal, ha, Bool.false_eq_true, if_false]
        congr 1
        apply ih hrest
        · intro e' he'
          apply hn
          rw [List.dropLast_cons_cons]
          simp [he']
        · simpa [List.getLast?_cons_cons] using hl

/-- if the cut contains a terminal event, that event is its last element -/
theorem cut_terminal_last {l : List Ev} {e : Ev} (he : e ∈ cutAfterTerminal l) (ht : e.terminal = true) :
    (cutAfterTerminal l).getLast? = some e := by
  induction l with
  | nil => simp [cutAfterTerminal] at he
  | cons x xs ih =>
    simp only [cutAfterTerminal] at he ⊢
    split
    · rename_i hx
      rw [if_pos hx] at he
      simp at he; simp [he]
    · rename_i hx
      rw [if_neg hx] at he
      simp at he
      rcases he with he | he
      · subst he; exact absurd ht hx
      · have := ih he
        cases hc : cutAfterTerminal xs with
        | nil => rw [hc] at he; simp at he
        | cons y ys => rw [hc] at this; simpa [List.getLast?_cons_cons] using this

end EventLog
