import WfModel.Replay
/-!
Time erasure for the reducer.  Replay (`replay_ticks_stream`) runs `_reduce_tick` at the clock of
the restart, not at the clock at which the tick was processed.  The only place the reducer's clock
enters the state is `first_attempt_at` of an in-progress invocation (`first_attempt_at or now`),
and the only place that value is read back is the `elapsed_time` handed to the retry policy (and
time fields of commands, which replay drops).  Hence: for retry policies that do not look at the
elapsed time, two states that agree up to the `first_attempt_at` of their in-progress invocations
are mapped, by the same tick at two different clocks, to two states that agree in the same sense,
and the two command lists agree on their exit / crash commands.
-/
set_option linter.unusedVariables false
set_option linter.unusedSimpArgs false

namespace Engine

/-- the policy's decision does not depend on the elapsed time (attempt-count based policies) -/
def TimeFree (pol : Policy) : Prop := ∀ s e e' f x, pol s e f x = pol s e' f x

def eraseIP (ip : InProg) : InProg := { ip with firstAt := 0 }

/-- agreement of two step states up to `first_attempt_at` of in-progress invocations -/
structure SimSS (a b : StepState) : Prop where
  queue : a.queue = b.queue
  collected : a.collected = b.collected
  waiters : a.waiters = b.waiters
  inProg : a.inProg.map eraseIP = b.inProg.map eraseIP

structure SimSt (a b : State) : Prop where
  running : a.isRunning = b.isRunning
  workers : ∀ n, SimSS (a.workers n) (b.workers n)

theorem SimSS.refl (a : StepState) : SimSS a a := ⟨rfl, rfl, rfl, rfl⟩
theorem SimSt.refl (a : State) : SimSt a a := ⟨rfl, fun _ => SimSS.refl _⟩
theorem SimSS.symm {a b : StepState} (h : SimSS a b) : SimSS b a :=
  ⟨h.queue.symm, h.collected.symm, h.waiters.symm, h.inProg.symm⟩
theorem SimSt.symm {a b : State} (h : SimSt a b) : SimSt b a :=
  ⟨h.running.symm, fun n => (h.workers n).symm⟩
theorem SimSS.trans {a b c : StepState} (h : SimSS a b) (g : SimSS b c) : SimSS a c :=
  ⟨h.queue.trans g.queue, h.collected.trans g.collected, h.waiters.trans g.waiters, h.inProg.trans g.inProg⟩
theorem SimSt.trans {a b c : State} (h : SimSt a b) (g : SimSt b c) : SimSt a c :=
  ⟨h.running.trans g.running, fun n => (h.workers n).trans (g.workers n)⟩

theorem SimSS.length {a b : StepState} (h : SimSS a b) : a.inProg.length = b.inProg.length := by
  have := congrArg List.length h.inProg
  simpa using this

theorem SimSS.wids {a b : StepState} (h : SimSS a b) : usedIds a = usedIds b := by
  have := congrArg (List.map (·.wid)) h.inProg
  simpa [usedIds, List.map_map, Function.comp_def, eraseIP] using this

theorem SimSS.freeIds {a b : StepState} (h : SimSS a b) (nw : Nat) : freeIds a nw = freeIds b nw := by
  simp [Engine.freeIds, h.wids]

theorem SimSS.isEmpty {a b : StepState} (h : SimSS a b) : a.inProg.isEmpty = b.inProg.isEmpty := by
  have := h.length
  cases ha : a.inProg <;> cases hb : b.inProg <;> simp_all

theorem SimSt.set {a b : State} (h : SimSt a b) (s : Nat) {x y : StepState} (hx : SimSS x y) :
    SimSt (a.set s x) (b.set s y) := by
  refine ⟨h.running, fun n => ?_⟩
  simp only [State.set]
  split
  · exact hx
  · exact h.workers n

/-- the commands replay (and the runner's control flow) looks at: exit commands and `crash` -/
def keyCmds (l : List Cmd) : List Cmd := l.filter (fun c => c.isExit || c == .crash)

theorem keyCmds_append (a b : List Cmd) : keyCmds (a ++ b) = keyCmds a ++ keyCmds b := by
  simp [keyCmds]

theorem keyCmds_nil : keyCmds [] = [] := rfl

theorem any_isExit_key (l : List Cmd) : l.any Cmd.isExit = (keyCmds l).any Cmd.isExit := by
  induction l with
  | nil => rfl
  | cons c cs ih =>
    simp only [List.any_cons, keyCmds, List.filter_cons]
    by_cases h : c.isExit = true
    · simp [h]
    · have h' : c.isExit = false := by simpa using h
      by_cases hc : (c == Cmd.crash) = true
      · simp only [h', hc, Bool.false_or, if_true, List.any_cons, h', Bool.false_or]
        exact ih
      · simp only [h', hc, Bool.false_or, Bool.false_eq_true, if_false]
        exact ih

theorem contains_crash_key (l : List Cmd) : l.contains Cmd.crash = (keyCmds l).contains Cmd.crash := by
  induction l with
  | nil => rfl
  | cons c cs ih =>
    simp only [keyCmds, List.filter_cons, List.contains_cons]
    by_cases hc : c = Cmd.crash
    · subst hc; simp [Cmd.isExit]
    · have hb : (c == Cmd.crash) = false := by simpa using hc
      have hb' : (Cmd.crash == c) = false := by simpa using (fun h => hc h.symm)
      by_cases h : c.isExit = true
      · simp only [h, Bool.true_or, if_true, List.contains_cons, hb', Bool.false_or]
        exact ih
      · have h' : c.isExit = false := by simpa using h
        simp only [h', hb, Bool.false_or, Bool.false_eq_true, if_false, hb']
        exact ih

theorem lastExit_key (prev : Option Cmd) (l : List Cmd) : lastExit prev l = lastExit prev (keyCmds l) := by
  induction l generalizing prev with
  | nil => rfl
  | cons c cs ih =>
    simp only [lastExit, List.foldl_cons, keyCmds, List.filter_cons]
    by_cases h : c.isExit = true
    · simp only [h, if_true, Bool.true_or, List.foldl_cons]
      exact ih _
    · have h' : c.isExit = false := by simpa using h
      by_cases hc : (c == Cmd.crash) = true
      · simp only [h', hc, Bool.false_or, if_true, List.foldl_cons, Bool.false_eq_true, if_false]
        exact ih _
      · simp only [h', hc, Bool.false_or, Bool.false_eq_true, if_false]
        exact ih _

/-! ### `_add_or_enqueue_event`, the queue drain -/

theorem addOrEnqueue_sim (att : Attempt) (step : Nat) {a b : StepState} (nw : Nat) (n n' : Int)
    (h : SimSS a b) :
    SimSS (addOrEnqueue att step a nw n).1 (addOrEnqueue att step b nw n').1 ∧
      (addOrEnqueue att step a nw n).2 = (addOrEnqueue att step b nw n').2 := by
  unfold addOrEnqueue
  rw [h.length, h.freeIds nw]
  split
  · cases hf : freeIds b nw with
    | nil => exact ⟨h, rfl⟩
    | cons id rest =>
      refine ⟨⟨h.queue, h.collected, h.waiters, ?_⟩, rfl⟩
      simp only [List.map_append, List.map_cons, List.map_nil, h.inProg]
      simp [eraseIP, h.collected, h.waiters]
  · refine ⟨⟨?_, h.collected, h.waiters, h.inProg⟩, rfl⟩
    simp [h.queue]

theorem drain_sim (step nw : Nat) (n n' : Int) : ∀ (fuel : Nat) {a b : StepState}, SimSS a b →
    SimSS (drain step nw n fuel a).1 (drain step nw n' fuel b).1 ∧
      (drain step nw n fuel a).2 = (drain step nw n' fuel b).2
  | 0, a, b, h => ⟨h, rfl⟩
  | fuel + 1, a, b, h => by
    unfold drain
    rw [← h.queue]
    cases hq : a.queue with
    | nil => exact ⟨h, rfl⟩
    | cons x q =>
      simp only
      rw [h.length]
      split
      · have hs : SimSS { a with queue := q } { b with queue := q } := ⟨rfl, h.collected, h.waiters, h.inProg⟩
        have h1 := addOrEnqueue_sim x step nw n n' hs
        have h2 := drain_sim step nw n n' fuel h1.1
        exact ⟨h2.1, by rw [h1.2, h2.2]⟩
      · exact ⟨h, rfl⟩

/-! ### `_process_add_event_tick` -/

theorem resolveLoop_sim (ev : Ev) (step nw : Nat) (n n' : Int) :
    ∀ (rest done : List Waiter) {a b : StepState} (cmds : List Cmd) (hd : Bool), SimSS a b →
      SimSS (resolveLoop ev step nw n done rest a cmds hd).1 (resolveLoop ev step nw n' done rest b cmds hd).1 ∧
      (resolveLoop ev step nw n done rest a cmds hd).2 = (resolveLoop ev step nw n' done rest b cmds hd).2
  | [], done, a, b, cmds, hd, h => by
    simp only [resolveLoop]
    exact ⟨⟨h.queue, h.collected, rfl, h.inProg⟩, trivial⟩
  | w :: rest, done, a, b, cmds, hd, h => by
    simp only [resolveLoop]
    split
    · have hs : SimSS { a with waiters := done ++ { w with resolved := some ev } :: rest }
          { b with waiters := done ++ { w with resolved := some ev } :: rest } :=
        ⟨h.queue, h.collected, rfl, h.inProg⟩
      have h1 := addOrEnqueue_sim { ev := w.ev } step nw n n' hs
      rw [h1.2]
      exact resolveLoop_sim ev step nw n n' rest _ _ _ h1.1
    · exact resolveLoop_sim ev step nw n n' rest _ _ _ h

/-- agreement of two `AddAcc`s -/
structure SimAdd (x y : AddAcc) : Prop where
  st : SimSt x.st y.st
  cmds : x.cmds = y.cmds
  handled : x.handled = y.handled
  woken : x.woken = y.woken

theorem addEventWaiters_sim (cfg : Cfg) (ev : Ev) (target : Option Nat) (n n' : Int) :
    ∀ (steps : List StepCfg) {x y : AddAcc}, SimAdd x y →
      SimAdd (addEventWaiters cfg ev target n steps x) (addEventWaiters cfg ev target n' steps y)
  | [], x, y, h => by simpa [addEventWaiters] using h
  | c :: cs, x, y, h => by
    simp only [addEventWaiters]
    split
    · exact addEventWaiters_sim cfg ev target n n' cs h
    · have hw := h.st.workers c.name
      have h1 := resolveLoop_sim ev c.name c.numWorkers n n' (x.st.workers c.name).waiters [] [] false hw
      rw [← hw.waiters]
      apply addEventWaiters_sim cfg ev target n n' cs
      rw [← h1.2]
      split
      · exact ⟨h.st.set c.name h1.1, by rw [h.cmds], rfl, by rw [h.woken]⟩
      · exact h

theorem addEventRoute_sim (att : Attempt) (target : Option Nat) (n n' : Int) :
    ∀ (steps : List StepCfg) {x y : AddAcc}, SimAdd x y →
      SimAdd (addEventRoute att target n steps x) (addEventRoute att target n' steps y)
  | [], x, y, h => by simpa [addEventRoute] using h
  | c :: cs, x, y, h => by
    simp only [addEventRoute]
    rw [← h.woken]
    split
    · exact addEventRoute_sim att target n n' cs h
    · split
      · have h1 := addOrEnqueue_sim att c.name c.numWorkers n n' (h.st.workers c.name)
        apply addEventRoute_sim att target n n' cs
        exact ⟨h.st.set c.name h1.1, by rw [h.cmds, h1.2], rfl, rfl⟩
      · exact addEventRoute_sim att target n n' cs h

theorem stepQuiet_sim {a b : StepState} (h : SimSS a b) : stepQuiet a = stepQuiet b := by
  simp [stepQuiet, h.queue, h.isEmpty]

theorem checkIdle_sim (cfg : Cfg) {a b : State} (h : SimSt a b) : checkIdle cfg a = checkIdle cfg b := by
  unfold checkIdle
  rw [h.running]
  congr 1
  apply List.all_congr rfl
  intro s
  exact stepQuiet_sim (h.workers s)

theorem addEventStart_sim (att : Attempt) {a b : State} (h : SimSt a b) :
    SimSt (addEventStart att a) (addEventStart att b) := by
  unfold addEventStart
  split
  · exact ⟨rfl, h.workers⟩
  · exact h

theorem processAddEvent_sim (cfg : Cfg) (att : Attempt) (target : Option Nat) {a b : State} (n n' : Int)
    (h : SimSt a b) :
    SimSt (processAddEvent cfg att target a n).1 (processAddEvent cfg att target b n').1 ∧
      (processAddEvent cfg att target a n).2 = (processAddEvent cfg att target b n').2 := by
  unfold processAddEvent
  have h0 : SimAdd { st := addEventStart att a } { st := addEventStart att b } :=
    ⟨addEventStart_sim att h, rfl, rfl, rfl⟩
  have h1 := addEventWaiters_sim cfg att.ev target n n' cfg.steps h0
  have h2 := addEventRoute_sim att target n n' cfg.steps h1
  refine ⟨h2.st, ?_⟩
  simp only
  rw [h2.cmds]
  congr 1
  unfold unhandledCmds
  rw [h2.handled, checkIdle_sim cfg h2.st]

/-! ### `_process_step_result_tick` -/

structure SimAcc (x y : ResAcc) : Prop where
  st : SimSt x.st y.st
  cmds : keyCmds x.cmds = keyCmds y.cmds
  out : x.out = y.out
  still : x.stillInProgress = y.stillInProgress
  exec : eraseIP x.exec = eraseIP y.exec

theorem SimAcc.rc {x y : ResAcc} (h : SimAcc x y) : x.exec.rc = y.exec.rc := by
  have := congrArg InProg.rc h.exec
  exact this
theorem SimAcc.attempts {x y : ResAcc} (h : SimAcc x y) : x.exec.attempts = y.exec.attempts :=
  by
  have := congrArg InProg.attempts h.exec
  exact this
theorem SimAcc.snapEvents {x y : ResAcc} (h : SimAcc x y) : x.exec.snapEvents = y.exec.snapEvents :=
  by
  have := congrArg InProg.snapEvents h.exec
  exact this
theorem SimAcc.wid {x y : ResAcc} (h : SimAcc x y) : x.exec.wid = y.exec.wid := by
  have := congrArg InProg.wid h.exec
  exact this
theorem SimAcc.ev {x y : ResAcc} (h : SimAcc x y) : x.exec.ev = y.exec.ev := by
  have := congrArg InProg.ev h.exec
  exact this

theorem retryDecision_timeFree (cfg : Cfg) {pol : Policy} (hpol : TimeFree pol) (step : Nat) (e e' : Int)
    (f x : Nat) : retryDecision cfg pol step e f x = retryDecision cfg pol step e' f x := by
  unfold retryDecision
  split
  · split
    · exact hpol _ _ _ _ _
    · rfl
  · rfl

theorem clearAll_sim {a b : State} (h : SimSt a b) :
    SimSt (clearAll { a with isRunning := false }) (clearAll { b with isRunning := false }) :=
  ⟨rfl, fun n => ⟨(h.workers n).queue, rfl, rfl, (h.workers n).inProg⟩⟩

theorem keyCmds_snoc_plain (l : List Cmd) (c : Cmd) (h : (c.isExit || c == Cmd.crash) = false) :
    keyCmds (l ++ [c]) = keyCmds l := by
  simp [keyCmds, h]

theorem applyRes_sim (cfg : Cfg) {pol : Policy} (hpol : TimeFree pol) (step : Nat) (tickEv : Ev) (dc : Bool)
    {x y : ResAcc} (h : SimAcc x y) (r : Res) :
    SimAcc (applyRes cfg pol step tickEv dc x r) (applyRes cfg pol step tickEv dc y r) := by
  cases r with
  | result r =>
    cases r with
    | none => exact ⟨h.st, h.cmds, rfl, h.still, h.exec⟩
    | some ev =>
      by_cases hk : ev.kind = .stop
      · simp only [applyRes, hk, if_true]
        exact ⟨clearAll_sim h.st, by simp only [keyCmds_append, h.cmds], rfl, h.still, h.exec⟩
      · simp only [applyRes, hk, if_false]
        refine ⟨h.st, ?_, rfl, h.still, h.exec⟩
        simp only [keyCmds_append, h.cmds, h.rc]
  | failed exc failedAt =>
    simp only [applyRes]
    rw [retryDecision_timeFree cfg hpol step (failedAt - y.exec.firstAt) (failedAt - x.exec.firstAt), ← h.attempts]
    generalize retryDecision cfg pol step (failedAt - x.exec.firstAt) (x.exec.attempts + 1) exc = dec
    cases dec with
    | retry d =>
      simp only
      exact ⟨h.st, by (simp only [keyCmds_append, h.cmds]; simp [keyCmds, Cmd.isExit]), h.out, h.still, h.exec⟩
    | raise =>
      simp only
      exact ⟨h.st, by simp [keyCmds_append, h.cmds], h.out, h.still, h.exec⟩
    | stop =>
      simp only
      cases handlerOwner cfg step with
      | none =>
        simp only
        exact ⟨⟨rfl, h.st.workers⟩, by (simp only [keyCmds_append, h.cmds]; simp [keyCmds, Cmd.isExit]), h.out, h.still, h.exec⟩
      | some hm =>
        obtain ⟨hh, maxRec⟩ := hm
        simp only
        rw [← h.rc]
        split
        · exact ⟨h.st, by (simp only [keyCmds_append, h.cmds]; simp [keyCmds, Cmd.isExit]), h.out, h.still, h.exec⟩
        · exact ⟨⟨rfl, h.st.workers⟩, by (simp only [keyCmds_append, h.cmds]; simp [keyCmds, Cmd.isExit]), h.out, h.still, h.exec⟩
  | addCollected buf ev =>
    simp only [applyRes]
    have hw := h.st.workers step
    rw [← hw.collected, ← h.snapEvents, ← h.still]
    split
    · exact h
    split
    · refine ⟨h.st.set step ⟨hw.queue, rfl, hw.waiters, hw.inProg⟩, ?_, h.out, rfl, ?_⟩
      · simp only [keyCmds_append, h.cmds, h.wid]
      · have := h.exec
        simp only [eraseIP] at this ⊢
        cases hx : x.exec; cases hy : y.exec
        rw [hx, hy] at this
        simp_all
    · exact ⟨h.st.set step ⟨hw.queue, rfl, hw.waiters, hw.inProg⟩, h.cmds, h.out, rfl, h.exec⟩
  | deleteCollected buf =>
    simp only [applyRes]
    split
    · have hw := h.st.workers step
      exact ⟨h.st.set step ⟨hw.queue, by rw [hw.collected], hw.waiters, hw.inProg⟩, h.cmds, h.out, h.still, h.exec⟩
    · exact h
  | addWaiter wid waiterEv req timeout ty =>
    simp only [applyRes]
    have hw := h.st.workers step
    rw [← hw.waiters, ← h.ev]
    split
    · exact ⟨h.st.set step ⟨hw.queue, hw.collected, rfl, hw.inProg⟩, h.cmds, h.out, h.still, h.exec⟩
    · refine ⟨h.st.set step ⟨hw.queue, hw.collected, rfl, hw.inProg⟩, ?_, h.out, h.still, h.exec⟩
      simp only [keyCmds_append, h.cmds]
  | deleteWaiter wid =>
    simp only [applyRes]
    split
    · have hw := h.st.workers step
      exact ⟨h.st.set step ⟨hw.queue, hw.collected, by rw [hw.waiters], hw.inProg⟩, h.cmds, h.out, h.still, h.exec⟩
    · exact h

theorem foldl_applyRes_sim (cfg : Cfg) {pol : Policy} (hpol : TimeFree pol) (step : Nat) (tickEv : Ev) (dc : Bool) :
    ∀ (res : List Res) {x y : ResAcc}, SimAcc x y →
      SimAcc (res.foldl (applyRes cfg pol step tickEv dc) x) (res.foldl (applyRes cfg pol step tickEv dc) y)
  | [], x, y, h => by simpa using h
  | r :: rs, x, y, h => by
    simp only [List.foldl_cons]
    exact foldl_applyRes_sim cfg hpol step tickEv dc rs (applyRes_sim cfg hpol step tickEv dc h r)

theorem eraseIP_wid (ip : InProg) : (eraseIP ip).wid = ip.wid := rfl

theorem map_erase_modifyFirst (k : Nat) (e : InProg) : ∀ (l : List InProg),
    (modifyFirst (fun w => w.wid == k) (fun _ => e) l).map eraseIP =
      modifyFirst (fun w => w.wid == k) (fun _ => eraseIP e) (l.map eraseIP)
  | [] => rfl
  | w :: ws => by
    simp only [modifyFirst, List.map_cons, eraseIP_wid]
    by_cases hk : (w.wid == k) = true
    · simp only [hk, if_true, List.map_cons]
    · simp only [hk, if_false, List.map_cons, map_erase_modifyFirst k e ws, Bool.false_eq_true]

theorem map_erase_eraseP (k : Nat) : ∀ (l : List InProg),
    (l.eraseP (fun w => w.wid == k)).map eraseIP = (l.map eraseIP).eraseP (fun w => w.wid == k)
  | [] => rfl
  | w :: ws => by
    simp only [List.eraseP_cons, List.map_cons, eraseIP_wid]
    cases hk : (w.wid == k)
    · simp only [cond_false, List.map_cons, map_erase_eraseP k ws]
    · simp only [cond_true]

theorem find_erase (k : Nat) : ∀ (l : List InProg),
    (l.find? (fun w => w.wid == k)).map eraseIP = (l.map eraseIP).find? (fun w => w.wid == k)
  | [] => rfl
  | w :: ws => by
    simp only [List.find?_cons, List.map_cons, eraseIP_wid]
    split
    · rfl
    · exact find_erase k ws

theorem settle_sim {x y : ResAcc} (h : SimAcc x y) (step worker : Nat) (tickEv : Ev) :
    SimSS (settle x step worker tickEv).1 (settle y step worker tickEv).1 ∧
      keyCmds (settle x step worker tickEv).2 = keyCmds (settle y step worker tickEv).2 := by
  unfold settle
  have hw := h.st.workers step
  simp only
  rw [← h.still]
  split
  · refine ⟨⟨hw.queue, hw.collected, hw.waiters, ?_⟩, h.cmds⟩
    simp only [map_erase_modifyFirst, hw.inProg, h.exec]
  · refine ⟨⟨hw.queue, hw.collected, hw.waiters, ?_⟩, ?_⟩
    · simp only [map_erase_eraseP, hw.inProg]
    · rw [← h.out]
      have e : ∀ (l : List Cmd) (c : Cmd), (c.isExit || c == Cmd.crash) = false → keyCmds (c :: l) = keyCmds l := by
        intro l c hc; simp [keyCmds, hc]
      rw [e _ _ (by simp [Cmd.isExit]), e _ _ (by simp [Cmd.isExit])]
      exact h.cmds

theorem processStepResult_sim (cfg : Cfg) {pol : Policy} (hpol : TimeFree pol) (step worker : Nat) (tickEv : Ev)
    (res : List Res) {a b : State} (n n' : Int) (h : SimSt a b) :
    SimSt (processStepResult cfg pol step worker tickEv res a n).1
        (processStepResult cfg pol step worker tickEv res b n').1 ∧
      keyCmds (processStepResult cfg pol step worker tickEv res a n).2 =
        keyCmds (processStepResult cfg pol step worker tickEv res b n').2 := by
  unfold processStepResult
  split
  · exact ⟨h, rfl⟩
  · have hw := h.workers step
    have hf := find_erase worker (a.workers step).inProg
    rw [hw.inProg, ← find_erase worker (b.workers step).inProg] at hf
    cases ha : (a.workers step).inProg.find? (fun w => w.wid == worker) with
    | none =>
      rw [ha] at hf
      cases hb : (b.workers step).inProg.find? (fun w => w.wid == worker) with
      | none => exact ⟨h, rfl⟩
      | some eb => rw [hb] at hf; simp at hf
    | some ea =>
      rw [ha] at hf
      cases hb : (b.workers step).inProg.find? (fun w => w.wid == worker) with
      | none => rw [hb] at hf; simp at hf
      | some eb =>
        rw [hb] at hf
        have he : eraseIP ea = eraseIP eb := by simpa using hf
        simp only
        have h0 : SimAcc { st := a, exec := ea } { st := b, exec := eb } := ⟨h, rfl, rfl, rfl, he⟩
        have hacc := foldl_applyRes_sim cfg hpol step tickEv (res.any isResult) res h0
        generalize res.foldl (applyRes cfg pol step tickEv (res.any isResult)) { st := a, exec := ea } = xa at hacc
        generalize res.foldl (applyRes cfg pol step tickEv (res.any isResult)) { st := b, exec := eb } = xb at hacc
        have hs := settle_sim hacc step worker tickEv
        rw [any_isExit_key xa.cmds, any_isExit_key xb.cmds, hacc.cmds]
        split
        · exact ⟨hacc.st.set step hs.1, hs.2⟩
        · have hq : (settle xa step worker tickEv).1.queue.length = (settle xb step worker tickEv).1.queue.length := by
            rw [hs.1.queue]
          rw [hq]
          have hd := drain_sim step (cfg.nw step) n n' (settle xb step worker tickEv).1.queue.length hs.1
          exact ⟨hacc.st.set step hd.1, by rw [keyCmds_append, keyCmds_append, hs.2, hd.2]⟩

theorem processWaiterTimeout_sim (cfg : Cfg) (step waiter : Nat) {a b : State} (n n' : Int) (h : SimSt a b) :
    SimSt (processWaiterTimeout cfg step waiter a n).1 (processWaiterTimeout cfg step waiter b n').1 ∧
      (processWaiterTimeout cfg step waiter a n).2 = (processWaiterTimeout cfg step waiter b n').2 := by
  unfold processWaiterTimeout
  split
  · exact ⟨h, rfl⟩
  · have hw := h.workers step
    simp only
    rw [← hw.waiters]
    cases (a.workers step).waiters.find? (fun w => w.wid == waiter) with
    | none => exact ⟨h, rfl⟩
    | some w =>
      simp only
      split
      · exact ⟨h, rfl⟩
      · have hs : SimSS
            { a.workers step with waiters := modifyFirst (fun x => x.wid == waiter) (fun x => { x with timedOut := true }) (a.workers step).waiters }
            { b.workers step with waiters := modifyFirst (fun x => x.wid == waiter) (fun x => { x with timedOut := true }) (a.workers step).waiters } :=
          ⟨hw.queue, hw.collected, rfl, hw.inProg⟩
        have h1 := addOrEnqueue_sim { ev := w.ev } step (cfg.nw step) n n' hs
        exact ⟨h.set step h1.1, h1.2⟩

/-- **time erasure of `_reduce_tick`** -/
theorem reduce_sim (cfg : Cfg) {pol : Policy} (hpol : TimeFree pol) (t : Tick) {a b : State} (n n' : Int)
    (h : SimSt a b) :
    SimSt (reduce cfg pol t a n).1 (reduce cfg pol t b n').1 ∧
      keyCmds (reduce cfg pol t a n).2 = keyCmds (reduce cfg pol t b n').2 := by
  have withIdle : ∀ (ra rb : State × List Cmd), SimSt ra.1 rb.1 → keyCmds ra.2 = keyCmds rb.2 →
      SimSt (if checkIdle cfg ra.1 then (ra.1, ra.2 ++ [Cmd.scheduleIdleCheck]) else ra).1
          (if checkIdle cfg rb.1 then (rb.1, rb.2 ++ [Cmd.scheduleIdleCheck]) else rb).1 ∧
        keyCmds (if checkIdle cfg ra.1 then (ra.1, ra.2 ++ [Cmd.scheduleIdleCheck]) else ra).2 =
          keyCmds (if checkIdle cfg rb.1 then (rb.1, rb.2 ++ [Cmd.scheduleIdleCheck]) else rb).2 := by
    intro ra rb hs hc
    rw [checkIdle_sim cfg hs]
    split
    · exact ⟨hs, by rw [keyCmds_append, keyCmds_append, hc]⟩
    · exact ⟨hs, hc⟩
  unfold reduce
  cases t with
  | stepResult step worker ev res =>
    have := processStepResult_sim cfg hpol step worker ev res n n' h
    exact withIdle _ _ this.1 this.2
  | addEvent att target =>
    have := processAddEvent_sim cfg att target n n' h
    exact withIdle _ _ this.1 (by rw [this.2])
  | cancelRun => exact withIdle (a, _) (b, _) h rfl
  | idleRelease => exact ⟨h, rfl⟩
  | publish ev => exact withIdle (a, _) (b, _) h rfl
  | timeout t =>
    refine withIdle ({ a with isRunning := false }, _) ({ b with isRunning := false }, _) ⟨rfl, h.workers⟩ ?_
    simp [keyCmds, Cmd.isExit]
  | waiterTimeout step waiter =>
    have := processWaiterTimeout_sim cfg step waiter n n' h
    exact withIdle _ _ this.1 (by rw [this.2])
  | idleCheck =>
    simp only
    rw [checkIdle_sim cfg h]
    split
    · exact ⟨h, rfl⟩
    · exact ⟨h, rfl⟩

end Engine
