"""Shared machinery of the state-store checks (C19, C20): value encoding for the
`statestore` driver, typed models, real store factories (in-memory and SQLite set up
the way the server does it), the executor that applies one operation to a real store
and canonicalises what it returned, an independent nested-dict reference (`PySpec`)
and the seeded generators."""
from __future__ import annotations

import copy
import os
import shutil
import tempfile
from typing import Any

from .boot import boot

boot()

from pydantic import BaseModel  # noqa: E402
from workflows.context.state_store import MAX_DEPTH, DictState, InMemoryStateStore  # noqa: E402

from . import ss_models  # noqa: E402
from .ss_models import CHAIN, Other  # noqa: E402

NODEF = "<nodefault>"
MISSING = object()


class BodyError(Exception):
    """raised on purpose by scripted edit_state bodies"""


# --------------------------------------------------------------------------
# encoding


def cps(s: str) -> str:
    return ",".join(str(ord(c)) for c in s)


def enc(v: Any) -> str:
    if v is None:
        return "n"
    if v is True:
        return "T"
    if v is False:
        return "F"
    if type(v) is int:
        return f"i{v}"
    if type(v) is float:
        return "d" + cps(repr(v))
    if type(v) is str:
        return "s" + cps(v)
    if type(v) is list:
        return " ".join([f"a{len(v)}"] + [enc(x) for x in v])
    if type(v) is dict:
        parts = [f"o{len(v)}"]
        for k, x in v.items():
            parts.append(("k" + cps(k)) if type(k) is str else f"x{type(k).__name__}:{k!r}".replace(" ", "_").replace("|", "_"))
            parts.append(enc(x))
        return " ".join(parts)
    return "x" + type(v).__name__  # not a JSON value (bound method, model, tuple ...)


def kind_of_model(cls: type) -> str:
    if cls is DictState:
        return "dict"
    if cls in CHAIN:
        return f"typed:{CHAIN.index(cls)}"
    return "other"


def state_obj(st: Any) -> dict:
    if isinstance(st, DictState):
        return dict(st.items())
    return {f: getattr(st, f) for f in type(st).model_fields}


def canon_state(st: Any) -> str:
    return f"state {kind_of_model(type(st))} {enc(state_obj(st))}"


def canon_ret(r: Any) -> str:
    if isinstance(r, BaseModel):
        return canon_state(r)
    return "val " + enc(r)


def schema_levels() -> list[list[tuple[str, Any]]]:
    out = []
    seen: set[str] = set()
    for cls in CHAIN:
        inst = cls()
        lvl = [(f, getattr(inst, f)) for f in cls.model_fields if f not in seen]
        seen |= {f for f, _ in lvl}
        out.append(lvl)
    return out


def schema_enc() -> str:
    lv = schema_levels()
    return " ".join([f"a{len(lv)}"] + [enc(dict(l)) for l in lv])


def fields_of(level: int) -> list[tuple[str, Any]]:
    return [kv for l in schema_levels()[: level + 1] for kv in l]


def kind_level(kind: str) -> int | None:
    return int(kind.split(":")[1]) if kind.startswith("typed:") else None


def defaults_of(kind: str) -> dict:
    lv = kind_level(kind)
    return {} if lv is None else {k: copy.deepcopy(v) for k, v in fields_of(lv)}


# field annotations the generators must respect (pydantic re-validates on every SQLite load)
FIELD_TYPES = {"cnt": int, "tags": list, "meta": dict, "label": str}


def model_of(kind: str) -> type:
    lv = kind_level(kind)
    return DictState if lv is None else CHAIN[lv]


def inc_class(kind: str, ity: str) -> type:
    """class of the instance handed to set_state"""
    lv = kind_level(kind)
    if ity == "same":
        return model_of(kind)
    if ity == "dict":
        return DictState
    if ity.startswith("anc:"):
        k = int(ity.split(":")[1])
        if lv is not None and k < lv:
            return CHAIN[lv - 1 - k]
        return Other
    return Other


def make_instance(kind: str, ity: str, data: dict) -> Any:
    cls = inc_class(kind, ity)
    if cls is Other:
        return Other()
    # fields whose value is the class default are left *unset* (the same state as far as the stores' semantics
    # go): a merge that only looks at explicitly set fields (model_dump(exclude_unset=True)) is then visible
    kwargs = {}
    for k, v in copy.deepcopy(data).items():
        f = getattr(cls, "model_fields", {}).get(k)
        if f is not None:
            try:
                dv = f.get_default(call_default_factory=True)
            except Exception:  # noqa: BLE001
                dv = object()
            if type(dv) is type(v) and enc(dv) == enc(v):  # not `==`: False == 0 and 1 == 1.0 in Python
                continue
        kwargs[k] = v
    return cls(**kwargs)


# --------------------------------------------------------------------------
# operations <-> driver lines.  Ops are JSON-friendly lists.


def mut_json(m: list) -> list:
    return list(m)


def op_line(op: list) -> str:
    k = op[0]
    if k == "get":
        return f"get|{cps(op[1])}|{'-' if op[2] == NODEF else enc(op[2])}"
    if k == "set":
        return f"set|{cps(op[1])}|{enc(op[2])}"
    if k == "getstate":
        return "getstate"
    if k == "setstate":
        return f"setstate|{op[1]}|{enc(op[2])}"
    if k == "clear":
        return "clear"
    if k == "edit":
        return f"edit|{enc([mut_json(m) for m in op[1]])}"
    if k == "mutsnap":
        return f"mutsnap|{cps(op[1])}|{enc(op[2])}"
    if k == "writeback":
        return "writeback"
    if k == "raw":
        return op[1]
    if k == "persist":  # C19: the store object is replaced by one restored from its serialized payload (harness/c19_hist.py)
        return f"persist|{op[1]}"
    return "?"


def cop_line(op: list) -> str:
    k = op[0]
    if k == "set":
        return f"ctask|set|{cps(op[1])}|{enc(op[2])}"
    if k == "setstate":
        return f"ctask|setstate|{op[1]}|{enc(op[2])}"
    if k == "clear":
        return "ctask|clear"
    if k == "edit":
        return f"ctask|edit|{enc([[mut_json(m) for m in ch] for ch in op[1]])}"
    return "ctask|?"


def cop_to_op(op: list) -> list:
    if op[0] == "edit":
        return ["edit", [m for ch in op[1] for m in ch]]
    return op


# --------------------------------------------------------------------------
# scripted user code on a state object (edit_state body, snapshot mutation)


def read_top(st: Any, k: str) -> Any:
    if isinstance(st, DictState):
        return st.get(k, MISSING)
    return getattr(st, k)


def write_top(st: Any, k: str, v: Any) -> None:
    if isinstance(st, DictState):
        st[k] = v
    else:
        setattr(st, k, v)


def apply_mut(st: Any, m: list) -> None:
    t = m[0]
    if t == "K":
        write_top(st, m[1], copy.deepcopy(m[2]))
    elif t == "I":
        cur = read_top(st, m[1])
        write_top(st, m[1], cur + m[2] if type(cur) is int else m[2])
    elif t == "A":
        cur = read_top(st, m[1])
        if type(cur) is list:
            cur.append(copy.deepcopy(m[2]))
        else:
            write_top(st, m[1], [copy.deepcopy(m[2])])
    elif t == "D":
        if isinstance(st, DictState):
            st.to_dict().pop(m[1], None)
        else:
            raise BodyError("no deletion on typed state")
    elif t == "R":
        raise BodyError("scripted")
    else:
        raise RuntimeError(f"unknown mutation {m!r}")


# --------------------------------------------------------------------------
# real stores


class SqlEnv:
    """One SQLite database set up the way the server does it (SqliteWorkflowStore runs the
    migrations), state stores obtained through SqliteWorkflowStore.create_state_store."""

    def __init__(self) -> None:
        import importlib

        # tmpfs when there is one: every write op commits (fsync) through a fresh connection
        base = "/dev/shm" if os.path.isdir("/dev/shm") and os.access("/dev/shm", os.W_OK) else None
        self.dir = tempfile.mkdtemp(prefix="verif_ss_", dir=base)
        self.path = os.path.join(self.dir, "state.db")
        mod = importlib.import_module("llama_agents.server._store.sqlite.sqlite_workflow_store")
        self.ws = mod.SqliteWorkflowStore(self.path)
        self.n = 0
        # one connection of the harness stays open: the stores' per-call connections are then never the last
        # one to close (which checkpoints and deletes the WAL file on every single close)
        import sqlite3

        self.keep = sqlite3.connect(self.path, timeout=30.0)
        self.keep.execute("SELECT count(*) FROM workflow_state").fetchall()

    def store(self, kind: str) -> Any:
        self.n += 1
        return self.ws.create_state_store(f"run-{self.n}", state_type=model_of(kind))

    def raw_row(self, run_id: str) -> Any:
        rows = self.keep.execute("SELECT state_json, state_type FROM workflow_state WHERE run_id = ?", (run_id,)).fetchall()
        return rows[0] if rows else None

    def close(self) -> None:
        try:
            self.keep.close()
        except Exception:  # noqa: BLE001
            pass
        shutil.rmtree(self.dir, ignore_errors=True)


def make_mem(kind: str) -> Any:
    return InMemoryStateStore(model_of(kind)())


_DRIVE_LOOP: Any = None


def drive_loop() -> Any:
    """the loop on which set-up / read-back / sequential store calls run when the caller has none of its own"""
    global _DRIVE_LOOP
    if _DRIVE_LOOP is None or _DRIVE_LOOP.is_closed():
        import atexit

        from .sloop import SLoop

        _DRIVE_LOOP = SLoop()
        atexit.register(_close_drive_loop)
    return _DRIVE_LOOP


def _close_drive_loop() -> None:
    global _DRIVE_LOOP
    if _DRIVE_LOOP is not None and not _DRIVE_LOOP.is_closed():
        _DRIVE_LOOP.discard_all()
        _DRIVE_LOOP.close()
    _DRIVE_LOOP = None


def drive(coro: Any, loop: Any = None, allow_time: bool = True) -> Any:
    """Run one store coroutine to its end as a real task on a scripted virtual-time event loop (`harness/sloop.py`):
    a running loop, `current_task()` and timers exist, as they do for any caller of the stores, so the harness does
    not depend on the store methods being await-free.  A coroutine that waits for a timer gets the virtual time it
    asks for; one that waits for something nobody will deliver (a lock that is held) raises `sloop.Suspended`
    (a RuntimeError).  `loop`: the caller's own SLoop when the store is (or will be) used by tasks of that loop
    (asyncio primitives bind to the loop they first wait on)."""
    return (loop if loop is not None else drive_loop()).drive(coro, allow_time=allow_time)


def err_name(e: BaseException) -> str:
    return "err:" + type(e).__name__


class Real:
    """applies ops to one real store; returns the canonical output line"""

    def __init__(self, store: Any, kind: str):
        self.store = store
        self.kind = kind
        self.held: Any = None      # the object get_state returned (top-level mutations go here ...)
        self.env: Any = None       # C19 `persist` ops: the SqlEnv a SQLite store lives in (set by the caller)
        self.held_val: Any = None  # ... and to this deep copy of it, which is what gets written back:
        #                            in memory the *nested* values of a snapshot are shared with the
        #                            store (shallow copy, as documented); the property is about the top level

    async def _edit(self, muts: list) -> None:
        async with self.store.edit_state() as st:
            for m in muts:
                apply_mut(st, m)

    async def ado(self, op: list) -> str:
        s = self.store
        k = op[0]
        try:
            if k == "get":
                r = await (s.get(op[1]) if op[2] == NODEF else s.get(op[1], copy.deepcopy(op[2])))
                return canon_ret(r)
            if k == "set":
                r = await s.set(op[1], copy.deepcopy(op[2]))
                return "none" if r is None else "ret:" + repr(r)
            if k == "getstate":
                st = await s.get_state()
                self.held = st
                self.held_val = copy.deepcopy(st)
                return canon_state(st)
            if k == "setstate":
                r = await s.set_state(make_instance(self.kind, op[1], op[2]))
                return "none" if r is None else "ret:" + repr(r)
            if k == "clear":
                r = await s.clear()
                return "none" if r is None else "ret:" + repr(r)
            if k == "edit":
                await self._edit(op[1])
                return "none"
            if k == "mutsnap":
                if self.held is None:
                    return "no-snapshot"
                write_top(self.held, op[1], copy.deepcopy(op[2]))
                write_top(self.held_val, op[1], copy.deepcopy(op[2]))
                return "none"
            if k == "writeback":
                if self.held is None:
                    return "no-snapshot"
                h, self.held, self.held_val = self.held_val, None, None
                await s.set_state(h)
                return "none"
            if k == "persist":
                from .c19_hist import persist_real

                return await persist_real(self, op[1])
            return "bad-op"
        except Exception as e:  # noqa: BLE001 - the class name is the observation
            return err_name(e)

    def do(self, op: list) -> str:
        return drive(self.ado(op))

    def peek(self) -> tuple[str, dict]:
        st = drive(self.store.get_state())
        return kind_of_model(type(st)), copy.deepcopy(state_obj(st))


# --------------------------------------------------------------------------
# independent reference: a plain nested dict


def py_child(cur: Any, seg: str) -> Any:
    if isinstance(cur, dict):
        return cur.get(seg, MISSING)
    if isinstance(cur, (list, str)):
        try:
            i = int(seg)
        except ValueError:
            return MISSING
        try:
            return cur[i]
        except IndexError:
            return MISSING
    return MISSING


def py_put(cur: Any, seg: str, v: Any) -> None:
    if isinstance(cur, dict):
        cur[seg] = v
        return
    if isinstance(cur, list):
        try:
            i = int(seg)
            cur[i] = v
            return
        except (ValueError, IndexError):
            pass
    raise AttributeError(seg)


class PySpec:
    def __init__(self, kind: str, partial_on_raise: bool = False):
        self.kind = kind
        self.closed = kind != "dict"
        self.data: dict = defaults_of(kind)
        self.held: dict | None = None
        self.partial_on_raise = partial_on_raise

    def _state(self) -> str:
        return f"state {self.kind} {enc(self.data)}"

    def _root_put(self, root: dict, seg: str, v: Any) -> None:
        if self.closed and seg not in root:
            raise ValueError(seg)
        root[seg] = v

    def do(self, op: list) -> str:
        try:
            return self._do(op)
        except BodyError:
            return "err:BodyError"
        except ValueError:
            return "err:ValueError"
        except AttributeError:
            return "err:AttributeError"

    def _do(self, op: list) -> str:
        k = op[0]
        if k == "get":
            path, dflt = op[1], op[2]
            if path == "":
                return self._state()
            segs = path.split(".")
            if len(segs) > MAX_DEPTH:
                raise ValueError("depth")
            cur: Any = self.data
            for s in segs:
                cur = py_child(cur, s)
                if cur is MISSING:
                    if dflt == NODEF:
                        raise ValueError("missing")
                    return "val " + enc(dflt)
            return "val " + enc(cur)
        if k == "set":
            path = op[1]
            if path == "":
                raise ValueError("empty")
            segs = path.split(".")
            if len(segs) > MAX_DEPTH:
                raise ValueError("depth")
            new = copy.deepcopy(self.data)
            cur = new
            for s in segs[:-1]:
                nxt = py_child(cur, s)
                if nxt is MISSING:
                    nxt = {}
                    if cur is new:
                        self._root_put(new, s, nxt)
                    else:
                        py_put(cur, s, nxt)
                cur = nxt
            if cur is new:
                self._root_put(new, segs[-1], copy.deepcopy(op[2]))
            else:
                py_put(cur, segs[-1], copy.deepcopy(op[2]))
            self.data = new
            return "none"
        if k == "getstate":
            self.held = copy.deepcopy(self.data)
            return self._state()
        if k == "setstate":
            self._set_state(inc_class(self.kind, op[1]), op[2])
            return "none"
        if k == "clear":
            self.data = defaults_of(self.kind)
            return "none"
        if k == "edit":
            work = copy.deepcopy(self.data)
            try:
                for m in op[1]:
                    self._mut(work, m)
            except Exception:
                if self.partial_on_raise:
                    self.data = work
                raise
            self.data = work
            return "none"
        if k == "mutsnap":
            if self.held is None:
                return "no-snapshot"
            self._root_put(self.held, op[1], copy.deepcopy(op[2]))
            return "none"
        if k == "writeback":
            if self.held is None:
                return "no-snapshot"
            self.data, self.held = self.held, None
            return "none"
        if k == "persist":  # a persistence round trip changes nothing
            return "none"
        return "bad-op"

    def _set_state(self, cls: type, data: dict) -> None:
        mine = model_of(self.kind)
        if cls is mine:
            self.data = copy.deepcopy(data)
        elif cls is not Other and cls is not DictState and mine is not DictState and issubclass(mine, cls):
            for f in cls.model_fields:
                self.data[f] = copy.deepcopy(data[f])
        else:
            raise ValueError("type")

    def _mut(self, d: dict, m: list) -> None:
        t = m[0]
        if t == "K":
            self._root_put(d, m[1], copy.deepcopy(m[2]))
        elif t in ("I", "A"):
            if self.closed and m[1] not in d:
                raise AttributeError(m[1])
            cur = d.get(m[1], MISSING)
            if t == "I":
                d[m[1]] = cur + m[2] if type(cur) is int else m[2]
            elif type(cur) is list:
                cur.append(copy.deepcopy(m[2]))
            else:
                d[m[1]] = [copy.deepcopy(m[2])]
        elif t == "D":
            if self.closed:
                raise BodyError()
            d.pop(m[1], None)
        elif t == "R":
            raise BodyError()


# --------------------------------------------------------------------------
# generators (all randomness from the rng handed in)

# segment / key names: none of them is an attribute of list, str, int, float, bool, None, of a
# pydantic model or of DictState (such paths return bound methods, not JSON values)
PLAIN_KEYS = ["a", "b", "c", "k", "x_y", "cnt", "tags", "meta", "label", "zq", "é", "K2"]
DIGIT_KEYS = ["0", "1", "2", "-1", "-2", "01", "1_0", "+1", "10", " 1", "1 ", "-0", "3"]
ODD_KEYS = ["", "1_", "1__0", "+-1", "1a", " ", "0x1"]
ALL_KEYS = PLAIN_KEYS + DIGIT_KEYS + ODD_KEYS


def _assert_names_safe() -> None:
    probes: list[Any] = [[], "", 0, 0.5, True, None, {}, DictState(), CHAIN[-1](), Other()]
    for name in ALL_KEYS:
        if name.startswith("_"):
            # pydantic keeps `_x` names as private/plain instance attributes outside the model's fields
            raise RuntimeError(f"segment name {name!r} starts with an underscore")
        for p in probes:
            if isinstance(p, BaseModel) and not isinstance(p, DictState) and name in type(p).model_fields:
                continue
            try:
                ok = not hasattr(p, name)
            except Exception:
                ok = True
            if not ok:
                raise RuntimeError(f"segment name {name!r} is an attribute of {type(p).__name__}")


_assert_names_safe()


def gen_key(rng: Any, digits: float = 0.25, odd: float = 0.05) -> str:
    x = rng.random()
    if x < odd:
        return rng.choice(ODD_KEYS)
    if x < odd + digits:
        return rng.choice(DIGIT_KEYS)
    return rng.choice(PLAIN_KEYS)


def gen_scalar(rng: Any) -> Any:
    x = rng.randrange(12)
    if x == 0:
        return None
    if x == 1:
        return rng.random() < 0.5
    if x in (2, 3, 4):
        return rng.choice([0, 1, -1, 2, 7, 42, -13, 2 ** 40, -(2 ** 70), 10 ** 30])
    if x == 5:
        return rng.choice([0.5, -1.25, 3.0, 1e300, -0.0, 2.5e-7, 123456.789])
    if x in (6, 7, 8):
        return rng.choice(["", "x", "hello", "12", "a.b", "ünï", "with space", "0", " ", "q|r", "tab\there"])
    return rng.randrange(-5, 100)


def gen_value(rng: Any, depth: int = 2) -> Any:
    x = rng.random()
    if depth <= 0 or x < 0.5:
        return gen_scalar(rng)
    if x < 0.75:
        return [gen_value(rng, depth - 1) for _ in range(rng.randrange(0, 4))]
    d = {}
    for _ in range(rng.randrange(0, 4)):
        d[gen_key(rng)] = gen_value(rng, depth - 1)
    return d


def gen_field_value(rng: Any, field: str, depth: int = 2) -> Any:
    t = FIELD_TYPES.get(field)
    if t is int:
        return rng.choice([0, 1, -3, 99, 2 ** 45, rng.randrange(-50, 50)])
    if t is str:
        return rng.choice(["", "lab", "ü", "12", "x y"])
    if t is list:
        return [gen_value(rng, depth - 1) for _ in range(rng.randrange(0, 4))]
    if t is dict:
        return {gen_key(rng): gen_value(rng, depth - 1) for _ in range(rng.randrange(0, 3))}
    return gen_value(rng, depth)


def gen_path(rng: Any, data: dict, kind: str, for_set: bool) -> str:
    """mostly walks what exists, sometimes leaves it; digit segments with lists and strings"""
    n = rng.choice([1, 1, 2, 2, 2, 3, 3, 4, 5])
    segs: list[str] = []
    cur: Any = data
    for _ in range(n):
        seg = None
        if cur is not MISSING and isinstance(cur, dict) and cur and rng.random() < 0.12:
            # position-like segment on a dict: must be a (probably missing) key, never an index
            seg = str(rng.randrange(-1, len(cur) + 1))
        elif cur is not MISSING and rng.random() < 0.7:
            if isinstance(cur, dict) and cur:
                seg = rng.choice(list(cur.keys()))
            elif isinstance(cur, (list, str)) and len(cur) > 0:
                seg = str(rng.randrange(-len(cur) - 1, len(cur) + 1))
                if rng.random() < 0.1:
                    seg = rng.choice(["0", "00", "+0", "0_0", " 0", "-0"])
        if seg is None:
            seg = gen_key(rng)
        segs.append(seg)
        cur = py_child(cur, seg) if cur is not MISSING else MISSING
    return ".".join(segs)


def conforming_set_value(rng: Any, kind: str, path: str) -> Any:
    """a value for set(path, ·) that keeps declared field types intact"""
    segs = path.split(".")
    if kind != "dict" and len(segs) == 1 and segs[0] in FIELD_TYPES:
        return gen_field_value(rng, segs[0])
    if kind != "dict" and segs[0] == "label":
        return gen_field_value(rng, "label")
    return gen_value(rng)


def path_keeps_types(kind: str, path: str, data: dict) -> bool:
    """would set(path, <any value>) leave the annotated fields well-typed?  (a write *below* `cnt`
    or `label` fails anyway; a write below tags/meta keeps list/dict)"""
    return True


def gen_state_data(rng: Any, cls_kind: str) -> dict:
    lv = kind_level(cls_kind)
    if lv is None:
        return {gen_key(rng): gen_value(rng) for _ in range(rng.randrange(0, 4))}
    return {f: (gen_field_value(rng, f) if rng.random() < 0.7 else copy.deepcopy(dv)) for f, dv in fields_of(lv)}


def gen_mut(rng: Any, kind: str, data: dict, allow_raise: bool) -> list:
    lv = kind_level(kind)
    x = rng.random()
    if allow_raise and x < 0.08:
        return ["R"]
    if lv is None:
        key = rng.choice(list(data.keys())) if data and rng.random() < 0.6 else gen_key(rng)
        if x < 0.4:
            return ["K", key, gen_value(rng)]
        if x < 0.6:
            return ["I", key, rng.randrange(-3, 10)]
        if x < 0.8:
            return ["A", key, gen_value(rng, 1)]
        return ["D", key]
    fields = [f for f, _ in fields_of(lv)]
    if allow_raise and x < 0.16:
        return rng.choice([["K", "nofield", 1], ["I", "nofield", 1], ["D", "a"]])
    if x < 0.45:
        f = rng.choice(fields)
        return ["K", f, gen_field_value(rng, f)]
    if x < 0.75:
        f = rng.choice([f for f in fields if FIELD_TYPES.get(f) in (None, int)])
        return ["I", f, rng.randrange(-3, 10)]
    f = rng.choice([f for f in fields if FIELD_TYPES.get(f) in (None, list)])
    return ["A", f, gen_value(rng, 1)]


def gen_setstate(rng: Any, kind: str) -> list:
    lv = kind_level(kind)
    x = rng.random()
    if lv is None:
        if x < 0.8:
            return ["setstate", "same", gen_state_data(rng, "dict")]
        return ["setstate", rng.choice(["other", "anc:0"]), {}]
    if x < 0.45:
        return ["setstate", "same", gen_state_data(rng, kind)]
    if x < 0.8 and lv > 0:
        k = rng.randrange(0, lv)
        return ["setstate", f"anc:{k}", gen_state_data(rng, f"typed:{lv - 1 - k}")]
    if x < 0.9:
        return ["setstate", "dict", gen_state_data(rng, "dict")]
    return ["setstate", rng.choice(["other", f"anc:{lv}", f"anc:{lv + 3}"]), {}]


def _peek(data: Any, path: str) -> Any:
    cur = data
    for seg in path.split("."):
        if isinstance(cur, dict) and seg in cur:
            cur = cur[seg]
        elif isinstance(cur, list):
            try:
                cur = cur[int(seg)]
            except (ValueError, IndexError):
                return MISSING
        else:
            return MISSING
    return cur


def lookalike(rng: Any, v: Any) -> Any:
    """a JSON value that compares equal to `v` in Python without being the same JSON value"""
    if v is True:
        return rng.choice([1, 1.0])
    if v is False:
        return rng.choice([0, 0.0])
    if type(v) is int and abs(v) < 2 ** 50:
        return bool(v) if v in (0, 1) and rng.random() < 0.6 else float(v)
    if type(v) is float and v == int(v) and abs(v) < 2 ** 50:
        return int(v)
    if type(v) is list and v:
        i = rng.randrange(len(v))
        la = lookalike(rng, v[i])
        if la is not MISSING:
            return v[:i] + [la] + v[i + 1:]
    if type(v) is dict and v:
        k = rng.choice(list(v))
        la = lookalike(rng, v[k])
        if la is not MISSING:
            return {kk: (la if kk == k else copy.deepcopy(x)) for kk, x in v.items()}
    return MISSING


def gen_op(rng: Any, kind: str, data: dict, have_snap: bool, allow_raise: bool = False) -> list:
    x = rng.random()
    if x < 0.30:
        path = gen_path(rng, data, kind, False)
        dflt = NODEF if rng.random() < 0.3 else gen_scalar(rng)
        return ["get", path, dflt]
    if x < 0.60:
        path = gen_path(rng, data, kind, True)
        if rng.random() < 0.15 and (kind == "dict" or path.split(".")[0] == "a"):
            # overwrite with a value that is `==`-equal in Python but a different JSON value (1/True, 0/False, 2/2.0)
            la = lookalike(rng, _peek(data, path))
            if la is not MISSING:
                return ["set", path, la]
        return ["set", path, conforming_set_value(rng, kind, path)]
    if x < 0.66:
        return ["getstate"]
    if x < 0.76:
        return gen_setstate(rng, kind)
    if x < 0.80:
        return ["clear"]
    if x < 0.90:
        return ["edit", [gen_mut(rng, kind, data, allow_raise) for _ in range(rng.randrange(0, 4))]]
    if x < 0.96:
        return gen_op_mutsnap(rng, kind)
    return ["writeback"]


def gen_op_mutsnap(rng: Any, kind: str) -> list:
    if kind == "dict":
        return ["mutsnap", gen_key(rng), gen_value(rng, 1)]
    f = rng.choice([f for f, _ in fields_of(kind_level(kind))] + ["nofield"])
    return ["mutsnap", f, gen_field_value(rng, f)]


KINDS = ["dict", "typed:0", "typed:1", "typed:2"]
