"""Regenerate lean/WfModel/Generated.lean from /repo's current sources.

Every constant, table or small formula a theorem mentions is re-extracted here
(by `ast` or by parsing SQL) on every run, so the theorems are re-checked
against what the code says *now*.  When an expected shape is not found the
extractor emits a sentinel (0 / empty / "<missing>") and records a note; the
dependent theorem then fails to compile, which names what drifted.
"""
from __future__ import annotations

import ast
import os
import re
from typing import Any, Callable

from .boot import REPO, VERIF

OUT = os.path.join(VERIF, "lean", "WfModel", "Generated.lean")


def _parse(rel: str) -> ast.Module | None:
    try:
        return ast.parse(open(os.path.join(REPO, rel)).read())
    except (OSError, SyntaxError):
        return None


def _func(tree: ast.AST | None, name: str) -> ast.AST | None:
    if tree is None:
        return None
    for n in ast.walk(tree):
        if isinstance(n, (ast.FunctionDef, ast.AsyncFunctionDef, ast.ClassDef)) and n.name == name:
            return n
    return None


def _assign_const(fn: ast.AST | None, var: str) -> Any:
    if fn is None:
        return None
    for n in ast.walk(fn):
        if isinstance(n, ast.Assign) and len(n.targets) == 1 and isinstance(n.targets[0], ast.Name) and n.targets[0].id == var:
            if isinstance(n.value, ast.Constant):
                return n.value.value
        if isinstance(n, ast.AnnAssign) and isinstance(n.target, ast.Name) and n.target.id == var and isinstance(n.value, ast.Constant):
            return n.value.value
    return None


def lean_str(s: str) -> str:
    out = ['"']
    for ch in s:
        if ch == '"':
            out.append('\\"')
        elif ch == "\\":
            out.append("\\\\")
        elif ch == "\n":
            out.append("\\n")
        elif ch == "\t":
            out.append("\\t")
        elif 32 <= ord(ch) < 127:
            out.append(ch)
        else:
            out.append("\\u{%x}" % ord(ch))
    out.append('"')
    return "".join(out)


def lean_nat(v: Any, notes: list[str], what: str) -> str:
    if isinstance(v, bool) or not isinstance(v, int) or v < 0:
        notes.append(f"translate: could not extract {what} (got {v!r})")
        return "0"
    return str(v)


# --------------------------------------------------------------------------
# C32 — deployment ids


def gen_c32(notes: list[str]) -> list[str]:
    rel = "packages/llama-agents-control-plane/src/llama_agents/control_plane/k8s_client.py"
    tree = _parse(rel)
    find = _func(tree, "find_deployment_id")
    suf = _func(tree, "_append_random_suffix")
    subs: list[tuple[str, str]] = []
    prefix = None
    min_len = None
    min_op = None
    count_src = "<missing>"
    if find is not None:
        for n in ast.walk(find):
            if isinstance(n, ast.Call) and isinstance(n.func, ast.Attribute) and n.func.attr == "sub" and len(n.args) >= 2:
                a, b = n.args[0], n.args[1]
                if isinstance(a, ast.Constant) and isinstance(b, ast.Constant):
                    subs.append((a.value, b.value))
            if isinstance(n, ast.BinOp) and isinstance(n.op, ast.Add) and isinstance(n.left, ast.Constant) and isinstance(n.left.value, str):
                prefix = n.left.value
            if isinstance(n, ast.Compare) and len(n.comparators) == 1 and isinstance(n.comparators[0], ast.Constant) \
                    and isinstance(n.comparators[0].value, int):
                left = n.left
                if isinstance(left, ast.Name):
                    # resolve `x = len(re.findall(<pat>, name.lower()))`
                    var = left.id
                    for m in ast.walk(find):
                        if isinstance(m, ast.Assign) and isinstance(m.targets[0], ast.Name) and m.targets[0].id == var:
                            left = m.value
                            break
                src = ast.unparse(left)
                min_len = n.comparators[0].value
                min_op = type(n.ops[0]).__name__
                count_src = src
    subs.sort(key=lambda x: 0)  # keep source order (ast.walk is BFS; re-sort by position below)
    if find is not None:
        calls = [n for n in ast.walk(find) if isinstance(n, ast.Call) and isinstance(n.func, ast.Attribute) and n.func.attr == "sub"]
        calls.sort(key=lambda n: (n.lineno, n.col_offset))
        subs = [(c.args[0].value, c.args[1].value) for c in calls
                if len(c.args) >= 2 and isinstance(c.args[0], ast.Constant) and isinstance(c.args[1], ast.Constant)]
    alphabet = None
    alt = None
    if suf is not None:
        for n in ast.walk(suf):
            if isinstance(n, ast.Call) and isinstance(n.func, ast.Attribute) and n.func.attr == "choices" and n.args and isinstance(n.args[0], ast.Constant):
                alphabet = n.args[0].value
            if isinstance(n, ast.Call) and isinstance(n.func, ast.Attribute) and n.func.attr == "choice" and n.args and isinstance(n.args[0], ast.Constant):
                alt = n.args[0].value
    while len(subs) < 3:
        subs.append(("<missing>", "<missing>"))
        notes.append("translate: C32 expected three re.sub calls in find_deployment_id")
    dns = None
    t2 = _parse("packages/llama-agents-core/src/llama_agents/core/schema/deployments.py")
    if t2 is not None:
        for n in ast.walk(t2):
            if isinstance(n, ast.Assign) and isinstance(n.targets[0], ast.Name) and n.targets[0].id == "_DNS_1035_RE":
                if isinstance(n.value, ast.Call) and n.value.args and isinstance(n.value.args[0], ast.Constant):
                    dns = n.value.args[0].value
    L = ["namespace Gen.C32"]
    L.append(f"def maxLength : Nat := {lean_nat(_assign_const(find, 'max_length'), notes, 'C32 max_length')}")
    L.append(f"def randomness : Nat := {lean_nat(_assign_const(suf, 'randomness'), notes, 'C32 randomness')}")
    L.append(f"def minLength : Nat := {lean_nat(min_len, notes, 'C32 minimum length')}")
    L.append(f"def minLengthOp : String := {lean_str(str(min_op))}")
    L.append(f"def minCountExpr : String := {lean_str(count_src)}")
    for i, (pat, rep) in enumerate(subs[:3]):
        L.append(f"def subPattern{i} : String := {lean_str(pat)}")
        L.append(f"def subRepl{i} : String := {lean_str(rep)}")
    L.append(f"def numSubs : Nat := {len(subs)}")
    L.append(f"def digitPrefix : String := {lean_str(prefix if isinstance(prefix, str) else '<missing>')}")
    L.append(f"def hexAlphabet : String := {lean_str(alphabet if isinstance(alphabet, str) else '<missing>')}")
    L.append(f"def altAlphabet : String := {lean_str(alt if isinstance(alt, str) else '<missing>')}")
    L.append(f"def dnsRegex : String := {lean_str(dns if isinstance(dns, str) else '<missing>')}")
    L.append("end Gen.C32")
    return L



# --------------------------------------------------------------------------
# C05/C06/C07 — retry building blocks: the arithmetic/logic bodies are translated


class _Untranslatable(Exception):
    pass


def _py2lean(e: ast.AST, nat_names: set[str], int_names: set[str]) -> str:
    """Translate a small Python expression into a Lean term over Rat/Bool."""
    def T(x: ast.AST) -> str:
        return _py2lean(x, nat_names, int_names)

    if isinstance(e, ast.Constant):
        if isinstance(e.value, bool):
            return "true" if e.value else "false"
        if isinstance(e.value, (int, float)):
            if e.value != int(e.value):
                raise _Untranslatable(f"non-integral constant {e.value}")
            return f"({int(e.value)} : Rat)"
        raise _Untranslatable(ast.dump(e))
    if isinstance(e, ast.Attribute) and isinstance(e.value, ast.Name) and e.value.id == "self":
        return f"{e.attr}_"
    if isinstance(e, ast.Name):
        if e.id in nat_names:
            return f"({e.id} : Rat)"
        if e.id in int_names:
            return f"({e.id} : Rat)"
        return e.id
    if isinstance(e, ast.BinOp):
        if isinstance(e.op, ast.Pow):
            if isinstance(e.right, ast.Name) and e.right.id in nat_names:
                return f"({T(e.left)} ^ {e.right.id})"
            raise _Untranslatable("power with non-Nat exponent")
        op = {ast.Add: "+", ast.Sub: "-", ast.Mult: "*"}.get(type(e.op))
        if op is None:
            raise _Untranslatable(ast.dump(e.op))
        return f"({T(e.left)} {op} {T(e.right)})"
    if isinstance(e, ast.Compare) and len(e.ops) == 1:
        op = {ast.GtE: "≥", ast.LtE: "≤", ast.Gt: ">", ast.Lt: "<"}.get(type(e.ops[0]))
        if op is None:
            raise _Untranslatable(ast.dump(e.ops[0]))
        return f"decide ({T(e.left)} {op} {T(e.comparators[0])})"
    if isinstance(e, ast.Call):
        f = e.func
        if isinstance(f, ast.Name) and f.id in ("max", "min") and len(e.args) == 2:
            return f"({f.id} {T(e.args[0])} {T(e.args[1])})"
        if isinstance(f, ast.Attribute) and f.attr == "uniform" and len(e.args) == 2:
            a, b = T(e.args[0]), T(e.args[1])
            return f"({a} + u * ({b} - {a}))"
        if isinstance(f, ast.Name) and f.id == "_capped_exponential" and len(e.args) == 4:
            att = e.args[2]
            if not (isinstance(att, ast.Name) and att.id in nat_names):
                raise _Untranslatable("_capped_exponential attempts argument")
            return f"(cappedExponential {T(e.args[0])} {T(e.args[1])} {att.id} {T(e.args[3])})"
        if isinstance(f, ast.Name) and f.id in ("any", "all", "sum") and len(e.args) == 1 and isinstance(e.args[0], ast.GeneratorExp):
            g = e.args[0]
            if len(g.generators) != 1 or g.generators[0].ifs:
                raise _Untranslatable("generator shape")
            var = g.generators[0].target
            it = g.generators[0].iter
            if not (isinstance(var, ast.Name) and isinstance(it, ast.Attribute) and isinstance(it.value, ast.Name) and it.value.id == "self"):
                raise _Untranslatable("generator shape")
            body = g.elt
            if not (isinstance(body, ast.Call) and isinstance(body.func, ast.Name) and body.func.id == var.id):
                raise _Untranslatable("generator body")
            args = " ".join(a.id for a in body.args if isinstance(a, ast.Name))
            kws = " ".join((k.value.id if isinstance(k.value, ast.Name) else "?") for k in body.keywords if k.arg != "seed")
            call = f"(f {args} {kws} u)" if f.id == "sum" else f"(f {args} {kws})"
            call = re.sub(r"\s+", " ", call).replace(" )", ")")
            if f.id == "sum":
                return f"(({it.attr}_.map (fun f => {call})).foldl (· + ·) 0)"
            return f"({it.attr}_.{f.id} (fun f => {call}))"
        raise _Untranslatable(ast.dump(e)[:80])
    raise _Untranslatable(ast.dump(e)[:80])


def _translate_callable(cls: ast.ClassDef | ast.FunctionDef, method: str | None, nat_names: set[str], int_names: set[str],
                        skip_assign: set[str]) -> str:
    fn = cls
    if method is not None:
        fn = next((n for n in cls.body if isinstance(n, ast.FunctionDef) and n.name == method), None)  # type: ignore[union-attr]
        if fn is None:
            raise _Untranslatable(f"no {method}")
    lets: list[str] = []
    body = [n for n in fn.body if not (isinstance(n, ast.Expr) and isinstance(n.value, ast.Constant))]  # drop docstrings
    if len(body) == 1 and isinstance(body[0], ast.Try):
        body = body[0].body  # float overflow guard: the except branch is outside exact arithmetic
    for st in body:
        if isinstance(st, ast.Assign) and isinstance(st.targets[0], ast.Name):
            if st.targets[0].id in skip_assign:
                continue
            lets.append(f"let {st.targets[0].id} := {_py2lean(st.value, nat_names, int_names)}; ")
        elif isinstance(st, ast.Return):
            return "".join(lets) + _py2lean(st.value, nat_names, int_names)
        else:
            raise _Untranslatable(f"statement {type(st).__name__}")
    raise _Untranslatable("no return")


RP_SPECS = [
    # (python name, lean name, params, signature tail, method, result type)
    ("_capped_exponential", "cappedExponential", "(multiplier exp_base : Rat) (attempts : Nat) (cap : Rat)", None, "Rat"),
    ("wait_fixed", "waitFixed", "(wait_ : Rat) (attempts : Nat) (u : Rat)", "__call__", "Rat"),
    ("wait_exponential", "waitExponential", "(multiplier_ exp_base_ max_ min_ : Rat) (attempts : Nat) (u : Rat)", "__call__", "Rat"),
    ("wait_incrementing", "waitIncrementing", "(start_ increment_ max_ : Rat) (attempts : Nat) (u : Rat)", "__call__", "Rat"),
    ("wait_random", "waitRandom", "(min_ max_ : Rat) (attempts : Nat) (u : Rat)", "__call__", "Rat"),
    ("wait_exponential_jitter", "waitExponentialJitter", "(initial_ exp_base_ max_ jitter_ : Rat) (attempts : Nat) (u : Rat)", "__call__", "Rat"),
    ("wait_random_exponential", "waitRandomExponential", "(multiplier_ exp_base_ max_ min_ : Rat) (attempts : Nat) (u : Rat)", "__call__", "Rat"),
    ("wait_combine", "waitCombine", "(strategies_ : List (Nat → Rat → Rat)) (attempts : Nat) (u : Rat)", "__call__", "Rat"),
    ("stop_after_attempt", "stopAfterAttempt", "(max_attempt_number_ : Rat) (attempts : Nat) (elapsed_time upcoming_sleep : Rat)", "__call__", "Bool"),
    ("stop_after_delay", "stopAfterDelay", "(max_delay_ : Rat) (attempts : Nat) (elapsed_time upcoming_sleep : Rat)", "__call__", "Bool"),
    ("stop_before_delay", "stopBeforeDelay", "(max_delay_ : Rat) (attempts : Nat) (elapsed_time upcoming_sleep : Rat)", "__call__", "Bool"),
    ("stop_any", "stopAny", "(stops_ : List (Nat → Rat → Rat → Bool)) (attempts : Nat) (elapsed_time upcoming_sleep : Rat)", "__call__", "Bool"),
    ("stop_all", "stopAll", "(stops_ : List (Nat → Rat → Rat → Bool)) (attempts : Nat) (elapsed_time upcoming_sleep : Rat)", "__call__", "Bool"),
    ("stop_never", "stopNever", "(attempts : Nat) (elapsed_time upcoming_sleep : Rat)", "__call__", "Bool"),
    ("retry_any", "retryAny", "(retries_ : List (Nat → Bool)) (error : Nat)", "__call__", "Bool"),
    ("retry_all", "retryAll", "(retries_ : List (Nat → Bool)) (error : Nat)", "__call__", "Bool"),
    ("retry_always", "retryAlways", "(error : Nat)", "__call__", "Bool"),
    ("retry_never", "retryNever", "(error : Nat)", "__call__", "Bool"),
]


def gen_retry_policy(notes: list[str]) -> list[str]:
    rel = "packages/llama-index-workflows/src/workflows/retry_policy.py"
    tree = _parse(rel)
    L = ["namespace Gen.RP"]
    for (py, lean, params, method, rty) in RP_SPECS:
        node = _func(tree, py)
        try:
            if node is None:
                raise _Untranslatable("not found")
            body = _translate_callable(node, method, {"attempts"}, set(), {"rng"})  # type: ignore[arg-type]
        except _Untranslatable as ex:
            notes.append(f"translate: retry_policy.{py}: {ex}")
            body = "(0 : Rat)" if rty == "Rat" else "false"
        L.append(f"def {lean} {params} : {rty} := {body}")
    # operator sugar: `a | b`, `a & b`, `a + b`
    sugar = {}
    for base, ops in (("_RetryConditionBase", ("__and__", "__or__")), ("_StopConditionBase", ("__and__", "__or__")),
                      ("_WaitStrategyBase", ("__add__",))):
        cls = _func(tree, base)
        for op in ops:
            target = None
            if cls is not None:
                m = next((n for n in cls.body if isinstance(n, ast.FunctionDef) and n.name == op), None)  # type: ignore[union-attr]
                if m is not None:
                    stmts = [n for n in m.body if not (isinstance(n, ast.Expr) and isinstance(n.value, ast.Constant) and isinstance(n.value.value, str))]
                    ret = stmts[0] if len(stmts) == 1 and isinstance(stmts[0], ast.Return) else None
                    if ret is not None and isinstance(ret.value, ast.Call) and isinstance(ret.value.func, ast.Name) \
                            and all(isinstance(a, ast.Name) for a in ret.value.args) and not ret.value.keywords:
                        args = [a.id for a in ret.value.args if isinstance(a, ast.Name)]
                        target = f"{ret.value.func.id}({','.join(args)})"
                    else:
                        # anything but a single `return combinator(self, other)`: record the body as it is, the sugar theorem will not match
                        target = " ; ".join(ast.unparse(n) for n in stmts)[:300]
            sugar[f"{base}.{op}"] = target or "<missing>"
    for k, v in sugar.items():
        L.append(f"def sugar_{k.replace('.', '_').strip('_')} : String := {lean_str(v)}")
    # every class of the module that defines an operator (`__and__`, `__or__`, `__add__`, their reflected / in-place forms):
    # the sugar is defined once, on the three bases -- a subclass with an operator of its own is outside what the theorems cover
    opdefs: list[str] = []
    if tree is not None:
        for n in ast.walk(tree):
            if isinstance(n, ast.ClassDef):
                for m in n.body:
                    if isinstance(m, (ast.FunctionDef, ast.AsyncFunctionDef)) and m.name in (
                            "__and__", "__or__", "__add__", "__rand__", "__ror__", "__radd__", "__iand__", "__ior__", "__iadd__"):
                        opdefs.append(f"{n.name}.{m.name}")
    L.append("def operatorDefs : List String := [" + ", ".join(lean_str(x) for x in sorted(opdefs)) + "]")
    # unit conversion of every time argument
    ts = _func(tree, "_to_seconds")
    ts_src = "<missing>"
    if ts is not None:
        body = [n for n in ts.body if not (isinstance(n, ast.Expr) and isinstance(n.value, ast.Constant))]  # type: ignore[union-attr]
        ts_src = re.sub(r"\s+", " ", " ; ".join(ast.unparse(n) for n in body))
    L.append(f"def toSecondsBody : String := {lean_str(ts_src)}")
    # wait_chain index expression and the composed policy's next()
    chain = _func(tree, "wait_chain")
    idx_src = "<missing>"
    if chain is not None:
        for n in ast.walk(chain):
            if isinstance(n, ast.Assign) and isinstance(n.targets[0], ast.Name) and n.targets[0].id == "idx":
                idx_src = ast.unparse(n.value)
    L.append(f"def waitChainIndex : String := {lean_str(idx_src)}")
    comp = _func(tree, "_ComposableRetryPolicy")
    nxt = None
    if comp is not None:
        nxt = next((n for n in comp.body if isinstance(n, ast.FunctionDef) and n.name == "next"), None)  # type: ignore[union-attr]
    nxt_src = "<missing>"
    if nxt is not None:
        body = [n for n in nxt.body if not (isinstance(n, ast.Expr) and isinstance(n.value, ast.Constant))]
        nxt_src = " ; ".join(ast.unparse(n).replace("\n", " ") for n in body)
        nxt_src = re.sub(r"\s+", " ", nxt_src)
    L.append(f"def composedNext : String := {lean_str(nxt_src)}")
    # how the control loop calls the policy
    cl = _parse("packages/llama-index-workflows/src/workflows/runtime/control_loop.py")
    call_src = "<missing>"
    fails_src = "<missing>"
    psr = _func(cl, "_process_step_result_tick")
    if psr is not None:
        for n in ast.walk(psr):
            if isinstance(n, ast.Assign) and isinstance(n.targets[0], ast.Name) and n.targets[0].id == "failures":
                fails_src = ast.unparse(n.value)
            if isinstance(n, ast.Call) and isinstance(n.func, ast.Attribute) and n.func.attr == "next":
                call_src = ", ".join(ast.unparse(a) for a in n.args)
    L.append(f"def loopFailures : String := {lean_str(fails_src)}")
    L.append(f"def loopNextArgs : String := {lean_str(call_src)}")
    L.append("end Gen.RP")
    return L


GENERATORS: list[Callable[[list[str]], list[str]]] = [gen_c32, gen_retry_policy]


def generate() -> list[str]:
    notes: list[str] = []
    lines = [
        "/- GENERATED by /verif/harness/translate.py from /repo's current sources.",
        "   Do not edit; regenerated on every check run. -/",
        "set_option linter.unusedVariables false",
        "",
    ]
    for g in GENERATORS:
        try:
            lines += g(notes)
        except Exception as e:  # extractor crash = drift; theorems depending on it will fail
            notes.append(f"translate: {g.__name__} crashed: {e!r}")
        lines.append("")
    text = "\n".join(lines)
    old = None
    try:
        old = open(OUT).read()
    except OSError:
        pass
    if old != text:
        os.makedirs(os.path.dirname(OUT), exist_ok=True)
        with open(OUT, "w") as f:
            f.write(text)
    notes += generate_plugins()
    return notes


def generate_plugins() -> list[str]:
    """Per-model generators: harness/gen/<name>.py exposing
    `generate(notes: list[str]) -> list[str]` (Lean source lines) and optionally
    `LEAN_MODULE = "GenFoo"`; each writes lean/WfModel/<LEAN_MODULE>.lean."""
    import importlib
    import pkgutil

    notes: list[str] = []
    gdir = os.path.join(VERIF, "harness", "gen")
    if not os.path.isdir(gdir):
        return notes
    for m in sorted(pkgutil.iter_modules([gdir]), key=lambda m: m.name):
        if m.name.startswith("_"):
            continue
        mod = importlib.import_module(f"harness.gen.{m.name}")
        name = getattr(mod, "LEAN_MODULE", "Gen" + m.name.title().replace("_", ""))
        head = [f"/- GENERATED by /verif/harness/gen/{m.name}.py from /repo's current sources.",
                "   Do not edit; regenerated on every check run. -/",
                "set_option linter.unusedVariables false", ""]
        try:
            body = mod.generate(notes)
        except Exception as e:  # extractor crash = drift; dependent theorems fail to compile
            notes.append(f"translate: gen/{m.name} crashed: {e!r}")
            body = [f"-- extractor crashed: {e!r}".replace("\n", " ")]
        text = "\n".join(head + body) + "\n"
        out = os.path.join(VERIF, "lean", "WfModel", name + ".lean")
        try:
            old = open(out).read()
        except OSError:
            old = None
        if old != text:
            with open(out, "w") as f:
                f.write(text)
    return notes


if __name__ == "__main__":
    for n in generate():
        print(n)
