import WfModel.SqliteConn
/-!
Connection-scoped state (TEMP schema objects, attached databases, PRAGMA settings) of the
SQLite stores: when no section has statements on such objects, every history of sections
returns the same values in both connection modes and leaves the persistent connection as
a newly opened one.
-/
namespace SqliteConn

variable {K V : Type}

theorem secScratch_false_of_all (t : Table) (h : tableNoScratch t = true) (s : Nat) (sec : Sec)
    (hs : t.secs[s]? = some sec) : secScratch t sec = false := by
  have := List.all_eq_true.1 h sec (List.mem_of_getElem? hs)
  simpa using this

/-- without such statements a section leaves the connection-scoped state alone -/
theorem scratchStep_state (t : Table) (h : tableNoScratch t = true) (m : Mode) (ksem : KSem K V) (k0 : K)
    (stores : List Bool) (obj : Option Nat) (s : Nat) (a : V) (k : K) :
    (scratchStep t m ksem k0 stores obj s a k).1 = k := by
  unfold scratchStep
  cases hs : t.secs[s]? with
  | none => rfl
  | some sec =>
    have hsec := secScratch_false_of_all t h s sec hs
    simp only [hsec]
    split <;> simp

theorem onShared_isSome (t : Table) (sec : Sec) (obj : Option Nat) (s1 s2 : List Bool) (hl : s1.length = s2.length)
    (m1 m2 : Mode) : (onShared t m1 sec obj s1).isSome = (onShared t m2 sec obj s2).isSome := by
  unfold onShared
  cases obj with
  | none => rfl
  | some i =>
    by_cases hi : i < s1.length
    · have hi' : i < s2.length := hl ▸ hi
      simp [List.getElem?_eq_getElem hi, List.getElem?_eq_getElem hi']
    · have hi' : ¬ i < s2.length := hl ▸ hi
      simp [List.getElem?_eq_none (Nat.le_of_not_lt hi), List.getElem?_eq_none (Nat.le_of_not_lt hi')]

/-- ... and returns what it returns on a new connection, in either mode -/
theorem scratchStep_value (t : Table) (h : tableNoScratch t = true) (ksem : KSem K V) (k0 : K)
    (s1 s2 : List Bool) (hl : s1.length = s2.length) (m1 m2 : Mode) (obj : Option Nat) (s : Nat) (a : V) (k k' : K) :
    (scratchStep t m1 ksem k0 s1 obj s a k).2 = (scratchStep t m2 ksem k0 s2 obj s a k').2 := by
  unfold scratchStep
  cases hs : t.secs[s]? with
  | none => rfl
  | some sec =>
    have hsec := secScratch_false_of_all t h s sec hs
    have hsome := onShared_isSome t sec obj s1 s2 hl m1 m2
    cases h1 : onShared t m1 sec obj s1 <;> cases h2 : onShared t m2 sec obj s2 <;> simp_all

theorem scratchAgree_of_noScratch (t : Table) (h : tableNoScratch t = true) : ScratchAgree t := by
  intro K V ksem k0 s1 s2 hl hist
  suffices H : ∀ (k k' : K),
      (runScratch t .single ksem k0 s1 hist k).2 = (runScratch t .perCall ksem k0 s2 hist k').2 ∧
      (runScratch t .single ksem k0 s1 hist k).1 = k from H k0 k0
  induction hist with
  | nil => intro k k'; exact ⟨rfl, rfl⟩
  | cons c cs ih =>
    intro k k'
    simp only [runScratch]
    have hst := scratchStep_state t h .single ksem k0 s1 c.1 c.2.1 c.2.2 k
    have hv := scratchStep_value t h ksem k0 s1 s2 hl .single .perCall c.1 c.2.1 c.2.2 k k'
    have := ih (scratchStep t .single ksem k0 s1 c.1 c.2.1 c.2.2 k).1 (scratchStep t .perCall ksem k0 s2 c.1 c.2.1 c.2.2 k').1
    refine ⟨?_, ?_⟩
    · rw [hv, this.1]
    · rw [this.2, hst]

end SqliteConn
