import WfModel.Replay
import WfProofs.EngineErase
/-!
Time erasure for the reducer, in the form the replay proofs (C11, C13) use it.  The simulation
itself (`SimSS`, `SimSt`, `reduce_sim`: one tick at two clocks keeps agreement up to
`first_attempt_at`, commands agree up to time-derived payloads) is shared with C14 and lives in
`WfProofs/EngineErase.lean`.  Here: replay and the runner's control flow only look at exit commands
and `crash` (`keyCmds`), and those agree.
-/
set_option linter.unusedVariables false
set_option linter.unusedSimpArgs false

namespace Engine

/-- the commands replay (and the runner's control flow) looks at: exit commands and `crash` -/
def keyCmds (l : List Cmd) : List Cmd := l.filter (fun c => c.isExit || c == .crash)

theorem keyCmds_append (a b : List Cmd) : keyCmds (a ++ b) = keyCmds a ++ keyCmds b := by
  simp [keyCmds]

theorem keyCmds_nil : keyCmds [] = [] := rfl

theorem any_isExit_key (l : List Cmd) : l.any Cmd.isExit = (keyCmds l).any Cmd.isExit := by
  induction l with
  | nil => rfl
  | cons c cs ih =>
    simp only [List.any_cons, keyCmds, List.filter_cons]
    by_cases h : c.isExit = true
    · simp [h]
    · have h' : c.isExit = false := by simpa using h
      by_cases hc : (c == Cmd.crash) = true
      · simp only [h', hc, Bool.false_or, if_true, List.any_cons, h', Bool.false_or]
        exact ih
      · simp only [h', hc, Bool.false_or, Bool.false_eq_true, if_false]
        exact ih

theorem contains_crash_key (l : List Cmd) : l.contains Cmd.crash = (keyCmds l).contains Cmd.crash := by
  induction l with
  | nil => rfl
  | cons c cs ih =>
    simp only [keyCmds, List.filter_cons, List.contains_cons]
    by_cases hc : c = Cmd.crash
    · subst hc; simp [Cmd.isExit]
    · have hb : (c == Cmd.crash) = false := by simpa using hc
      have hb' : (Cmd.crash == c) = false := by simpa using (fun h => hc h.symm)
      by_cases h : c.isExit = true
      · simp only [h, Bool.true_or, if_true, List.contains_cons, hb', Bool.false_or]
        exact ih
      · have h' : c.isExit = false := by simpa using h
        simp only [h', hb, Bool.false_or, Bool.false_eq_true, if_false, hb']
        exact ih

theorem lastExit_key (prev : Option Cmd) (l : List Cmd) : lastExit prev l = lastExit prev (keyCmds l) := by
  induction l generalizing prev with
  | nil => rfl
  | cons c cs ih =>
    simp only [lastExit, List.foldl_cons, keyCmds, List.filter_cons]
    by_cases h : c.isExit = true
    · simp only [h, if_true, Bool.true_or, List.foldl_cons]
      exact ih _
    · have h' : c.isExit = false := by simpa using h
      by_cases hc : (c == Cmd.crash) = true
      · simp only [h', hc, Bool.false_or, if_true, List.foldl_cons, Bool.false_eq_true, if_false]
        exact ih _
      · simp only [h', hc, Bool.false_or, Bool.false_eq_true, if_false]
        exact ih _

/-- `keyCmds` does not see what `cE` erases -/
theorem keyCmds_cE (l : List Cmd) : keyCmds (l.map cE) = keyCmds l := by
  unfold keyCmds
  rw [List.filter_map]
  have hp : ((fun c : Cmd => c.isExit || c == Cmd.crash) ∘ cE) = (fun c : Cmd => c.isExit || c == Cmd.crash) := by
    funext c; simp only [Function.comp, cE_isExit, cE_crash]
  rw [hp]
  apply map_eq_self
  intro c hc
  have := (List.mem_filter.mp hc).2
  cases c <;> first | rfl | simp [Cmd.isExit] at this

/-- **time erasure of `_reduce_tick`**, on the commands replay looks at -/
theorem reduce_simKey (cfg : Cfg) {pol : Policy} (hpol : TimeFree pol) (t : Tick) {a b : State} (n n' : Int)
    (h : SimSt a b) :
    SimSt (reduce cfg pol t a n).1 (reduce cfg pol t b n').1 ∧
      keyCmds (reduce cfg pol t a n).2 = keyCmds (reduce cfg pol t b n').2 := by
  obtain ⟨h1, c1⟩ := reduce_sim cfg hpol t n n' h
  exact ⟨h1, by rw [← keyCmds_cE, c1, keyCmds_cE]⟩

end Engine
