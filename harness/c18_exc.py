"""Exception classes used by the C18 check (importable under ``harness.c18_exc``).

Each kind exercises one branch of ``_serialize_exception`` / ``_deserialize_exception``:
plain single-message classes, a subclass chain, custom ``__str__`` (message not kept),
constructors that need more than the message (TypeError), constructors that raise other
errors, a nested class (``__qualname__`` has a dot: not importable by ``rsplit``), and a
factory for function-local classes.
"""
from __future__ import annotations


class Plain(Exception):
    """one message, default str"""


class Derived(Plain):
    pass


class FromValueError(ValueError):
    pass


class Bracketed(Exception):
    """str() wraps the message: type survives, message does not"""

    def __str__(self) -> str:
        return "<<" + str(self.args[0]) + ">>" if self.args else "<<>>"


class TwoArgs(Exception):
    def __init__(self, code: int, detail: str) -> None:
        super().__init__(code, detail)
        self.code = code
        self.detail = detail

    def __str__(self) -> str:
        return f"[{self.code}] {self.detail}"


class KeywordOnly(Exception):
    def __init__(self, message: str, *, status: int) -> None:
        super().__init__(message)
        self.status = status


class CtorLooksUp(Exception):
    """constructor raises KeyError for an unknown message (neither Import-, Attribute-, Value- nor TypeError)"""

    TABLE = {"known": 1}

    def __init__(self, message: str) -> None:
        super().__init__("lookup: " + message)
        self.kind = self.TABLE[message]


class CtorRejects(Exception):
    """constructor raises ValueError"""

    def __init__(self, message: str) -> None:
        if not message.startswith("ok:"):
            raise ValueError("bad message")
        super().__init__(message)


class NoArgs(Exception):
    def __init__(self) -> None:
        super().__init__("fixed text")


class Outer:
    class Inner(Exception):
        pass


def make_local(name: str = "LocalBoom", base: type = RuntimeError) -> type:
    class _L(base):  # type: ignore[misc, valid-type]
        pass

    _L.__name__ = name
    _L.__qualname__ = f"make_local.<locals>.{name}"
    return _L
