"""C06 — retry delays follow the wait strategy in documented order."""
from __future__ import annotations

from .. import policy
from ..engine import monitors, suite
from ..runner import Env, Outcome

THEOREMS = ["C06_delayed_retry_parked", "C06_not_before_delay", "C06_only_timer_releases", "C06_refuted_witness",
            "C06_refuted", "C06_delay_index_actual", "C06_source_shape", "C06_results_keep_retry_record", "C06_collect_rerun_keeps_retry_number",
            "C06_stale_collect_reruns_in_place", "C06_failure_after_rerun_counts_on",
            # every history (runner invariant, WfProofs/RunnerRetryDelay.lean) and every chain / parameter / retry number
            "C06_retry_never_before_its_delay", "C06_pending_retries_wait_out_their_delay",
            "C06_fresh_run_retry_never_before_its_delay", "C06_every_action_keeps_delays",
            "C06_chain_link_of_retry", "C06_chain_head_never_used", "C06_refuted_for_every_such_chain",
            "C06_exponential_delay_of_retry", "C06_first_retry_delays"]
LEAN_TARGETS = ["WfProps.C06"]
EXPLANATION = (
    "Proved on the runner LTS: a retry granted with delay d>0 at time t is parked in the timer heap for t+d and only the "
    "timer action releases it, and only when the clock has reached t+d. The documented-order clause (tenacity indexing: "
    "k-th retry uses index k-1) is REFUTED on the model regenerated from the source (C06_refuted: wait_chain(3,1,2) "
    "first waits 1) and replayed on the real engine: known finding C06/retry_delay_index_off_by_one; what the code does "
    "is proved as C06_delay_index_actual. Any retry starting earlier than the value the code's own index gives is a "
    "VIOLATION (C06/retry_too_early). Retries are numbered by the FAILURES of an invocation: a collect re-run (stale "
    "collect_events snapshot; nothing failed) is not a retry and does not restart the numbering - proved on the reducer "
    "model (no step result touches the retry record, the re-run keeps it in its slot, the next failure is attempts+1; "
    "C06_source_shape pins that no result branch of the source re-admits the running invocation) and searched on "
    "collecting steps with 2-3 workers and incrementing / exponential / chained waits whose retried invocation is re-run "
    "between two failures: delay after failure k recomputed from the spec's numbers against the virtual-clock "
    "timestamps (C06/retry_too_early:after_collect_rerun...), and the number handed to next() at the k-th failure is k "
    "(C06/failure_number_handed_to_policy...)."
)
ASSUMPTIONS = suite.ENGINE_ASSUMPTIONS


def run(env: Env) -> Outcome:
    out = Outcome()
    out.rule = ("policy specs (exact) + live retry-heavy scripted workflows with delays under virtual time, incl. collecting multi-worker steps "
                "re-run between failures; non-trivial = more than 2 ticks; "
                "distinct by (spec, schedule)")
    policy.correspondence(env, out, env.budget(3000, 60000))
    policy.units_stream(env, out, env.budget(150, 3000))
    suite.direct_corr(env, out, env.budget(1500, 30000))
    suite.live_runs(env, out, env.budget(150, 3000), [monitors.mon_c06], extra_specs=suite.load_corpus("C06"))
    suite.live_runs(env, out, env.budget(300, 6000), [monitors.mon_c06], gen_kwargs={"family": "retry"})
    # collecting steps (2..3 workers) with non-constant wait strategies whose retried invocation is re-run on a stale
    # snapshot between two of its failures: retries are numbered by failures, a collect re-run is not one
    trs = suite.live_runs(env, out, env.budget(120, 2000), [monitors.mon_c06], gen_kwargs={"family": "collect_retry"})
    for tr in trs:
        for shape in monitors.c06_rerun_shapes(tr):
            out.count("live:c06:" + shape)
    return out
