"""Generator for lean/WfModel/GenCliConfig.lean (model M16, property C37).

Re-extracted from /repo's current llamactl sources on every run:

* the built-in default environment (``schema.DEFAULT_ENVIRONMENT``),
* what migration ``0001_init.sql`` seeds (current-environment setting, environment row,
  the primary key of ``profiles``),
* the profile-name derivation (``redact_api_key`` defaults, the ``"default"`` literal of
  ``create_profile_from_token``),
* three structural facts the invariant rests on: does ``EnvService.switch_environment`` /
  ``EnvService.create_or_update_environment`` / the "deleted environment was current" branch of
  ``ConfigManager.delete_environment`` clear the ``current_profile`` setting.

A shape that is not found yields a sentinel ("<missing>" / false) and a note; the theorems
``C37_source_shape`` / ``C37_invariant`` then fail to compile.
"""
from __future__ import annotations

import ast
import re
from typing import Any

from ..boot import repo_path
from ..translate import lean_str

LEAN_MODULE = "GenCliConfig"

CFG = "packages/llamactl/src/llama_agents/cli/config/"
REDACT = "packages/llamactl/src/llama_agents/cli/utils/redact.py"


def _read(rel: str) -> str | None:
    try:
        return open(repo_path(rel)).read()
    except OSError:
        return None


def _parse(rel: str) -> ast.Module | None:
    src = _read(rel)
    if src is None:
        return None
    try:
        return ast.parse(src)
    except SyntaxError:
        return None


def _func(tree: ast.AST | None, name: str, cls: str | None = None) -> ast.AST | None:
    if tree is None:
        return None
    scope: ast.AST = tree
    if cls is not None:
        scope = next((n for n in ast.walk(tree) if isinstance(n, ast.ClassDef) and n.name == cls), None)  # type: ignore[assignment]
        if scope is None:
            return None
    for n in ast.walk(scope):
        if isinstance(n, (ast.FunctionDef, ast.AsyncFunctionDef)) and n.name == name:
            return n
    return None


def _calls_clear_profile(nodes: list[ast.AST]) -> bool:
    """`...set_settings_current_profile(None)` or SQL `DELETE FROM settings WHERE key = 'current_profile'`."""
    for top in nodes:
        for n in ast.walk(top):
            if not isinstance(n, ast.Call):
                continue
            f = n.func
            if isinstance(f, ast.Attribute) and f.attr == "set_settings_current_profile" and len(n.args) == 1 \
                    and isinstance(n.args[0], ast.Constant) and n.args[0].value is None:
                return True
            if isinstance(f, ast.Attribute) and f.attr == "execute" and n.args and isinstance(n.args[0], ast.Constant) \
                    and isinstance(n.args[0].value, str) \
                    and re.search(r"DELETE\s+FROM\s+settings\s+WHERE\s+key\s*=\s*'current_profile'", n.args[0].value, re.I):
                return True
    return False


def _sets_current_env(nodes: list[ast.AST]) -> bool:
    for top in nodes:
        for n in ast.walk(top):
            if isinstance(n, ast.Call) and isinstance(n.func, ast.Attribute) and n.func.attr == "set_settings_current_environment":
                return True
    return False


def _b(v: bool) -> str:
    return "true" if v else "false"


def generate(notes: list[str]) -> list[str]:
    out: list[str] = ["namespace Gen.CliConfig"]

    def miss(what: str) -> None:
        notes.append(f"gen/cliconfig: could not extract {what}")

    # ---- schema.DEFAULT_ENVIRONMENT
    default_url: Any = None
    default_ra: Any = None
    tree = _parse(CFG + "schema.py")
    if tree is not None:
        for n in tree.body:
            if isinstance(n, ast.Assign) and isinstance(n.targets[0], ast.Name) and n.targets[0].id == "DEFAULT_ENVIRONMENT" \
                    and isinstance(n.value, ast.Call):
                for kw in n.value.keywords:
                    if kw.arg == "api_url" and isinstance(kw.value, ast.Constant):
                        default_url = kw.value.value
                    if kw.arg == "requires_auth" and isinstance(kw.value, ast.Constant):
                        default_ra = kw.value.value
    if not isinstance(default_url, str):
        miss("DEFAULT_ENVIRONMENT.api_url")
        default_url = "<missing>"
    if not isinstance(default_ra, bool):
        miss("DEFAULT_ENVIRONMENT.requires_auth")
        default_ra = False
    out.append(f"def defaultUrl : String := {lean_str(default_url)}")
    out.append(f"def defaultRequiresAuth : Bool := {_b(default_ra)}")

    # ---- migration 0001: seeds and the profiles key
    sql = _read(CFG + "migrations/0001_init.sql") or ""
    m = re.search(r"INSERT\s+OR\s+IGNORE\s+INTO\s+settings\s*\(\s*key\s*,\s*value\s*\)\s*VALUES\s*\(\s*'current_environment_api_url'\s*,\s*'([^']*)'\s*\)", sql, re.I)
    seed_cur = m.group(1) if m else "<missing>"
    if not m:
        miss("seeded current_environment_api_url (0001_init.sql)")
    m = re.search(r"INSERT\s+OR\s+IGNORE\s+INTO\s+environments\s*\(\s*api_url\s*,\s*requires_auth\s*,\s*min_llamactl_version\s*\)\s*VALUES\s*\(\s*'([^']*)'\s*,\s*([01])\s*,\s*NULL\s*\)", sql, re.I)
    seed_env = m.group(1) if m else "<missing>"
    seed_ra = (m.group(2) == "1") if m else False
    if not m:
        miss("seeded environments row (0001_init.sql)")
    m = re.search(r"CREATE\s+TABLE\s+IF\s+NOT\s+EXISTS\s+profiles\s*\((.*?)\);", sql, re.I | re.S)
    pk = "<missing>"
    if m:
        mm = re.search(r"PRIMARY\s+KEY\s*\(([^)]*)\)", m.group(1), re.I)
        if mm:
            pk = ",".join(x.strip() for x in mm.group(1).split(","))
    if pk == "<missing>":
        miss("PRIMARY KEY of profiles (0001_init.sql)")
    out.append(f"def seedCurrentEnv : String := {lean_str(seed_cur)}")
    out.append(f"def seedEnvUrl : String := {lean_str(seed_env)}")
    out.append(f"def seedEnvRequiresAuth : Bool := {_b(seed_ra)}")
    out.append(f"def profilesPrimaryKey : String := {lean_str(pk)}")

    # ---- profile name derivation
    rt = _parse(REDACT)
    fn = _func(rt, "redact_api_key")
    defaults: dict[str, Any] = {}
    if isinstance(fn, ast.FunctionDef):
        args = fn.args.args
        ds = fn.args.defaults
        for a, d in zip(args[len(args) - len(ds):], ds):
            if isinstance(d, ast.Constant):
                defaults[a.arg] = d.value
    for py, lean in (("visible_prefix", "visiblePrefix"), ("visible_suffix_long", "visibleSuffixLong"),
                     ("visible_suffix_short", "visibleSuffixShort"), ("long_threshold", "longThreshold")):
        v = defaults.get(py)
        if isinstance(v, bool) or not isinstance(v, int) or v < 0:
            miss(f"redact_api_key default {py}")
            v = 0
        out.append(f"def {lean} : Nat := {v}")
    mask = defaults.get("mask")
    if not isinstance(mask, str):
        miss("redact_api_key default mask")
        mask = "<missing>"
    out.append(f"def mask : String := {lean_str(mask)}")
    at = _parse(CFG + "auth_service.py")
    cpt = _func(at, "create_profile_from_token", "AuthService")
    keyless = None
    if cpt is not None:
        for n in ast.walk(cpt):
            if isinstance(n, ast.IfExp) and isinstance(n.orelse, ast.Constant) and isinstance(n.orelse.value, str):
                keyless = n.orelse.value
    if keyless is None:
        miss("keyless profile name in create_profile_from_token")
        keyless = "<missing>"
    out.append(f"def keylessProfileName : String := {lean_str(keyless)}")
    # creation selects the created profile
    out.append(f"def createTokenSelects : Bool := {_b(cpt is not None and any(isinstance(n, ast.Call) and isinstance(n.func, ast.Attribute) and n.func.attr == 'set_settings_current_profile' for n in ast.walk(cpt)))}")

    # ---- the three clearing facts
    et = _parse(CFG + "env_service.py")
    sw = _func(et, "switch_environment", "EnvService")
    ad = _func(et, "create_or_update_environment", "EnvService")
    sw_ok = sw is not None and _sets_current_env([sw])
    ad_ok = ad is not None and _sets_current_env([ad])
    if not sw_ok:
        miss("EnvService.switch_environment (set_settings_current_environment call)")
    if not ad_ok:
        miss("EnvService.create_or_update_environment (set_settings_current_environment call)")
    out.append(f"def switchClearsProfile : Bool := {_b(sw_ok and _calls_clear_profile([sw]))}")  # type: ignore[list-item]
    out.append(f"def addClearsProfile : Bool := {_b(ad_ok and _calls_clear_profile([ad]))}")  # type: ignore[list-item]
    ct = _parse(CFG + "_config.py")
    de = _func(ct, "delete_environment", "ConfigManager")
    branch: list[ast.AST] | None = None
    resets_default = False
    if de is not None:
        for n in ast.walk(de):
            if isinstance(n, ast.If) and "api_url" in ast.unparse(n.test) and "row" in ast.unparse(n.test):
                txt = " ".join(ast.unparse(b) for b in n.body)
                if "current_environment_api_url" in txt:
                    branch = list(n.body)
                    resets_default = "DEFAULT_ENVIRONMENT.api_url" in txt
    if branch is None:
        miss("ConfigManager.delete_environment: branch resetting the current environment")
    out.append(f"def deleteResetsToDefault : Bool := {_b(resets_default)}")
    # anywhere in the function: *when* it clears (only if the deleted environment was current) is the model's
    # claim and is checked by the correspondence runs, so an equivalent restructuring does not break the extraction
    out.append(f"def deleteClearsProfile : Bool := {_b(branch is not None and de is not None and _calls_clear_profile([de]))}")
    out.append("end Gen.CliConfig")
    return out
