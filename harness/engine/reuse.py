"""Run histories on ONE runtime that reuse an explicit run_id (C04).

A run that finished keeps its queues in the runtime's weak run table for as long as its handler is referenced.
Starting another run with the same run_id is then either refused, or it is a run of its own: its published
stream carries only its own events and ends with exactly one terminal event that matches its own outcome.

The scenario is a list of runs [(kind, n_progress, consume_first, keep_handler)] executed one after the other
on the same workflow object (one runtime) with the same run_id; the LAST run is streamed while it is parked and
checked.  Runs are tagged, so a foreign event on a stream is recognisable.
"""
from __future__ import annotations

import asyncio
import gc
import random
from typing import Any

from workflows import Context, Workflow, step
from workflows.errors import WorkflowCancelledByUser, WorkflowRuntimeError, WorkflowTimeoutError
from workflows.events import (Event, StartEvent, StopEvent, WorkflowCancelledEvent, WorkflowFailedEvent,
                              WorkflowTimedOutEvent)

from ..runner import Violation
from ..vloop import run_virtual

_SERIAL = [0]
KINDS = ["result", "fail", "cancel", "timeout"]
TERMINAL = {"result": StopEvent, "fail": WorkflowFailedEvent, "cancel": WorkflowCancelledEvent, "timeout": WorkflowTimedOutEvent}


class Progress(Event):
    tag: str
    i: int


class _Wf(Workflow):
    def __init__(self) -> None:
        super().__init__(timeout=30)
        self.gates: dict[str, asyncio.Event] = {}
        self.parked: dict[str, asyncio.Event] = {}

    @step
    async def build(self, ctx: Context, ev: StartEvent) -> StopEvent:
        tag, kind, n, hold = ev.tag, ev.kind, ev.n, ev.hold
        for i in range(n):
            ctx.write_event_to_stream(Progress(tag=tag, i=i))
        if hold:
            self.parked[tag].set()
            await self.gates[tag].wait()
        if kind == "fail":
            raise ValueError(f"boom {tag}")
        if kind in ("cancel", "timeout"):
            await asyncio.sleep(1000)  # cancel: cancelled from outside; timeout: the 30 s run timeout fires (virtual time)
        return StopEvent(result=tag)


def gen_scenario(rng: random.Random) -> dict:
    runs = []
    for j in range(rng.randint(2, 3)):
        runs.append({"kind": rng.choice(KINDS), "n": rng.randint(0, 3), "consume": rng.choice(["none", "none", "all", "some"]),
                     "keep": rng.random() < 0.75})
    return {"run_id": rng.choice(["nightly", "r1", "job-7"]), "runs": runs}


async def _finish(handler: Any, kind: str) -> str:
    if kind == "cancel":
        await asyncio.sleep(0)
        await handler.cancel_run()
    try:
        await handler
        return "result"
    except WorkflowCancelledByUser:
        return "cancel"
    except WorkflowTimeoutError:
        return "timeout"
    except asyncio.CancelledError:
        raise
    except Exception:
        return "fail"


def _is_terminal(e: Any) -> bool:
    return isinstance(e, (StopEvent, WorkflowFailedEvent, WorkflowCancelledEvent, WorkflowTimedOutEvent))


def run_scenario(sc: dict) -> tuple[list[Violation], dict]:
    """returns (violations, counters)"""
    out: list[Violation] = []
    info: dict[str, int] = {}
    from . import live
    live.patch_clocks()
    _SERIAL[0] += 1
    run_id = f"{sc['run_id']}-{_SERIAL[0]}"  # the default runtime is process-wide: ids of earlier scenarios must not interfere

    async def main(_loop: Any) -> None:
        wf = _Wf()
        kept = []
        runs = sc["runs"]
        for j, r in enumerate(runs):
            tag = f"run{j}"
            last = j == len(runs) - 1
            wf.gates[tag], wf.parked[tag] = asyncio.Event(), asyncio.Event()
            try:
                h = wf.run(run_id=run_id, tag=tag, kind=r["kind"], n=r["n"], hold=last)
            except RuntimeError:
                info["refused"] = info.get("refused", 0) + 1
                continue
            info["accepted"] = info.get("accepted", 0) + 1
            if not last:
                seen: list = []
                if r["consume"] != "none":
                    async def consume_some(h=h, seen=seen, limit=(None if r["consume"] == "all" else 1)) -> None:
                        async for e in h.stream_events():
                            seen.append(e)
                            if limit is not None and len(seen) >= limit:
                                return
                    ct = asyncio.create_task(consume_some())
                got = await _finish(h, r["kind"])
                if r["consume"] != "none":
                    try:
                        await asyncio.wait_for(ct, 5)
                    except Exception:
                        pass
                if got != r["kind"]:
                    out.append(Violation("C04/reuse_outcome_mismatch", f"{tag}: scripted {r['kind']}, finished as {got}", sc))
                if r["keep"]:
                    kept.append(h)
                else:
                    del h
                    gc.collect()
                    await asyncio.sleep(0)
                    gc.collect()
                continue
            # the last run: stream it while its step is parked
            seen2: list = []
            refused: list = []

            async def consume() -> None:
                try:
                    async for e in h.stream_events():
                        seen2.append(e)
                except WorkflowRuntimeError as ex:  # the accepted run's own (first) consumer is told "already consumed"
                    refused.append(str(ex))

            ct = asyncio.create_task(consume())
            try:
                await asyncio.wait_for(wf.parked[tag].wait(), 10)
            except asyncio.TimeoutError:
                out.append(Violation("C04/reuse_run_never_started", f"{tag}: accepted with a reused run_id but its step never ran", sc))
                ct.cancel()
                return
            for _ in range(50):
                await asyncio.sleep(0)
            if refused:
                out.append(Violation("C04/reuse_stream_refused",
                                     f"{tag}: accepted with a reused run_id and running, but the first consumer of its stream_events() was refused "
                                     f"({refused[0]!r}) after {[type(e).__name__ for e in seen2]}: its stream carries no terminal event of its own", sc))
                wf.gates[tag].set()
                await _finish(h, r["kind"])
                return
            if ct.done() and not h.is_done():
                out.append(Violation("C04/reuse_stream_ended_while_running",
                                     f"{tag}: stream_events() ended on {seen2[-1] if seen2 else None!r} while the run was still running", sc))
            wf.gates[tag].set()
            got = await _finish(h, r["kind"])
            try:
                await asyncio.wait_for(ct, 50)
            except asyncio.TimeoutError:
                out.append(Violation("C04/reuse_consumer_never_terminates", f"{tag}: run finished ({got}) but stream_events() did not end", sc))
                return
            if refused:
                out.append(Violation("C04/reuse_stream_refused",
                                     f"{tag}: accepted with a reused run_id, but the first consumer of its stream_events() was refused "
                                     f"({refused[0]!r}) after {[type(e).__name__ for e in seen2]}: its stream carries no terminal event of its own", sc))
                return
            terms = [e for e in seen2 if _is_terminal(e)]
            foreign = [e for e in seen2 if (isinstance(e, Progress) and e.tag != tag) or (type(e) is StopEvent and e.result != tag)]
            if foreign:
                out.append(Violation("C04/reuse_foreign_events", f"{tag}: its stream carried events of an earlier run with the same run_id: {foreign!r}", sc))
            if len(terms) != 1 or seen2[-1] is not terms[0]:
                out.append(Violation("C04/reuse_terminal_not_unique_last", f"{tag}: stream {[type(e).__name__ for e in seen2]}", sc))
            elif not isinstance(terms[0], TERMINAL[got]):
                out.append(Violation("C04/reuse_terminal_mismatch", f"{tag}: outcome {got}, terminal event {type(terms[0]).__name__}", sc))
            mine = [e.i for e in seen2 if isinstance(e, Progress) and e.tag == tag]
            if mine != list(range(r["n"])):
                out.append(Violation("C04/reuse_own_events_lost", f"{tag}: wrote {r['n']} progress events, stream had {mine}", sc))
            # nothing may be left behind the terminal event
            left: list = []
            try:
                async def rest() -> None:
                    async for e in h.ctx.stream_events():
                        left.append(e)
                await asyncio.wait_for(rest(), 5)
            except (WorkflowRuntimeError, asyncio.TimeoutError):
                pass
            left = [e for e in left if isinstance(e, Progress) or _is_terminal(e)]
            if left:
                out.append(Violation("C04/reuse_published_after_terminal", f"{tag}: after the terminal event: {left!r}", sc))
        del kept

    try:
        run_virtual(main, max_time=100000.0)
    except TimeoutError:
        out.append(Violation("C04/reuse_deadlock", "scenario deadlocked", sc))
    return out, info
