import WfModel.Validate
/-!
Helper lemmas for C23, part 1: Python-set lists (`dedup`), graph reachability as an inductive
closure, and the correctness of the stack-based `_dfs` for every graph and every seed list.
-/
namespace Validate

/-! ### `dedup` -/

theorem mem_dedup {l : List Nat} {x : Nat} : x ∈ dedup l ↔ x ∈ l := by
  induction l with
  | nil => simp [dedup]
  | cons a l ih =>
    simp only [dedup, List.mem_cons, List.mem_filter, ih, bne_iff_ne, ne_eq]
    constructor
    · rintro (h | ⟨h, _⟩)
      · exact Or.inl h
      · exact Or.inr h
    · intro h
      by_cases hx : x = a
      · exact Or.inl hx
      · rcases h with h | h
        · exact Or.inl h
        · exact Or.inr ⟨h, hx⟩

theorem nodup_filter {p : Nat → Bool} {l : List Nat} (h : l.Nodup) : (l.filter p).Nodup := by
  induction l with
  | nil => simp
  | cons a l ih =>
    rw [List.nodup_cons] at h
    simp only [List.filter_cons]
    split
    · rw [List.nodup_cons]
      exact ⟨fun hm => h.1 (List.mem_filter.mp hm).1, ih h.2⟩
    · exact ih h.2

theorem nodup_dedup (l : List Nat) : (dedup l).Nodup := by
  induction l with
  | nil => simp [dedup]
  | cons a l ih =>
    simp only [dedup, List.nodup_cons, List.mem_filter, bne_self_eq_false, Bool.false_eq_true, and_false,
      not_false_eq_true, true_and]
    exact nodup_filter ih

theorem dedup_eq_nil {l : List Nat} : dedup l = [] ↔ l = [] := by
  cases l <;> simp [dedup]

/-- a Python set has exactly one element iff exactly one value occurs in the list it was built from -/
theorem dedup_eq_singleton {l : List Nat} {c : Nat} :
    dedup l = [c] ↔ c ∈ l ∧ ∀ d ∈ l, d = c := by
  constructor
  · intro h
    have hm : ∀ x, x ∈ l ↔ x = c := fun x => by rw [← mem_dedup, h]; simp
    exact ⟨(hm c).2 rfl, fun d hd => (hm d).1 hd⟩
  · rintro ⟨hc, hall⟩
    have hnd := nodup_dedup l
    have hm : ∀ x, x ∈ dedup l → x = c := fun x hx => hall x (mem_dedup.1 hx)
    have hc' : c ∈ dedup l := mem_dedup.2 hc
    match hd : dedup l, hnd, hm, hc' with
    | [], _, _, hc' => simp at hc'
    | [a], _, hm, _ => rw [hm a (by simp)]
    | a :: b :: r, hnd, hm, _ =>
      have ha := hm a (by simp)
      have hb := hm b (by simp)
      rw [List.nodup_cons] at hnd
      exact absurd (by simp [ha, hb]) hnd.1

/-! ### reachability -/

/-- reflexive-transitive closure of a relation on graph nodes -/
inductive Reach (R : Node → Node → Prop) : Node → Node → Prop
  | refl (a : Node) : Reach R a a
  | tail {a b c : Node} : Reach R a b → R b c → Reach R a c

theorem Reach.head {R : Node → Node → Prop} {a b c : Node} (hab : R a b) (hbc : Reach R b c) : Reach R a c := by
  induction hbc with
  | refl => exact .tail (.refl a) hab
  | tail _ h ih => exact .tail ih h

theorem Reach.trans {R : Node → Node → Prop} {a b c : Node} (hab : Reach R a b) (hbc : Reach R b c) : Reach R a c := by
  induction hbc with
  | refl => exact hab
  | tail _ h ih => exact .tail ih h

theorem Reach.mono {R S : Node → Node → Prop} (hRS : ∀ a b, R a b → S a b) {a b : Node} (h : Reach R a b) :
    Reach S a b := by
  induction h with
  | refl => exact .refl _
  | tail _ h ih => exact .tail ih (hRS _ _ h)

theorem Reach.flip {R : Node → Node → Prop} {a b : Node} (h : Reach R a b) : Reach (fun x y => R y x) b a := by
  induction h with
  | refl => exact .refl _
  | tail _ h ih => exact Reach.head h ih

/-- the edge relation of an adjacency structure given as an edge list -/
def EdgeOf (E : List (Node × Node)) (a b : Node) : Prop := (a, b) ∈ E

theorem mem_succs {E : List (Node × Node)} {n t : Node} : t ∈ succs E n ↔ (n, t) ∈ E := by
  simp only [succs, List.mem_map, List.mem_filter, beq_iff_eq]
  constructor
  · rintro ⟨⟨a, b⟩, ⟨hm, ha⟩, hb⟩
    simp only at ha hb
    subst ha; subst hb; exact hm
  · intro h
    exact ⟨(n, t), ⟨h, rfl⟩, rfl⟩

theorem mem_flipEdges {E : List (Node × Node)} {a b : Node} : (a, b) ∈ flipEdges E ↔ (b, a) ∈ E := by
  simp only [flipEdges, List.mem_map, Prod.mk.injEq]
  constructor
  · rintro ⟨⟨x, y⟩, hm, h1, h2⟩
    simp only at h1 h2
    subst h1; subst h2; exact hm
  · intro h
    exact ⟨(b, a), h, rfl, rfl⟩

/-! ### the `_dfs` loop -/

/-- termination measure: stack entries still to pop plus edges whose source is not yet visited -/
def dfsMeasure (E : List (Node × Node)) (stack vis : List Node) : Nat :=
  stack.length + (E.filter fun e => !vis.contains e.1).length

theorem filter_split_length {α : Type} (p q : α → Bool) (l : List α) :
    (l.filter p).length = (l.filter fun x => p x && q x).length + (l.filter fun x => p x && !q x).length := by
  induction l with
  | nil => simp
  | cons a l ih =>
    simp only [List.filter_cons]
    cases hp : p a <;> cases hq : q a <;> simp [ih] <;> omega

theorem dfsMeasure_visit (E : List (Node × Node)) (n : Node) (stack vis : List Node) (hn : vis.contains n = false) :
    dfsMeasure E (((succs E n).filter fun t => !(n :: vis).contains t).reverse ++ stack) (n :: vis) <
      dfsMeasure E (n :: stack) vis := by
  simp only [dfsMeasure, List.length_append, List.length_reverse, List.length_cons]
  have h1 : ((succs E n).filter fun t => !(n :: vis).contains t).length ≤ (E.filter (·.1 == n)).length := by
    refine Nat.le_trans (List.length_filter_le _ _) ?_
    simp [succs]
  have h2 := filter_split_length (fun e : Node × Node => !vis.contains e.1) (fun e => e.1 == n) E
  have h3 : (E.filter fun e => (!vis.contains e.1) && (e.1 == n)) = E.filter (·.1 == n) := by
    apply List.filter_congr
    intro e _
    by_cases he : e.1 = n
    · rw [he, hn]; simp
    · simp [he]
  have h4 : (E.filter fun e => (!vis.contains e.1) && !(e.1 == n)) = E.filter fun e => !(n :: vis).contains e.1 := by
    apply List.filter_congr
    intro e _
    simp only [List.contains_cons, Bool.not_or, Bool.and_comm]
  rw [h3, h4] at h2
  omega

/-- what the loop returns, for enough fuel: it keeps `vis`, absorbs the stack, adds only nodes reachable
from the stack, and if `vis` was closed under successors up to the stack then the result is closed -/
theorem dfsLoop_spec (E : List (Node × Node)) :
    ∀ (fuel : Nat) (stack vis : List Node), dfsMeasure E stack vis < fuel →
      (∀ x ∈ vis, x ∈ dfsLoop E fuel stack vis) ∧
      (∀ x ∈ stack, x ∈ dfsLoop E fuel stack vis) ∧
      (∀ x ∈ dfsLoop E fuel stack vis, x ∈ vis ∨ ∃ s ∈ stack, Reach (EdgeOf E) s x) ∧
      ((∀ v ∈ vis, ∀ w, (v, w) ∈ E → w ∈ vis ∨ w ∈ stack) →
        ∀ v ∈ dfsLoop E fuel stack vis, ∀ w, (v, w) ∈ E → w ∈ dfsLoop E fuel stack vis) := by
  intro fuel
  induction fuel with
  | zero => intro stack vis h; omega
  | succ f ih =>
    intro stack vis hlt
    cases stack with
    | nil =>
      simp only [dfsLoop]
      refine ⟨fun x hx => hx, fun x hx => by simp at hx, fun x hx => Or.inl hx, ?_⟩
      intro hcl v hv w hw
      rcases hcl v hv w hw with h | h
      · exact h
      · simp at h
    | cons n st =>
      simp only [dfsLoop]
      by_cases hn : vis.contains n = true
      · simp only [hn, if_true]
        have hlt' : dfsMeasure E st vis < f := by
          simp only [dfsMeasure, List.length_cons] at hlt ⊢; omega
        obtain ⟨ha, hb, hc, hd⟩ := ih st vis hlt'
        have hnv : n ∈ vis := List.contains_iff_mem.mp hn
        refine ⟨ha, ?_, ?_, ?_⟩
        · intro x hx
          rcases List.mem_cons.mp hx with rfl | hx
          · exact ha _ hnv
          · exact hb x hx
        · intro x hx
          rcases hc x hx with h | ⟨s, hs, hr⟩
          · exact Or.inl h
          · exact Or.inr ⟨s, List.mem_cons_of_mem _ hs, hr⟩
        · intro hcl
          apply hd
          intro v hv w hw
          rcases hcl v hv w hw with h | h
          · exact Or.inl h
          · rcases List.mem_cons.mp h with rfl | h
            · exact Or.inl hnv
            · exact Or.inr h
      · have hn' : vis.contains n = false := by simpa using hn
        simp only [hn', Bool.false_eq_true, if_false]
        have hm := dfsMeasure_visit E n st vis hn'
        obtain ⟨ha, hb, hc, hd⟩ :=
          ih (((succs E n).filter fun t => !(n :: vis).contains t).reverse ++ st) (n :: vis) (by omega)
        refine ⟨fun x hx => ha x (List.mem_cons_of_mem _ hx), ?_, ?_, ?_⟩
        · intro x hx
          rcases List.mem_cons.mp hx with rfl | hx
          · exact ha _ (by simp)
          · exact hb x (List.mem_append.mpr (Or.inr hx))
        · intro x hx
          rcases hc x hx with h | ⟨s, hs, hr⟩
          · rcases List.mem_cons.mp h with rfl | h
            · exact Or.inr ⟨_, by simp, .refl _⟩
            · exact Or.inl h
          · rcases List.mem_append.mp hs with hs | hs
            · have hs' := (List.mem_filter.mp (List.mem_reverse.mp hs)).1
              exact Or.inr ⟨n, by simp, Reach.head (mem_succs.mp hs') hr⟩
            · exact Or.inr ⟨s, List.mem_cons_of_mem _ hs, hr⟩
        · intro hcl
          apply hd
          intro v hv w hw
          rcases List.mem_cons.mp hv with rfl | hv
          · by_cases hwv : (v :: vis).contains w = true
            · exact Or.inl (List.contains_iff_mem.mp hwv)
            · refine Or.inr (List.mem_append.mpr (Or.inl (List.mem_reverse.mpr (List.mem_filter.mpr ⟨mem_succs.mpr hw, ?_⟩))))
              simpa using hwv
          · rcases hcl v hv w hw with h | h
            · exact Or.inl (List.mem_cons_of_mem _ h)
            · rcases List.mem_cons.mp h with rfl | h
              · exact Or.inl (by simp)
              · exact Or.inr (List.mem_append.mpr (Or.inr h))

/-- `_dfs` visits exactly the nodes reachable from its seeds -/
theorem mem_dfs (E : List (Node × Node)) (seeds : List Node) (x : Node) :
    x ∈ dfs E seeds ↔ ∃ s ∈ seeds, Reach (EdgeOf E) s x := by
  have hlt : dfsMeasure E seeds.reverse [] < seeds.length + E.length + 1 := by
    simp only [dfsMeasure, List.length_reverse]
    have := List.length_filter_le (fun e : Node × Node => !([] : List Node).contains e.1) E
    omega
  obtain ⟨_, hb, hc, hd⟩ := dfsLoop_spec E _ seeds.reverse [] hlt
  have hcl := hd (fun v hv => by simp at hv)
  constructor
  · intro hx
    rcases hc x hx with h | ⟨s, hs, hr⟩
    · simp at h
    · exact ⟨s, List.mem_reverse.mp hs, hr⟩
  · rintro ⟨s, hs, hr⟩
    induction hr with
    | refl => exact hb _ (List.mem_reverse.mpr hs)
    | tail _ h ih => exact hcl _ ih _ h

end Validate
