import WfModel.Resource
import Driver.Util
open Resource Drv

namespace Drv.Resource

structure DS where
  cfg : Cfg := { excl := false, skipEmpty := false }
  g : Graph := []
  st : St := St.init

def parseVal? : Char → Option Val
  | '0' => some .obj
  | '1' => some .pyNone
  | '2' => some .zero
  | '3' => some .emptyStr
  | '4' => some .emptyList
  | '5' => some .pyFalse
  | _ => none

/-- `caf:deps` or `cafv:deps` (v: the value the factory returns; absent = an ordinary object) -/
def parseRes? (s : String) : Option Res :=
  match s.splitOn ":" with
  | [flags, deps] =>
    match flags.toList, parseNats? deps with
    | [c, a, f], some ds => do
      let c ← parseBool? c.toString
      let a ← parseBool? a.toString
      let f ← parseBool? f.toString
      some { cached := c, isAsync := a, fails := f, deps := ds }
    | [c, a, f, v], some ds => do
      let c ← parseBool? c.toString
      let a ← parseBool? a.toString
      let f ← parseBool? f.toString
      let v ← parseVal? v
      some { cached := c, isAsync := a, fails := f, deps := ds, val := v }
    | _, _ => none
  | _ => none

def parseGraph? (s : String) : Option Graph :=
  if s.isEmpty then some [] else (s.splitOn ";").mapM parseRes?

def dots (l : List Nat) : String := ".".intercalate (l.map toString)

/-- What an observer holding the injected value sees of object `obj` of resource `rid`:
its identity when every factory call returns a new object, otherwise the value itself
(`None`, `0`, `""`, `False` are interned: all creations are the same object). -/
def showObj (g : Graph) (rid obj : Nat) : String :=
  match valueOf g rid with
  | .obj => toString obj
  | .emptyList => toString obj
  | .pyNone => "N"
  | .zero => "Z"
  | .emptyStr => "E"
  | .pyFalse => "F"

/-- objects `objs` injected for the resources `rids`, position by position -/
def showObjs (g : Graph) : List Nat → List Nat → List String
  | r :: rs, o :: os => showObj g r o :: showObjs g rs os
  | [], os => os.map toString
  | _, [] => []

def showOutcome (g : Graph) (reqs : List Nat) : Outcome → String
  | .ok objs => "ok:" ++ ".".intercalate (showObjs g reqs objs)
  | .cycle ch => "cycle:" ++ dots ch
  | .failed r => "failed:" ++ toString r
  | .badRef r => "badref:" ++ toString r
  | .cancelled => "cancelled"

def showEv (g : Graph) (tasks : List Task) : Ev → Option String
  | .call t r o a =>
    let deps := (g[r]?.map (·.deps)).getD []
    some s!"call:{t}:{r}:{o}:{".".intercalate (showObjs g deps a)}"
  | .made t r o => some s!"made:{t}:{r}:{o}"
  | .raised t r o => some s!"raised:{t}:{r}:{o}"
  | .deliver _ _ _ => none
  | .fin t o => some s!"fin:{t}:{showOutcome g ((tasks[t]?.map (·.reqs)).getD []) o}"

/-- a dict printed with sorted keys: for every key below `n`, its first binding -/
def showDict (g : Graph) (d : List (Nat × Nat)) : String :=
  let n := g.length
  let keys := (List.range n).filter fun k => (d.lookup k).isSome
  let extra := (d.map Prod.fst).filter fun k => decide (n ≤ k)
  ",".intercalate ((keys ++ extra.eraseDups).map fun k => s!"{k}:{showObj g k ((d.lookup k).getD 0)}")

def showPhase (k : Task) : String :=
  match k.phase with
  | .fresh => "F"
  | .lockWait => "W"
  | .done _ => "D"
  | .active =>
    match k.stack with
    | f :: _ => if f.waiting.isSome then "S" else "A"
    | [] => "A"

def showState (g : Graph) (s : St) : String :=
  s!"rs={dots s.resolving} d={s.depth} sc={showDict g s.scache} res={showDict g s.resources} lk={if s.lock.isSome then 1 else 0} ph={"".intercalate (s.tasks.map showPhase)}"

def report (d : DS) (old : St) (s : St) : DS × String :=
  let newEvs := (s.log.take (s.log.length - old.log.length)).reverse
  let evs := " ".intercalate (newEvs.filterMap (showEv d.g s.tasks))
  ({ d with st := s }, evs ++ " | " ++ showState d.g s)

def fuel : Nat := 1000000

/-- run to quiescence: the running task to its suspension, then every waiter the lock
was handed to (the event loop runs woken tasks before the scheduler acts again) -/
def quiesce (c : Cfg) (g : Graph) : Nat → St → St
  | 0, s => s
  | n + 1, s =>
    let s1 := settle c g fuel s
    match s1.cur, s1.lock with
    | none, some w =>
      match s1.tasks[w]? with
      | some k =>
        if k.phase = .lockWait then
          match _root_.Resource.step c g s1 (.resume w) with
          | some s2 => quiesce c g n s2
          | none => s1
        else s1
      | none => s1
    | _, _ => s1

def step (d : DS) (line : String) : DS × String :=
  match line.splitOn "|" with
  | ["cfg", e, k] =>
    match parseBool? e, parseBool? k with
    | some e, some k => ({ d with cfg := { excl := e, skipEmpty := k }, st := St.init }, "ok")
    | _, _ => (d, "bad-op")
  | ["graph", gs] =>
    match parseGraph? gs with
    | some g => ({ d with g := g, st := St.init }, "ok")
    | none => (d, "bad-op")
  | ["spawn", mode, rs] =>
    match (if mode == "p" then some false else if mode == "b" then some true else none), parseNats? rs with
    | some bare, some reqs =>
      if bare && reqs.length != 1 then (d, "bad-op")
      else
        match _root_.Resource.step d.cfg d.g d.st (.spawn reqs bare) with
        | none => (d, "disabled")
        | some s =>
          let s' := quiesce d.cfg d.g 10000 s
          if s'.cur.isSome then (d, "fuel-exhausted") else report d d.st s'
    | _, _ => (d, "bad-op")
  | ["spawn", mode, rs, par] =>
    -- created by the finished invocation `par` (the new task starts in a copy of its context)
    match (if mode == "p" then some false else if mode == "b" then some true else none), parseNats? rs, parseNat? par with
    | some bare, some reqs, some p =>
      if bare && reqs.length != 1 then (d, "bad-op")
      else
        match _root_.Resource.stepFrom d.cfg d.g d.st p reqs bare with
        | none => (d, "disabled")
        | some s =>
          let s' := quiesce d.cfg d.g 10000 s
          if s'.cur.isSome then (d, "fuel-exhausted") else report d d.st s'
    | _, _, _ => (d, "bad-op")
  | ["open", t] =>
    match parseNat? t with
    | some t =>
      match _root_.Resource.step d.cfg d.g d.st (.resume t) with
      | none => (d, "disabled")
      | some s =>
        let s' := quiesce d.cfg d.g 10000 s
        if s'.cur.isSome then (d, "fuel-exhausted") else report d d.st s'
    | none => (d, "bad-op")
  | ["cancel", t] =>
    match parseNat? t with
    | some t =>
      match _root_.Resource.step d.cfg d.g d.st (.cancel t) with
      | none => (d, "disabled")
      | some s =>
        let s' := quiesce d.cfg d.g 10000 s
        if s'.cur.isSome then (d, "fuel-exhausted") else report d d.st s'
    | none => (d, "bad-op")
  | _ => (d, "bad-op")

end Drv.Resource
