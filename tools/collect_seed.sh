#!/bin/bash
# usage: tools/collect_seed.sh <Cnn> <tag> <letter>   e.g. C23 e b : /tmp/seed_C23e_out -> seeded/C23-b, run the check on it, confirm the demo
ROOT=${VERIF_ROOT:-$(cd "$(dirname "$0")/.." && pwd)}   # the checkout this script lives in (a worktree of /verif works too)
id=$1; tag=$2; let=$3
src=/tmp/seed_${id}${tag}_out
dst=$ROOT/seeded/${id}-${let}
[ -f $src/patch.diff ] || { echo "$src/patch.diff missing"; exit 2; }
mkdir -p $dst && cp -r $src/* $dst/
sed -i 's#sys.path.insert(0, "/tmp/seedshims")#sys.path.insert(0, __import__("os").path.join(__import__("os").path.dirname(__import__("os").path.dirname(__import__("os").path.abspath(__file__))), "_support"))#' $dst/demo.py
grep -n "/tmp/" $dst/demo.py | grep -v "argv\|default" | head -5
git -C /repo worktree remove --force /tmp/seed_${id}${tag} 2>/dev/null
rm -rf $src
cd $ROOT && tools/run_seeded.sh ${id}-${let} 2>&1 | tail -2 | cut -c1-330
tools/confirm_seeded.sh ${id}-${let} 2>&1 | tail -1 | cut -c1-260
