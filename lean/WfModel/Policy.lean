import WfModel.Generated
/-!
M2 — retry building blocks (`workflows/retry_policy.py`).

The arithmetic / logic bodies of the strategies are **regenerated from the source**
(`Gen.RP.*` in `Generated.lean`, by `harness/translate.py`); this file adds what the
translator does not emit: `wait_chain`, the composed policy's `next`, and a small AST so
that the driver can evaluate policies described on a line.  Numbers are exact rationals;
a jittered strategy draws `u ∈ [0,1]` (`random.Random(seed).random()`), the same `u` for
every component evaluated with one seed, and `uniform(a,b) = a + u·(b-a)`.
Exceptions are abstracted to ids.
-/
namespace Policy
open Gen.RP

abbrev Wait := Nat → Rat → Rat
abbrev Stop := Nat → Rat → Rat → Bool
abbrev Cond := Nat → Bool

/-- `wait_chain`: `idx = min(attempts, len(strategies) - 1)` -/
def waitChain (l : List Wait) (attempts : Nat) (u : Rat) : Rat :=
  match l[min attempts (l.length - 1)]? with
  | some f => f attempts u
  | none => 0

/-- `_ComposableRetryPolicy` -/
structure Composed where
  retry : Option Cond
  wait : Wait
  stop : Stop

/-- `_ComposableRetryPolicy.next(elapsed_time, attempts, error, seed)` -/
def Composed.next (p : Composed) (elapsed : Rat) (attempts : Nat) (error : Nat) (u : Rat) : Option Rat :=
  if (match p.retry with | some r => !r error | none => false) then none
  else
    let delay := p.wait attempts u
    if p.stop attempts elapsed delay then none else some delay

/-! ### AST for the line protocol -/

inductive WLeaf
  | fixed (w : Rat)
  | exponential (mult base mx mn : Rat)
  | incrementing (start inc : Rat) (mx : Option Rat)
  | random (mn mx : Rat)
  | expJitter (initial base mx jitter : Rat)
  | randomExp (mult base mx mn : Rat)
deriving Repr

def WLeaf.eval : WLeaf → Wait
  | .fixed w => waitFixed w
  | .exponential m b mx mn => waitExponential m b mx mn
  | .incrementing s i (some mx) => waitIncrementing s i mx
  -- `max = inf`: `min(result, inf) = result`
  | .incrementing s i none => fun a u => waitIncrementing s i (s + i * (a : Rat) + 1) a u
  | .random mn mx => waitRandom mn mx
  | .expJitter i b mx j => waitExponentialJitter i b mx j
  | .randomExp m b mx mn => waitRandomExponential m b mx mn

inductive WSpec
  | leaf (l : WLeaf)
  | chain (ls : List WLeaf)
  | combine (ls : List WLeaf)
deriving Repr

def WSpec.eval : WSpec → Wait
  | .leaf l => l.eval
  | .chain ls => waitChain (ls.map WLeaf.eval)
  | .combine ls => waitCombine (ls.map WLeaf.eval)

inductive SLeaf
  | afterAttempt (n : Rat)
  | afterDelay (d : Rat)
  | beforeDelay (d : Rat)
  | never
deriving Repr

def SLeaf.eval : SLeaf → Stop
  | .afterAttempt n => stopAfterAttempt n
  | .afterDelay d => stopAfterDelay d
  | .beforeDelay d => stopBeforeDelay d
  | .never => stopNever

inductive SSpec
  | leaf (l : SLeaf)
  | any (ls : List SLeaf)
  | all (ls : List SLeaf)
deriving Repr

def SSpec.eval : SSpec → Stop
  | .leaf l => l.eval
  | .any ls => stopAny (ls.map SLeaf.eval)
  | .all ls => stopAll (ls.map SLeaf.eval)

inductive CLeaf
  | always
  | never
  | excIn (ids : List Nat)
  | excNotIn (ids : List Nat)
deriving Repr

def CLeaf.eval : CLeaf → Cond
  | .always => retryAlways
  | .never => retryNever
  | .excIn ids => fun e => ids.contains e
  | .excNotIn ids => fun e => !ids.contains e

inductive CSpec
  | none_
  | leaf (l : CLeaf)
  | any (ls : List CLeaf)
  | all (ls : List CLeaf)
deriving Repr

def CSpec.eval : CSpec → Option Cond
  | .none_ => none
  | .leaf l => some l.eval
  | .any ls => some (retryAny (ls.map CLeaf.eval))
  | .all ls => some (retryAll (ls.map CLeaf.eval))

structure PSpec where
  retry : CSpec
  wait : WSpec
  stop : SSpec
deriving Repr

def PSpec.eval (p : PSpec) : Composed := { retry := p.retry.eval, wait := p.wait.eval, stop := p.stop.eval }

end Policy
