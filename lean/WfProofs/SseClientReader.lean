import WfProofs.SseClientText

/-! The frame parser on the server's rendering: the body is a list of terminated lines; reading
any prefix of those lines queues a prefix of the events, each with its own sequence. -/

namespace SseClient
open Gen.SseClient

/-! ## the literal pieces the proofs rely on (regenerated from the sources) -/

structure SourceShape : Prop where
  pre : framePre = ['i', 'd', ':', ' ']
  mid : frameMid = ['\n', 'd', 'a', 't', 'a', ':', ' ']
  post : framePost = ['\n', '\n']
  beat : heartbeat = [':', ' ', 'h', 'e', 'a', 'r', 't', 'b', 'e', 'a', 't', '\n', '\n']
  idTag : idTag = ['i', 'd', ':']
  idSkip : idSkip = 3
  dataTag : dataTag = ['d', 'a', 't', 'a', ':']
  dataSkip : dataSkip = 5

theorem source_shape : SourceShape := by
  constructor <;> decide

/-! ## the body as lines -/

def idLine (e : Ev) : List Char := ['i', 'd', ':', ' '] ++ decimal e.seq
def dataLine (e : Ev) : List Char := ['d', 'a', 't', 'a', ':', ' '] ++ e.payload
def beatLine : List Char := [':', ' ', 'h', 'e', 'a', 'r', 't', 'b', 'e', 'a', 't']

def frameLines (e : Ev) : List (List Char) := [idLine e, dataLine e, []]

def beatLines : Nat → List (List Char)
  | 0 => []
  | n + 1 => beatLine :: [] :: beatLines n

def bodyLines : List Ev → List Nat → List (List Char)
  | [], hb => beatLines (hb.headD 0)
  | e :: es, hb => beatLines (hb.headD 0) ++ (frameLines e ++ bodyLines es hb.tail)

theorem frame_eq (e : Ev) : frame e = joinNL (frameLines e) := by
  have h := source_shape
  simp [frame, h.pre, h.mid, h.post, joinNL, frameLines, idLine, dataLine]

theorem beats_eq : ∀ n, beats n = joinNL (beatLines n) := by
  intro n
  induction n with
  | zero => rfl
  | succ n ih =>
    have h := source_shape
    have : beats (n + 1) = heartbeat ++ beats n := by simp [beats, List.replicate_succ]
    rw [this, ih, h.beat]
    simp [beatLines, joinNL, beatLine]

theorem render_eq : ∀ evs hb, render evs hb = joinNL (bodyLines evs hb) := by
  intro evs
  induction evs with
  | nil => intro hb; simp [render, bodyLines, beats_eq]
  | cons e es ih =>
    intro hb
    simp only [render, bodyLines, joinNL_append, beats_eq, frame_eq, ih, List.append_assoc]

/-! ## which characters may end a line -/

/-- the splitter ends a line at `\n` and never at a printable ASCII character -/
def BrkOk (brk : Char → Bool) : Prop :=
  brk '\n' = true ∧ ∀ c : Char, 32 ≤ c.toNat → c.toNat < 127 → brk c = false

/-- what the theorems need to know about one event -/
structure EvOk (valid : List Char → Bool) (brk : Char → Bool) (e : Ev) : Prop where
  valid : valid e.payload = true
  nonempty : e.payload ≠ []
  trimmed : Trimmed e.payload
  nobreak : ∀ c ∈ e.payload, brk c = false

theorem beatLine_printable : ∀ c ∈ beatLine, 32 ≤ c.toNat ∧ c.toNat < 127 := by decide

theorem beatLines_mem : ∀ n l, l ∈ beatLines n → l = [] ∨ l = beatLine := by
  intro n
  induction n with
  | zero => intro l h; simp [beatLines] at h
  | succ n ih =>
    intro l h
    simp only [beatLines, List.mem_cons] at h
    rcases h with h | h | h
    · exact Or.inr h
    · exact Or.inl h
    · exact ih l h

theorem bodyLines_nobreaks {valid : List Char → Bool} {brk : Char → Bool} (hb : BrkOk brk) :
    ∀ evs hbs, (∀ e ∈ evs, EvOk valid brk e) → NoBreaks brk (bodyLines evs hbs) := by
  have hbeat : ∀ n, NoBreaks brk (beatLines n) := by
    intro n l hl c hc
    rcases beatLines_mem n l hl with h | h
    · subst h; simp at hc
    · subst h
      have := beatLine_printable c hc
      exact hb.2 c this.1 this.2
  intro evs
  induction evs with
  | nil => intro hbs _; exact hbeat _
  | cons e es ih =>
    intro hbs h
    intro l hl c hc
    simp only [bodyLines, List.mem_append, frameLines, List.mem_cons, List.not_mem_nil, or_false] at hl
    rcases hl with hl | (hl | hl | hl) | hl
    · exact hbeat _ l hl c hc
    · subst hl
      simp only [idLine, List.mem_append, List.mem_cons, List.not_mem_nil, or_false] at hc
      rcases hc with (hc | hc | hc | hc) | hc
      · subst hc; exact hb.2 _ (by decide) (by decide)
      · subst hc; exact hb.2 _ (by decide) (by decide)
      · subst hc; exact hb.2 _ (by decide) (by decide)
      · subst hc; exact hb.2 _ (by decide) (by decide)
      · have := (asciiDigit_facts ((decimal_spec e.seq).2.1 c hc)).2.2.2.2.2
        exact hb.2 c this.1 this.2
    · subst hl
      simp only [dataLine, List.mem_append, List.mem_cons, List.not_mem_nil, or_false] at hc
      rcases hc with (hc | hc | hc | hc | hc | hc) | hc
      · subst hc; exact hb.2 _ (by decide) (by decide)
      · subst hc; exact hb.2 _ (by decide) (by decide)
      · subst hc; exact hb.2 _ (by decide) (by decide)
      · subst hc; exact hb.2 _ (by decide) (by decide)
      · subst hc; exact hb.2 _ (by decide) (by decide)
      · subst hc; exact hb.2 _ (by decide) (by decide)
      · exact (h e (by simp)).nobreak c hc
    · subst hl; simp at hc
    · exact ih hbs.tail (fun x hx => h x (by simp [hx])) l hl c hc

/-! ## one line at a time -/

variable {valid : List Char → Bool}

theorem procLine_nil (s : RState) : procLine valid s [] = s := by
  unfold procLine
  by_cases h : s.err <;> simp [h, strip_nil]

theorem procLine_beat (s : RState) : procLine valid s beatLine = s := by
  unfold procLine
  have h1 : strip beatLine = beatLine := by decide
  have h2 : beatLine.isEmpty = false := by decide
  have h3 : idTag.isPrefixOf beatLine = false := by decide
  have h4 : dataTag.isPrefixOf beatLine = false := by decide
  by_cases h : s.err <;> simp [h, h1, h2, h3, h4]

theorem trimmed_append {a b : List Char} (hane : a ≠ []) (hbne : b ≠ [])
    (ha : ∀ c, a.head? = some c → isSpace c = false) (hb : ∀ c, b.getLast? = some c → isSpace c = false) :
    Trimmed (a ++ b) := by
  constructor
  · intro c hc
    cases a with
    | nil => exact absurd rfl hane
    | cons x xs => exact ha c (by simpa using hc)
  · intro c hc
    rw [List.getLast?_append] at hc
    cases hb' : b.getLast? with
    | none => exact absurd (List.getLast?_eq_none_iff.mp hb') hbne
    | some y =>
      rw [hb'] at hc
      simp at hc
      subst hc
      exact hb y hb'

theorem decimal_trimmed (n : Nat) : Trimmed (decimal n) :=
  trimmed_of_ends (fun c hc => (asciiDigit_facts ((decimal_spec n).2.1 c hc)).2.1)

theorem idLine_trimmed (e : Ev) : Trimmed (idLine e) := by
  apply trimmed_append (by simp) (decimal_spec e.seq).1
  · intro c hc
    simp at hc
    subst hc
    decide
  · exact (decimal_trimmed e.seq).2

theorem dataLine_trimmed {e : Ev} (hne : e.payload ≠ []) (ht : Trimmed e.payload) : Trimmed (dataLine e) := by
  apply trimmed_append (by simp) hne
  · intro c hc
    simp at hc
    subst hc
    decide
  · exact ht.2

theorem procLine_id (s : RState) (e : Ev) (h : s.err = false) :
    procLine valid s (idLine e) = { s with cur := some (decimal e.seq) } := by
  have hs := source_shape
  unfold procLine
  rw [strip_of_trimmed (idLine_trimmed e)]
  have h2 : (idLine e).isEmpty = false := by simp [idLine]
  have h3 : idTag.isPrefixOf (idLine e) = true := by simp [hs.idTag, idLine, List.isPrefixOf]
  have h4 : (idLine e).drop idSkip = ' ' :: decimal e.seq := by simp [hs.idSkip, idLine]
  simp [h, h2, h3, h4, strip_space_cons (decimal_trimmed e.seq)]

theorem procLine_data (s : RState) {brk : Char → Bool} (e : Ev) (i : List Char) (h : s.err = false)
    (hc : s.cur = some i) (he : EvOk valid brk e) :
    procLine valid s (dataLine e) =
      { s with last := (pyInt? i).getD s.last, out := s.out ++ [((pyInt? i).getD s.last, e.payload)], cur := none } := by
  have hs := source_shape
  unfold procLine
  rw [strip_of_trimmed (dataLine_trimmed he.nonempty he.trimmed)]
  have h2 : (dataLine e).isEmpty = false := by simp [dataLine]
  have h3 : idTag.isPrefixOf (dataLine e) = false := by simp [hs.idTag, dataLine, List.isPrefixOf]
  have h4 : dataTag.isPrefixOf (dataLine e) = true := by simp [hs.dataTag, dataLine, List.isPrefixOf]
  have h5 : (dataLine e).drop dataSkip = ' ' :: e.payload := by simp [hs.dataSkip, dataLine]
  simp [h, h2, h3, h4, h5, strip_space_cons he.trimmed, he.valid, hc]

/-! ## many lines -/

theorem procLines_append (s : RState) (a b : List (List Char)) :
    procLines valid s (a ++ b) = procLines valid (procLines valid s a) b := by
  simp [procLines, List.foldl_append]

theorem procLines_noise (s : RState) : ∀ ls : List (List Char), (∀ l ∈ ls, l = [] ∨ l = beatLine) →
    procLines valid s ls = s := by
  intro ls
  induction ls generalizing s with
  | nil => intro _; rfl
  | cons l ls ih =>
    intro h
    have hl : procLine valid s l = s := by
      rcases h l (by simp) with h1 | h1 <;> subst h1
      · exact procLine_nil s
      · exact procLine_beat s
    simp only [procLines, List.foldl_cons, hl]
    exact ih s (fun x hx => h x (by simp [hx]))

theorem procLines_beats_take (s : RState) (n m : Nat) : procLines valid s ((beatLines n).take m) = s :=
  procLines_noise s _ (fun l hl => beatLines_mem n l (List.mem_of_mem_take hl))

theorem lastOf_nil (c : Int) : lastOf c [] = c := rfl

theorem lastOf_cons (c : Int) (e : Ev) (l : List Ev) : lastOf c (e :: l) = lastOf e.seq l := by
  cases l with
  | nil => rfl
  | cons x xs =>
    simp only [lastOf, List.getLast?_cons_cons]
    cases h : (x :: xs).getLast? with
    | none => exact absurd (List.getLast?_eq_none_iff.mp h) (by simp)
    | some y => rfl

theorem emit_cons (e : Ev) (l : List Ev) : emit (e :: l) = ((e.seq : Int), e.payload) :: emit l := rfl

/-- the whole frame: id line, data line, blank line -/
theorem procLines_frame {brk : Char → Bool} (s : RState) (e : Ev) (h : s.err = false)
    (he : EvOk valid brk e) :
    procLines valid s [idLine e, dataLine e] =
      { s with last := e.seq, out := s.out ++ [((e.seq : Int), e.payload)], cur := none } := by
  simp only [procLines, List.foldl_cons, List.foldl_nil]
  rw [procLine_id s e h]
  rw [procLine_data _ e (decimal e.seq) (by simpa using h) rfl he]
  simp [pyInt_decimal]

/-- Reading the first `k` lines of the body queues the first `j` events, each tagged with its own
sequence, and `last` is the sequence of the last of them; all lines read = all events queued. -/
theorem procLines_body {brk : Char → Bool} : ∀ (evs : List Ev) (hb : List Nat) (k : Nat) (s : RState),
    s.err = false → s.cur = none → (∀ e ∈ evs, EvOk valid brk e) →
    ∃ j, j ≤ evs.length ∧
      (procLines valid s ((bodyLines evs hb).take k)).err = false ∧
      (procLines valid s ((bodyLines evs hb).take k)).out = s.out ++ emit (evs.take j) ∧
      (procLines valid s ((bodyLines evs hb).take k)).last = lastOf s.last (evs.take j) ∧
      ((bodyLines evs hb).length ≤ k → j = evs.length) := by
  intro evs
  induction evs with
  | nil =>
    intro hb k s herr _ _
    refine ⟨0, by simp, ?_⟩
    simp only [bodyLines, procLines_beats_take]
    simp [herr, emit, lastOf]
  | cons e es ih =>
    intro hb k s herr hcur hok
    have he := hok e (by simp)
    have hes : ∀ x ∈ es, EvOk valid brk x := fun x hx => hok x (by simp [hx])
    have hfl : (frameLines e).length = 3 := rfl
    simp only [bodyLines, List.length_append, hfl]
    rw [List.take_append, procLines_append, procLines_beats_take]
    generalize (beatLines (hb.headD 0)).length = L
    generalize hm : k - L = m
    match m, hm with
    | 0, hm =>
      refine ⟨0, by simp, ?_, ?_, ?_, ?_⟩
      · simpa [procLines] using herr
      · simp [procLines, emit]
      · simp [procLines, lastOf]
      · intro hlen; omega
    | 1, hm =>
      have : (frameLines e ++ bodyLines es hb.tail).take 1 = [idLine e] := by simp [frameLines]
      rw [this]
      simp only [procLines, List.foldl_cons, List.foldl_nil]
      rw [procLine_id s e herr]
      refine ⟨0, by simp, ?_, ?_, ?_, ?_⟩
      · simpa using herr
      · simp [emit]
      · simp [lastOf]
      · intro hlen; omega
    | 2, hm =>
      have : (frameLines e ++ bodyLines es hb.tail).take 2 = [idLine e, dataLine e] := by simp [frameLines]
      rw [this, procLines_frame s e herr he]
      refine ⟨1, by simp, ?_, ?_, ?_, ?_⟩
      · simpa using herr
      · simp [emit]
      · simp [lastOf]
      · intro hlen; omega
    | m' + 3, hm =>
      have : (frameLines e ++ bodyLines es hb.tail).take (m' + 3) =
          [idLine e, dataLine e] ++ ([] :: (bodyLines es hb.tail).take m') := by simp [frameLines]
      rw [this, procLines_append, procLines_frame s e herr he]
      have hstep : ∀ t : RState, procLines valid t ([] :: (bodyLines es hb.tail).take m') =
          procLines valid t ((bodyLines es hb.tail).take m') := by
        intro t
        simp [procLines, procLine_nil]
      rw [hstep]
      obtain ⟨j, hj, h1, h2, h3, h4⟩ := ih hb.tail m'
        { s with last := e.seq, out := s.out ++ [((e.seq : Int), e.payload)], cur := none } (by simpa using herr) rfl hes
      refine ⟨j + 1, by simp; omega, h1, ?_, ?_, ?_⟩
      · rw [h2]; simp [emit_cons]
      · rw [h3]; simp [lastOf_cons]
      · intro hlen
        have := h4 (by omega)
        simp [this]

end SseClient
