"""C03, runner level: monitors for the clauses proved in WfProps/C03.lean on the runner LTS, stated directly on the
real `_ControlLoopRunner`'s internals as recorded at every reducer call (tick buffer, timer heap, mailbox,
started/pending worker tasks, `_idle_check_pending`), and a rewind stream (resumed states) checked against the closed
form of `C03_rewind_exact` both on the model (driver op `rewindspec`) and directly on the real output.
"""
from __future__ import annotations

import random
from typing import Any

from workflows.events import StopEvent, UnhandledEvent, WorkflowIdleEvent
from workflows.runtime import control_loop as CL
from workflows.runtime.types import commands as C
from workflows.runtime.types import results as R
from workflows.runtime.types import ticks as T
from workflows.runtime.types.internal_state import EventAttempt

from ..runner import Divergence, Driver, Env, Outcome, Violation, diff_streams
from . import direct, enc
from .live import Trace


def _replay(tr: Trace) -> dict:
    return {"spec": tr.spec, "actions": list(tr.actions)}


def _has_stop(tk: Any) -> bool:
    return isinstance(tk, T.TickStepResult) and any(isinstance(r, R.StepWorkerResult) and isinstance(r.result, StopEvent) for r in tk.result)


# ------------------------------------------------------------------ the closed form of the rewind


def rewind_expected(before: Any) -> dict[str, tuple[list[str], list[str]]]:
    """per step: (events started, in order; attempts left queued, in order) — `C03_rewind_exact`"""
    out: dict[str, tuple[list[str], list[str]]] = {}
    for name, ws in before.workers.items():
        pending = [("ip", ip) for ip in reversed(ws.in_progress)] + [("q", a) for a in ws.queue]
        k = min(ws.config.num_workers, len(pending))
        out[name] = ([enc.ev(x.event) for _k, x in pending[:k]], [enc.attempt(x) for _k, x in pending[k:]])
    return out


def rewind_observed(after: Any) -> dict[str, tuple[list[str], list[str]]]:
    return {name: ([enc.ev(ip.event) for ip in ws.in_progress], [enc.attempt(a) for a in ws.queue]) for name, ws in after.workers.items()}


def rewind_mismatch(before: Any, after: Any) -> str | None:
    exp, obs = rewind_expected(before), rewind_observed(after)
    for name in exp:
        if name not in obs:
            return f"step {name} disappeared"
        if exp[name] != obs[name]:
            e, o = exp[name], obs[name]
            nw = before.workers[name].config.num_workers
            return (f"step {name} (num_workers={nw}, {len(before.workers[name].in_progress)} in progress + {len(before.workers[name].queue)} queued before): "
                    f"expected {len(e[0])} started / {len(e[1])} queued in the order re-inserted in-progress (reversed) then queue, "
                    f"got {len(o[0])} started / {len(o[1])} queued" + ("" if (len(e[0]), len(e[1])) != (len(o[0]), len(o[1])) else " in another order or with other retry fields"))
    return None


# ------------------------------------------------------------------ monitors on live traces


def mon_c03_runner(tr: Trace) -> list[Violation]:
    out: list[Violation] = []
    seen: set[str] = set()

    def add(sig: str, what: str) -> None:
        if sig not in seen:  # one per signature and trace
            seen.add(sig)
            out.append(Violation(sig, what, _replay(tr)))

    for c in tr.calls:
        if c.caller not in ("run", "_process_tick"):
            continue
        if c.kind == "rewind" and c.after is not None:
            why = rewind_mismatch(c.before, c.after)
            if why is not None:
                add("C03/rewind_not_exact", "start of a run: " + why)
            continue
        if c.kind != "reduce" or not c.runner:
            continue
        info = c.runner
        buf = list(info.get("buffer", []))
        # -- the deferred idle check (C03_idle_check_exact), at the moment the tick has been taken off the buffer
        n_ic = sum(1 for t in buf if isinstance(t, T.TickIdleCheck))
        if n_ic > 1:
            add("C03/idle_check_duplicated", f"{n_ic} TickIdleCheck ticks in the tick buffer")
        if n_ic >= 1 and not isinstance(buf[-1], T.TickIdleCheck):
            add("C03/idle_check_not_last", "a TickIdleCheck is buffered in front of other ticks: " + ",".join(type(t).__name__ for t in buf))
        if bool(info.get("idle_pending")) != (n_ic >= 1):
            add("C03/idle_check_flag_mismatch", f"_idle_check_pending={info.get('idle_pending')} with {n_ic} TickIdleCheck in the buffer "
                                                 f"while reducing {type(c.tick).__name__}")
        if any(isinstance(t, T.TickIdleCheck) for (_a, _s, t) in info.get("heap", [])) or any(isinstance(t, T.TickIdleCheck) for t in info.get("mailbox", [])):
            add("C03/idle_check_outside_buffer", "a TickIdleCheck sits in the timer heap or the mailbox")
        # -- in progress means live (C03_in_progress_is_live), on the state the tick is reduced on
        live = set(map(tuple, info.get("running_workers", []))) | set(map(tuple, info.get("pending_workers", [])))
        if c.before is not None and not _has_stop(c.tick):
            own = (c.tick.step_name, c.tick.worker_id) if isinstance(c.tick, T.TickStepResult) else None
            for name, ws in c.before.workers.items():
                for ip in ws.in_progress:
                    if (name, ip.worker_id) not in live and (name, ip.worker_id) != own:
                        add("C03/in_progress_without_worker", f"{name} has worker {ip.worker_id} in progress but no task of the loop runs it "
                                                               f"(live tasks {sorted(live)}, reducing {type(c.tick).__name__})")
        # -- at an announcement (C03_idle_runner_sound)
        if c.after is None:
            continue
        pubs = [x.event for x in c.cmds if isinstance(x, C.CommandPublishEvent)]
        idle_ev = any(isinstance(e, WorkflowIdleEvent) for e in pubs)
        unh_idle = any(isinstance(e, UnhandledEvent) and e.idle for e in pubs)
        if idle_ev and not isinstance(c.tick, T.TickIdleCheck):
            add("C03/idle_event_from_other_tick", f"WorkflowIdleEvent published while reducing {type(c.tick).__name__}")
        if idle_ev and buf:
            add("C03/idle_with_buffered_tick", "WorkflowIdleEvent published with ticks still buffered behind the idle check: "
                + ",".join(type(t).__name__ for t in buf))
        if (idle_ev or unh_idle) and any(isinstance(t, T.TickStepResult) for t in buf):
            add("C03/idle_with_buffered_step_result", "idleness announced with a step result waiting in the tick buffer")
    return out


# ------------------------------------------------------------------ the rewind stream (resumed states)

SHAPES = ["as_generated", "deserialized", "backlog", "fewer_workers"]


def _reshape(g: direct.Gen, st: Any, shape: str) -> None:
    rng = g.rng
    hn = list(st.config.catch_error_handlers.keys())
    for nm, ws in st.workers.items():
        if nm in hn:
            continue
        if shape == "deserialized":
            # BrokerState.from_serialized: the in-progress invocations are folded into the queue, in_progress is empty
            ws.queue[:0] = [EventAttempt(event=ip.event, attempts=ip.attempts, first_attempt_at=ip.first_attempt_at, last_exception=ip.last_exception,
                                         last_failed_at=ip.last_failed_at, recovery_counts=dict(ip.recovery_counts)) for ip in ws.in_progress]
            ws.in_progress = []
            if rng.random() < 0.5:
                ty = enc.ET.TY_ID.get(type(ws.queue[0].event), 5) if ws.queue else 5
                ws.queue += [g.attempt(hn, ty) for _ in range(rng.randint(1, 3))]
        elif shape == "backlog":
            ty = enc.ET.TY_ID.get(type(ws.in_progress[0].event), 5) if ws.in_progress else 5
            ws.queue += [g.attempt(hn, ty) for _ in range(rng.randint(1, 4))]
        elif shape == "fewer_workers" and len(ws.in_progress) >= 2:
            k = rng.randint(1, len(ws.in_progress) - 1)
            try:
                st.config.steps[nm].num_workers = k
                ws.config.num_workers = k
            except Exception:
                pass


def rewind_stream(env: Env, out: Outcome, n: int) -> None:
    gen_seed = env.rng.randrange(1 << 30)
    only: int | None = None
    if env.replay is not None and isinstance(env.replay.get("payload", {}).get("case"), dict) and "rewind_case" in env.replay["payload"]["case"]:
        rc = env.replay["payload"]["case"]["rewind_case"]
        gen_seed, only = rc["gen_seed"], rc["index"]
        n = max(n, only + 1)
    g = direct.Gen(random.Random(gen_seed))
    ops: list[str] = []
    exp: list[str] = []
    for idx in range(n):
        st = g.state(False)
        shape = g.rng.choice(SHAPES)
        _reshape(g, st, shape)
        now = float(g.rng.choice([1000, 1001, 1005]))
        try:
            st2, cmds = CL.rewind_in_progress(st, now)
        except Exception as e:  # the rewind of a well-formed state raises nothing
            out.violations.append(Violation("C03/rewind_raises", f"rewind_in_progress raised {type(e).__name__}: {e}",
                                            {"rewind_case": {"gen_seed": gen_seed, "index": idx}, "state": enc.state(st)[:4000]}))
            continue
        if only is not None and idx != only:
            continue
        why = rewind_mismatch(st, st2)
        if why is not None:
            out.violations.append(Violation("C03/rewind_not_exact", f"rewind of a generated resumed state ({shape}): " + why,
                                            {"rewind_case": {"gen_seed": gen_seed, "index": idx}, "cfg": enc.cfg(st)[:2000], "state": enc.state(st)[:6000]}))
        for name, ws in st2.workers.items():
            if ws.queue and len(ws.in_progress) < ws.config.num_workers:
                out.violations.append(Violation("C03/stalled_queue_after_rewind", f"generated resumed state ({shape}): {name} starts with {len(ws.queue)} queued "
                                                f"event(s) but only {len(ws.in_progress)}/{ws.config.num_workers} workers running",
                                                {"rewind_case": {"gen_seed": gen_seed, "index": idx}, "cfg": enc.cfg(st)[:2000], "state": enc.state(st)[:6000]}))
                break
        started = sum(len(ws.in_progress) for ws in st2.workers.values())
        ncmd = sum(1 for c in cmds if isinstance(c, C.CommandRunWorker))
        if started != ncmd:
            out.violations.append(Violation("C03/rewind_rows_without_run_command", f"the rewind leaves {started} rows in progress but emits {ncmd} CommandRunWorker",
                                            {"rewind_case": {"gen_seed": gen_seed, "index": idx}, "cfg": enc.cfg(st)[:2000], "state": enc.state(st)[:6000]}))
        ops += ["cfg " + enc.cfg(st), "state " + enc.state(st), "rewindspec", f"rewind {enc.num(now)}"]
        obs = rewind_observed(st2)
        spec = enc.lst([f"{enc.step_id(nm)} {len(obs[nm][0])} {enc.lst(obs[nm][0])} {enc.lst(obs[nm][1])}" for nm in st.config.steps.keys()])
        exp += ["ok", enc.state(st), spec, enc.result_line(st2, cmds)]
        out.evaluations += 1
        out.count("rewind:shape:" + shape)
        pend = max((len(ws.in_progress) + len(ws.queue) - ws.config.num_workers) for ws in st.workers.values())
        out.count("rewind:max_pending_minus_workers:" + ("<0" if pend < 0 else "0" if pend == 0 else "1-2" if pend <= 2 else ">2"))
        if any(len(ws.in_progress) + len(ws.queue) >= 2 for ws in st.workers.values()):
            out.nontrivial(("rewind", ops[-3]))
    if not ops:
        return
    try:
        mo = Driver("engine").run(ops)
    except Exception as ex:
        out.divergences.append(Divergence("engine-rewind-spec", 0, "<driver>", repr(ex), ""))
        return
    out.traces_validated += len(ops) // 4
    out.disagreements_checked += len(ops)
    d = diff_streams("engine-rewind-spec", ops, mo, exp)
    if d is not None:
        d.context = {"state_op": ops[d.index - (2 if ops[d.index].startswith("rewind ") else 1)][:4000] if d.index > 0 else None,
                     "rewind_case": {"gen_seed": gen_seed}}
        d.op, d.model_out, d.impl_out = d.op[:3000], d.model_out[:3000], d.impl_out[:3000]
        out.divergences.append(d)


# ------------------------------------------------------------------ the server side: what IdleReleaseDecorator treats as idle

#: the scenario of a promptly answered idle run: idle announced, an event delivered while the run is still in memory, the
#: step it starts outlives the release timer armed by the FIRST announcement
SERVER_CORPUS: list[dict] = [
    {"tau": 0.2, "store": "memory", "yielding": False, "wf": {"dur": {"1": 0.5}, "final": 99}, "plan": [{"at": 0.1, "n": 1}, {"at": 1.5, "n": 99}]},
    {"tau": 0.2, "store": "sqlite", "yielding": False, "wf": {"dur": {"1": 0.3, "2": 0.3}, "final": 99, "nw": 2},
     "plan": [{"at": 0.05, "n": 1}, {"at": 0.15, "n": 2}, {"at": 2.0, "n": 99}]},
    {"tau": 0.1, "store": "memory", "yielding": False, "wf": {"dur": {"1": 0.0}, "final": 99}, "plan": [{"at": 0.05, "n": 1}, {"at": 0.5, "n": 99}]},
]


def server_monitors(case: dict, r: dict) -> list[tuple[str, str]]:
    """C03 on the observation log of the real in-process server stack (harness/server/idle.py): the store's idle mark is
    written by an idle announcement only, a delivery to the run in memory withdraws it, a release needs a mark at least
    `idle_timeout` old, and a run is not released over an event delivered after its last announcement."""
    from ..server.idle_check import _field

    ev = r["events"]
    impl = r["impl"]
    tau = r["tau_ms"]
    out: list[tuple[str, str]] = []
    ops = [e for e in ev if e["ev"] == "op" and e["idx"] < len(impl)]
    prev_idle = "-"
    last_mark_t: int | None = None
    last_deliver_active: int | None = None
    for i, e in enumerate(ev):
        if e["ev"] != "op" or e["idx"] >= len(impl):
            if e["ev"] == "abort" and e.get("by", ("", 0))[0] == "t":
                j = e["by"][1]
                q = next((o for o in reversed(ops) if o["op"] == f"tquery|{j}" and o["t"] <= e["t"]), None)
                seen = _field(impl[q["idx"]], "idle") if q is not None else "?"
                if seen in ("-", "?") or e["t"] - int(seen) < tau:
                    out.append(("C03/server_release_without_elapsed_idle_mark",
                                f"the run was released at t={e['t']} ms on idle_since={seen} (idle_timeout {tau} ms)"))
                if last_deliver_active is not None and (last_mark_t is None or last_mark_t < last_deliver_active) and e.get("steps_running", 0) > 0:
                    out.append(("C03/server_idle_report_not_withdrawn",
                                f"the run was released at t={e['t']} ms with {e.get('steps_running')} step(s) running although an event was delivered to it in memory at "
                                f"t={last_deliver_active} ms, after its last idle announcement (t={last_mark_t} ms)"))
            continue
        kind = e["op"].partition("|")[0]
        line = impl[e["idx"]]
        idle = _field(line, "idle")
        if kind == "mark":
            last_mark_t = e["t"]
            prev = ev[i - 1] if i > 0 else {}
            if prev.get("ev") != "idle_published" or prev.get("t") != e["t"]:
                out.append(("C03/server_idle_mark_without_idle_event", f"idle_since was written at t={e['t']} ms without a WorkflowIdleEvent being published"))
        elif idle != prev_idle and idle != "-":
            out.append(("C03/server_idle_since_set_by:" + kind, f"idle_since changed from {prev_idle} to {idle} by `{e['op']}`, which is not an idle announcement"))
        if kind == "sdeliver" and not case.get("yielding"):
            if idle != "-":
                out.append(("C03/server_idle_mark_survives_send", f"after send_event({e['op'].partition('|')[2]}) returned at t={e['t']} ms the handler still "
                                                                  f"has idle_since={idle}: the idle report was not withdrawn"))
            if _field(line, "act") == "1":
                last_deliver_active = e["t"]
        prev_idle = idle
    seen_sigs: set[str] = set()
    res = []
    for s, w in out:
        if s not in seen_sigs:
            seen_sigs.add(s)
            res.append((s, w))
    return res


def server_idle_side(env: Env, out: Outcome, n: int) -> None:
    """the anchored idle_release_runtime.py, run for real (PersistenceDecorator + IdleReleaseDecorator over BasicRuntime under the
    virtual-time loop; observation = harness/server/idle.py, shared with C26/C36, whose model correspondence is theirs)"""
    from ..server import idle as IDLE
    from ..server import idle_check as IC

    rng = random.Random(env.rng.randrange(1 << 30))
    cases: list[dict] = []
    if env.replay is not None and isinstance(env.replay.get("payload", {}).get("case"), dict) and "server_case" in env.replay["payload"]["case"]:
        cases.append(env.replay["payload"]["case"]["server_case"])
    cases += [dict(c) for c in SERVER_CORPUS]
    for k in range(n):
        cases.append(IC.gen_case(rng, yielding=False, long_work=(k % 2 == 0), store=("sqlite" if k % 7 == 3 else "memory")))
    for case in cases:
        try:
            r = IDLE.run_case(case)
        except Exception as e:
            out.notes.append(f"server_idle_side: case failed to run: {type(e).__name__}: {e}")
            continue
        out.evaluations += 1
        marks = sum(1 for e in r["events"] if e["ev"] == "op" and e["op"] == "mark")
        aborts = sum(1 for e in r["events"] if e["ev"] == "abort")
        resident = sum(1 for e in r["events"] if e["ev"] == "op" and e["op"].startswith("sclear|"))
        out.count(f"server:idle_marks:{min(marks, 3)}")
        out.count(f"server:releases:{min(aborts, 3)}")
        out.count(f"server:sends_to_resident_run:{min(resident, 3)}")
        if marks and resident:
            out.nontrivial(("server", repr(case)))
        for sig, what in server_monitors(case, r):
            out.violations.append(Violation(sig, what, {"server_case": dict(case, choices=r.get("choices"))}))
