"""Facts of backup/archive.py's metadata cleaning -> lean/WfModel/GenArchiveClean.lean (property C33).

Re-read from /repo's *current* sources on every run:

* `_CRD_METADATA_KEEP`, `_SECRET_METADATA_KEEP` (sets of str; emitted sorted), `_SYSTEM_ANNOTATION_PREFIXES`;
* which keep set `clean_crd_metadata` / `clean_secret_metadata` hand to `_clean_metadata`;
* `_clean_metadata`, statement by statement, independent of how its locals are called: the top-level key that is
  popped, the key the metadata mapping is fetched under (and that its default is a fresh `{}`), the allow-list loop
  (`for k in list(meta): if k not in keep_keys: del meta[k]`), the key the annotations are fetched under, the prefix
  loop (`any(k.startswith(p) for p in _SYSTEM_ANNOTATION_PREFIXES)` -> `del annotations[k]`), the final
  `if not annotations: meta.pop(<key>, None)`, and that the document itself is returned;
* the writer's `name = cr.get(<metadata key>, {}).get(<name key>, <default>)` (the member names are built from it);
* manage_api/backup_service.py `_perform_backup` (not an anchor of the property; read only for the end-to-end statement):
  the name / generation are taken from `crd.get("metadata", {})` *before* `clean_crd_metadata(crd)`, under which keys, and
  which dict is keyed by what.

A shape that is not found produces a sentinel ("<missing>" / [] / false) and a note.
"""
from __future__ import annotations

import ast
from typing import Any

from .archive import ARCHIVE, _func, _parse, lean_chars, lean_str

LEAN_MODULE = "GenArchiveClean"
SERVICE = "packages/llama-agents-control-plane/src/llama_agents/control_plane/manage_api/backup_service.py"


def _str_collection(tree: ast.Module | None, name: str, notes: list[str]) -> list[str] | None:
    if tree is not None:
        for n in tree.body:
            if isinstance(n, ast.Assign) and len(n.targets) == 1 and isinstance(n.targets[0], ast.Name) and n.targets[0].id == name \
                    and isinstance(n.value, (ast.Set, ast.Tuple, ast.List)) \
                    and all(isinstance(e, ast.Constant) and isinstance(e.value, str) for e in n.value.elts):
                vals = [e.value for e in n.value.elts]
                return sorted(set(vals)) if isinstance(n.value, ast.Set) else vals
    notes.append(f"gen/archive_clean: {name} not found as a literal collection of strings")
    return None


def _is_empty_dict(e: ast.AST) -> bool:
    return isinstance(e, ast.Dict) and not e.keys


def _get_call(e: ast.AST) -> tuple[str, str] | None:
    """`<var>.get(<str>, {})` -> (var, key)"""
    if isinstance(e, ast.Call) and isinstance(e.func, ast.Attribute) and e.func.attr == "get" and isinstance(e.func.value, ast.Name) \
            and len(e.args) == 2 and isinstance(e.args[0], ast.Constant) and isinstance(e.args[0].value, str) and _is_empty_dict(e.args[1]):
        return e.func.value.id, e.args[0].value
    return None


def _pop_call(e: ast.AST) -> tuple[str, str] | None:
    """`<var>.pop(<str>, None)` -> (var, key)"""
    if isinstance(e, ast.Call) and isinstance(e.func, ast.Attribute) and e.func.attr == "pop" and isinstance(e.func.value, ast.Name) \
            and len(e.args) == 2 and isinstance(e.args[0], ast.Constant) and isinstance(e.args[0].value, str) \
            and isinstance(e.args[1], ast.Constant) and e.args[1].value is None:
        return e.func.value.id, e.args[0].value
    return None


def _loop_over_list_of(s: ast.stmt, var: str) -> tuple[str, ast.If] | None:
    """`for k in list(<var>): if <test>: del <var>[k]` -> (k, the If)"""
    if isinstance(s, ast.For) and isinstance(s.target, ast.Name) and isinstance(s.iter, ast.Call) and isinstance(s.iter.func, ast.Name) \
            and s.iter.func.id == "list" and len(s.iter.args) == 1 and isinstance(s.iter.args[0], ast.Name) and s.iter.args[0].id == var \
            and len(s.body) == 1 and isinstance(s.body[0], ast.If) and not s.body[0].orelse and not s.orelse:
        k = s.target.id
        body = s.body[0].body
        if len(body) == 1 and isinstance(body[0], ast.Delete) and len(body[0].targets) == 1:
            t = body[0].targets[0]
            if isinstance(t, ast.Subscript) and isinstance(t.value, ast.Name) and t.value.id == var and isinstance(t.slice, ast.Name) \
                    and t.slice.id == k:
                return k, s.body[0]
    return None


def extract_clean(tree: ast.Module | None, notes: list[str]) -> dict:
    r: dict[str, Any] = {"statusKey": "<missing>", "metadataKey": "<missing>", "annotationsKey": "<missing>",
                         "emptyPopKey": "<missing>", "keepLoop": False, "prefixLoop": False, "prefixCollection": "<missing>",
                         "returnsDoc": False, "statements": 0, "crdKeepName": "<missing>", "secretKeepName": "<missing>"}
    fn = _func(tree, "_clean_metadata")
    if fn is None:
        notes.append("gen/archive_clean: _clean_metadata not found")
        return r
    params = [a.arg for a in fn.args.args] + [a.arg for a in fn.args.kwonlyargs]
    doc = params[0] if params else "?"
    keep = params[1] if len(params) > 1 else "?"
    body = [s for s in fn.body if not (isinstance(s, ast.Expr) and isinstance(s.value, ast.Constant) and isinstance(s.value.value, str))]
    r["statements"] = len(body)
    meta = anns = None
    for s in body:
        if isinstance(s, ast.Expr):
            p = _pop_call(s.value)
            if p and p[0] == doc and meta is None:
                r["statusKey"] = p[1]
        if isinstance(s, ast.Assign) and len(s.targets) == 1 and isinstance(s.targets[0], ast.Name):
            g = _get_call(s.value)
            if g and g[0] == doc:
                meta, r["metadataKey"] = s.targets[0].id, g[1]
            elif g and meta is not None and g[0] == meta:
                anns, r["annotationsKey"] = s.targets[0].id, g[1]
        if meta is not None:
            lp = _loop_over_list_of(s, meta)
            if lp:
                k, iff = lp
                t = iff.test
                r["keepLoop"] = (isinstance(t, ast.Compare) and isinstance(t.left, ast.Name) and t.left.id == k and len(t.ops) == 1
                                 and isinstance(t.ops[0], ast.NotIn) and isinstance(t.comparators[0], ast.Name) and t.comparators[0].id == keep)
        if anns is not None:
            lp = _loop_over_list_of(s, anns)
            if lp:
                k, iff = lp
                t = iff.test
                # any(<k>.startswith(p) for p in <COLLECTION>)
                if isinstance(t, ast.Call) and isinstance(t.func, ast.Name) and t.func.id == "any" and len(t.args) == 1 \
                        and isinstance(t.args[0], ast.GeneratorExp) and len(t.args[0].generators) == 1:
                    ge = t.args[0]
                    gen = ge.generators[0]
                    e = ge.elt
                    if isinstance(gen.target, ast.Name) and not gen.ifs and isinstance(gen.iter, ast.Name) \
                            and isinstance(e, ast.Call) and isinstance(e.func, ast.Attribute) and e.func.attr == "startswith" \
                            and isinstance(e.func.value, ast.Name) and e.func.value.id == k and len(e.args) == 1 \
                            and isinstance(e.args[0], ast.Name) and e.args[0].id == gen.target.id:
                        r["prefixLoop"] = True
                        r["prefixCollection"] = gen.iter.id
            if isinstance(s, ast.If) and isinstance(s.test, ast.UnaryOp) and isinstance(s.test.op, ast.Not) \
                    and isinstance(s.test.operand, ast.Name) and s.test.operand.id == anns and not s.orelse and len(s.body) == 1 \
                    and isinstance(s.body[0], ast.Expr):
                p = _pop_call(s.body[0].value)
                if p and p[0] == meta:
                    r["emptyPopKey"] = p[1]
        if isinstance(s, ast.Return) and isinstance(s.value, ast.Name) and s.value.id == doc:
            r["returnsDoc"] = True
    for pub, slot in (("clean_crd_metadata", "crdKeepName"), ("clean_secret_metadata", "secretKeepName")):
        f = _func(tree, pub)
        if f is not None:
            for n in ast.walk(f):
                if isinstance(n, ast.Call) and isinstance(n.func, ast.Name) and n.func.id == "_clean_metadata":
                    for kw in n.keywords:
                        if kw.arg == keep and isinstance(kw.value, ast.Name):
                            r[slot] = kw.value.id
                    if len(n.args) > 1 and isinstance(n.args[1], ast.Name):
                        r[slot] = n.args[1].id
        if r[slot] == "<missing>":
            notes.append(f"gen/archive_clean: keep set of {pub} not found")
    return r


def extract_writer_name(tree: ast.Module | None, notes: list[str]) -> dict:
    r = {"writerMetaKey": "<missing>", "writerNameKey": "<missing>"}
    fn = _func(tree, "create_backup_archive")
    if fn is not None:
        for n in ast.walk(fn):
            if isinstance(n, ast.Assign) and isinstance(n.targets[0], ast.Name) and n.targets[0].id == "name" \
                    and isinstance(n.value, ast.Call) and isinstance(n.value.func, ast.Attribute) and n.value.func.attr == "get" \
                    and len(n.value.args) == 2 and isinstance(n.value.args[0], ast.Constant):
                inner = n.value.func.value
                if isinstance(inner, ast.Call) and isinstance(inner.func, ast.Attribute) and inner.func.attr == "get" \
                        and len(inner.args) == 2 and isinstance(inner.args[0], ast.Constant) and _is_empty_dict(inner.args[1]):
                    r["writerMetaKey"], r["writerNameKey"] = inner.args[0].value, n.value.args[0].value
    if r["writerNameKey"] == "<missing>":
        notes.append("gen/archive_clean: the writer's `name = cr.get(.., {}).get(.., ..)` not found")
    return r


def extract_service(tree: ast.Module | None, notes: list[str]) -> dict:
    """_perform_backup: where the names and generations handed to create_backup_archive come from"""
    r: dict[str, Any] = {"svcMetaKey": "<missing>", "svcNameKey": "<missing>", "svcNameDefault": "<missing>", "svcGenKey": "<missing>",
                         "svcReadsBeforeClean": False, "svcGensKeyedByName": False, "svcSecretsKeyedByName": False,
                         "svcPassesCleaned": False}
    fn = None
    if tree is not None:
        for n in ast.walk(tree):
            if isinstance(n, ast.AsyncFunctionDef) and n.name == "_perform_backup":
                fn = n
    if fn is None:
        notes.append("gen/archive_clean: BackupService._perform_backup not found")
        return r
    loop = None
    for n in ast.walk(fn):
        if isinstance(n, ast.For) and any(isinstance(x, ast.Call) and isinstance(x.func, ast.Name) and x.func.id == "clean_crd_metadata"
                                          for x in ast.walk(n)):
            loop = n
    if loop is None or not isinstance(loop.target, ast.Name):
        notes.append("gen/archive_clean: the cleaning loop of _perform_backup not found")
        return r
    crd = loop.target.id
    name_var = gen_var = cleaned_var = None
    clean_line = None
    reads: list[int] = []

    def two_gets(e: ast.AST) -> tuple[str, str, Any] | None:
        """<crd>.get(<a>, {}).get(<b>[, default])"""
        if isinstance(e, ast.Call) and isinstance(e.func, ast.Attribute) and e.func.attr == "get" and e.args \
                and isinstance(e.args[0], ast.Constant):
            inner = e.func.value
            if isinstance(inner, ast.Call) and isinstance(inner.func, ast.Attribute) and inner.func.attr == "get" \
                    and isinstance(inner.func.value, ast.Name) and inner.func.value.id == crd and len(inner.args) == 2 \
                    and isinstance(inner.args[0], ast.Constant) and _is_empty_dict(inner.args[1]):
                dflt = e.args[1].value if len(e.args) > 1 and isinstance(e.args[1], ast.Constant) else None
                return inner.args[0].value, e.args[0].value, dflt
        return None

    for s in loop.body:
        if isinstance(s, ast.Assign) and isinstance(s.targets[0], ast.Name):
            tg = two_gets(s.value)
            if tg and name_var is None and tg[2] is not None:
                name_var = s.targets[0].id
                r["svcMetaKey"], r["svcNameKey"], r["svcNameDefault"] = tg
                reads.append(s.lineno)
            elif tg:
                gen_var = s.targets[0].id
                if tg[0] == r["svcMetaKey"]:
                    r["svcGenKey"] = tg[1]
                reads.append(s.lineno)
            if isinstance(s.value, ast.Call) and isinstance(s.value.func, ast.Name) and s.value.func.id == "clean_crd_metadata" \
                    and len(s.value.args) == 1 and isinstance(s.value.args[0], ast.Name) and s.value.args[0].id == crd:
                cleaned_var, clean_line = s.targets[0].id, s.lineno
    r["svcReadsBeforeClean"] = bool(clean_line is not None and len(reads) == 2 and all(x < clean_line for x in reads))
    gens_dict = None
    cleaned_list = None
    for n in ast.walk(loop):
        if isinstance(n, ast.Assign) and isinstance(n.targets[0], ast.Subscript) and isinstance(n.targets[0].value, ast.Name) \
                and isinstance(n.targets[0].slice, ast.Name) and n.targets[0].slice.id == name_var and gen_var is not None \
                and gen_var in {x.id for x in ast.walk(n.value) if isinstance(x, ast.Name)}:
            gens_dict = n.targets[0].value.id
        if isinstance(n, ast.Call) and isinstance(n.func, ast.Attribute) and n.func.attr == "append" and isinstance(n.func.value, ast.Name) \
                and len(n.args) == 1 and isinstance(n.args[0], ast.Name) and n.args[0].id == cleaned_var:
            cleaned_list = n.func.value.id
    secrets_dict = None
    for n in ast.walk(fn):
        if isinstance(n, ast.For) and isinstance(n.iter, ast.Call) and isinstance(n.iter.func, ast.Name) and n.iter.func.id == "zip":
            for x in ast.walk(n):
                if isinstance(x, ast.Assign) and isinstance(x.targets[0], ast.Subscript) and isinstance(x.targets[0].value, ast.Name) \
                        and isinstance(x.targets[0].slice, ast.Name) and isinstance(n.target, ast.Tuple) \
                        and isinstance(n.target.elts[0], ast.Name) and x.targets[0].slice.id == n.target.elts[0].id:
                    secrets_dict = x.targets[0].value.id
    for n in ast.walk(fn):
        if isinstance(n, ast.Call) and isinstance(n.func, ast.Name) and n.func.id == "create_backup_archive":
            kws = {kw.arg: (kw.value.id if isinstance(kw.value, ast.Name) else None) for kw in n.keywords}
            r["svcPassesCleaned"] = cleaned_list is not None and kws.get("deployments") == cleaned_list
            r["svcGensKeyedByName"] = gens_dict is not None and kws.get("generations") == gens_dict
            r["svcSecretsKeyedByName"] = secrets_dict is not None and kws.get("secrets") == secrets_dict
    return r


def extract(notes: list[str]) -> dict:
    a = _parse(ARCHIVE, notes)
    s = _parse(SERVICE, notes)
    c = extract_clean(a, notes)
    sets = {}
    for lean, slot in (("crdKeep", "crdKeepName"), ("secretKeep", "secretKeepName")):
        v = _str_collection(a, c[slot], notes) if c[slot] != "<missing>" else None
        sets[lean] = v if v is not None else ["<missing>"]
    pre = _str_collection(a, c["prefixCollection"], notes) if c["prefixCollection"] != "<missing>" else None
    sets["sysPrefixes"] = pre if pre is not None else ["<missing>"]
    return {"c": c, "sets": sets, "w": extract_writer_name(a, notes), "s": extract_service(s, notes)}


def generate(notes: list[str]) -> list[str]:
    x = extract(notes)
    c, sets, w, s = x["c"], x["sets"], x["w"], x["s"]
    b = lambda v: "true" if v else "false"
    names = lambda l: "[" + ", ".join(lean_chars(v) for v in l) + "]"
    return [
        "namespace GenArchiveClean",
        "/-! archive.py: the allow-lists and the system annotation prefixes -/",
        f"def crdKeep : List (List Char) := {names(sets['crdKeep'])}",
        f"def secretKeep : List (List Char) := {names(sets['secretKeep'])}",
        f"def sysPrefixes : List (List Char) := {names(sets['sysPrefixes'])}",
        f"def crdKeepName : String := {lean_str(c['crdKeepName'])}",
        f"def secretKeepName : String := {lean_str(c['secretKeepName'])}",
        "/-! archive.py, _clean_metadata -/",
        f"def statusKey : List Char := {lean_chars(c['statusKey'])}",
        f"def metadataKey : List Char := {lean_chars(c['metadataKey'])}",
        f"def annotationsKey : List Char := {lean_chars(c['annotationsKey'])}",
        f"def emptyPopKey : List Char := {lean_chars(c['emptyPopKey'])}",
        "/-- `for k in list(meta): if k not in keep_keys: del meta[k]` -/",
        f"def keepLoop : Bool := {b(c['keepLoop'])}",
        "/-- `for k in list(annotations): if any(k.startswith(p) for p in <prefixes>): del annotations[k]` -/",
        f"def prefixLoop : Bool := {b(c['prefixLoop'])}",
        f"def returnsDoc : Bool := {b(c['returnsDoc'])}",
        "/-- statements of `_clean_metadata` (docstring not counted) -/",
        f"def cleanStatements : Nat := {c['statements']}",
        "/-! archive.py, create_backup_archive: `name = cr.get(<meta>, {}).get(<name>, <default>)` -/",
        f"def writerMetaKey : List Char := {lean_chars(w['writerMetaKey'])}",
        f"def writerNameKey : List Char := {lean_chars(w['writerNameKey'])}",
        "/-! manage_api/backup_service.py, _perform_backup -/",
        f"def svcMetaKey : List Char := {lean_chars(s['svcMetaKey'])}",
        f"def svcNameKey : List Char := {lean_chars(s['svcNameKey'])}",
        f"def svcNameDefault : List Char := {lean_chars(str(s['svcNameDefault']))}",
        f"def svcGenKey : List Char := {lean_chars(s['svcGenKey'])}",
        f"def svcReadsBeforeClean : Bool := {b(s['svcReadsBeforeClean'])}",
        f"def svcPassesCleaned : Bool := {b(s['svcPassesCleaned'])}",
        f"def svcGensKeyedByName : Bool := {b(s['svcGensKeyedByName'])}",
        f"def svcSecretsKeyedByName : Bool := {b(s['svcSecretsKeyedByName'])}",
        "end GenArchiveClean",
    ]
