import WfModel.TickStream
/-! `stream_ticks` pages through a strictly increasing sequence column without losing, repeating or
reordering a row, for every page size > 0. -/
namespace Engine.TickStream

theorem cursorAfter_append_singleton (cur : Option Nat) (l : List Nat) (x : Nat) :
    cursorAfter cur (l ++ [x]) = some x := by
  induction l generalizing cur with
  | nil => rfl
  | cons a t ih => simpa [cursorAfter] using ih (some a)

/-- a sorted list split as `a ++ [c] ++ b`: the rows after cursor `c` are exactly `b` -/
theorem filter_after_split (a b : List Nat) (c : Nat) (h : (a ++ c :: b).Pairwise (· < ·)) :
    (a ++ c :: b).filter (fun s => decide (c < s)) = b := by
  rw [List.pairwise_append] at h
  obtain ⟨_, hcb, hab⟩ := h
  rw [List.pairwise_cons] at hcb
  rw [List.filter_append]
  have h1 : a.filter (fun s => decide (c < s)) = [] := by
    rw [List.filter_eq_nil_iff]
    intro x hx
    have := hab x hx c (by simp)
    simp; omega
  have h2 : (c :: b).filter (fun s => decide (c < s)) = b := by
    rw [List.filter_cons]
    simp
    intro x hx
    exact hcb.1 x hx
  rw [h1, h2]; rfl

theorem after_sorted (cur : Option Nat) (rows : List Nat) (h : rows.Pairwise (· < ·)) :
    (after cur rows).Pairwise (· < ·) := by
  cases cur with
  | none => exact h
  | some c => exact h.filter _

/-- moving the cursor to a row that is itself after the old cursor -/
theorem after_after (cur : Option Nat) (rows : List Nat) (c : Nat) (hc : c ∈ after cur rows) :
    after (some c) rows = (after cur rows).filter (fun s => decide (c < s)) := by
  cases cur with
  | none => rfl
  | some d =>
    simp only [after] at hc ⊢
    rw [List.filter_filter]
    have hd : d < c := by simpa using (List.mem_filter.mp hc).2
    apply List.filter_congr
    intro x _
    by_cases hx : c < x <;> simp [hx]
    omega

theorem loop_succ (page : Nat) (rows : List Nat) (fuel : Nat) (cur : Option Nat) :
    loop page rows (fuel + 1) cur =
      if (fetch rows cur page).length < page then fetch rows cur page
      else fetch rows cur page ++ loop page rows fuel (cursorAfter cur (fetch rows cur page)) := rfl

theorem loop_complete (page : Nat) (hp : 0 < page) (rows : List Nat) (hs : rows.Pairwise (· < ·)) :
    ∀ (fuel : Nat) (cur : Option Nat), (after cur rows).length < fuel → loop page rows fuel cur = after cur rows := by
  intro fuel
  induction fuel with
  | zero => intro cur h; omega
  | succ fuel ih =>
    intro cur hlen
    rw [loop_succ]
    generalize hgot : fetch rows cur page = got
    have hg : got = (after cur rows).take page := by rw [← hgot]; rfl
    subst hg
    by_cases hshort : ((after cur rows).take page).length < page
    · rw [if_pos hshort]
      rw [List.length_take] at hshort
      apply List.take_of_length_le
      omega
    · rw [if_neg hshort]
      rw [List.length_take] at hshort
      have hge : page ≤ (after cur rows).length := by omega
      -- the page is non-empty: split off its last row
      have hne : (after cur rows).take page ≠ [] := by
        intro h0
        have := congrArg List.length h0
        rw [List.length_take, List.length_nil] at this
        omega
      obtain ⟨a, c, hac⟩ : ∃ a c, (after cur rows).take page = a ++ [c] :=
        ⟨_, _, (List.dropLast_concat_getLast hne).symm⟩
      have hsplit : after cur rows = a ++ c :: (after cur rows).drop page := by
        have := List.take_append_drop page (after cur rows)
        rw [hac] at this
        simpa using this.symm
      have hsorted := after_sorted cur rows hs
      have hcmem : c ∈ after cur rows := by rw [hsplit]; simp
      have hnext : after (some c) rows = (after cur rows).drop page := by
        rw [after_after cur rows c hcmem]
        conv => lhs; rw [hsplit]
        apply filter_after_split
        rw [← hsplit]; exact hsorted
      rw [hac, cursorAfter_append_singleton, ih (some c) (by rw [hnext, List.length_drop]; omega), hnext, ← hac]
      exact List.take_append_drop page _

theorem streamTicks_complete (page : Nat) (hp : 0 < page) (rows : List Nat) (hs : rows.Pairwise (· < ·)) :
    streamTicks page rows = getTicks rows := by
  unfold streamTicks getTicks
  simpa [after] using loop_complete page hp rows hs (rows.length + 1) none (by simp [after])

end Engine.TickStream
