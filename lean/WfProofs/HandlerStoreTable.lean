import WfProofs.HandlerStoreMatch
/-! Table lemmas for the handler-store model (C24): upsert, unique ids, the eviction loop in
closed form, and the invariant tying the terminal-id queue to the table. -/

namespace HandlerStore

def ids (rows : List Handler) : List Nat := rows.map (·.handlerId)

def countTerminal (rows : List Handler) : Nat := (rows.filter (·.terminal)).length

theorem hasId_iff (rows : List Handler) (id : Nat) : hasId rows id = true ↔ ∃ r ∈ rows, r.handlerId = id := by
  simp [hasId]

theorem mem_upsert (rows : List Handler) (h r : Handler) :
    r ∈ upsert rows h ↔ r = h ∨ (r ∈ rows ∧ r.handlerId ≠ h.handlerId) := by
  unfold upsert
  split
  · rename_i hh
    obtain ⟨a, ha, haid⟩ := (hasId_iff _ _).mp hh
    simp only [List.mem_map]
    constructor
    · rintro ⟨b, hb, rfl⟩
      by_cases hbid : b.handlerId = h.handlerId
      · left; simp [hbid]
      · right; simp [hbid, hb]
    · rintro (rfl | ⟨hr, hne⟩)
      · exact ⟨a, ha, by simp [haid]⟩
      · exact ⟨r, hr, by simp [hne]⟩
  · rename_i hh
    have hno : ∀ a ∈ rows, a.handlerId ≠ h.handlerId := by
      intro a ha heq
      exact hh ((hasId_iff _ _).mpr ⟨a, ha, heq⟩)
    simp only [List.mem_append, List.mem_singleton]
    constructor
    · rintro (hr | rfl)
      · exact Or.inr ⟨hr, hno r hr⟩
      · exact Or.inl rfl
    · rintro (rfl | ⟨hr, _⟩)
      · exact Or.inr rfl
      · exact Or.inl hr

theorem ids_upsert_nodup (rows : List Handler) (h : Handler) (hn : (ids rows).Nodup) : (ids (upsert rows h)).Nodup := by
  unfold upsert
  split
  · have : ids (rows.map fun r => if r.handlerId == h.handlerId then h else r) = ids rows := by
      unfold ids
      rw [List.map_map]
      apply List.map_congr_left
      intro a _
      by_cases ha : a.handlerId = h.handlerId <;> simp [ha]
    rw [this]; exact hn
  · rename_i hh
    have hno : h.handlerId ∉ ids rows := by
      intro hm
      obtain ⟨a, ha, haid⟩ := List.mem_map.mp hm
      exact hh ((hasId_iff _ _).mpr ⟨a, ha, haid⟩)
    unfold ids at *
    rw [List.map_append, List.map_singleton]
    apply List.nodup_append.mpr
    refine ⟨hn, by simp, ?_⟩
    intro a ha b hb
    rw [List.mem_singleton] at hb
    subst hb
    intro heq; subst heq; exact hno ha

theorem ids_unique : ∀ (rows : List Handler), (ids rows).Nodup → ∀ r ∈ rows, ∀ r' ∈ rows, r.handlerId = r'.handlerId → r = r' := by
  intro rows
  induction rows with
  | nil => intro _ r hr; cases hr
  | cons a rows ih =>
    intro hn r hr r' hr' heq
    have hn' : a.handlerId ∉ ids rows ∧ (ids rows).Nodup := by
      simpa [ids] using hn
    have hmem : ∀ x ∈ rows, x.handlerId ∈ ids rows := fun x hx => List.mem_map.mpr ⟨x, hx, rfl⟩
    rcases List.mem_cons.mp hr with h1 | h1 <;> rcases List.mem_cons.mp hr' with h2 | h2
    · rw [h1, h2]
    · subst h1; exact absurd (by rw [heq]; exact hmem r' h2) hn'.1
    · subst h2; exact absurd (by rw [← heq]; exact hmem r h1) hn'.1
    · exact ih hn'.2 r h1 r' h2 heq

theorem ids_filter_nodup (rows : List Handler) (p : Handler → Bool) (hn : (ids rows).Nodup) : (ids (rows.filter p)).Nodup :=
  List.Nodup.sublist (List.Sublist.map _ List.filter_sublist) hn

theorem mem_removeId (rows : List Handler) (id : Nat) (r : Handler) :
    r ∈ removeId rows id ↔ r ∈ rows ∧ r.handlerId ≠ id := by
  simp [removeId]

/-- the queue lists, without repetition, exactly the ids of the terminal rows -/
structure QInv (rows : List Handler) (queue : List Nat) : Prop where
  ids_nodup : (ids rows).Nodup
  queue_nodup : queue.Nodup
  queue_iff : ∀ id, id ∈ queue ↔ ∃ r ∈ rows, r.handlerId = id ∧ r.terminal = true

theorem filter_all_true (rows : List Handler) : rows.filter (fun _ => true) = rows :=
  List.filter_eq_self.mpr (by simp)

/-- closed form of the eviction loop -/
theorem evict_eq (m : Nat) : ∀ (Q : List Nat) (rows : List Handler), (ids rows).Nodup → Q.Nodup →
    (∀ id ∈ Q, ∃ r ∈ rows, r.handlerId = id ∧ r.terminal = true) →
    evict m rows Q = (rows.filter (fun r => !(Q.take (Q.length - m)).contains r.handlerId), Q.drop (Q.length - m)) := by
  intro Q
  induction Q with
  | nil => intro rows _ _ _; simp [evict, filter_all_true]
  | cons id Q ih =>
    intro rows hn hq hex
    unfold evict
    by_cases hlen : (id :: Q).length > m
    · simp only [hlen, ↓reduceIte]
      obtain ⟨r, hr, hrid, hrt⟩ := hex id (List.mem_cons_self ..)
      have hq' : id ∉ Q ∧ Q.Nodup := by simpa using hq
      cases hf : rows.find? (·.handlerId == id) with
      | none =>
        have := List.find?_eq_none.mp hf r hr
        simp [hrid] at this
      | some h =>
        have hh : h ∈ rows := List.mem_of_find?_eq_some hf
        have hhid : h.handlerId = id := by
          have := List.find?_some hf; simpa using this
        have : h = r := ids_unique rows hn h hh r hr (hhid.trans hrid.symm)
        subst this
        simp only [hrt, Bool.not_true, Bool.false_eq_true, ↓reduceIte]
        have hex' : ∀ id' ∈ Q, ∃ r' ∈ removeId rows id, r'.handlerId = id' ∧ r'.terminal = true := by
          intro id' hid'
          obtain ⟨r', hr', hr'id, hr't⟩ := hex id' (List.mem_cons_of_mem _ hid')
          refine ⟨r', (mem_removeId _ _ _).mpr ⟨hr', ?_⟩, hr'id, hr't⟩
          rw [hr'id]; intro heq; subst heq; exact hq'.1 hid'
        rw [ih (removeId rows id) (ids_filter_nodup _ _ hn) hq'.2 hex']
        have hk : (id :: Q).length - m = (Q.length - m) + 1 := by
          simp only [List.length_cons] at hlen ⊢; omega
        rw [hk, List.take_succ_cons, List.drop_succ_cons]
        simp only [removeId, List.filter_filter, List.contains_cons]
        congr 1
        apply List.filter_congr
        intro x _
        have hb : (x.handlerId != id) = !(x.handlerId == id) := rfl
        rw [hb]
        generalize (List.take (Q.length - m) Q).contains x.handlerId = b1
        generalize (x.handlerId == id) = b2
        cases b1 <;> cases b2 <;> rfl
    · simp only [hlen, ↓reduceIte]
      have hk : (id :: Q).length - m = 0 := by omega
      rw [hk]; simp [filter_all_true]


theorem QInv.count {rows : List Handler} {Q : List Nat} (hq : QInv rows Q) : countTerminal rows = Q.length := by
  unfold countTerminal
  have hnd : (ids (rows.filter (·.terminal))).Nodup := ids_filter_nodup _ _ hq.ids_nodup
  have hperm : (ids (rows.filter (·.terminal))).Perm Q := by
    apply (List.perm_ext_iff_of_nodup hnd hq.queue_nodup).mpr
    intro id
    rw [hq.queue_iff]
    simp only [ids, List.mem_map, List.mem_filter]
    constructor
    · rintro ⟨r, ⟨hr, ht⟩, hid⟩; exact ⟨r, hr, hid, ht⟩
    · rintro ⟨r, hr, hid, ht⟩; exact ⟨r, ⟨hr, ht⟩, hid⟩
  rw [← hperm.length_eq]; simp [ids]

/-- a non-terminal row's id is not in the queue -/
theorem QInv.not_mem_of_nonterminal {rows : List Handler} {Q : List Nat} (hq : QInv rows Q) {r : Handler}
    (hr : r ∈ rows) (ht : r.terminal = false) : r.handlerId ∉ Q := by
  intro hm
  obtain ⟨r', hr', hid, ht'⟩ := (hq.queue_iff _).mp hm
  have := ids_unique rows hq.ids_nodup r' hr' r hr hid
  subst this
  rw [ht] at ht'; cases ht'

def enqueue (Q : List Nat) (id : Nat) : List Nat := if Q.contains id then Q else Q ++ [id]

theorem QInv_enqueue {rows : List Handler} {Q : List Nat} (hq : QInv rows Q) (h : Handler) (ht : h.terminal = true) :
    QInv (upsert rows h) (enqueue Q h.handlerId) := by
  refine ⟨ids_upsert_nodup _ _ hq.ids_nodup, ?_, ?_⟩
  · unfold enqueue
    split
    · exact hq.queue_nodup
    · rename_i hc
      have hc' : h.handlerId ∉ Q := by simpa using hc
      apply List.nodup_append.mpr
      refine ⟨hq.queue_nodup, by simp, ?_⟩
      intro a ha b hb
      rw [List.mem_singleton] at hb
      subst hb
      intro heq; subst heq; exact hc' ha
  · intro id
    have hmemQ : id ∈ enqueue Q h.handlerId ↔ id ∈ Q ∨ id = h.handlerId := by
      unfold enqueue
      split
      · rename_i hc
        have hc' : h.handlerId ∈ Q := by simpa using hc
        constructor
        · exact Or.inl
        · rintro (h1 | h1)
          · exact h1
          · rw [h1]; exact hc'
      · simp
    rw [hmemQ]
    constructor
    · rintro (h1 | h1)
      · obtain ⟨r, hr, hid, hrt⟩ := (hq.queue_iff _).mp h1
        by_cases hne : r.handlerId = h.handlerId
        · exact ⟨h, (mem_upsert _ _ _).mpr (Or.inl rfl), by rw [← hne, hid], ht⟩
        · exact ⟨r, (mem_upsert _ _ _).mpr (Or.inr ⟨hr, hne⟩), hid, hrt⟩
      · exact ⟨h, (mem_upsert _ _ _).mpr (Or.inl rfl), h1.symm, ht⟩
    · rintro ⟨r, hr, hid, hrt⟩
      rcases (mem_upsert _ _ _).mp hr with rfl | ⟨hr', _⟩
      · exact Or.inr hid.symm
      · exact Or.inl ((hq.queue_iff _).mpr ⟨r, hr', hid, hrt⟩)

theorem take_drop_disjoint {Q : List Nat} (hn : Q.Nodup) (d : Nat) {id : Nat} (h1 : id ∈ Q.take d) (h2 : id ∈ Q.drop d) : False := by
  have := List.take_append_drop d Q
  rw [← this] at hn
  exact (List.nodup_append.mp hn).2.2 id h1 id h2 rfl

theorem mem_take_or_drop {Q : List Nat} (d : Nat) {id : Nat} (h : id ∈ Q) : id ∈ Q.take d ∨ id ∈ Q.drop d := by
  rw [← List.take_append_drop d Q] at h
  exact List.mem_append.mp h

/-- keep the rows whose id is not among the first `d` queue entries -/
def dropOldest (rows : List Handler) (Q : List Nat) (d : Nat) : List Handler :=
  rows.filter (fun r => !(Q.take d).contains r.handlerId)

theorem mem_dropOldest (rows : List Handler) (Q : List Nat) (d : Nat) (r : Handler) :
    r ∈ dropOldest rows Q d ↔ r ∈ rows ∧ r.handlerId ∉ Q.take d := by
  simp [dropOldest]

theorem QInv_dropOldest {rows : List Handler} {Q : List Nat} (hq : QInv rows Q) (d : Nat) :
    QInv (dropOldest rows Q d) (Q.drop d) := by
  refine ⟨ids_filter_nodup _ _ hq.ids_nodup, List.Nodup.sublist (List.drop_sublist _ _) hq.queue_nodup, ?_⟩
  intro id
  constructor
  · intro hm
    obtain ⟨r, hr, hid, hrt⟩ := (hq.queue_iff _).mp (List.mem_of_mem_drop hm)
    refine ⟨r, (mem_dropOldest _ _ _ _).mpr ⟨hr, ?_⟩, hid, hrt⟩
    rw [hid]; intro ht; exact take_drop_disjoint hq.queue_nodup d ht hm
  · rintro ⟨r, hr, hid, hrt⟩
    obtain ⟨hr', hnt⟩ := (mem_dropOldest _ _ _ _).mp hr
    have : id ∈ Q := (hq.queue_iff _).mpr ⟨r, hr', hid, hrt⟩
    rcases mem_take_or_drop d this with h1 | h1
    · rw [← hid] at h1; exact absurd h1 hnt
    · exact h1

theorem QInv_nonterminal {rows : List Handler} {Q : List Nat} (hq : QInv rows Q) (h : Handler) (ht : h.terminal = false) :
    QInv (upsert rows h) (Q.erase h.handlerId) := by
  refine ⟨ids_upsert_nodup _ _ hq.ids_nodup, hq.queue_nodup.erase _, ?_⟩
  intro id
  rw [hq.queue_nodup.mem_erase_iff]
  constructor
  · rintro ⟨hne, hm⟩
    obtain ⟨r, hr, hid, hrt⟩ := (hq.queue_iff _).mp hm
    exact ⟨r, (mem_upsert _ _ _).mpr (Or.inr ⟨hr, by rw [hid]; exact hne⟩), hid, hrt⟩
  · rintro ⟨r, hr, hid, hrt⟩
    rcases (mem_upsert _ _ _).mp hr with rfl | ⟨hr', hne⟩
    · rw [ht] at hrt; cases hrt
    · exact ⟨by rw [← hid]; exact hne, (hq.queue_iff _).mpr ⟨r, hr', hid, hrt⟩⟩

theorem QInv_delete {rows : List Handler} {Q : List Nat} (hq : QInv rows Q) (p : Handler → Bool) :
    QInv (rows.filter (fun r => !p r)) (Q.filter (fun id => !((rows.filter p).any (·.handlerId == id)))) := by
  refine ⟨ids_filter_nodup _ _ hq.ids_nodup, List.Nodup.sublist List.filter_sublist hq.queue_nodup, ?_⟩
  intro id
  simp only [List.mem_filter, List.any_eq_false, beq_iff_eq, Bool.not_eq_eq_eq_not, Bool.not_true]
  constructor
  · rintro ⟨hm, hno⟩
    obtain ⟨r, hr, hid, hrt⟩ := (hq.queue_iff _).mp hm
    refine ⟨r, ⟨hr, ?_⟩, hid, hrt⟩
    cases hp : p r with
    | false => rfl
    | true => exact absurd hid (hno r ⟨hr, hp⟩)
  · rintro ⟨r, ⟨hr, hp⟩, hid, hrt⟩
    refine ⟨(hq.queue_iff _).mpr ⟨r, hr, hid, hrt⟩, ?_⟩
    rintro g ⟨hg, hpg⟩ hgid
    have := ids_unique rows hq.ids_nodup g hg r hr (hgid.trans hid.symm)
    subst this
    rw [hp] at hpg; cases hpg

end HandlerStore
