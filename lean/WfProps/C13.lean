import WfProofs.ReplayResume
import WfModel.GenReplay
import WfProofs.TickStream
import WfProofs.ReplayPrefix
import WfProofs.TickTableLog
/-!
# C13 — a server restart at any persisted point resumes without losing work

Model: `WfModel/Replay.lean` (`replay_ticks_stream`, `handler_status_from_exit_command`,
`context_from_ticks`, `_on_server_start`), on top of the engine model (reducer, runner LTS,
serialisation).  The persisted log of a run is `ticksOf r.log`: `on_tick` appends a tick after it
was reduced and before any of its commands is executed, without the time at which it was processed.

What holds, for all configurations, schedules (action lists), step results and external ticks, any
replay clock, retry policies that do not look at elapsed time, and step-result ticks that carry at
most one outcome (what the step wrapper builds):

* `C13_replay_reproduces_state` — at **every** prefix: replay never raises, rebuilds the live
  reducer state up to `first_attempt_at` of in-progress invocations, hence exactly the live state's
  serialised context; the exit command it remembers is the one that ended the run;
* `C13_finalize`, `C13_finalize_matches_live` — a log whose replay ends in an exit command is
  finalised with the matching status (completed + result / failed + error / cancelled /
  timed out → failed) and no runner is started; an idle release is not a completion;
* `C13_state_kept` — at every prefix of a running run the restart resumes it, and the resumed
  runner holds per step exactly the queued + in-progress invocations of the live state (a
  permutation: in-progress ones are re-queued *behind* the queued ones), its buffers, waiters and
  running flag; every invocation it has in progress has a started worker;
* `C13_quiescent_prefix_partial` — if moreover the live tick buffer and mailbox were empty and no
  timer carried work, nothing at all of the live runner is missing from the resumed one.

What does not hold (the property as stated, "every prefix"):

* `C13_refuted` (F12) — queue-event commands are dropped by replay and are not yet ticks: a stop
  right after a persisted step result loses the step's output event;
* `C13_refuted_sent_event` — same for an event a step sent with `ctx.send_event` that is still in
  the mailbox when the step's completion is persisted (tick buffer empty);
* `C13_refuted_second_restart` — the log of a resumed run continues the old log, but the
  re-queueing done by the resume (`from_serialized` + `rewind_in_progress`) is not in it: replaying
  the whole log at a second restart meets a worker id that is not in progress and raises.

* `C13_refuted_requirements` — `wait_for_event(…, requirements=…)`: the persisted `AddWaiter` loses
  its requirements; replay resolves the waiter with any logged event of the awaited type.  All
  positive theorems therefore carry the guard `C13.NoRequirements` (no such waiter was registered).

Selection on server start: `C13_start_picks`, `C13_restart_at_most_once`.
-/
set_option linter.unusedVariables false
set_option linter.unusedSimpArgs false
set_option linter.unnecessarySimpa false
open Engine

/-- a run started fresh from a start event, after an arbitrary schedule -/
def C13.live (cfg : Cfg) (pol : Policy) (now : Int) (e : Ev) (timeout : Option Nat) (acts : List Act) : Runner :=
  Runner.run cfg pol (Runner.init cfg initState now (some e) timeout) acts

/-- the persisted step-result ticks are what the step wrapper builds: at most one outcome each -/
def C13.WellFormedLog (r : Runner) : Prop := ∀ t ∈ ticksOf r.log, t.oneOutcome = true

/-- no `wait_for_event` with `requirements` was registered so far: the stored form of every logged
tick is the tick itself (requirements are the one thing of a tick the store does not keep) -/
def C13.NoRequirements (r : Runner) : Prop := ∀ t ∈ ticksOf r.log, t.persist = t

theorem C13.persisted_eq {r : Runner} (h : C13.NoRequirements r) : persistedTicks r.log = ticksOf r.log := by
  unfold persistedTicks ticksOf
  apply List.map_congr_left
  intro p hp
  exact h p.1 (List.mem_map_of_mem hp)

/-! ## replay reproduces the live state, at every prefix -/

theorem C13_replay_reproduces_state (cfg : Cfg) (pol : Policy) (hpol : TimeFree pol) (now : Int) (e : Ev)
    (timeout : Option Nat) (acts : List Act) (now0 : Int) (clk : Nat → Int)
    (hlog : C13.WellFormedLog (C13.live cfg pol now e timeout acts))
    (hreq : C13.NoRequirements (C13.live cfg pol now e timeout acts)) :
    ∃ rep, replayTicks cfg pol initState now0 clk (persistedTicks (C13.live cfg pol now e timeout acts).log) = some rep ∧
      SimSt rep.st (C13.live cfg pol now e timeout acts).st ∧
      SimSt (roundtrip cfg rep.st) (roundtrip cfg (C13.live cfg pol now e timeout acts).st) ∧
      ExitRel rep.exit (C13.live cfg pol now e timeout acts).outcome := by
  have hr0 := rewind_init cfg now0
  have hf := init_fresh cfg now e timeout
  simp only at hf
  have h0 : LiveInv cfg pol clk (rewind cfg initState now0).1 (Runner.init cfg initState now (some e) timeout) := by
    intro _
    refine ⟨{ st := (rewind cfg initState now0).1 }, ?_, AllEmpty.sim hr0.1 hf.1, ?_⟩
    · rw [hf.2.1]; rfl
    · rw [hf.2.2]; exact Or.inl rfl
  have hl := liveInv_run cfg hpol clk _ acts _ h0
  obtain ⟨rep, h1, h2, h3⟩ := hl hlog
  refine ⟨rep, ?_, h2, roundtrip_sim cfg h2, h3⟩
  rw [C13.persisted_eq hreq]
  unfold replayTicks
  simp only [hr0.2, List.contains_nil, Bool.false_eq_true, if_false]
  exact h1

/-! ## finalize -/

/-- **C13 (finalize), for all logs**: if replaying a non-empty persisted log ends in an exit command
`c`, the restart finalises the handler with `handler_status_from_exit_command c` — completed with
the result, failed with the error, cancelled, timed out → failed — and starts no runner; the one
exit command that is not a completion (idle release) resumes instead. -/
theorem C13_finalize (cfg : Cfg) (pol : Policy) (legacy : Option State) (t : Tick) (ts : List Tick) (now0 : Int)
    (clk : Nat → Int) (nowR : Int) (mkStart : Option Ev) (timeout : Option Nat) (rep : Replayed) (c : Cmd)
    (hrep : replayTicks cfg pol (legacy.getD initState) now0 clk (t :: ts) = some rep) (hexit : rep.exit = some c) :
    (∀ f, statusOfExit c = some f →
        restartRun cfg pol legacy (t :: ts) now0 clk nowR mkStart timeout = .finalize f ∧
        ∀ R, restartRun cfg pol legacy (t :: ts) now0 clk nowR mkStart timeout ≠ .resume R) ∧
      (∀ ev, statusOfExit (.completeRun (.event ev)) = some { status := .completed, result := some (.event ev) }) ∧
      (∀ s x, statusOfExit (.failWorkflow s x) = some { status := .failed, error := some (.exc x) }) ∧
      statusOfExit (.halt .cancelledByUser) = some { status := .cancelled } ∧
      statusOfExit (.halt .timeout) = some { status := .failed, error := some .timedOut } ∧
      statusOfExit (.completeRun .idleReleased) = none := by
  refine ⟨?_, fun _ => rfl, fun _ _ => rfl, rfl, rfl, rfl⟩
  intro f hf
  have : restartRun cfg pol legacy (t :: ts) now0 clk nowR mkStart timeout = .finalize f := by
    simp only [restartRun, contextFromTicks, hrep, hexit, Option.bind_some, hf]
  exact ⟨this, fun R h => by rw [this] at h; cases h⟩

/-- the handler status that belongs to a live outcome -/
def C13.finalOfOutcome : Outcome → Option Final
  | .completed .idleReleased => none
  | .completed p => some { status := .completed, result := some p }
  | .failed _ x => some { status := .failed, error := some (.exc x) }
  | .halted .cancelledByUser => some { status := .cancelled }
  | .halted .timeout => some { status := .failed, error := some .timedOut }
  | .crashed => none

/-- **C13 (finalize matches the live outcome)**: if the process stops after the tick that ended the
run was persisted (and before the handler row was updated), the restart finalises the handler with
exactly the status, result and error of the live outcome, and runs nothing. -/
theorem C13_finalize_matches_live (cfg : Cfg) (pol : Policy) (hpol : TimeFree pol) (now : Int) (e : Ev)
    (timeout : Option Nat) (acts : List Act) (now0 : Int) (clk : Nat → Int) (nowR : Int) (mkStart : Option Ev)
    (timeout' : Option Nat) (hlog : C13.WellFormedLog (C13.live cfg pol now e timeout acts))
    (hreq : C13.NoRequirements (C13.live cfg pol now e timeout acts)) (o : Outcome) (f : Final)
    (hout : (C13.live cfg pol now e timeout acts).outcome = some o) (hf : C13.finalOfOutcome o = some f) :
    restartRun cfg pol none (persistedTicks (C13.live cfg pol now e timeout acts).log) now0 clk nowR mkStart timeout' = .finalize f := by
  obtain ⟨rep, h1, _, _, h4⟩ := C13_replay_reproduces_state cfg pol hpol now e timeout acts now0 clk hlog hreq
  rw [C13.persisted_eq hreq] at h1 ⊢
  rw [hout] at h4
  cases hx : rep.exit with
  | none =>
    rw [hx] at h4
    simp only [ExitRel] at h4
    rcases h4 with h4 | h4
    · cases h4
    · have : o = .crashed := by simpa using h4
      subst this
      simp [C13.finalOfOutcome] at hf
  | some c =>
    rw [hx] at h4
    obtain ⟨hcx, hco⟩ := h4
    have hst : statusOfExit c = some f := by
      cases c with
      | halt k =>
        simp only [exitOutcome, Option.some.injEq] at hco; subst hco
        cases k <;> simp [C13.finalOfOutcome, statusOfExit] at hf ⊢ <;> exact hf
      | completeRun p =>
        simp only [exitOutcome, Option.some.injEq] at hco; subst hco
        cases p <;> simpa [C13.finalOfOutcome, statusOfExit] using hf
      | failWorkflow s x =>
        simp only [exitOutcome, Option.some.injEq] at hco; subst hco
        simpa [C13.finalOfOutcome, statusOfExit] using hf
      | _ => simp [Cmd.isExit] at hcx
    cases hticks : ticksOf (C13.live cfg pol now e timeout acts).log with
    | nil =>
      rw [hticks] at h1
      have hr0 := rewind_init cfg now0
      simp only [replayTicks, hr0.2, List.contains_nil, Bool.false_eq_true, if_false, replayFrom, Option.some.injEq] at h1
      rw [← h1] at hx
      cases hx
    | cons t ts =>
      rw [hticks] at h1
      exact ((C13_finalize cfg pol none t ts now0 clk nowR mkStart timeout' rep c h1 hx).1 f hst).1

/-! ## the resumed runner -/

/-- what identifies a waiter across serialisation (requirements are not serialisable) -/
def C13.waiterKey (w : Waiter) : Nat × Ev × Nat × Option Ev × Bool := (w.wid, w.ev, w.waitTy, w.resolved, w.timedOut)

/-- the reducer state of the live run is in the resumed runner: nothing lost, nothing duplicated -/
structure C13.StateKept (cfg : Cfg) (live : State) (R : Runner) : Prop where
  running : R.st.isRunning = live.isRunning
  pending : ∀ n, cfg.hasStep n = true → (pendingEvs (R.st.workers n)).Perm (pendingEvs (live.workers n))
  collected : ∀ n, cfg.hasStep n = true → (R.st.workers n).collected = (live.workers n).collected
  waiters : ∀ n, cfg.hasStep n = true →
    (R.st.workers n).waiters.map C13.waiterKey = (live.workers n).waiters.map C13.waiterKey
  started : ∀ n, cfg.hasStep n = true → ∀ ip ∈ (R.st.workers n).inProg,
    ({ step := n, wid := ip.wid, ev := ip.ev } : Worker) ∈ R.running

theorem C13.hasStep_mem {cfg : Cfg} {n : Nat} (h : cfg.hasStep n = true) : ∃ c ∈ cfg.steps, c.name = n := by
  simp only [Cfg.hasStep, Cfg.find, Option.isSome_iff_exists] at h
  obtain ⟨c, hc⟩ := h
  exact ⟨c, List.mem_of_find?_eq_some hc, by simpa using List.find?_some hc⟩

theorem C13.pendingEvs_sim {a b : StepState} (h : SimSS a b) : pendingEvs a = pendingEvs b := by
  have hq : a.queue.map (·.ev) = b.queue.map (·.ev) := by
    have := congrArg (List.map (·.ev)) h.queue
    simpa [List.map_map, Function.comp_def, eraseA] using this
  have hi : a.inProg.map (·.ev) = b.inProg.map (·.ev) := by
    have := congrArg (List.map (·.ev)) h.inProg
    simpa [List.map_map, Function.comp_def, eraseIP] using this
  simp only [pendingEvs, hq, hi]

/-- `StateKept` does not look at first-attempt times -/
theorem C13.stateKept_sim {cfg : Cfg} {a b : State} {R : Runner} (h : SimSt a b) (hk : C13.StateKept cfg a R) :
    C13.StateKept cfg b R := by
  refine ⟨hk.running.trans h.running, ?_, ?_, ?_, hk.started⟩
  · intro n hn
    rw [← C13.pendingEvs_sim (h.workers n)]
    exact hk.pending n hn
  · intro n hn
    rw [← (h.workers n).collected]
    exact hk.collected n hn
  · intro n hn
    rw [hk.waiters n hn]
    have := congrArg (List.map C13.waiterKey) (h.workers n).waiters
    have e : ∀ l : List Waiter, (l.map eraseW).map C13.waiterKey = l.map C13.waiterKey := by
      intro l; rw [List.map_map]; rfl
    rwa [e, e] at this

theorem C13.stateKept_of_shape (cfg : Cfg) (hwf : cfg.WF) (live : State) (nowR : Int) (timeout : Option Nat) (R : Runner)
    (hR : ResumedShape cfg (roundtrip cfg live) nowR timeout R) : C13.StateKept cfg live R := by
  have hnd : ((sortedSteps cfg).map (·.name)).Nodup := (sortedSteps_names_perm cfg).nodup_iff.mpr hwf
  have hat : ∀ n, cfg.hasStep n = true → ∃ c ∈ sortedSteps cfg, c.name = n ∧
      R.st.workers n = (rewindStep c (deserStep (serStep (live.workers n))) nowR).1 := by
    intro n hn
    obtain ⟨c, hc, hcn⟩ := C13.hasStep_mem hn
    have hcs : c ∈ sortedSteps cfg := mem_sortedSteps_iff.mpr hc
    refine ⟨c, hcs, hcn, ?_⟩
    rw [hR.st]
    unfold rewind
    have := rewindLoop_at nowR (sortedSteps cfg) (roundtrip cfg live) [] hnd c hcs
    rw [hcn] at this
    rw [this, roundtrip_workers, hn]
    rfl
  have hpend : ∀ ss : StepState, pendingEvs (deserStep (serStep ss)) = pendingEvs ss := by
    intro ss
    simp only [pendingEvs, deserStep, serStep, List.map_append, List.map_map, List.map_nil, List.append_nil]
    congr 1 <;> (apply List.map_congr_left; intro a _; rfl)
  refine ⟨?_, ?_, ?_, ?_, ?_⟩
  · rw [hR.st]
    unfold rewind
    rw [rewindLoop_running]
    rfl
  · intro n hn
    obtain ⟨c, _, _, hw⟩ := hat n hn
    rw [hw, ← hpend (live.workers n)]
    exact rewindStep_pending c _ nowR
  · intro n hn
    obtain ⟨c, _, _, hw⟩ := hat n hn
    rw [hw, (rewindStep_collected c _ nowR).1]
    rfl
  · intro n hn
    obtain ⟨c, _, _, hw⟩ := hat n hn
    rw [hw, (rewindStep_collected c _ nowR).2]
    simp only [deserStep, serStep, List.map_map]
    apply List.map_congr_left
    intro w _
    rfl
  · intro n hn ip hip
    obtain ⟨c, hcs, hcn, hw⟩ := hat n hn
    subst hcn
    rw [hw] at hip
    have hcmd := rewindStep_workers c _ nowR ip hip
    apply hR.workers
    unfold rewind
    have := rewindLoop_cmds_step nowR (sortedSteps cfg) (roundtrip cfg live) [] hnd c hcs
      (Cmd.runWorker c.name ip.ev ip.wid)
    simp only [roundtrip_workers, hn, ↓reduceIte] at this
    exact this hcmd

/-- **C13 (state kept), at every prefix of a running run**: the restart resumes the run, and the
resumed runner is `Runner.init` on the serialised replayed state `S`, which agrees with the live
state up to `first_attempt_at` values (a waiter keeps the first-attempt time of the invocation
suspended in it; for an invocation the replay started that is the replay's clock): its reducer
state is the rewound
deserialised live state — per step a permutation of the live queued + in-progress invocations,
same buffers, waiters, running flag, a started worker for everything in progress — while its tick
buffer holds only rehydration ticks, its timer heap only the re-armed workflow timeout, and its
mailbox is empty. -/
theorem C13_state_kept (cfg : Cfg) (hwf : cfg.WF) (pol : Policy) (hpol : TimeFree pol) (now : Int) (e : Ev)
    (timeout : Option Nat) (acts : List Act) (now0 : Int) (clk : Nat → Int) (nowR : Int) (mkStart : Option Ev)
    (timeout' : Option Nat) (hlog : C13.WellFormedLog (C13.live cfg pol now e timeout acts))
    (hreq : C13.NoRequirements (C13.live cfg pol now e timeout acts))
    (hout : (C13.live cfg pol now e timeout acts).outcome = none)
    (hticks : ticksOf (C13.live cfg pol now e timeout acts).log ≠ [])
    (hrun : (C13.live cfg pol now e timeout acts).st.isRunning = true) :
    ∃ R, restartRun cfg pol none (persistedTicks (C13.live cfg pol now e timeout acts).log) now0 clk nowR mkStart timeout' = .resume R ∧
      (∃ S, SimSt S (C13.live cfg pol now e timeout acts).st ∧ ResumedShape cfg (roundtrip cfg S) nowR timeout' R) ∧
      C13.StateKept cfg (C13.live cfg pol now e timeout acts).st R := by
  obtain ⟨rep, h1, h2, h3, h4⟩ := C13_replay_reproduces_state cfg pol hpol now e timeout acts now0 clk hlog hreq
  rw [C13.persisted_eq hreq] at h1 ⊢
  rw [hout] at h4
  have hx : rep.exit = none := h4.none_of_running
  generalize hr : C13.live cfg pol now e timeout acts = r at *
  cases htk : ticksOf r.log with
  | nil => exact absurd htk hticks
  | cons t ts =>
    rw [htk] at h1
    have hS : (roundtrip cfg rep.st).isRunning = true := by
      rw [h3.running]; simpa [roundtrip, deser, ser] using hrun
    refine ⟨Runner.init cfg (roundtrip cfg rep.st) nowR none timeout', ?_, ⟨rep.st, h2, init_resumed cfg _ nowR timeout'⟩,
      C13.stateKept_sim h2 (C13.stateKept_of_shape cfg hwf rep.st nowR timeout' _ (init_resumed cfg _ nowR timeout'))⟩
    simp only [restartRun, contextFromTicks, Option.getD_none, h1, hx, Option.bind_none, hS, if_true]

/-! ## the full statement: nothing of the live runner is lost -/

/-- everything the live runner still had to do is in the resumed runner: the reducer state, the
undelivered ticks of the tick buffer and of the mailbox, and the timers that carry work -/
structure C13.NothingLost (cfg : Cfg) (r R : Runner) : Prop where
  state : C13.StateKept cfg r.st R
  buffer : ∀ t ∈ r.buf, t ≠ .idleCheck → t ∈ R.buf
  mailbox : ∀ t ∈ r.mailbox, t ∈ R.mailbox
  timers : ∀ tm ∈ r.heap, tm.carriesWork = true → ∃ tm' ∈ R.heap, tm'.tick = tm.tick

/-- the property as stated: at **every** prefix of the persisted log of a running run, the restart
resumes the run and nothing is lost.  `guard` restricts the stop points considered. -/
def C13_statement (guard : Runner → Prop) : Prop :=
  ∀ (cfg : Cfg) (_ : cfg.WF) (pol : Policy) (_ : TimeFree pol) (now : Int) (e : Ev) (timeout : Option Nat)
    (acts : List Act) (now0 : Int) (clk : Nat → Int) (nowR : Int) (mkStart : Option Ev) (timeout' : Option Nat),
    C13.WellFormedLog (C13.live cfg pol now e timeout acts) →
    (C13.live cfg pol now e timeout acts).outcome = none →
    ticksOf (C13.live cfg pol now e timeout acts).log ≠ [] →
    (C13.live cfg pol now e timeout acts).st.isRunning = true →
    guard (C13.live cfg pol now e timeout acts) →
    ∃ R, restartRun cfg pol none (persistedTicks (C13.live cfg pol now e timeout acts).log) now0 clk nowR mkStart timeout' = .resume R ∧
      C13.NothingLost cfg (C13.live cfg pol now e timeout acts) R

/-- the stop points at which the dead process held nothing but reducer state: empty tick buffer,
empty mailbox, no delayed retry or waiter timeout pending -/
def C13.Quiescent (r : Runner) : Prop :=
  r.buf = [] ∧ r.mailbox = [] ∧ (∀ tm ∈ r.heap, tm.carriesWork = false) ∧ C13.NoRequirements r

/-- **C13, the part that holds**: restarting from a prefix at which the live tick buffer and
mailbox were empty and no timer carried work loses nothing. -/
theorem C13_quiescent_prefix_partial : C13_statement C13.Quiescent := by
  intro cfg hwf pol hpol now e timeout acts now0 clk nowR mkStart timeout' hlog hout hticks hrun hq
  obtain ⟨R, h1, _, h3⟩ := C13_state_kept cfg hwf pol hpol now e timeout acts now0 clk nowR mkStart timeout' hlog hq.2.2.2 hout hticks hrun
  refine ⟨R, h1, h3, ?_, ?_, ?_⟩
  · intro t ht; rw [hq.1] at ht; cases ht
  · intro t ht; rw [hq.2.1] at ht; cases ht
  · intro tm htm hw; rw [hq.2.2.1 tm htm] at hw; cases hw

/-! ### refutation 1 (F12): the output of a persisted step result is still a command -/

def C13.cfg2 : Cfg :=
  { steps := [{ name := 0, accepted := [0], numWorkers := 1, hasRetry := false },
              { name := 2, accepted := [5], numWorkers := 1, hasRetry := false }] }
def C13.pol0 : Policy := fun _ _ _ _ => .stop
def C13.startEv : Ev := { ty := 0, kind := .start, uid := 1 }
def C13.mid : Ev := { ty := 5, kind := .plain, uid := 15 }

/-- `a: Start → Mid`, `b: Mid → Stop`; the process stops right after the step result of `a` is persisted -/
def C13.actsF12 : List Act := [.drain, .workerDone 0 0 [.result (some C13.mid)], .drain]

theorem C13.cfg2_wf : C13.cfg2.WF := by unfold Cfg.WF; decide
theorem C13.pol0_free : TimeFree C13.pol0 := fun _ _ _ _ _ => rfl

/-- what the dead process still held, and what the resumed one holds -/
theorem C13.witnessF12 :
    (C13.live C13.cfg2 C13.pol0 0 C13.startEv none C13.actsF12).buf =
        [.addEvent { ev := C13.mid } none, .idleCheck] ∧
      (ticksOf (C13.live C13.cfg2 C13.pol0 0 C13.startEv none C13.actsF12).log).length = 2 ∧
      (match restartRun C13.cfg2 C13.pol0 none (persistedTicks (C13.live C13.cfg2 C13.pol0 0 C13.startEv none C13.actsF12).log)
              7 (fun _ => 7) 7 none none with
        | .resume R => (R.buf, R.running, R.heap.length, R.mailbox, pendingEvs (R.st.workers 0), pendingEvs (R.st.workers 2))
        | _ => ([.idleCheck], [], 1, [], [], [])) = ([], [], 0, [], [], []) := by
  decide

/-- **refuted (F12)**: the property as stated — every prefix — fails: after `a`'s step result is
persisted, `Mid` exists only as a tick in the dead process' buffer; replay drops the
`CommandQueueEvent`; the resumed runner has an empty buffer, no worker and empty queues, so `b`
never runs and the run stays running forever. -/
theorem C13_refuted : ¬ C13_statement (fun _ => True) := by
  intro h
  have hw := C13.witnessF12
  obtain ⟨R, hR, hl⟩ := h C13.cfg2 C13.cfg2_wf C13.pol0 C13.pol0_free 0 C13.startEv none C13.actsF12 7 (fun _ => 7) 7 none none
    (by unfold C13.WellFormedLog; decide) (by decide) (by decide) (by decide) trivial
  rw [hR] at hw
  have hb := hl.buffer (.addEvent { ev := C13.mid } none) (by rw [hw.1]; simp) (by decide)
  have : R.buf = [] := by
    have := hw.2.2
    simp only [Prod.mk.injEq] at this
    exact this.1
  rw [this] at hb
  cases hb

/-! ### refutation 2: an event sent by a step whose completion is persisted is still in the mailbox -/

def C13.sent : Ev := { ty := 5, kind := .plain, uid := 9 }

/-- `a` sends `X` with `ctx.send_event` and returns `None`; the process stops after `a`'s step
result and the idle check are persisted; the tick buffer is empty, `X` is in the mailbox -/
def C13.actsSent : List Act :=
  [.drain, .external (.addEvent { ev := C13.sent } none), .workerDone 0 0 [.result none], .drain, .drain]

theorem C13.witnessSent :
    (C13.live C13.cfg2 C13.pol0 0 C13.startEv none C13.actsSent).buf = [] ∧
      (C13.live C13.cfg2 C13.pol0 0 C13.startEv none C13.actsSent).mailbox = [.addEvent { ev := C13.sent } none] ∧
      (match restartRun C13.cfg2 C13.pol0 none (persistedTicks (C13.live C13.cfg2 C13.pol0 0 C13.startEv none C13.actsSent).log)
              7 (fun _ => 7) 7 none none with
        | .resume R => (R.buf, R.running, R.mailbox, pendingEvs (R.st.workers 2))
        | _ => ([.idleCheck], [], [], [])) = ([], [], [], []) := by
  decide

/-- **refuted**: even restricted to prefixes with an empty tick buffer the statement fails — the
mailbox (`ctx.send_event`, external sends accepted by the server) dies with the process. -/
theorem C13_refuted_sent_event : ¬ C13_statement (fun r => r.buf = []) := by
  intro h
  have hw := C13.witnessSent
  obtain ⟨R, hR, hl⟩ := h C13.cfg2 C13.cfg2_wf C13.pol0 C13.pol0_free 0 C13.startEv none C13.actsSent 7 (fun _ => 7) 7 none none
    (by unfold C13.WellFormedLog; decide) (by decide) (by decide) (by decide) hw.1
  rw [hR] at hw
  have hm := hl.mailbox (.addEvent { ev := C13.sent } none) (by rw [hw.2.1]; simp)
  have : R.mailbox = [] := by
    have := hw.2.2
    simp only [Prod.mk.injEq] at this
    exact this.2.2.1
  rw [this] at hm
  cases hm

/-! ### refutation 3: a log that spans a resume -/

/-- the statement for a second restart: stop at a quiescent point, resume (`R1`), run on, stop again
while running; the persisted log is the old log followed by the ticks of the resumed run -/
def C13_statement_second_restart : Prop :=
  ∀ (cfg : Cfg) (_ : cfg.WF) (pol : Policy) (_ : TimeFree pol) (now : Int) (e : Ev) (acts1 acts2 : List Act)
    (now0 : Int) (clk : Nat → Int) (nowR : Int) (R1 : Runner),
    C13.WellFormedLog (C13.live cfg pol now e none acts1) →
    (C13.live cfg pol now e none acts1).outcome = none →
    C13.Quiescent (C13.live cfg pol now e none acts1) →
    restartRun cfg pol none (persistedTicks (C13.live cfg pol now e none acts1).log) now0 clk nowR none none = .resume R1 →
    C13.WellFormedLog (Runner.run cfg pol R1 acts2) →
    (Runner.run cfg pol R1 acts2).outcome = none →
    ∃ R2, restartRun cfg pol none
        (persistedTicks (C13.live cfg pol now e none acts1).log ++ persistedTicks (Runner.run cfg pol R1 acts2).log)
        now0 clk nowR none none = .resume R2 ∧
      C13.StateKept cfg (Runner.run cfg pol R1 acts2).st R2

def C13.cfg3 : Cfg :=
  { steps := [{ name := 0, accepted := [0], numWorkers := 1, hasRetry := false },
              { name := 2, accepted := [5], numWorkers := 2, hasRetry := false }] }
theorem C13.cfg3_wf : C13.cfg3.WF := by unfold Cfg.WF; decide
def C13.e9 : Ev := { ty := 5, kind := .plain, uid := 9 }
def C13.e10 : Ev := { ty := 5, kind := .plain, uid := 10 }

/-- two events to a two-worker step; the first finishes; stop while the second (slot 1) runs -/
def C13.acts3a : List Act :=
  [.drain, .external (.addEvent { ev := C13.e9 } none), .external (.addEvent { ev := C13.e10 } none),
   .workerDone 0 0 [.result none], .drain, .drain, .pull, .drain, .pull, .drain,
   .workerDone 2 0 [.result none], .drain]
/-- the resumed run re-runs the second event — now in slot 0 — and it finishes -/
def C13.acts3b : List Act := [.workerDone 2 0 [.result none], .drain]

def C13.R1 : Runner :=
  match restartRun C13.cfg3 C13.pol0 none (persistedTicks (C13.live C13.cfg3 C13.pol0 0 C13.startEv none C13.acts3a).log)
      7 (fun _ => 7) 7 none none with
  | .resume R => R
  | _ => { st := initState }

theorem C13.witness3 :
    (C13.live C13.cfg3 C13.pol0 0 C13.startEv none C13.acts3a).buf = [] ∧
    (C13.live C13.cfg3 C13.pol0 0 C13.startEv none C13.acts3a).mailbox = [] ∧
    (C13.live C13.cfg3 C13.pol0 0 C13.startEv none C13.acts3a).heap = [] ∧
    ((C13.live C13.cfg3 C13.pol0 0 C13.startEv none C13.acts3a).st.workers 2).inProg.map (fun ip => (ip.ev.uid, ip.wid)) = [(10, 1)] ∧
    C13.R1.running = [{ step := 2, wid := 0, ev := C13.e10 }] ∧
    ticksOf (Runner.run C13.cfg3 C13.pol0 C13.R1 C13.acts3b).log = [.stepResult 2 0 C13.e10 [.result none]] ∧
    (Runner.run C13.cfg3 C13.pol0 C13.R1 C13.acts3b).outcome = none ∧
    (match restartRun C13.cfg3 C13.pol0 none
        (persistedTicks (C13.live C13.cfg3 C13.pol0 0 C13.startEv none C13.acts3a).log ++
          persistedTicks (Runner.run C13.cfg3 C13.pol0 C13.R1 C13.acts3b).log) 7 (fun _ => 7) 7 none none with
      | .markFailed e => some e
      | _ => none) = some ErrMsg.resumeError := by
  decide

theorem C13.R1_eq : restartRun C13.cfg3 C13.pol0 none
    (persistedTicks (C13.live C13.cfg3 C13.pol0 0 C13.startEv none C13.acts3a).log) 7 (fun _ => 7) 7 none none = .resume C13.R1 := by
  unfold C13.R1
  have : (match restartRun C13.cfg3 C13.pol0 none
      (persistedTicks (C13.live C13.cfg3 C13.pol0 0 C13.startEv none C13.acts3a).log) 7 (fun _ => 7) 7 none none with
    | .resume _ => true | _ => false) = true := by decide
  split
  · rename_i R h; rw [h]
  · rename_i hne
    split at this
    · rename_i R h; exact absurd h (hne R)
    · cases this

/-- **refuted**: after a resume that re-queued in-progress work, the persisted log no longer
replays: the resumed run's step result names worker slot 0, the replayed state (which never saw the
resume) has the invocation in slot 1 — `ValueError: Worker 0 not found in in_progress`; the second
restart marks the handler failed instead of resuming it. -/
theorem C13_refuted_second_restart : ¬ C13_statement_second_restart := by
  intro h
  have hw := C13.witness3
  obtain ⟨R2, hR2, _⟩ := h C13.cfg3 C13.cfg3_wf C13.pol0 C13.pol0_free 0 C13.startEv C13.acts3a C13.acts3b 7 (fun _ => 7) 7 C13.R1
    (by unfold C13.WellFormedLog; decide) (by decide) ⟨hw.1, hw.2.1, (by rw [hw.2.2.1]; intro tm htm; cases htm), (by unfold C13.NoRequirements; decide)⟩ C13.R1_eq
    (by intro t ht; rw [hw.2.2.2.2.2.1] at ht; simp only [List.mem_singleton] at ht; subst ht; decide) hw.2.2.2.2.2.2.1
  have := hw.2.2.2.2.2.2.2
  rw [hR2] at this
  cases this

/-! ### refutation 4: `wait_for_event` requirements do not survive the store -/

/-- the statement without the `NoRequirements` guard: replaying the persisted log rebuilds the
serialised live state (up to first-attempt times) -/
def C13_statement_requirements : Prop :=
  ∀ (cfg : Cfg) (_ : cfg.WF) (pol : Policy) (_ : TimeFree pol) (now : Int) (e : Ev) (timeout : Option Nat)
    (acts : List Act) (now0 : Int) (clk : Nat → Int),
    C13.WellFormedLog (C13.live cfg pol now e timeout acts) →
    ∃ rep, replayTicks cfg pol initState now0 clk (persistedTicks (C13.live cfg pol now e timeout acts).log) = some rep ∧
      SimSt (roundtrip cfg rep.st) (roundtrip cfg (C13.live cfg pol now e timeout acts).st)

def C13.cfg4 : Cfg :=
  { steps := [{ name := 0, accepted := [0], numWorkers := 1, hasRetry := false },
              { name := 2, accepted := [5], numWorkers := 1, hasRetry := false }] }
theorem C13.cfg4_wf : C13.cfg4.WF := by unfold Cfg.WF; decide
def C13.wrong : Ev := { ty := 3, kind := .plain, uid := 1001, key := some 2 }

/-- `b` waits for a response with `k == 1`; a response with `k == 2` arrives and is (rightly) not
delivered; the process stops after that tick is persisted -/
def C13.actsReq : List Act :=
  [.drain, .workerDone 0 0 [.result (some C13.mid)], .drain, .drain, .drain,
   .workerDone 2 0 [.addWaiter 1 none (some 1) none 3], .drain, .drain,
   .external (.addEvent { ev := C13.wrong } none), .pull, .drain]

theorem C13.witnessReq :
    -- live: the waiter is unresolved, nothing is pending for `b`
    ((C13.live C13.cfg4 C13.pol0 0 C13.startEv none C13.actsReq).st.workers 2).waiters.map (fun w => (w.req, w.resolved)) =
        [(some 1, none)] ∧
    pendingEvs ((roundtrip C13.cfg4 (C13.live C13.cfg4 C13.pol0 0 C13.startEv none C13.actsReq).st).workers 2) = [] ∧
    -- replay of what the store holds: the waiter took the wrong response and `b` is re-run with it
    (match replayTicks C13.cfg4 C13.pol0 initState 7 (fun _ => 7)
        (persistedTicks (C13.live C13.cfg4 C13.pol0 0 C13.startEv none C13.actsReq).log) with
      | some rep => (((roundtrip C13.cfg4 rep.st).workers 2).waiters.map (fun w => (w.hasReq, w.resolved)),
                     pendingEvs ((roundtrip C13.cfg4 rep.st).workers 2))
      | none => ([], [])) = ([(false, some C13.wrong)], [C13.mid]) := by
  decide

/-- **refuted**: a persisted `AddWaiter` comes back without its requirements (and without the
`has_requirements` mark), so replay resolves the waiter with the first event of the awaited type in the
log — here one the live run had rejected — and the resumed run hands it to the waiting step. -/
theorem C13_refuted_requirements : ¬ C13_statement_requirements := by
  intro h
  obtain ⟨rep, h1, h2⟩ := h C13.cfg4 C13.cfg4_wf C13.pol0 C13.pol0_free 0 C13.startEv none C13.actsReq 7 (fun _ => 7)
    (by unfold C13.WellFormedLog; decide)
  have hw := C13.witnessReq
  rw [h1] at hw
  have := hw.2.2
  simp only [Prod.mk.injEq] at this
  rw [C13.pendingEvs_sim (h2.workers 2), hw.2.1] at this
  exact absurd this.2 (by decide)

/-! ## which handlers a starting server touches -/

/-- **C13 (selection)**: every handler row gets exactly one verdict, in query order; a run is
restarted only for a row that is `running`, of a registered workflow, not idle, has a run id, and
whose run is not already active. -/
theorem C13_start_picks (registered : List Nat) (resumes : Nat → Bool) :
    ∀ (hs : List HandlerRow) (active : List Nat),
      (pickHandlers registered resumes active hs).map (·.1) = hs.map (·.hid) ∧
      ∀ p ∈ pickHandlers registered resumes active hs, ∀ r, p.2 = .restart r →
        ∃ h ∈ hs, h.hid = p.1 ∧ h.status = .running ∧ registered.contains h.wf = true ∧ h.idle = false ∧
          h.runId = some r ∧ active.contains r = false
  | [], active => by simp [pickHandlers]
  | h :: hs, active => by
    unfold pickHandlers
    by_cases hq : startQuery registered h = true
    · simp only [hq, Bool.not_true, Bool.false_eq_true, if_false]
      cases hr : h.runId with
      | none =>
        have ih := C13_start_picks registered resumes hs active
        refine ⟨by simp [ih.1], ?_⟩
        intro p hp r hpr
        simp only [List.mem_cons] at hp
        rcases hp with hp | hp
        · subst hp; cases hpr
        · obtain ⟨h', hm, rest⟩ := ih.2 p hp r hpr
          exact ⟨h', by simp [hm], rest⟩
      | some run =>
        simp only
        by_cases ha : active.contains run = true
        · simp only [ha, if_true]
          have ih := C13_start_picks registered resumes hs active
          refine ⟨by simp [ih.1], ?_⟩
          intro p hp r hpr
          simp only [List.mem_cons] at hp
          rcases hp with hp | hp
          · subst hp; cases hpr
          · obtain ⟨h', hm, rest⟩ := ih.2 p hp r hpr
            exact ⟨h', by simp [hm], rest⟩
        · simp only [ha, Bool.false_eq_true, if_false]
          have ih := C13_start_picks registered resumes hs (if resumes run then run :: active else active)
          refine ⟨by simp [ih.1], ?_⟩
          intro p hp r hpr
          simp only [List.mem_cons] at hp
          rcases hp with hp | hp
          · subst hp
            simp only [Pick.restart.injEq] at hpr
            subst hpr
            simp only [startQuery, Bool.and_eq_true, beq_iff_eq, Bool.not_eq_true'] at hq
            exact ⟨h, by simp, rfl, hq.1.1, hq.1.2, hq.2, hr, by simpa using ha⟩
          · obtain ⟨h', hm, h1, h2, h3, h4, h5, h6⟩ := ih.2 p hp r hpr
            refine ⟨h', by simp [hm], h1, h2, h3, h4, h5, ?_⟩
            split at h6
            · simp only [List.contains_cons, Bool.or_eq_false_iff] at h6; exact h6.2
            · exact h6
    · have hq' : startQuery registered h = false := by simpa using hq
      simp only [hq', Bool.not_false, if_true]
      have ih := C13_start_picks registered resumes hs active
      refine ⟨by simp [ih.1], ?_⟩
      intro p hp r hpr
      simp only [List.mem_cons] at hp
      rcases hp with hp | hp
      · subst hp; cases hpr
      · obtain ⟨h', hm, rest⟩ := ih.2 p hp r hpr
        exact ⟨h', by simp [hm], rest⟩

/-- **C13 (not re-run twice)**: a run that is resumed joins the active set, so no later row
restarts it again; a run that is already active is not restarted at all. -/
theorem C13_restart_at_most_once (registered : List Nat) (resumes : Nat → Bool) (run : Nat) (hres : resumes run = true) :
    ∀ (hs : List HandlerRow) (active : List Nat),
      ((pickHandlers registered resumes active hs).filter (fun p => p.2 == .restart run)).length ≤
        (if active.contains run then 0 else 1)
  | [], active => by simp [pickHandlers]
  | h :: hs, active => by
    unfold pickHandlers
    split
    · simp only [List.filter_cons, beq_iff_eq, reduceCtorEq, if_false]
      exact C13_restart_at_most_once registered resumes run hres hs active
    · cases hr : h.runId with
      | none =>
        simp only [List.filter_cons, beq_iff_eq, reduceCtorEq, if_false]
        exact C13_restart_at_most_once registered resumes run hres hs active
      | some r =>
        simp only
        split
        · simp only [List.filter_cons, beq_iff_eq, reduceCtorEq, if_false]
          exact C13_restart_at_most_once registered resumes run hres hs active
        · rename_i hna
          simp only [List.filter_cons, beq_iff_eq, Pick.restart.injEq]
          by_cases hrr : r = run
          · subst hrr
            simp only [if_true, hres, List.length_cons]
            have ih := C13_restart_at_most_once registered resumes r hres hs (r :: active)
            simp only [List.contains_cons, beq_self_eq_true, Bool.true_or, if_true] at ih
            have hna' : active.contains r = false := by simpa using hna
            simp only [hna', Bool.false_eq_true, if_false]
            omega
          · simp only [hrr, if_false]
            have ih := C13_restart_at_most_once registered resumes run hres hs (if resumes r then r :: active else active)
            have hc : (if resumes r then r :: active else active).contains run = active.contains run := by
              split
              · have : (run == r) = false := by simpa using (fun h => hrr h.symm)
                rw [List.contains_cons, this, Bool.false_or]
              · rfl
            rw [hc] at ih
            exact ih

/-! ## a run that was idle and has been woken

`WorkflowServer` puts the idle-release layer around the persistence layer; the start query skips rows
whose idle marker is set (they are reloaded by the next `send_event`).  So "no accepted event is lost"
needs: a run that has accepted an event since it last announced idleness does not carry the marker. -/

theorem C13.rowmark_run_append (m : RowMark) (a b : List RowEv) :
    RowMark.run m (a ++ b) = RowMark.run (RowMark.run m a) b := by
  simp [RowMark.run, List.foldl_append]

theorem C13.rowmark_step_keeps (m : RowMark) (e : RowEv) (he : e ≠ .idleAnnounced) (hm : m.idle = false) :
    (m.step e).idle = false := by
  cases e with
  | idleAnnounced => exact absurd rfl he
  | sendDone => rfl
  | released => simp [RowMark.step, hm]
  | processStop => simpa [RowMark.step] using hm

theorem C13.rowmark_busy_keeps (busy : List RowEv) (h : ∀ e ∈ busy, e ≠ .idleAnnounced) :
    ∀ m : RowMark, m.idle = false → (RowMark.run m busy).idle = false := by
  induction busy with
  | nil => intro m hm; simpa [RowMark.run] using hm
  | cons e es ih =>
    intro m hm
    have h1 := C13.rowmark_step_keeps m e (h e (by simp)) hm
    have h2 := ih (fun e' he' => h e' (by simp [he'])) (m.step e) h1
    simpa [RowMark.run] using h2

/-- **C13 (a woken run is not marked idle)**: whatever happened to the run before (`pre`: idle
announcements, releases, reloads, process stops), once a `send_event` for it has returned and the run
has not announced idleness again since (`busy`: further sends, process stops — the work the event
started is still going on), the handler row does not carry the idle marker. -/
theorem C13_woken_run_not_idle (m : RowMark) (pre busy : List RowEv) (h : ∀ e ∈ busy, e ≠ .idleAnnounced) :
    (RowMark.run m (pre ++ .sendDone :: busy)).idle = false := by
  rw [C13.rowmark_run_append]
  have : RowMark.run (RowMark.run m pre) (.sendDone :: busy) = RowMark.run ((RowMark.run m pre).step .sendDone) busy := by
    simp [RowMark.run]
  rw [this]
  exact C13.rowmark_busy_keeps busy h _ rfl

/-- **C13 (a woken run is resumed)**: at a process stop such a run's row (running, registered
workflow, run not yet active) is selected by the start query — the very next verdict of
`_on_server_start` for it is `restart` — and what the restart does with it is `restartRun` on its
persisted ticks, i.e. everything `C13_replay_reproduces_state`, `C13_state_kept` and `C13_finalize` say. -/
theorem C13_woken_run_resumed (m : RowMark) (pre busy : List RowEv) (h : ∀ e ∈ busy, e ≠ .idleAnnounced)
    (registered : List Nat) (resumes : Nat → Bool) (active : List Nat) (row : HandlerRow) (hs : List HandlerRow) (r : Nat)
    (hidle : row.idle = (RowMark.run m (pre ++ .sendDone :: busy)).idle)
    (hst : row.status = .running) (hwf : registered.contains row.wf = true) (hrun : row.runId = some r)
    (hact : active.contains r = false) :
    pickHandlers registered resumes active (row :: hs) =
      (row.hid, .restart r) :: pickHandlers registered resumes (if resumes r then r :: active else active) hs ∧
    ∀ (cfg : Cfg) (pol : Policy) (legacy : Option State) (ticks : List Tick) (now0 : Int) (clk : Nat → Int) (nowR : Int)
      (mkStart : Option Ev) (timeout : Option Nat),
      restartHandler row.idle cfg pol legacy ticks now0 clk nowR mkStart timeout =
        restartRun cfg pol legacy ticks now0 clk nowR mkStart timeout := by
  have hi : row.idle = false := by rw [hidle]; exact C13_woken_run_not_idle m pre busy h
  constructor
  · have hwf' : row.wf ∈ registered := by simpa using hwf
    have hact' : ¬ r ∈ active := by simpa using hact
    have hq : startQuery registered row = true := by simp [startQuery, hst, hwf', hi]
    rw [pickHandlers]
    simp [hq, hrun, hact']
  · intro cfg pol legacy ticks now0 clk nowR mkStart timeout
    simp [restartHandler, hi]

/-- **C13 (an idle run waits for its next event)**: a row that carries the marker at a process stop is
left alone by `_on_server_start` (nothing read, written or started), the run is not in memory — and
the next `send_event` brings it back and clears the marker, whatever else happened in between. -/
theorem C13_idle_run_reloaded_by_send (m : RowMark) (hm : m.idle = true) :
    (m.step .processStop).inMemory = false ∧
    (∀ (cfg : Cfg) (pol : Policy) (legacy : Option State) (ticks : List Tick) (now0 : Int) (clk : Nat → Int) (nowR : Int)
      (mkStart : Option Ev) (timeout : Option Nat),
      restartHandler m.idle cfg pol legacy ticks now0 clk nowR mkStart timeout = .skip) ∧
    ∀ between : List RowEv, RowMark.run (m.step .processStop) (between ++ [.sendDone]) = { idle := false, inMemory := true } := by
  refine ⟨by simp [RowMark.step, hm], ?_, ?_⟩
  · intro cfg pol legacy ticks now0 clk nowR mkStart timeout
    simp [restartHandler, hm]
  · intro between
    rw [C13.rowmark_run_append]
    simp [RowMark.run, RowMark.step]

/-- what `RowMark` assumes of `idle_release_runtime.py`, re-extracted on every run: the idle
announcement writes `idle_since` before the event is published; `send_event` clears it on the path
of a run that is in memory and reloads a released run, both before the tick is handed on; the reload
clears it after `workflow.run`; and the start query is the one that reads it (`is_idle=False`). -/
theorem C13_idle_mark_shape :
    GenReplay.idleAnnouncementMarksRow = true ∧ GenReplay.sendClearsMarkInMemory = true ∧
    GenReplay.sendReloadsReleasedRun = true ∧ GenReplay.reloadClearsMark = true ∧ GenReplay.startIsIdle = some false := by
  decide

/-- non-vacuity: idle, woken in memory, busy across a process stop: resumed; idle and not woken: skipped;
released and woken by a reload: resumed -/
example :
    RowMark.run {} [.idleAnnounced, .sendDone, .processStop] = { idle := false, inMemory := true } ∧
    RowMark.run {} [.idleAnnounced, .processStop] = { idle := true, inMemory := false } ∧
    RowMark.run {} [.idleAnnounced, .released, .sendDone, .processStop] = { idle := false, inMemory := true } ∧
    restartHandler (RowMark.run {} [.idleAnnounced]).idle C13.cfg2 C13.pol0 none [] 0 (fun _ => 0) 0 none none = .skip := by
  refine ⟨by decide, by decide, by decide, ?_⟩
  simp [restartHandler, RowMark.run, RowMark.step]

/-! ## the source, as re-read on this run -/

def C13.statusStr : Status → String
  | .running => "running" | .completed => "completed" | .failed => "failed" | .cancelled => "cancelled"

def C13.finalStr : Option Final → String
  | none => "none"
  | some f => C13.statusStr f.status

/-- **C13 (source shape)**: the tables and the control shape the model is cut along, as extracted from
the current sources (`harness/gen/replay.py` → `WfModel/GenReplay.lean`): the start query is
"running, registered workflow, not idle" and is the model's `startQuery`; the statuses returned by
`handler_status_from_exit_command`, in source order, are the model's `statusOfExit` on (idle release,
completion, step failure, cancel, timeout); `replay_ticks_stream` rewinds first, reduces every tick once,
never leaves its loop early and remembers exactly the three exit command classes; `_process_tick`
persists the tick before it executes its commands; `context_from_ticks` validates before replaying. -/
theorem C13_source_shape :
    GenReplay.startStatusIn = ["running"] ∧ GenReplay.startIsIdle = some false ∧ GenReplay.startFiltersWorkflow = true ∧
    (∀ (reg : List Nat) (h : HandlerRow), startQuery reg h =
      (GenReplay.startStatusIn.contains (C13.statusStr h.status) && (reg.contains h.wf && GenReplay.startFiltersWorkflow) &&
        (GenReplay.startIsIdle == some h.idle))) ∧
    GenReplay.exitStatuses =
      [C13.finalStr (statusOfExit (.completeRun .idleReleased)),
       C13.finalStr (statusOfExit (.completeRun (.event { ty := 1, kind := .stop, uid := 7 }))),
       C13.finalStr (statusOfExit (.failWorkflow 0 0)),
       C13.finalStr (statusOfExit (.halt .cancelledByUser)),
       C13.finalStr (statusOfExit (.halt .timeout))] ∧
    GenReplay.exitClasses = ["CommandCompleteRun", "CommandFailWorkflow", "CommandHalt"] ∧
    GenReplay.replayRewindsFirst = true ∧ GenReplay.replayReducesPerTick = 1 ∧ GenReplay.replayLoopHasEarlyExit = false ∧
    GenReplay.persistBeforeCommands = true ∧ GenReplay.validatesBeforeReplay = true := by
  refine ⟨by decide, by decide, by decide, ?_, by decide, by decide, by decide, by decide, by decide, by decide, by decide⟩
  intro reg h
  have h1 : GenReplay.startStatusIn = ["running"] := by decide
  have h2 : GenReplay.startIsIdle = some false := by decide
  have h3 : GenReplay.startFiltersWorkflow = true := by decide
  rw [h1, h2, h3]
  cases hs : h.status <;> cases hi : h.idle <;> simp [startQuery, hs, hi, C13.statusStr]

/-! ## reading the persisted log back -/

/-- **The tick source of the replay is the whole log.** `SqliteWorkflowStore.stream_ticks` (pages of
`_TICK_PAGE_SIZE` rows, keyset cursor = sequence of the last row yielded, stop on a short page) yields, for
every persisted log (sequence column strictly increasing: `append_tick` assigns `MAX(sequence)+1` per run) of
any length — below, at and beyond any number of pages — exactly the rows of `get_ticks`, in order, none
skipped, none twice; and so for every positive page size. -/
theorem C13_stream_ticks_complete (rows : List Nat) (h : rows.Pairwise (· < ·)) :
    TickStream.streamTicks GenReplay.tickPageSize rows = TickStream.getTicks rows ∧
    (∀ page, 0 < page → TickStream.streamTicks page rows = rows) :=
  ⟨TickStream.streamTicks_complete _ (by decide) rows h, fun page hp => TickStream.streamTicks_complete page hp rows h⟩

/-- what the model `WfModel/TickStream.lean` assumes of the source, re-extracted on every run: the page size is a
positive literal, both page queries are `… ORDER BY sequence LIMIT _TICK_PAGE_SIZE` (one of them `AND sequence > ?`),
the cursor is only ever the sequence of the row just yielded, the loop ends exactly on a short page -/
theorem C13_tick_stream_shape :
    0 < GenReplay.tickPageSize ∧ GenReplay.streamLimitIsPageSize = true ∧
    GenReplay.streamCursorIsLastYielded = true ∧ GenReplay.streamStopsOnShortPage = true := by
  decide

/-- non-vacuity: three pages and a short one, sequences with gaps; a log of exactly two pages costs one more (empty) query -/
example : TickStream.streamTicks 3 [0, 1, 2, 3, 5, 6, 9, 10, 11, 12] = [0, 1, 2, 3, 5, 6, 9, 10, 11, 12] ∧
    TickStream.fetch [0, 1, 2, 3, 5, 6, 9, 10, 11, 12] (some 2) 3 = [3, 5, 6] ∧
    TickStream.streamTicks 3 [0, 1, 2, 3, 4, 5] = [0, 1, 2, 3, 4, 5] ∧
    TickStream.fetch [0, 1, 2, 3, 4, 5] (some 5) 3 = [] := by
  decide

/-! ## non-vacuity -/

/-- the hypotheses of `C13_state_kept` / `C13_quiescent_prefix_partial` are met by a run stopped
while a step is in progress and another invocation is queued behind it (fan-out into a one-worker
step): the resumed runner re-runs one, keeps the other queued -/
def C13.actsQ : List Act :=
  [.drain, .external (.addEvent { ev := C13.e9 } none), .external (.addEvent { ev := C13.e10 } none),
   .workerDone 0 0 [.result none], .drain, .drain, .pull, .drain, .pull, .drain]

example :
    (∀ t ∈ ticksOf (C13.live C13.cfg2 C13.pol0 0 C13.startEv none C13.actsQ).log, t.oneOutcome = true) ∧
    (∀ t ∈ ticksOf (C13.live C13.cfg2 C13.pol0 0 C13.startEv none C13.actsQ).log, t.persist = t) ∧
    (C13.live C13.cfg2 C13.pol0 0 C13.startEv none C13.actsQ).outcome = none ∧
    (ticksOf (C13.live C13.cfg2 C13.pol0 0 C13.startEv none C13.actsQ).log).length = 5 ∧
    (C13.live C13.cfg2 C13.pol0 0 C13.startEv none C13.actsQ).st.isRunning = true ∧
    (C13.live C13.cfg2 C13.pol0 0 C13.startEv none C13.actsQ).buf = [] ∧
    (C13.live C13.cfg2 C13.pol0 0 C13.startEv none C13.actsQ).mailbox = [] ∧
    (C13.live C13.cfg2 C13.pol0 0 C13.startEv none C13.actsQ).heap = [] ∧
    pendingEvs ((C13.live C13.cfg2 C13.pol0 0 C13.startEv none C13.actsQ).st.workers 2) = [C13.e10, C13.e9] ∧
    (match restartRun C13.cfg2 C13.pol0 none (ticksOf (C13.live C13.cfg2 C13.pol0 0 C13.startEv none C13.actsQ).log)
        7 (fun _ => 7) 9 none none with
      | .resume R => (R.running.map (·.ev.uid), (R.st.workers 2).queue.map (·.ev.uid))
      | _ => ([], [])) = ([10], [9]) := by
  decide

/-- the `NoRequirements` guard admits waits — only `requirements=` is excluded: a step suspended in
`wait_for_event(T)` at the stop point is restored as a waiter of the resumed run -/
example :
    (∀ t ∈ ticksOf (C13.live C13.cfg4 C13.pol0 0 C13.startEv none
        [.drain, .workerDone 0 0 [.result (some C13.mid)], .drain, .drain, .drain,
         .workerDone 2 0 [.addWaiter 1 none none none 3], .drain, .drain]).log, t.persist = t) ∧
    (match restartRun C13.cfg4 C13.pol0 none (persistedTicks (C13.live C13.cfg4 C13.pol0 0 C13.startEv none
        [.drain, .workerDone 0 0 [.result (some C13.mid)], .drain, .drain, .drain,
         .workerDone 2 0 [.addWaiter 1 none none none 3], .drain, .drain]).log) 7 (fun _ => 7) 9 none none with
      | .resume R => (R.st.workers 2).waiters.map (fun w => (w.wid, w.waitTy, w.resolved))
      | _ => []) = [(1, 3, none)] := by
  decide

/-- finalize: a run that completed; the stop falls after the last tick was persisted -/
example :
    (C13.live C13.cfg2 C13.pol0 0 C13.startEv none
        [.drain, .workerDone 0 0 [.result (some { ty := 1, kind := .stop, uid := 7 })], .drain]).outcome =
      some (.completed (.event { ty := 1, kind := .stop, uid := 7 })) ∧
    (match restartRun C13.cfg2 C13.pol0 none (ticksOf (C13.live C13.cfg2 C13.pol0 0 C13.startEv none
        [.drain, .workerDone 0 0 [.result (some { ty := 1, kind := .stop, uid := 7 })], .drain]).log) 7 (fun _ => 7) 9 none none with
      | .finalize f => some f
      | _ => none) = some { status := .completed, result := some (.event { ty := 1, kind := .stop, uid := 7 }) } := by
  decide

/-- selection: an idle handler, a completed one and one of an unregistered workflow are left
alone; two rows of one resumable run restart it once -/
example :
    pickHandlers [1] (fun r => r == 5) []
      [{ hid := 1, wf := 1, status := .running, runId := some 5, idle := false },
       { hid := 2, wf := 1, status := .running, runId := some 6, idle := true },
       { hid := 3, wf := 1, status := .completed, runId := some 7, idle := false },
       { hid := 4, wf := 2, status := .running, runId := some 8, idle := false },
       { hid := 5, wf := 1, status := .running, runId := some 5, idle := false },
       { hid := 6, wf := 1, status := .running, runId := none, idle := false }] =
    [(1, .restart 5), (2, .notSelected), (3, .notSelected), (4, .notSelected), (5, .alreadyActive), (6, .noRunId)] := by
  decide

/-! ## every prefix of every persisted log

The theorems above quantify over schedules (`acts`): "the process stops after this schedule".  The
property quantifies over *prefixes of the persisted log*.  The two coincide: the runner persists at
most one tick per action and never rewrites the log. -/

/-- **C13 (the stop points are all the log prefixes)**: for every run and every `k` up to the length
of its persisted log, the first `k` persisted ticks are the *whole* persisted log of the same run
stopped after some prefix of its schedule — nothing in between two persisted ticks is a different log,
and there is no prefix of the log at which the process could not have stopped. -/
theorem C13_every_log_prefix_is_a_stop_point (cfg : Cfg) (pol : Policy) (now : Int) (e : Ev) (timeout : Option Nat)
    (acts : List Act) (k : Nat) (hk : k ≤ (persistedTicks (C13.live cfg pol now e timeout acts).log).length) :
    ∃ n, n ≤ acts.length ∧
      persistedTicks (C13.live cfg pol now e timeout (acts.take n)).log =
        (persistedTicks (C13.live cfg pol now e timeout acts).log).take k ∧
      ticksOf (C13.live cfg pol now e timeout (acts.take n)).log =
        (ticksOf (C13.live cfg pol now e timeout acts).log).take k := by
  have hf := init_fresh cfg now e timeout
  simp only at hf
  have hk' : k ≤ (C13.live cfg pol now e timeout acts).log.length := by
    simpa [persistedTicks] using hk
  obtain ⟨n, hn, h⟩ := c13_log_prefix_is_stop_point cfg pol acts (Runner.init cfg initState now (some e) timeout) k
    (by rw [hf.2.1]; exact Nat.zero_le _) hk'
  refine ⟨n, hn, ?_, ?_⟩
  · unfold persistedTicks C13.live; rw [h, List.map_take]
  · unfold ticksOf C13.live; rw [h, List.map_take]

/-- **C13 (replay at every prefix of every persisted log)**: cut the persisted log of any run anywhere;
replaying the first `k` ticks never raises and rebuilds — up to first-attempt times — the reducer state
the live run had at the stop point whose log this is, with that stop point's exit command. -/
theorem C13_replay_every_log_prefix (cfg : Cfg) (pol : Policy) (hpol : TimeFree pol) (now : Int) (e : Ev)
    (timeout : Option Nat) (acts : List Act) (now0 : Int) (clk : Nat → Int)
    (hlog : C13.WellFormedLog (C13.live cfg pol now e timeout acts))
    (hreq : C13.NoRequirements (C13.live cfg pol now e timeout acts))
    (k : Nat) (hk : k ≤ (persistedTicks (C13.live cfg pol now e timeout acts).log).length) :
    ∃ n rep, n ≤ acts.length ∧
      ticksOf (C13.live cfg pol now e timeout (acts.take n)).log = (ticksOf (C13.live cfg pol now e timeout acts).log).take k ∧
      replayTicks cfg pol initState now0 clk ((persistedTicks (C13.live cfg pol now e timeout acts).log).take k) = some rep ∧
      SimSt rep.st (C13.live cfg pol now e timeout (acts.take n)).st ∧
      SimSt (roundtrip cfg rep.st) (roundtrip cfg (C13.live cfg pol now e timeout (acts.take n)).st) ∧
      ExitRel rep.exit (C13.live cfg pol now e timeout (acts.take n)).outcome := by
  obtain ⟨n, hn, hp, ht⟩ := C13_every_log_prefix_is_a_stop_point cfg pol now e timeout acts k hk
  have hlog' : C13.WellFormedLog (C13.live cfg pol now e timeout (acts.take n)) := by
    intro t htm; rw [ht] at htm; exact hlog t (List.mem_of_mem_take htm)
  have hreq' : C13.NoRequirements (C13.live cfg pol now e timeout (acts.take n)) := by
    intro t htm; rw [ht] at htm; exact hreq t (List.mem_of_mem_take htm)
  obtain ⟨rep, h1, h2, h3, h4⟩ := C13_replay_reproduces_state cfg pol hpol now e timeout (acts.take n) now0 clk hlog' hreq'
  rw [hp] at h1
  exact ⟨n, rep, hn, ht, h1, h2, h3, h4⟩

/-- non-vacuity: the F12 run's log has 2 ticks; its prefix of length 1 is the log of the run stopped
after its first action, and a `drain` never persists more than one tick -/
example :
    (persistedTicks (C13.live C13.cfg2 C13.pol0 0 C13.startEv none C13.actsF12).log).length = 2 ∧
    persistedTicks (C13.live C13.cfg2 C13.pol0 0 C13.startEv none (C13.actsF12.take 1)).log =
      (persistedTicks (C13.live C13.cfg2 C13.pol0 0 C13.startEv none C13.actsF12).log).take 1 := by
  decide

/-! ## arbitrary logs: replay is prefix-closed and "last wins" never forgets -/

/-- **C13 (any log, any cut)**: for *every* tick list — whether or not a fresh run wrote it (logs that
span a resume, truncated or foreign logs included) — and every cut `a ++ b`: if replaying the whole
log succeeds, replaying the prefix `a` succeeds, the whole replay is the continuation of that one over
`b` (so a restart after `a` and a later one after `a ++ b` agree on `a`); an exit command the prefix
ended in is never forgotten by a longer log; and `ReplayResult.exit_command` only ever holds one of the
three exit commands — the precondition of `handler_status_from_exit_command`, which maps every such
command to a final status except the idle release. -/
theorem C13_replay_prefix_closed_exit_kept (cfg : Cfg) (pol : Policy) (st0 : State) (now0 : Int) (clk : Nat → Int)
    (a b : List Tick) (rep' : Replayed) (h : replayTicks cfg pol st0 now0 clk (a ++ b) = some rep') :
    ∃ rep, replayTicks cfg pol st0 now0 clk a = some rep ∧
      replayFrom cfg pol clk a.length rep b = some rep' ∧
      (rep.exit.isSome = true → rep'.exit.isSome = true) ∧
      (∀ c, rep'.exit = some c → c.isExit = true ∧
        (statusOfExit c = none ↔ c = .completeRun .idleReleased)) := by
  obtain ⟨rep, h1, h2, h3, _, h5⟩ := c13_replayTicks_append cfg pol st0 now0 clk a b rep' h
  refine ⟨rep, h1, h2, h3, ?_⟩
  intro c hc
  have hx := h5 c hc
  refine ⟨hx, ?_⟩
  cases c with
  | halt k => cases k <;> simp [statusOfExit]
  | completeRun p => cases p <;> simp [statusOfExit]
  | failWorkflow s x => simp [statusOfExit]
  | _ => simp [Cmd.isExit] at hx

/-- the contrapositive, as `_on_server_start` uses it: a log whose replay raises has no replayable
extension — a handler marked failed for its log would be marked failed for every longer log too -/
theorem C13_unreplayable_prefix_stays_unreplayable (cfg : Cfg) (pol : Policy) (st0 : State) (now0 : Int) (clk : Nat → Int)
    (a b : List Tick) (h : replayTicks cfg pol st0 now0 clk a = none) :
    replayTicks cfg pol st0 now0 clk (a ++ b) = none := by
  cases hr : replayTicks cfg pol st0 now0 clk (a ++ b) with
  | none => rfl
  | some rep' =>
    obtain ⟨rep, h1, _⟩ := c13_replayTicks_append cfg pol st0 now0 clk a b rep' hr
    rw [h] at h1; cases h1

/-- non-vacuity: the completed run's log cut after its first tick: the prefix has no exit command, the
whole log has; and the second-restart witness' log is unreplayable together with every extension -/
example :
    (match replayTicks C13.cfg2 C13.pol0 initState 7 (fun _ => 7)
        ((ticksOf (C13.live C13.cfg2 C13.pol0 0 C13.startEv none
          [.drain, .workerDone 0 0 [.result (some { ty := 1, kind := .stop, uid := 7 })], .drain]).log).take 1) with
      | some rep => rep.exit.isSome | none => true) = false ∧
    (match replayTicks C13.cfg2 C13.pol0 initState 7 (fun _ => 7)
        (ticksOf (C13.live C13.cfg2 C13.pol0 0 C13.startEv none
          [.drain, .workerDone 0 0 [.result (some { ty := 1, kind := .stop, uid := 7 })], .drain]).log) with
      | some rep => rep.exit.isSome | none => false) = true ∧
    (replayTicks C13.cfg3 C13.pol0 initState 7 (fun _ => 7)
        (persistedTicks (C13.live C13.cfg3 C13.pol0 0 C13.startEv none C13.acts3a).log ++
          persistedTicks (Runner.run C13.cfg3 C13.pol0 C13.R1 C13.acts3b).log)).isNone = true := by
  decide

/-! ## the other ways `_on_server_start` can go: nobody overlooked, no state, legacy context -/

/-- **C13 (selection is complete)**: the converse of `C13_start_picks`: every row that is `running`, of
a registered workflow, not idle, with a run id whose run is not active when the server starts has its
run restarted — by this row or by an earlier row of the same run; with `C13_restart_at_most_once`:
exactly once when the restart resumes it. -/
theorem C13_start_picks_complete (registered : List Nat) (resumes : Nat → Bool) (hs : List HandlerRow) (active : List Nat)
    (h : HandlerRow) (r : Nat) (hm : h ∈ hs) (hst : h.status = .running) (hwf : registered.contains h.wf = true)
    (hidle : h.idle = false) (hrun : h.runId = some r) (hact : active.contains r = false) :
    ∃ p ∈ pickHandlers registered resumes active hs, p.2 = .restart r := by
  have hwf' : h.wf ∈ registered := by simpa using hwf
  have hq : startQuery registered h = true := by simp [startQuery, hst, hwf', hidle]
  exact c13_pick_complete registered resumes r hs active h hm hq hrun hact

/-- non-vacuity: in the table of the selection example, run 5 is restarted although its second row is not -/
example : ∃ p ∈ pickHandlers [1] (fun r => r == 5) []
      [{ hid := 1, wf := 1, status := .running, runId := some 5, idle := false },
       { hid := 5, wf := 1, status := .running, runId := some 5, idle := false }], p.2 = .restart 5 :=
  C13_start_picks_complete [1] _ _ [] { hid := 5, wf := 1, status := .running, runId := some 5, idle := false } 5
    (by simp) rfl (by decide) rfl rfl (by decide)

/-- **C13 (nothing persisted)**: a selected handler with no persisted tick and no legacy context is
marked failed ("crashed before persisting any state; cannot resume") and nothing is started — and that
is the only way to get this verdict: with at least one persisted tick, or a legacy context, the
restart never reports "no state". -/
theorem C13_no_state_marked_failed (cfg : Cfg) (pol : Policy) (now0 : Int) (clk : Nat → Int) (nowR : Int)
    (mkStart : Option Ev) (timeout : Option Nat) :
    restartRun cfg pol none [] now0 clk nowR mkStart timeout = .markFailed .noState ∧
    ∀ (legacy : Option State) (ticks : List Tick),
      restartRun cfg pol legacy ticks now0 clk nowR mkStart timeout = .markFailed .noState → ticks = [] ∧ legacy = none := by
  refine ⟨rfl, ?_⟩
  intro legacy ticks h
  cases ticks with
  | nil =>
    cases legacy with
    | none => exact ⟨rfl, rfl⟩
    | some s =>
      simp only [restartRun, contextFromTicks] at h
      split at h
      · cases h
      · split at h
        · cases h
        · split at h <;> cases h
  | cons t ts =>
    simp only [restartRun, contextFromTicks] at h
    split at h
    · rename_i hc
      split at hc <;> cases hc
    · cases h
    · split at h
      · cases h
      · split at h
        · cases h
        · split at h <;> cases h

/-- **C13 (legacy context, no ticks yet)**: a run that has only a legacy serialised context (written
by an older server; `BrokerState.from_serialized`) and is running is resumed from it, not failed and
not started afresh, and the resumed runner keeps all of that state (`StateKept`). -/
theorem C13_legacy_ctx_resumed (cfg : Cfg) (hwf : cfg.WF) (pol : Policy) (s : State) (hrun : s.isRunning = true)
    (now0 : Int) (clk : Nat → Int) (nowR : Int) (mkStart : Option Ev) (timeout : Option Nat) :
    restartRun cfg pol (some s) [] now0 clk nowR mkStart timeout = .resume (Runner.init cfg (roundtrip cfg s) nowR none timeout) ∧
    C13.StateKept cfg s (Runner.init cfg (roundtrip cfg s) nowR none timeout) := by
  have hS : (roundtrip cfg s).isRunning = true := by simpa [roundtrip, deser, ser] using hrun
  refine ⟨?_, C13.stateKept_of_shape cfg hwf s nowR timeout _ (init_resumed cfg _ nowR timeout)⟩
  simp only [restartRun, contextFromTicks, Option.bind_none, hS, if_true]

/-- non-vacuity: the state of the fan-out run stopped mid-way, handed over as a legacy context -/
example :
    (C13.live C13.cfg2 C13.pol0 0 C13.startEv none C13.actsQ).st.isRunning = true ∧
    (match restartRun C13.cfg2 C13.pol0 (some (C13.live C13.cfg2 C13.pol0 0 C13.startEv none C13.actsQ).st) [] 7 (fun _ => 7) 9 none none with
      | .resume R => (R.running.map (·.ev.uid), (R.st.workers 2).queue.map (·.ev.uid))
      | _ => ([], [])) = ([10], [9]) := by
  decide

/-! ## writing the log: the `ticks` table is the append log -/

/-- **C13 (the stored log is what was appended)**: for every history of `append_tick(run, data)` calls,
runs interleaved in any way, on an empty sqlite store (`COALESCE(MAX(sequence) of the run, c) + i` with
the `c`, `i` of the current source) and on an empty memory store (`existing[-1].sequence + i if existing
else f`): each run's rows carry exactly the data appended for it, in call order, under the sequences
`0, 1, …, n-1`; `ORDER BY sequence` is insertion order, so `get_ticks` of both stores is that log and the
two stores agree row by row; and the sequence column meets the hypothesis of `C13_stream_ticks_complete`,
so the paginated `stream_ticks` yields every one of them once, in order. -/
theorem C13_tick_table_is_the_append_log (h : List (Nat × Nat)) (run : Nat) :
    let ts := TickTable.sqlRun GenReplay.sqlAppendCoalesce GenReplay.sqlAppendInc [] h
    let tm := TickTable.memRun GenReplay.memAppendFirst GenReplay.memAppendInc [] h
    (TickTable.sqlGetTicks ts run).map (·.data) = TickTable.appended h run ∧
    (TickTable.memGetTicks tm run).map (·.data) = TickTable.appended h run ∧
    (TickTable.sqlGetTicks ts run).map (·.seq) = List.range (TickTable.appended h run).length ∧
    TickTable.sqlGetTicks ts run = TickTable.memGetTicks tm run ∧
    TickStream.streamTicks GenReplay.tickPageSize ((TickTable.sqlGetTicks ts run).map (·.seq)) =
      (TickTable.sqlGetTicks ts run).map (·.seq) := by
  intro ts tm
  have hc : GenReplay.sqlAppendCoalesce = -1 := by decide
  have hi : GenReplay.sqlAppendInc = 1 := by decide
  have hf : GenReplay.memAppendFirst = 0 := by decide
  have hm : GenReplay.memAppendInc = 1 := by decide
  have es := TickTable.table_is_log (TickTable.sqlNextSeq (-1) 1) TickTable.sqlNextSeq_inv h run
  have em := TickTable.table_is_log (TickTable.memNextSeq 0 1) TickTable.memNextSeq_inv h run
  have hts : ts = TickTable.runWith (TickTable.sqlNextSeq (-1) 1) [] h := by
    show TickTable.sqlRun _ _ [] h = _; rw [hc, hi]; rfl
  have htm : tm = TickTable.runWith (TickTable.memNextSeq 0 1) [] h := by
    show TickTable.memRun _ _ [] h = _; rw [hf, hm]; rfl
  have hrows : ∀ (x y : List TickTable.Row), x.map (·.data) = y.map (·.data) → x.map (·.seq) = y.map (·.seq) →
      x.map (·.run) = y.map (·.run) → x = y := by
    intro x
    induction x with
    | nil => intro y h1 _ _; cases y with | nil => rfl | cons _ _ => simp at h1
    | cons a x ih =>
      intro y h1 h2 h3
      cases y with
      | nil => simp at h1
      | cons b y =>
        simp only [List.map_cons, List.cons.injEq] at h1 h2 h3
        have : a = b := by
          cases a; cases b; simp only at h1 h2 h3; simp [h1.1, h2.1, h3.1]
        rw [this, ih y h1.2 h2.2 h3.2]
  have hruncol : ∀ t : TickTable.Table, (TickTable.ofRun t run).map (·.run) = List.replicate (TickTable.ofRun t run).length run := by
    intro t
    apply List.eq_replicate_iff.mpr
    refine ⟨by simp, ?_⟩
    intro b hb
    simp only [List.mem_map] at hb
    obtain ⟨row, hrow, rfl⟩ := hb
    simp only [TickTable.ofRun, List.mem_filter, beq_iff_eq] at hrow
    exact hrow.2
  unfold TickTable.sqlGetTicks TickTable.memGetTicks
  rw [hts, htm, es.2.2]
  have hlen : (TickTable.ofRun (TickTable.runWith (TickTable.sqlNextSeq (-1) 1) [] h) run).length =
      (TickTable.ofRun (TickTable.runWith (TickTable.memNextSeq 0 1) [] h) run).length := by
    have a := congrArg List.length es.1
    have b := congrArg List.length em.1
    simp only [List.length_map] at a b
    omega
  refine ⟨es.1, em.1, es.2.1, ?_, ?_⟩
  · apply hrows _ _ (es.1.trans em.1.symm) (es.2.1.trans em.2.1.symm)
    rw [hruncol, hruncol, hlen]
  · rw [es.2.1]
    exact (C13_stream_ticks_complete _ List.pairwise_lt_range).1

/-- what `WfModel/TickTable.lean` assumes of the two stores, re-extracted on every run: the sqlite
`append_tick` is one `INSERT … COALESCE((SELECT MAX(sequence) FROM ticks WHERE run_id = ?), -1) + 1` with
the run id bound to the row and to the sub-select; its `get_ticks` is `WHERE run_id = ? ORDER BY sequence`;
the memory store numbers from 0 by `existing[-1].sequence + 1`, appends at the end of the run's own list
and `get_ticks` is that list. -/
theorem C13_tick_append_shape :
    GenReplay.sqlAppendCoalesce = -1 ∧ GenReplay.sqlAppendInc = 1 ∧ GenReplay.sqlAppendMaxIsPerRun = true ∧
    GenReplay.sqlGetTicksOrdered = true ∧ GenReplay.memAppendFirst = 0 ∧ GenReplay.memAppendInc = 1 ∧
    GenReplay.memAppendAtEndOfRunList = true ∧ GenReplay.memGetTicksIsRunList = true := by
  decide

/-- non-vacuity: two runs interleaved; run 7 gets 0,1,2 and run 8 gets 0,1 in both stores; a store whose
first sequence were 1 (`COALESCE(…, 0) + 1`) would disagree with the memory store -/
example :
    TickTable.sqlGetTicks (TickTable.sqlRun (-1) 1 [] [(7, 100), (8, 200), (7, 101), (8, 201), (7, 102)]) 7 =
      [⟨7, 0, 100⟩, ⟨7, 1, 101⟩, ⟨7, 2, 102⟩] ∧
    TickTable.memGetTicks (TickTable.memRun 0 1 [] [(7, 100), (8, 200), (7, 101), (8, 201), (7, 102)]) 8 =
      [⟨8, 0, 200⟩, ⟨8, 1, 201⟩] ∧
    TickTable.sqlGetTicks (TickTable.sqlRun 0 1 [] [(7, 100), (7, 101)]) 7 = [⟨7, 1, 100⟩, ⟨7, 2, 101⟩] := by
  decide
