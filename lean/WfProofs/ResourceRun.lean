import WfProofs.ResourceStep
/-!
Every action preserves the solo invariant (`inv_step`), hence every schedule of the
exclusive configuration, and every serial schedule of the unlocked one.
-/
namespace Resource

theorem inv_log_inert {c : Cfg} {g : Graph} {s : St} {e : Ev} (h : Inv c g s) (he : e.inert)
    (hnm : ∀ t x v, e ≠ .made t x v) : Inv c g { s with log := e :: s.log } := by
  have hlogmono : ∀ e', e' ∈ s.log → e' ∈ e :: s.log := fun e' he' => List.mem_cons_of_mem _ he'
  refine { toLogInv := h.toLogInv.add_inert he rfl rfl rfl, lockOf := h.lockOf, serial := h.serial, idle := h.idle,
           inactive := h.inactive, unstarted := h.unstarted, act := ?_, madeN0 := ?_, finOk := ?_ }
  · intro t k hk ha
    exact (h.act t k hk ha).mono hlogmono (fun x => countMadeBy_cons_other hnm t x) rfl rfl rfl rfl
  · intro t hu x
    rw [countMadeBy_cons_other hnm]; exact h.madeN0 t hu x
  · intro t k o hk hd; exact (h.finOk t k o hk hd).mono hlogmono

theorem inv_raise {c : Cfg} {g : Graph} {s : St} {t : Nat} {k : Task} {o : Outcome} (h : Inv c g s)
    (hk : s.tasks[t]? = some k) (ha : k.phase = .active) (ho : OutcomeOk g s t k.reqs o) :
    Inv c g (raise c s t k o) := inv_finish h hk ha ho

theorem inv_enterGet {c : Cfg} {g : Graph} {s : St} {t : Nat} {k : Task} {x : Nat} (h : Inv c g s)
    (hk : s.tasks[t]? = some k) (ha : k.phase = .active) (hcaller : CallerOk k.todo k.stack x) :
    Inv c g (enterGet c g s t k x) := by
  have A := h.act t k hk ha
  unfold enterGet
  split
  · rename_i hg
    exact inv_raise h hk ha (by simpa [OutcomeOk] using hg)
  · rename_i r hr
    split
    · rename_i hx
      exact inv_raise h hk ha (cycle_outcome A hcaller hx)
    · rename_i hx
      split
      · rename_i v hv
        have hc : r.cached = true := by
          cases hrc : r.cached with
          | true => rfl
          | false => simp [hrc] at hv
        simp only [hc, ↓reduceIte] at hv
        obtain ⟨hcx, t0, h0⟩ := h.resOk x v (mem_of_lookup hv)
        exact inv_deliver h hk ha hcaller (by simp only [hcx, ↓reduceIte]; exact ⟨t0, h0⟩)
      · rename_i hv
        split
        · rename_i v hsv
          exact inv_deliver h hk ha hcaller (A.scOk x v (mem_of_lookup hsv))
        · rename_i hsv
          refine inv_push h hk ha hcaller hr hx (lookup_none_not_mem hsv) ?_
          intro hc
          simp only [hc, ↓reduceIte] at hv
          exact lookup_none_not_mem hv

theorem inv_complete {c : Cfg} {g : Graph} {s : St} {t : Nat} {k : Task} {f f0 : Frame} {fs : List Frame} {obj : Nat}
    (h : Inv c g s) (hk : s.tasks[t]? = some k) (ha : k.phase = .active) (hst : k.stack = f0 :: fs)
    (hfr : f.rid = f0.rid) (hrem : f0.rem = []) (hcall : Ev.call t f0.rid obj f0.args ∈ s.log) :
    Inv c g (complete c g s t k f fs obj) := by
  unfold complete
  rw [hfr]
  split
  · rename_i hg
    exact inv_raise h hk ha (by simpa [OutcomeOk] using hg)
  · rename_i r hr
    split
    · rename_i hf
      have h1 : Inv c g { s with log := .raised t f0.rid obj :: s.log } :=
        inv_log_inert h trivial (by intros; simp)
      exact inv_raise h1 hk ha ⟨r, hr, hf⟩
    · exact inv_complete_ok h hk ha hst hrem hcall hr

theorem inv_callFactory {c : Cfg} {g : Graph} {s : St} {t : Nat} {k : Task} {f : Frame} {fs : List Frame}
    (h : Inv c g s) (hk : s.tasks[t]? = some k) (ha : k.phase = .active) (hst : k.stack = f :: fs)
    (hrem : f.rem = []) : Inv c g (callFactory c g s t k f fs) := by
  unfold callFactory
  have h1 := inv_call h hk ha hst hrem
  have hcall : Ev.call t f.rid s.nextObj f.args ∈
      ({ s with nextObj := s.nextObj + 1, log := .call t f.rid s.nextObj f.args :: s.log } : St).log := by simp
  simp only
  split
  · rename_i hg
    exact inv_raise h hk ha (by simpa [OutcomeOk] using hg)
  · rename_i r hr
    split
    · exact (inv_suspend h1 hk ha hst hrem hcall).set_cur none
    · exact inv_complete h1 hk ha hst rfl hrem hcall

theorem no_active_of_unstarted {c : Cfg} {g : Graph} {s : St} {t : Nat} {k : Task} (h : Inv c g s)
    (hk : s.tasks[t]? = some k) (hu : k.unstarted) (hl : c.excl = true → s.lock = none ∨ s.lock = some t) :
    ∀ (j : Nat) (kj : Task), s.tasks[j]? = some kj → kj.phase ≠ .active := by
  intro j kj hj haj
  have hkna : k.phase ≠ .active := by rcases hu with hu | hu <;> simp [hu]
  cases he : c.excl with
  | true =>
    have hlj := h.lockOf he j kj hj haj
    rcases hl he with hl | hl
    · rw [hl] at hlj; cases hlj
    · rw [hl] at hlj; cases hlj; rw [hk] at hj; cases hj; exact hkna haj
  | false =>
    have hkd : ¬ k.isDone := by rintro ⟨o, ho⟩; rcases hu with hu | hu <;> simp [ho] at hu
    have hjd : ¬ kj.isDone := by rintro ⟨o, ho⟩; simp [ho] at haj
    have := h.serial he j t kj k hj hk hjd hkd
    subst this; rw [hk] at hj; cases hj; exact hkna haj

/-- `CancelledError` reaches an invocation queued on the scope lock: it never entered a
scope, so nothing of the manager's bookkeeping is its own. -/
theorem inv_cancelWait {c : Cfg} {g : Graph} {s : St} {t : Nat} {k : Task} (h : Inv c g s)
    (hk : s.tasks[t]? = some k) (hph : k.phase = .lockWait) : Inv c g (cancelWait s t k) := by
  have hu : k.unstarted := Or.inr hph
  have hna : k.phase ≠ .active := by simp [hph]
  have hnd : ¬ k.isDone := by rintro ⟨o, ho⟩; simp [ho] at hph
  have hcore : ∀ (w : List Nat), Inv c g { s with
      tasks := s.tasks.set t { k with phase := .done .cancelled, stack := [], todo := [] },
      log := .fin t .cancelled :: s.log, waiters := w, cur := none } := by
    intro w
    refine Inv.update_inactive (k' := { k with phase := .done .cancelled, stack := [], todo := [] }) h hk hna hnd
      rfl (by simp) rfl rfl rfl rfl rfl (fun e he => List.mem_cons_of_mem _ he) ?_ ?_ rfl ?_ ?_
    · exact h.toLogInv.add_inert (e := .fin t .cancelled) trivial rfl rfl rfl
    · intro t' x; exact countMadeBy_cons_other (by intros; simp) t' x
    · intro hu'; rcases hu' with hu' | hu' <;> simp at hu'
    · intro o ho; simp at ho; subst ho; simp [OutcomeOk]
  unfold cancelWait
  simp only
  split
  · rename_i hlock
    have hno := no_active_of_unstarted h hk hu (fun _ => Or.inr hlock)
    have hno' : ∀ (j : Nat) (kj : Task),
        (s.tasks.set t { k with phase := .done .cancelled, stack := [], todo := [] })[j]? = some kj →
        kj.phase ≠ .active := by
      intro j kj hj
      rw [getElem?_set_tasks hk] at hj
      by_cases hjt : j = t
      · simp [hjt] at hj; subst hj; simp
      · simp [hjt] at hj; exact hno j kj hj
    split
    · exact (hcore s.waiters).set_lock_idle hno' none [] none
    · rename_i w ws _
      exact (hcore s.waiters).set_lock_idle hno' (some w) ws none
  · exact hcore (s.waiters.erase t)

theorem inv_tickTask {c : Cfg} {g : Graph} {s : St} {t : Nat} {k : Task} (h : Inv c g s)
    (hk : s.tasks[t]? = some k) : Inv c g (tickTask c g s t k) := by
  unfold tickTask
  split
  · -- fresh
    rename_i hph
    have hu : k.unstarted := Or.inl hph
    have hna : k.phase ≠ .active := by simp [hph]
    have hnd : ¬ k.isDone := by rintro ⟨o, ho⟩; simp [ho] at hph
    split
    · -- a step without resources enters no scope
      rename_i hskip
      have hreqs : k.reqs = [] := by simp at hskip; exact hskip.2
      refine (Inv.update_inactive (s' := { setTask s t { k with phase := .done (.ok []) } with
          cur := none, log := .fin t (.ok []) :: s.log }) h hk hna hnd rfl (by simp) rfl rfl rfl rfl rfl
          (fun e he => List.mem_cons_of_mem _ he) ?_ ?_ (h.inactive t k hk hna) ?_ ?_)
      · exact h.toLogInv.add_inert (e := .fin t (.ok [])) trivial rfl rfl rfl
      · intro t' x; exact countMadeBy_cons_other (by intros; simp) t' x
      · intro hu'; rcases hu' with hu' | hu' <;> simp at hu'
      · intro o ho; simp at ho; subst ho; simp [OutcomeOk, hreqs, Paired]
    · split
      · rename_i hex
        split
        · rename_i hlock
          have hno := no_active_of_unstarted h hk hu (fun _ => Or.inl hlock)
          have h1 : Inv c g { s with lock := some t } := h.set_lock_idle hno (some t) s.waiters s.cur
          exact inv_start h1 hno hk hu (fun _ => rfl)
        · refine (Inv.update_inactive (s' := { setTask s t { k with phase := .lockWait } with
            waiters := s.waiters ++ [t], cur := none }) h hk hna hnd rfl (by simp) rfl rfl rfl rfl rfl
            (fun e he => he) ?_ (fun _ _ => rfl) (h.inactive t k hk hna) ?_ ?_)
          · exact { resOk := h.resOk, delivC := h.delivC, delivN := h.delivN, madeA := h.madeA, madeC := h.madeC,
                    madeN := h.madeN, madeCall := h.madeCall, callLt := h.callLt, callInj := h.callInj,
                    callArgs := h.callArgs }
          · intro _; exact ⟨hu, h.unstarted t k hk hu⟩
          · intro o ho; simp at ho
      · rename_i hex
        have hex' : c.excl = false := by simpa using hex
        have hno := no_active_of_unstarted h hk hu (fun he => by rw [hex'] at he; cases he)
        exact inv_start h hno hk hu (fun he => by rw [hex'] at he; cases he)
  · -- lockWait
    rename_i hph
    have hu : k.unstarted := Or.inr hph
    split
    · rename_i hlock
      have hno := no_active_of_unstarted h hk hu (fun _ => Or.inr hlock)
      exact inv_start h hno hk hu (fun _ => hlock)
    · exact h.set_cur none
  · exact h.set_cur none
  · -- active
    rename_i hph
    have A := h.act t k hk hph
    split
    · rename_i hst
      split
      · rename_i htodo
        have : finish c s t k (.ok k.got) = finish c { s with resolving := unwind s.resolving k.stack } t k (.ok k.got) := by
          rw [hst]; rfl
        rw [this]
        refine inv_finish h hk hph ?_
        obtain ⟨pre, hpre, hpair⟩ := A.prog
        rw [htodo, List.append_nil] at hpre
        simpa [OutcomeOk, hpre] using hpair
      · rename_i x rest htodo
        exact inv_enterGet h hk hph (by rw [hst, htodo]; simp [CallerOk])
    · rename_i f fs hst
      split
      · exact h.set_cur none
      · rename_i hw
        split
        · rename_i d rest hrem
          exact inv_enterGet h hk hph (by rw [hst]; simp [CallerOk, hrem, hw])
        · rename_i hrem
          exact inv_callFactory h hk hph hst hrem

/-- all invocations so far have finished -/
def allDone (s : St) : Bool :=
  s.tasks.all fun k => match k.phase with
    | .done _ => true
    | _ => false

/-- the action does not start an invocation while another one is unfinished -/
def serialAct (s : St) : Act → Bool
  | .spawn _ _ => allDone s
  | _ => true

theorem allDone_spec {s : St} (h : allDone s = true) (j : Nat) (kj : Task) (hj : s.tasks[j]? = some kj) : kj.isDone := by
  have hm : kj ∈ s.tasks := List.mem_of_getElem? hj
  have := List.all_eq_true.mp h kj hm
  cases hp : kj.phase <;> simp [hp] at this
  exact ⟨_, hp⟩

theorem inv_step {c : Cfg} {g : Graph} {s : St} (a : Act) (h : Inv c g s)
    (hguard : c.excl = false → serialAct s a = true) : Inv c g (stepD c g s a) := by
  unfold stepD step
  cases a with
  | spawn reqs bare =>
    simp only
    split
    · exact h
    · simp only [Option.getD_some]
      exact inv_spawn h reqs bare (fun he => allDone_spec (hguard he)) _
  | tick =>
    simp only
    split
    · exact h
    · split
      · exact h.set_cur none
      · rename_i t _ k hk
        exact inv_tickTask h hk
  | resume t =>
    simp only
    split
    · exact h
    · split
      · exact h
      · rename_i k hk
        split
        · rename_i f fs hph hst
          split
          · rename_i obj hw
            simp only [Option.getD_some]
            have A := h.act t k hk hph
            have hfr := A.frames
            rw [hst] at hfr
            obtain ⟨⟨r, pre, hr, hd, hp, h1, h2, h3⟩, _, _⟩ := hfr
            obtain ⟨hrem, hcall⟩ := h3 obj hw
            exact inv_complete (h.set_cur (some t)) hk hph hst rfl hrem hcall
          · exact h
        · split
          · simp only [Option.getD_some]; exact h.set_cur (some t)
          · exact h
        · exact h
  | cancel t =>
    simp only
    split
    · exact h
    · split
      · exact h
      · rename_i k hk
        split
        · rename_i f fs hph hst
          split
          · simp only [Option.getD_some]
            exact inv_raise h hk hph (by simp [OutcomeOk])
          · exact h
        · rename_i hph
          simp only [Option.getD_some]
          exact inv_cancelWait h hk hph
        · exact h

/-- the schedule never starts an invocation while another one is unfinished -/
def serialFrom (c : Cfg) (g : Graph) : St → List Act → Bool
  | _, [] => true
  | s, a :: as => serialAct s a && serialFrom c g (stepD c g s a) as

theorem inv_foldl {c : Cfg} {g : Graph} : ∀ (acts : List Act) (s : St), Inv c g s →
    (c.excl = false → serialFrom c g s acts = true) → Inv c g (acts.foldl (stepD c g) s)
  | [], _, h, _ => h
  | a :: as, s, h, hs => by
    simp only [List.foldl_cons]
    refine inv_foldl as _ (inv_step a h ?_) ?_
    · intro he; have := hs he; simp [serialFrom] at this; exact this.1
    · intro he; have := hs he; simp [serialFrom] at this; exact this.2

/-- exclusive scopes: the invariant holds after every schedule -/
theorem inv_run_excl (c : Cfg) (hc : c.excl = true) (g : Graph) (acts : List Act) : Inv c g (run c g acts) :=
  inv_foldl acts _ (inv_init c g) (fun he => by rw [hc] at he; cases he)

/-- unlocked scopes: the invariant holds after every serial schedule -/
theorem inv_run_serial (c : Cfg) (g : Graph) (acts : List Act) (hs : serialFrom c g St.init acts = true) :
    Inv c g (run c g acts) :=
  inv_foldl acts _ (inv_init c g) (fun _ => hs)

end Resource
