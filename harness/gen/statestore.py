"""Constants and locking/copying shape of the state stores -> lean/WfModel/GenStateStore.lean.

Re-read from /repo's current sources on every run:

* `MAX_DEPTH` of workflows/context/state_store.py (the path walkers compute with it);
* which methods of `InMemoryStateStore` and `SqliteStateStore` run under `self._lock`
  (directly, or through a `self.<method>` they call) -- the C20 transition system takes
  its lock discipline from these flags, so `C20_serialisable_*` only checks while every
  writer still takes the lock;
* whether `edit_state` is `lock { load; yield; save }`;
* whether the lock is scoped: every mention of `self._lock` inside the class is the context
  expression of an `async with` (no bare `.acquire()` / `.release()` / `.locked()`, no alias) --
  the C20 cancellation theorems rest on it: a waiter cancelled while queued then leaves the lock
  alone;
* whether the store modules are free of per-task / per-context state (no `contextvars`, `threading`,
  `current_task`, `get_ident`): the C20 model treats a task created inside an open `edit_state` block
  (which inherits a copy of its creator's context) like any other task;
* whether the store modules are free of timers (no `asyncio.wait_for` / `timeout` / `timeout_at` / `sleep` / `wait`,
  no `call_later` / `call_at`): in the C20 model a task queued on the store lock waits for as long as it takes and
  no transition of a store depends on the clock, so the time an `edit_state` block stays open cannot matter;
* whether `SqliteStateStore.set_state` applies `merge_state` also when no row exists;
* whether a shallow copy of a `DictLikeModel` owns its `_data`, and whether the path
  step helpers address a `DictLikeModel` by name before trying an integer index.

A shape that is not found yields `false` / 0 and a note; the dependent theorem then
fails to compile and names what drifted.
"""
from __future__ import annotations

import ast

from ..boot import repo_path

LEAN_MODULE = "GenStateStore"
CORE = "packages/llama-index-workflows/src/workflows/context/state_store.py"
EVENTS = "packages/llama-index-workflows/src/workflows/events.py"
SQLITE = "packages/llama-agents-server/src/llama_agents/server/_store/sqlite/sqlite_state_store.py"


def _parse(rel: str, notes: list[str]) -> ast.Module | None:
    try:
        return ast.parse(open(repo_path(rel)).read())
    except (OSError, SyntaxError) as e:
        notes.append(f"gen/statestore: cannot parse {rel}: {e!r}")
        return None


def _class(tree: ast.AST | None, name: str) -> ast.ClassDef | None:
    if tree is None:
        return None
    for n in ast.walk(tree):
        if isinstance(n, ast.ClassDef) and n.name == name:
            return n
    return None


def _methods(cls: ast.ClassDef | None) -> dict[str, ast.AST]:
    if cls is None:
        return {}
    return {f.name: f for f in cls.body if isinstance(f, (ast.FunctionDef, ast.AsyncFunctionDef))}


def _is_self_lock(e: ast.AST) -> bool:
    return isinstance(e, ast.Attribute) and e.attr == "_lock" and isinstance(e.value, ast.Name) and e.value.id == "self"


def _self_calls(fn: ast.AST) -> set[str]:
    out = set()
    for n in ast.walk(fn):
        if isinstance(n, ast.Call) and isinstance(n.func, ast.Attribute) and isinstance(n.func.value, ast.Name) \
                and n.func.value.id == "self":
            out.add(n.func.attr)
    return out


def _lock_withs(fn: ast.AST) -> list[ast.AsyncWith]:
    return [n for n in ast.walk(fn) if isinstance(n, ast.AsyncWith) and any(_is_self_lock(i.context_expr) for i in n.items)]


def _covered_by_lock(fn: ast.AST, pred) -> bool:
    """every node satisfying `pred` inside fn sits inside an `async with self._lock`"""
    inside = set()
    for w in _lock_withs(fn):
        for b in w.body:
            for n in ast.walk(b):
                inside.add(id(n))
    hits = [n for n in ast.walk(fn) if pred(n)]
    return bool(hits) and all(id(n) in inside for n in hits)


def _writes_state(n: ast.AST) -> bool:
    # in-memory: assignment to self._state, or a call of set_by_path / merge_state
    if isinstance(n, ast.Assign):
        for t in n.targets:
            if isinstance(t, ast.Attribute) and t.attr == "_state":
                return True
    if isinstance(n, ast.Call):
        f = n.func
        name = f.id if isinstance(f, ast.Name) else (f.attr if isinstance(f, ast.Attribute) else "")
        if name in ("set_by_path", "_save_state", "_set_state_locked"):
            return True
    return False


def _locked(methods: dict[str, ast.AST], name: str, depth: int = 0) -> bool:
    """does `name` perform all its state writes under self._lock (directly, via
    `async with self.edit_state()`, or by only delegating to a locked self-method)?"""
    fn = methods.get(name)
    if fn is None or depth > 3:
        return False
    # writes done directly in this method
    direct = [n for n in ast.walk(fn) if _writes_state(n)]
    if direct:
        if _covered_by_lock(fn, _writes_state):
            return True
        # `async with self.edit_state() as state: set_by_path(state, ...)`
        for w in (n for n in ast.walk(fn) if isinstance(n, ast.AsyncWith)):
            for i in w.items:
                c = i.context_expr
                if isinstance(c, ast.Call) and isinstance(c.func, ast.Attribute) and c.func.attr == "edit_state":
                    inside = {id(x) for b in w.body for x in ast.walk(b)}
                    if all(id(n) in inside for n in direct):
                        return _locked(methods, "edit_state", depth + 1)
        return False
    # pure delegation
    for callee in ("set_state", "edit_state", "_set_state_locked"):
        if callee in _self_calls(fn) and callee != name:
            return _locked(methods, callee, depth + 1)
    return False


def _edit_shape(fn: ast.AST | None) -> bool:
    """`async with self._lock:` whose body is  <assign from load/_state> ; yield ; <write back>"""
    if fn is None:
        return False
    ws = _lock_withs(fn)
    if len(ws) != 1:
        return False
    body = ws[0].body
    kinds = []
    for st in body:
        if any(isinstance(x, (ast.Yield, ast.YieldFrom)) for x in ast.walk(st)):
            kinds.append("yield")
        elif any(_writes_state(x) for x in ast.walk(st)) and "yield" in kinds:
            kinds.append("save")
        elif isinstance(st, ast.Assign) and "yield" not in kinds:
            kinds.append("load")
        else:
            kinds.append("other")
    return kinds == ["load", "yield", "save"]


def _lock_scoped(cls: ast.ClassDef | None) -> bool:
    """at least one `async with self._lock`, and `self._lock` is mentioned nowhere else in the class"""
    if cls is None:
        return False
    as_ctx = set()
    for n in ast.walk(cls):
        if isinstance(n, ast.AsyncWith):
            for i in n.items:
                if _is_self_lock(i.context_expr) and i.optional_vars is None:
                    as_ctx.add(id(i.context_expr))
    mentions = [n for n in ast.walk(cls) if _is_self_lock(n)]
    # any other handle on the lock: getattr(self, "_lock"), self.__dict__["_lock"], vars(self)
    indirect = [n for n in ast.walk(cls) if isinstance(n, ast.Constant) and n.value == "_lock"]
    return bool(as_ctx) and all(id(n) in as_ctx for n in mentions) and not indirect


_CONTEXT_NAMES = {"contextvars", "ContextVar", "copy_context", "threading", "current_task", "get_ident", "_thread"}


def _context_free(tree: ast.Module | None) -> bool:
    """nothing in the module can tell one task / context / thread from another"""
    if tree is None:
        return False
    for n in ast.walk(tree):
        if isinstance(n, ast.Import) and any(a.name.split(".")[0] in _CONTEXT_NAMES for a in n.names):
            return False
        if isinstance(n, ast.ImportFrom) and ((n.module or "").split(".")[0] in _CONTEXT_NAMES
                                              or any(a.name in _CONTEXT_NAMES for a in n.names)):
            return False
        if isinstance(n, ast.Name) and n.id in _CONTEXT_NAMES:
            return False
        if isinstance(n, ast.Attribute) and n.attr in _CONTEXT_NAMES:
            return False
    return True


_TIMER_NAMES = {"wait_for", "timeout", "timeout_at", "sleep", "call_later", "call_at", "wait", "Timeout", "TimerHandle"}


def _timer_free(tree: ast.Module | None) -> bool:
    """nothing in the module can bound a wait or read the loop's clock: no name / attribute / import of an asyncio
    timer primitive (a keyword argument called `timeout`, as in `sqlite3.connect(..., timeout=30.0)`, is neither)"""
    if tree is None:
        return False
    for n in ast.walk(tree):
        if isinstance(n, (ast.Import, ast.ImportFrom)) and any((a.asname or a.name).split(".")[-1] in _TIMER_NAMES
                                                                or a.name.split(".")[-1] in _TIMER_NAMES for a in n.names):
            return False
        if isinstance(n, ast.Name) and n.id in _TIMER_NAMES:
            return False
        if isinstance(n, ast.Attribute) and n.attr in _TIMER_NAMES:
            return False
    return True


def _row_none_merges(methods: dict[str, ast.AST]) -> bool:
    """the method holding the `row is None` test of set_state does not return early from that branch
    and calls merge_state after it"""
    for name in ("set_state", "_set_state_locked"):
        fn = methods.get(name)
        if fn is None:
            continue
        for n in ast.walk(fn):
            if isinstance(n, ast.If) and isinstance(n.test, ast.Compare) and isinstance(n.test.left, ast.Name) \
                    and n.test.left.id == "row" and any(isinstance(o, ast.Is) for o in n.test.ops):
                returns = any(isinstance(x, ast.Return) for b in n.body for x in ast.walk(b))
                saves_raw = any(isinstance(x, ast.Call) and isinstance(x.func, ast.Attribute) and x.func.attr == "_save_state"
                                for b in n.body for x in ast.walk(b))
                merges = any(isinstance(x, ast.Call) and isinstance(x.func, ast.Name) and x.func.id == "merge_state"
                             for x in ast.walk(fn))
                return merges and not returns and not saves_raw
    return False


def _mentions_dictlike(test: ast.AST) -> bool:
    return any(isinstance(x, ast.Name) and x.id == "DictLikeModel" for x in ast.walk(test))


def _by_name_first(fn: ast.AST | None) -> bool:
    """an `if isinstance(obj, DictLikeModel...)` statement precedes the `try: int(segment)` block"""
    if fn is None:
        return False
    seen = False
    for st in fn.body:  # type: ignore[attr-defined]
        if isinstance(st, ast.If) and _mentions_dictlike(st.test):
            seen = True
        if isinstance(st, ast.Try):
            return seen
    return False


def extract(notes: list[str]) -> dict:
    core = _parse(CORE, notes)
    ev = _parse(EVENTS, notes)
    sq = _parse(SQLITE, notes)
    r: dict = {}
    md = 0
    if core is not None:
        for n in core.body:
            if isinstance(n, ast.Assign) and len(n.targets) == 1 and isinstance(n.targets[0], ast.Name) \
                    and n.targets[0].id == "MAX_DEPTH" and isinstance(n.value, ast.Constant) and isinstance(n.value.value, int):
                md = n.value.value
    if md <= 0:
        notes.append("gen/statestore: MAX_DEPTH not found")
    r["maxDepth"] = max(md, 0)
    mem = _methods(_class(core, "InMemoryStateStore"))
    sql = _methods(_class(sq, "SqliteStateStore"))
    if not mem:
        notes.append("gen/statestore: InMemoryStateStore not found")
    if not sql:
        notes.append("gen/statestore: SqliteStateStore not found")
    for pfx, ms in (("mem", mem), ("sql", sql)):
        r[pfx + "SetLocked"] = _locked(ms, "set")
        r[pfx + "SetStateLocked"] = _locked(ms, "set_state")
        r[pfx + "ClearLocked"] = _locked(ms, "clear")
        r[pfx + "EditLocked"] = _edit_shape(ms.get("edit_state"))
    r["memLockScoped"] = _lock_scoped(_class(core, "InMemoryStateStore"))
    r["sqlLockScoped"] = _lock_scoped(_class(sq, "SqliteStateStore"))
    for k in ("memLockScoped", "sqlLockScoped"):
        if not r[k]:
            notes.append(f"gen/statestore: {k}: self._lock is used other than as `async with self._lock`")
    r["memContextFree"] = _context_free(core)
    r["sqlContextFree"] = _context_free(sq)
    for k in ("memContextFree", "sqlContextFree"):
        if not r[k]:
            notes.append(f"gen/statestore: {k}: the module refers to contextvars / threading / current_task")
    r["memTimerFree"] = _timer_free(core)
    r["sqlTimerFree"] = _timer_free(sq)
    for k in ("memTimerFree", "sqlTimerFree"):
        if not r[k]:
            notes.append(f"gen/statestore: {k}: the module uses an asyncio timer primitive (wait_for / timeout / sleep / call_later ...)")
    r["sqlRowNoneMerges"] = _row_none_merges(sql)
    dl = _methods(_class(ev, "DictLikeModel"))
    owns = False
    for nm in ("__copy__", "model_copy"):
        fn = dl.get(nm)
        if fn is not None and any(isinstance(x, ast.Attribute) and x.attr == "_data" for x in ast.walk(fn)):
            owns = True
    r["dictLikeCopyOwnsData"] = owns
    funcs = {f.name: f for f in (core.body if core is not None else []) if isinstance(f, ast.FunctionDef)}
    r["dictLikeByName"] = _by_name_first(funcs.get("traverse_path_step")) and _by_name_first(funcs.get("assign_path_step"))
    gs = mem.get("get_state")
    r["memGetStateCopies"] = bool(gs is not None and any(
        isinstance(x, ast.Call) and isinstance(x.func, ast.Attribute) and x.func.attr == "model_copy" for x in ast.walk(gs)))
    return r


def generate(notes: list[str]) -> list[str]:
    r = extract(notes)
    b = lambda v: "true" if v else "false"
    out = ["namespace GenStateStore", f"def maxDepth : Nat := {r['maxDepth']}"]
    for k in ("memSetLocked", "memSetStateLocked", "memClearLocked", "memEditLocked", "sqlSetLocked", "sqlSetStateLocked",
              "sqlClearLocked", "sqlEditLocked", "sqlRowNoneMerges", "dictLikeCopyOwnsData", "dictLikeByName",
              "memGetStateCopies", "memLockScoped", "sqlLockScoped", "memContextFree", "sqlContextFree",
              "memTimerFree", "sqlTimerFree"):
        out.append(f"def {k} : Bool := {b(r[k])}")
    out.append("end GenStateStore")
    return out
