class Request:
    """The attributes the endpoint coroutines read; filled in by the harness."""

    def __init__(self, path_params=None, query_params=None, headers=None, body=b"", method="GET"):
        self.path_params = dict(path_params or {})
        self.query_params = dict(query_params or {})
        # header names are case-insensitive in starlette; the endpoints use lower case
        self.headers = {str(k).lower(): v for k, v in dict(headers or {}).items()}
        self._body = body
        self.method = method

    async def body(self):
        return self._body

    async def json(self):
        import json

        return json.loads(self._body or b"null")
