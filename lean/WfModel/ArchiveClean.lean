import WfModel.GenArchiveClean
/-!
M14, third part — `clean_crd_metadata` / `clean_secret_metadata` / `_clean_metadata` of
`control_plane/backup/archive.py`: what is stripped from a resource before it is archived.

A document is what the function looks at: its top-level keys other than the metadata key, and —
when the metadata key is present — the metadata mapping, split into its annotations (when that key
is present) and its other keys.  Values are opaque (`V`); Python dict order is not observable
through the archive (`yaml.dump` sorts keys), the lists keep the order they are given in.  The keys
(`status`, `metadata`, `annotations`), the allow-lists and the system prefixes are the ones
regenerated from the source (`GenArchiveClean`).

Outside the model: a `metadata` / `annotations` value that is not a mapping (the Kubernetes API
never returns one; the Python code raises `TypeError`/`AttributeError` there).
-/
namespace ArchiveClean
open GenArchiveClean

abbrev Key := List Char

structure Meta (V : Type) where
  /-- `metadata` keys other than the annotations key -/
  fields : List (Key × V)
  /-- `metadata.annotations`, when the key is present -/
  anns : Option (List (Key × V))

structure Doc (V : Type) where
  /-- top-level keys other than the metadata key -/
  top : List (Key × V)
  /-- the metadata mapping, when the key is present -/
  «meta» : Option (Meta V)

/-- `any(key.startswith(p) for p in _SYSTEM_ANNOTATION_PREFIXES)` -/
def isSystem (k : Key) : Bool := sysPrefixes.any fun p => p.isPrefixOf k

def lookup (k : Key) : List (Key × V) → Option V
  | [] => none
  | (k', v) :: rest => if k' = k then some v else lookup k rest

/-- the two loops and the final `pop` of `_clean_metadata`, on the metadata mapping -/
def cleanMeta (keep : List Key) (m : Meta V) : Meta V :=
  -- `for key in list(meta): if key not in keep_keys: del meta[key]`
  let fields := m.fields.filter fun kv => keep.contains kv.1
  let anns0 := if keep.contains annotationsKey then m.anns else none
  -- `annotations = meta.get("annotations", {})`; `for key in list(annotations): if any(...): del annotations[key]`
  let anns1 := anns0.map fun a => a.filter fun kv => !isSystem kv.1
  -- `if not annotations: meta.pop("annotations", None)`
  { fields := fields, anns := match anns1 with | some [] => none | a => a }

/-- `_clean_metadata(doc, keep_keys=keep)` -/
def clean (keep : List Key) (d : Doc V) : Doc V :=
  { top := d.top.filter fun kv => kv.1 != statusKey, «meta» := d.meta.map (cleanMeta keep) }

/-- `clean_crd_metadata` -/
def cleanCrd (d : Doc V) : Doc V := clean crdKeep d
/-- `clean_secret_metadata` -/
def cleanSecret (d : Doc V) : Doc V := clean secretKeep d

/-- `doc.get(<metadata>, {}).get(key)` for a key other than the annotations key -/
def metaField (key : Key) (d : Doc V) : Option V := d.meta.bind fun m => lookup key m.fields

/-- the value `create_backup_archive` names the deployment's members after (`none` ↦ its default) -/
def nameOf (d : Doc V) : Option V := metaField writerNameKey d

end ArchiveClean
