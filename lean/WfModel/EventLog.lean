import WfModel.GenEventLog
/-!
M3 — the per-run stored event log (server side).

Transcribes, for ONE run id (the driver keeps one machine per run id; run isolation
is tied by the correspondence runs):

* `MemoryWorkflowStore.append_event / query_events / subscribe_events`
  (`_store/memory_workflow_store.py`),
* `SqliteWorkflowStore.append_event / query_events / subscribe_events`
  (`_store/sqlite/sqlite_workflow_store.py`),
* `AbstractWorkflowStore._is_terminal_event` and the polling default
  `subscribe_events` (`_store/abstract_workflow_store.py`; = the SQLite machine in
  which no append ever notifies),
* `_WorkflowAPI._stream_events / _resolve_event_stream` (`_api.py`): cursor
  resolution (`after_sequence`, `Last-Event-ID`, `"now"`), the 204/400/404 answers,
  the internal-event filter and the id ↔ sequence mapping of the SSE frames.

`subscribe_events` is an async generator.  Its await-free sections are the atomic
actions of the machine below:

* `init`   first `__anext__`: compute the starting cursor (memory: list index found by
           scanning the current log; SQLite: `cursor = after_sequence`);
* `read`   under the condition lock: (memory) skip events at or below `after_sequence`,
           take `all_events[cursor:]` / (SQLite) `query_events(after_sequence=cursor)`;
           an empty batch registers the waiter (`condition.wait()`) IN THE SAME await-free
           section, a non-empty one is kept as a snapshot;
* `emit`   `yield` the head of the snapshot and advance the cursor (memory `+= 1`,
           SQLite `= event.sequence`); a terminal event ends the generator;
* `wake`   a registered waiter whose future was resolved by `notify_all` re-enters
           the loop; `timeout` is SQLite's `wait_for(..., poll_interval)` expiring;
* `cancel` `aclose()` / task cancellation.

`append` assigns the sequence number the way each store does (memory: last element's
sequence + 1, else 0; SQLite: `COALESCE(MAX(sequence), -1) + 1`) and resolves the
futures of the registered waiters.  `xappend` is a write by another process /
another store object on the same SQLite file: the row appears, nobody is notified.
`trim` is a storage-level deletion of the oldest rows (no code path of the stores does
this; it is in the driver protocol only so that the correspondence runs pin
"last + 1" as opposed to "count").

Schedules are arbitrary `List Act`; a disabled action leaves the state unchanged.
-/
namespace EventLog

/-! ## events -/

structure Ev where
  /-- `StoredEvent.sequence` -/
  seq : Int
  /-- payload identity (the harness numbers the events it publishes) -/
  tag : Nat
  /-- `EventEnvelopeWithMetadata.type` -/
  type : String
  /-- `EventEnvelopeWithMetadata.types or []` -/
  types : List String
deriving DecidableEq, Repr, Inhabited

/-- `(event.event.types or []) + [event.event.type]` -/
def Ev.names (e : Ev) : List String := e.types ++ [e.type]

/-- `AbstractWorkflowStore._is_terminal_event` -/
def Ev.terminal (e : Ev) : Bool := e.names.contains Gen.EventLog.terminalName

/-- `_INTERNAL_EVENT_TYPE in types` in `_resolve_event_stream.event_gen` -/
def Ev.internal (e : Ev) : Bool := e.names.contains Gen.EventLog.internalName

inductive Backend
  | mem
  | sql
deriving DecidableEq, Repr

/-! ## append: the next sequence number -/

/-- SQL `MAX(sequence)`: `none` is NULL (no rows). -/
def maxSeq : List Ev → Option Int
  | [] => none
  | e :: es =>
    match maxSeq es with
    | none => some e.seq
    | some m => some (if e.seq < m then m else e.seq)

def nextSeq : Backend → List Ev → Int
  | .mem, log =>
    match log.getLast? with
    | some e => e.seq + 1
    | none => 0
  | .sql, log =>
    match maxSeq log with
    | some m => m + 1
    | none => -1 + 1

def mkEv (b : Backend) (log : List Ev) (tag : Nat) (type : String) (types : List String) : Ev :=
  { seq := nextSeq b log, tag := tag, type := type, types := types }

/-! ## query_events -/

/-- `[e for e in events if e.sequence > after_sequence]` / `AND sequence > ?` -/
def afterFilter (after : Option Int) (log : List Ev) : List Ev :=
  match after with
  | none => log
  | some k => log.filter fun e => decide (e.seq > k)

/-- Python `events[:limit]` (a negative limit drops from the end). -/
def pySliceTo (l : List Ev) (limit : Int) : List Ev :=
  if limit ≥ 0 then l.take limit.toNat else l.take (l.length - limit.natAbs)

/-- SQLite `LIMIT ?` (a negative limit is no limit). -/
def sqlLimit (l : List Ev) (limit : Int) : List Ev :=
  if limit ≥ 0 then l.take limit.toNat else l

def insertBySeq (e : Ev) : List Ev → List Ev
  | [] => [e]
  | x :: xs => if x.seq ≤ e.seq then x :: insertBySeq e xs else e :: x :: xs

/-- `ORDER BY sequence` (stable insertion sort over the rows in insertion order). -/
def orderBySeq : List Ev → List Ev
  | [] => []
  | e :: es => insertBySeq e (orderBySeq es)

def queryEvents (b : Backend) (log : List Ev) (after : Option Int) (limit : Option Int) : List Ev :=
  match b with
  | .mem =>
    let es := afterFilter after log
    match limit with
    | none => es
    | some n => pySliceTo es n
  | .sql =>
    let es := orderBySeq (afterFilter after log)
    match limit with
    | none => es
    | some n => sqlLimit es n

/-! ## subscribe_events -/

inductive Phase
  /-- the generator object exists, no code has run -/
  | fresh
  /-- at the head of `while True` -/
  | reading
  /-- inside `for event in batch`, about to yield the head of the snapshot -/
  | yielding (batch : List Ev)
  /-- inside `condition.wait()`; `notified` = the waiter's future has been resolved -/
  | waiting (notified : Bool)
  /-- returned after yielding a terminal event -/
  | done
  /-- closed by the consumer -/
  | closed
deriving DecidableEq, Repr

structure Sub where
  /-- the `after_sequence` argument -/
  after : Int
  /-- memory: list index; SQLite: last yielded sequence -/
  cur : Int
  phase : Phase
  /-- history variable: everything yielded so far -/
  out : List Ev
deriving DecidableEq, Repr

def Sub.new (after : Int) : Sub := { after := after, cur := after, phase := .fresh, out := [] }

/-- memory: `for i, e in enumerate(all_events): if e.sequence <= after_sequence: cursor = i + 1` -/
def memScan (after : Int) : List Ev → Nat → Nat → Nat
  | [], _, c => c
  | e :: es, i, c => memScan after es (i + 1) (if e.seq ≤ after then i + 1 else c)

def initCursor : Backend → List Ev → Int → Int
  | .mem, log, after => if after ≥ 0 then (memScan after log 0 0 : Nat) else 0
  | .sql, _, after => after

/-- memory: `while cursor < len(all_events) and all_events[cursor].sequence <= after_sequence: cursor += 1` -/
def memSkip (log : List Ev) (after : Int) (c : Nat) : Nat :=
  c + ((log.drop c).takeWhile fun e => decide (e.seq ≤ after)).length

/-- the cursor after the lock-protected read section -/
def readCursor : Backend → List Ev → Int → Int → Int
  | .mem, log, after, c => (memSkip log after c.toNat : Nat)
  | .sql, _, _, c => c

/-- the batch read at cursor `c` (for memory: `c` after the skip) -/
def readBatch : Backend → List Ev → Int → List Ev
  | .mem, log, c => log.drop c.toNat
  | .sql, log, c => queryEvents .sql log (some c) none

def advance : Backend → Int → Ev → Int
  | .mem, c, _ => c + 1
  | .sql, _, e => e.seq

def Sub.init (b : Backend) (log : List Ev) (s : Sub) : Sub :=
  match s.phase with
  | .fresh => { s with cur := initCursor b log s.after, phase := .reading }
  | _ => s

def Sub.read (b : Backend) (log : List Ev) (s : Sub) : Sub :=
  match s.phase with
  | .reading =>
    let c := readCursor b log s.after s.cur
    match readBatch b log c with
    | [] => { s with cur := c, phase := .waiting false }
    | e :: rest => { s with cur := c, phase := .yielding (e :: rest) }
  | _ => s

def Sub.emit (b : Backend) (s : Sub) : Sub :=
  match s.phase with
  | .yielding (e :: rest) =>
    let s' := { s with cur := advance b s.cur e, out := s.out ++ [e] }
    if e.terminal then { s' with phase := .done }
    else match rest with
      | [] => { s' with phase := .reading }
      | _ :: _ => { s' with phase := .yielding rest }
  | .yielding [] => { s with phase := .reading }
  | _ => s

def Sub.wake (s : Sub) : Sub :=
  match s.phase with
  | .waiting true => { s with phase := .reading }
  | _ => s

def Sub.timeout (b : Backend) (s : Sub) : Sub :=
  match b, s.phase with
  | .sql, .waiting _ => { s with phase := .reading }
  | _, _ => s

def Sub.notify (s : Sub) : Sub :=
  match s.phase with
  | .waiting _ => { s with phase := .waiting true }
  | _ => s

def Sub.cancel (s : Sub) : Sub := { s with phase := .closed }

/-! ## the store machine for one run -/

structure St where
  log : List Ev
  subs : List Sub
deriving Repr

def St.init : St := { log := [], subs := [] }

inductive Act
  | append (tag : Nat) (type : String) (types : List String)
  | xappend (tag : Nat) (type : String) (types : List String)
  | trim (n : Nat)
  | openSub (after : Int)
  | init (i : Nat)
  | read (i : Nat)
  | emit (i : Nat)
  | wake (i : Nat)
  | timeout (i : Nat)
  | cancel (i : Nat)
deriving DecidableEq, Repr

def step (b : Backend) (s : St) : Act → St
  | .append tag type types =>
    { log := s.log ++ [mkEv b s.log tag type types], subs := s.subs.map Sub.notify }
  | .xappend tag type types =>
    match b with
    | .sql => { s with log := s.log ++ [mkEv b s.log tag type types] }
    | .mem => s
  | .trim n => { s with log := s.log.drop n }
  | .openSub after => { s with subs := s.subs ++ [Sub.new after] }
  | .init i => { s with subs := s.subs.modify i (Sub.init b s.log) }
  | .read i => { s with subs := s.subs.modify i (Sub.read b s.log) }
  | .emit i => { s with subs := s.subs.modify i (Sub.emit b) }
  | .wake i => { s with subs := s.subs.modify i Sub.wake }
  | .timeout i => { s with subs := s.subs.modify i (Sub.timeout b) }
  | .cancel i => { s with subs := s.subs.modify i Sub.cancel }

def runFrom (b : Backend) (s : St) (acts : List Act) : St := acts.foldl (step b) s

def run (b : Backend) (acts : List Act) : St := runFrom b St.init acts

/-- everything except the storage-level deletion -/
def Act.ok : Act → Bool
  | .trim _ => false
  | _ => true

/-- in-process use: no external writer, no poll expiry, no deletion -/
def Act.core : Act → Bool
  | .trim _ => false
  | .xappend .. => false
  | .timeout _ => false
  | _ => true

/-- in-process use where time may pass (poll expiry allowed) -/
def Act.inproc : Act → Bool
  | .trim _ => false
  | .xappend .. => false
  | _ => true

/-- One scheduling round of subscriber `i`: every action of `i` once. -/
def round (i : Nat) : List Act := [.init i, .wake i, .timeout i, .read i, .emit i]

def rounds (i : Nat) : Nat → List Act
  | 0 => []
  | n + 1 => round i ++ rounds i n

/-! ## specification -/

/-- what an event carries apart from its sequence number -/
def Ev.payload (e : Ev) : Nat × String × List String := (e.tag, e.type, e.types)

/-- the payloads an action list publishes, in publication order -/
def published (b : Backend) : List Act → List (Nat × String × List String)
  | [] => []
  | .append tag ty tys :: rest => (tag, ty, tys) :: published b rest
  | .xappend tag ty tys :: rest =>
    match b with
    | .sql => (tag, ty, tys) :: published b rest
    | .mem => published b rest
  | _ :: rest => published b rest

/-- everything observable of a subscriber (not its cursor representation) -/
def Sub.view (x : Sub) : Int × Phase × List Ev := (x.after, x.phase, x.out)

/-- keep everything up to and including the first terminal event -/
def cutAfterTerminal : List Ev → List Ev
  | [] => []
  | e :: es => if e.terminal then [e] else e :: cutAfterTerminal es

/-- what a subscription after `k` must deliver for the log `log` -/
def stream (k : Int) (log : List Ev) : List Ev :=
  cutAfterTerminal (log.filter fun e => decide (e.seq > k))

/-- the part of a stream a client has seen when the last sequence it saw is `k` -/
def seenUpTo (k : Int) (l : List Ev) : List Ev := l.filter fun e => decide (e.seq ≤ k)

/-! ## `_api.py` -/

/-- `?after_sequence=`: absent / the raw string with the result of Python `int()` on it -/
inductive QueryParam
  | absent
  | given (raw : List Char) (asInt : Option Int)
deriving Repr

/-- `Last-Event-ID:` absent / present with the result of Python `int()` on it -/
inductive HeaderVal
  | absent
  | given (asInt : Option Int)
deriving Repr

def asciiLower (c : Char) : Char := if 'A' ≤ c ∧ c ≤ 'Z' then Char.ofNat (c.toNat + 32) else c

/-- the default of `request.query_params.get("after_sequence", "now")` -/
def defaultAfter : List Char := ['n', 'o', 'w']

inductive Cursor
  /-- HTTP 400 -/
  | invalid
  /-- `None`: resolved by `_resolve_event_stream` -/
  | now
  | at (k : Int)
deriving DecidableEq, Repr

/-- the cursor part of `_stream_events` -/
def resolveParam (sse : Bool) (q : QueryParam) (h : HeaderVal) : Cursor :=
  let (raw, asInt) : List Char × Option Int :=
    match q with
    | .absent => (defaultAfter, none)
    | .given r i => (r, i)
  let c0 : Cursor :=
    if raw.map asciiLower = ['n', 'o', 'w'] then .now
    else match asInt with
      | some n => .at n
      | none => .invalid
  match c0 with
  | .invalid => .invalid
  | c =>
    if sse then
      match h with
      | .given (some n) => .at n
      | _ => c
    else c

/-- what `store.query(HandlerQuery(handler_id_in=[id]))` finds -/
inductive HandlerInfo
  | notFound
  | noRun
  | run (terminalStatus : Bool)
deriving DecidableEq, Repr

def statusTerminal (status : String) : Bool := Gen.EventLog.terminalStatuses.contains status

inductive Resolved
  | http (code : Nat)
  | streamFrom (k : Int)
deriving DecidableEq, Repr

/-- `all_current[-1].sequence if all_current else -1` -/
def resolveNow (b : Backend) (log : List Ev) : Int :=
  match (queryEvents b log none none).getLast? with
  | some e => e.seq
  | none => -1

def lastIsTerminal (b : Backend) (log : List Ev) : Bool :=
  match (queryEvents b log none none).getLast? with
  | some e => e.terminal
  | none => false

/-- `_stream_events` down to the decision which subscription to open -/
def resolveStream (b : Backend) (log : List Ev) (h : HandlerInfo) (c : Cursor) : Resolved :=
  match c with
  | .invalid => .http 400
  | c =>
    match h with
    | .notFound => .http 404
    | .noRun => .http 404
    | .run term =>
      let k := match c with
        | .at k => k
        | _ => resolveNow b log
      if (queryEvents b log (some k) none).isEmpty && (term || lastIsTerminal b log) then .http 204
      else .streamFrom k

/-- what the endpoint's stream carries: the subscription minus filtered internal events -/
def apiStream (includeInternal : Bool) (k : Int) (log : List Ev) : List Ev :=
  (stream k log).filter fun e => includeInternal || !e.internal

/-- the `id:` field of an SSE frame (NDJSON lines carry none) -/
def frameId (sse : Bool) (e : Ev) : Option Int := if sse then some e.seq else none

end EventLog
