import WfProofs.IterUtilsDsp
/-! Consequences of the `debounced_sorted_prefix` invariant. -/
namespace IterUtils
open Merge

/-- when every item token carries tag 0, the items of a token list are the items of its source-0 part -/
theorem vals_eq_proj0 (l : List (Nat × Tok β))
    (h : ∀ p ∈ l, (p.1 = 0 ∧ ∃ x, p.2 = Tok.val x) ∨ p = (1, Tok.marker)) :
    vals l = (proj 0 l).filterMap Tok.val? := by
  induction l with
  | nil => rfl
  | cons p ps ih =>
    have ih' := ih (fun q hq => h q (List.mem_cons_of_mem _ hq))
    obtain ⟨j, t⟩ := p
    have hv : vals ((j, t) :: ps) = t.val?.toList ++ vals ps := filterMap_cons_toList _ _ _
    rw [hv, proj_cons, List.filterMap_append, ← ih']
    rcases h (j, t) (by simp) with ⟨h0, x, hx⟩ | h1
    · simp only at h0 hx
      subst h0 hx
      simp [Tok.val?]
    · simp only [Prod.mk.injEq] at h1
      obtain ⟨rfl, rfl⟩ := h1
      simp [Tok.val?]

theorem out_tags {s : Dsp β} {key : β → Nat} (h : DInv key s) :
    ∀ p ∈ s.m.out, (p.1 = 0 ∧ ∃ x, p.2 = Tok.val x) ∨ p = (1, Tok.marker) :=
  fun p hp => h.env.tags p (mem_hist_of_mem_out h.env.minv hp)

theorem arrived_prefix {s : Dsp β} {key : β → Nat} (h : DInv key s) : s.arrived <+: s.produced := by
  have h1 : s.arrived = (proj 0 s.m.out).filterMap Tok.val? := vals_eq_proj0 _ (out_tags h)
  have h2 : s.produced = (proj 0 s.m.hist).filterMap Tok.val? := vals_eq_proj0 _ h.env.tags
  rw [h1, h2]
  exact (prefix_of_inv h.env.minv 0).filterMap _

/-- normal completion: the marker was consumed and every item of `inner` arrived -/
theorem dsp_complete {s : Dsp β} {key : β → Nat} (h : DInv key s) (hp : s.m.phase = .finished none)
    (hstop : Gen.dspMergeStop = false) (hsrc : 1 < Gen.dspSources) :
    s.flushed = true ∧ s.arrived = s.produced := by
  have hf : s.m.stopFirst = false := by rw [h.env.stopF]; exact hstop
  have hproj := complete_of_inv h.env.minv hp hf
  constructor
  · have h1 : (1 : Nat) < s.m.slots.length := by rw [h.env.len]; exact hsrc
    obtain ⟨sl, hsl⟩ : ∃ sl, s.m.slots[1]? = some sl := ⟨s.m.slots[1], by simp [h1]⟩
    have hg := all_gone h.env.minv hp hf 1 sl hsl
    subst hg
    have he := h.env.minv.core.endSlot 1 (Or.inr hsl)
    have hm := h.env.histMarked (h.env.endsMarked he)
    have : (Tok.marker : Tok β) ∈ proj 1 s.m.out := by
      rw [hproj 1]; exact mem_proj_of_mem hm
    exact h.cons.flushedOut.mpr ⟨(1, Tok.marker), mem_of_mem_proj this, rfl⟩
  · have h1 : s.arrived = (proj 0 s.m.out).filterMap Tok.val? := vals_eq_proj0 _ (out_tags h)
    have h2 : s.produced = (proj 0 s.m.hist).filterMap Tok.val? := vals_eq_proj0 _ h.env.tags
    rw [h1, h2, hproj 0]

/-! ### observable effect of one action: what `inner` produced, what was yielded -/

def DAct.itemOf : DAct β → Option β
  | .prod x => some x
  | .fin => none | .err _ => none | .fire => none | .mark => none | .dfin => none
  | .batch _ => none | .resume => none

def DAct.errOf : DAct β → Option Nat
  | .err e => some e
  | .prod _ => none | .fin => none | .fire => none | .mark => none | .dfin => none
  | .batch _ => none | .resume => none

theorem consume_fields (key : β → Nat) (t : Dsp β) (tok : Tok β) :
    (Dsp.consume key t tok).1.m = t.m ∧ (Dsp.consume key t tok).1.dout = t.dout ++ (Dsp.consume key t tok).2 := by
  cases tok <;> simp only [Dsp.consume] <;> (try split) <;> simp

theorem afterMerge_fields (key : β → Nat) (t : Dsp β) (r : Merge (Tok β) × Option (Nat × Tok β)) :
    (Dsp.afterMerge key t r).1.m = r.1 ∧ (Dsp.afterMerge key t r).1.dout = t.dout ++ (Dsp.afterMerge key t r).2 := by
  obtain ⟨m', em⟩ := r
  cases em with
  | none => simp [Dsp.afterMerge]
  | some p =>
    obtain ⟨i, tok⟩ := p
    simp only [Dsp.afterMerge]
    exact consume_fields key { t with m := m' } tok

theorem dstep_fields (key : β → Nat) {s s' : Dsp β} {a : DAct β} {ys : List β}
    (hs : s.step key a = some (s', ys)) :
    s'.produced = s.produced ++ a.itemOf.toList ∧ s'.dout = s.dout ++ ys
    ∧ s'.m.errs.map Prod.snd = s.m.errs.map Prod.snd ++ a.errOf.toList := by
  have key' : ∀ (t : Dsp β) (a' : Act (Tok β)), t.m = s.m → t.dout = s.dout →
      (s.m.step a').map (Dsp.afterMerge key t) = some (s', ys) →
      s'.m.hist = s.m.hist ++ a'.prodOf.toList ∧ s'.dout = s.dout ++ ys
      ∧ s'.m.errs = s.m.errs ++ a'.errOf.toList := by
    intro t a' _ htd h
    simp only [Option.map_eq_some_iff] at h
    obtain ⟨r, hm, hr⟩ := h
    obtain ⟨f1, f2⟩ := afterMerge_fields key t r
    rw [hr] at f1 f2
    simp only at f1 f2
    obtain ⟨m', em⟩ := r
    obtain ⟨_, g2, g3, _⟩ := step_fields hm
    simp only at f1
    rw [f1]
    exact ⟨g2, by rw [f2, htd], g3⟩
  cases a <;> simp only [Dsp.step] at hs
  case prod x =>
    obtain ⟨h1, h2, h3⟩ := key' s _ rfl rfl hs
    refine ⟨?_, h2, ?_⟩
    · simp [Dsp.produced, h1, Act.prodOf, DAct.itemOf, Tok.val?]
    · simp [h3, Act.errOf, DAct.errOf]
  case fin =>
    obtain ⟨h1, h2, h3⟩ := key' s _ rfl rfl hs
    refine ⟨?_, h2, ?_⟩
    · simp [Dsp.produced, h1, Act.prodOf, DAct.itemOf]
    · simp [h3, Act.errOf, DAct.errOf]
  case err e =>
    obtain ⟨h1, h2, h3⟩ := key' s _ rfl rfl hs
    refine ⟨?_, h2, ?_⟩
    · simp [Dsp.produced, h1, Act.prodOf, DAct.itemOf]
    · simp [h3, Act.errOf, DAct.errOf]
  case fire =>
    split at hs
    · simp at hs
    · simp only [Option.some.injEq, Prod.mk.injEq] at hs
      obtain ⟨rfl, rfl⟩ := hs
      simp [Dsp.produced, DAct.itemOf, DAct.errOf]
  case mark =>
    split at hs
    · obtain ⟨h1, h2, h3⟩ := key' { s with marked := true } _ rfl rfl hs
      refine ⟨?_, h2, ?_⟩
      · simp [Dsp.produced, h1, Act.prodOf, DAct.itemOf, Tok.val?]
      · simp [h3, Act.errOf, DAct.errOf]
    · simp at hs
  case dfin =>
    split at hs
    · obtain ⟨h1, h2, h3⟩ := key' s _ rfl rfl hs
      refine ⟨?_, h2, ?_⟩
      · simp [Dsp.produced, h1, Act.prodOf, DAct.itemOf]
      · simp [h3, Act.errOf, DAct.errOf]
    · simp at hs
  case batch o =>
    obtain ⟨h1, h2, h3⟩ := key' s _ rfl rfl hs
    refine ⟨?_, h2, ?_⟩
    · simp [Dsp.produced, h1, Act.prodOf, DAct.itemOf]
    · simp [h3, Act.errOf, DAct.errOf]
  case resume =>
    obtain ⟨h1, h2, h3⟩ := key' s _ rfl rfl hs
    refine ⟨?_, h2, ?_⟩
    · simp [Dsp.produced, h1, Act.prodOf, DAct.itemOf]
    · simp [h3, Act.errOf, DAct.errOf]

theorem dexec_fields (key : β → Nat) {s s' : Dsp β} (acts : List (DAct β))
    (he : s.exec key acts = some s') :
    s'.produced = s.produced ++ acts.filterMap DAct.itemOf
    ∧ s'.m.errs.map Prod.snd = s.m.errs.map Prod.snd ++ acts.filterMap DAct.errOf := by
  induction acts generalizing s with
  | nil => simp only [Dsp.exec, Option.some.injEq] at he; subst he; simp
  | cons a as ih =>
    simp only [Dsp.exec] at he
    split at he
    · rename_i s1 ys hs
      obtain ⟨h1, _, h3⟩ := dstep_fields key hs
      obtain ⟨i1, i3⟩ := ih he
      exact ⟨by rw [i1, h1, filterMap_cons_toList, List.append_assoc],
             by rw [i3, h3, filterMap_cons_toList, List.append_assoc]⟩
    · simp at he

end IterUtils
