"""C33 — backup archives restore exactly what was backed up."""
from __future__ import annotations

import hashlib
import io
import json
import os as _real_os
import random
import re
import tarfile
import traceback
from typing import Any

from .. import c33_clean
from ..gen import archive as gen_archive
from ..runner import Divergence, Driver, Env, Outcome, Violation, diff_streams

THEOREMS = [
    "C33_source_shape",
    "C33_size_agnostic",
    "C33_classification_names",
    "C33_classification_total",
    "C33_manifest_consistent",
    "C33_roundtrip",
    "C33_roundtrip_clear_any_reader",
    "C33_wrong_password",
    "C33_no_password",
    "C33_framing",
    # extension: names beyond the valid ones, archives beyond the written ones, the writer counted, cleaning, the service's path
    "C33_roundtrip_dotfree",
    "C33_domain_tight",
    "C33_classification_any_name",
    "C33_wrong_password_any_backup",
    "C33_no_password_any_backup",
    "C33_any_archive_wrong_password_fails",
    "C33_reader_refines_spec",
    "C33_reader_password_use",
    "C33_member_count",
    "C33_fresh_draws",
    "C33_clean_source_shape",
    "C33_clean_keeps_name",
    "C33_clean_idempotent",
    "C33_clean_exact",
    "C33_service_roundtrip",
]
EXPLANATION = (
    "Lean model M14 of archive.py / encryption.py: an archive is its ordered list of regular-file members (name, bytes); "
    "the writer's member names (suffixes, default name, order), the reader's if/elif suffix chain in source order, dict "
    "semantics for duplicates, the three password tests, the salt||nonce||ciphertext framing with Python slices, the "
    "minimum-length check and every raise are modelled; suffix literals, chain, tests and framing constants are regenerated "
    "from the source (GenArchive). YAML/JSON are an abstract codec with round-trip laws, the cipher an abstract AEAD with "
    "two laws (hypotheses, each shown satisfiable). Theorems, for all deployment lists with distinct DNS-1035 names, all "
    "secret/generation maps, all passwords incl. the empty one: read(write x) = x with and without encryption; a different "
    "password yields InvalidTag whenever a secret exists and never a secret; none yields 'no password'; every written member "
    "is classified into the category and deployment it came from (needs: valid names have no dot, order of the suffix "
    "tests); manifest.encrypted <=> password given <=> secrets stored as encrypt(..). Tie: member-by-member and result-by-"
    "result correspondence of the REAL create_backup_archive/read_backup_archive (real tarfile, PyYAML, json) and of the "
    "real encrypt/decrypt framing (scripted os.urandom, stand-in cipher) against the model driver, incl. ill-formed names, "
    "hostile archives (unknown/duplicate/non-file members, junk, missing manifest keys) and tampered/truncated blobs. "
    "Search: round-trip, wrong-password, clear-text-scan, structure and per-deployment decomposition monitors on the real code; "
    "a round-trip failure is classified by an independent look at the archive (tarfile + PyYAML/json + the stand-in cipher, not "
    "the reader): which stored member is missing / unreadable / different / a proper prefix of the serialised input -- or that the "
    "archive holds everything intact and only the reader lost it -- and by the size class of the members involved. Large members "
    "(secret values, spec fields, annotations of about 64 KiB, 1 MiB, 2 MiB and exactly at / one byte above / well above every "
    "integer of the backup modules that could be a size bound, re-read on every run; PEM-like text, one unbroken token, 2/3/4-byte "
    "characters that YAML escapes, folded prose, thousands of small keys) go through writer, reader, model and monitors on every "
    "tier; C33_size_agnostic pins that the archive layer has no length test, bounded read or size constant. Values the "
    "reader hands back are canonicalised totally (non-str keys, dates, bytes), and a scenario the harness cannot finish is "
    "reported with its input instead of ending the run. "
    "EXTENSION. Theorems beyond the property's domain and beyond written archives: the round trip needs only distinct dot-free names "
    "(C33_roundtrip_dotfree) and needs both (C33_domain_tight: `x` next to `x.secret`, `app` twice -- replayed on the real code); for "
    "EVERY name the secret / generation members are classified as what they are and the resource member is never ignored "
    "(C33_classification_any_name), hence a different password / none is refused for every backup whatsoever that holds a secret "
    "(C33_wrong_password_any_backup, C33_no_password_any_backup) and for ANY archive, hand-made or not, that holds a member "
    "`<name>.secret.enc` sealed under another password (C33_any_archive_wrong_password_fails); on every archive it accepts the reader "
    "refines a specification that never runs it -- entries = resource names in order of first appearance, each with the LAST resource / "
    "secret (either form) / generation member of its name, names distinct (C33_reader_refines_spec, invariant of the reader's fold by "
    "induction over the members) -- and its password matters for encrypted members only (C33_reader_password_use); the writer emits "
    "exactly 1 + deployments + secrets + generations members (C33_member_count) and seals the i-th encrypted member with the i-th "
    "os.urandom draw, each draw once (C33_fresh_draws). Cleaning (`clean_crd_metadata` / `clean_secret_metadata` / `_clean_metadata`, "
    "model ArchiveClean over the regenerated allow-lists, prefixes and keys; statement shape pinned by C33_clean_source_shape): keeps "
    "metadata.name -- the writer names members after the cleaned resource, the service keys secrets and generations by the raw one "
    "(C33_clean_keeps_name), is idempotent (C33_clean_idempotent), removes exactly status / non-allow-listed metadata / system "
    "annotations / an emptied annotations key (C33_clean_exact); C33_service_roundtrip composes cleaning, the service's keying (shape "
    "re-read from manage_api/backup_service.py), writer and reader: every cluster state with distinct dot-free names restores under the "
    "cluster names with the cleaned resources, the paired secrets and the cluster generations. Tie: driver op `clean` against the real "
    "cleaners; the REAL BackupService (backup, restore, restore under another password) on an in-memory cluster; hand-made archives "
    "with links / devices / AREGTYPE / CONTTYPE members and repeated members, checked against an independent last-member-wins reading; "
    "the recorded os.urandom draws against the stored encrypted members."
)
LEVEL_TEXT = "proof (all backups, passwords, codecs and AEADs satisfying the stated laws) + correspondence + implementation-side monitors; encryption half partial (stand-in cipher)"
ASSUMPTIONS = [
    "the `cryptography` package is absent from the sandbox: AES-256-GCM and PBKDF2-HMAC-SHA256 are NOT run. The theorems "
    "assume an AEAD with open(seal m)=m, open under another password = InvalidTag (no key collision between passwords "
    "folded in) and a ciphertext of at least 16 bytes; the runs use pyshims/cryptography, an HMAC-SHA256-authenticated "
    "SHA-256 counter stream with a single-pass KDF -- only encryption.py's framing (salt/nonce sizes, header slicing, "
    "minimum length, error mapping, argument order) and archive.py's use of it are exercised",
    "'different password' is meant up to key derivation: genuine PBKDF2-HMAC zero-pads the HMAC key, so a password and the "
    "same password followed by NUL characters (and a password longer than 64 bytes and its SHA-256 digest) derive the same "
    "key and open each other's archives; the AEAD law `auth` excludes such collisions and the stand-in KDF hashes the "
    "password with its length so that it has none (found by this check's first run against a plain HMAC stand-in)",
    "confidentiality of the ciphertext (that it reveals nothing about the secret) is a property of the cipher and is not "
    "claimed; the clear-text scan of archives is a monitor on the stand-in only",
    "tar/gzip framing (tarfile), yaml.dump/safe_load and json.dumps/loads are used as given: the model has an abstract codec "
    "with the round-trip laws as hypotheses; every generated resource, secret map, manifest and generation goes through "
    "the real libraries in the correspondence and round-trip monitors",
    "os.urandom returns the requested number of bytes (scripted in the runs)",
    "names are Unicode scalar values; deployment-name validity is the DNS-1035 regex of core/schema/deployments.py without "
    "its acceptance of one trailing newline (`$`), which the model's validName rejects",
    "resources are JSON-like values as returned by the Kubernetes API (str keys; str/int/float/bool/None/list/dict); secret "
    "values are valid UTF-8 strings (k8s_client.get_secret_data decodes them)",
    "cleaning is modelled for documents whose `metadata` (when present) is a mapping and whose `metadata.annotations` (when present) is "
    "a mapping with str keys, as the Kubernetes API returns them; on anything else the Python code raises and the model says nothing. "
    "Dict order is not modelled (yaml.dump sorts keys); in-place mutation is modelled as a function (the service reads name and "
    "generation before it cleans: pinned by C33_clean_source_shape, exercised by the service runs)",
    "the service path (C33_service_roundtrip, C33/service_roundtrip[...]) covers BackupService._perform_backup / _perform_restore with "
    "k8s_client, settings and backup.storage replaced by in-memory stand-ins (kubernetes, pydantic-settings, botocore are absent): what the "
    "real cluster / S3 do is not exercised; the service's two dicts are association lists in the model (names distinct)",
    "C33_fresh_draws says which os.urandom draw seals which member; that os.urandom does not repeat itself is the operating system's "
    "business (the monitor checks distinctness of the stored salt||nonce prefixes only under the hash-scripted urandom)",
]
TRUSTED_EXTRA = [
    "pyshims/cryptography: STAND-IN for the absent `cryptography` package (AESGCM/PBKDF2HMAC/hashes/InvalidTag interface over "
    "hashlib+hmac; NOT AES-GCM) -- the cipher is trusted, not verified",
    "harness/gen/archive.py (AST extraction of suffixes, reader chain, password tests, framing constants, KDF parameters)",
    "tarfile, gzip, PyYAML, json of the running interpreter",
    "harness/gen/archive_clean.py (AST extraction of the allow-lists, prefixes, the statements of _clean_metadata, the writer's name "
    "expression, the order of reads in BackupService._perform_backup)",
    "harness/c33_clean.py: in-memory stand-ins for llama_agents.control_plane.{k8s_client, settings, backup.storage} under which the real "
    "manage_api/backup_service.py is imported",
]
LEAN_TARGETS = ["WfProps.C33"]

MANIFEST_KEYS = ["version", "timestamp", "namespace", "deployment_count", "encrypted"]
TAG = 16


# --------------------------------------------------------------------------
# implementation access


class ScriptedOS:
    """Stands in for the `os` module inside encryption.py: urandom is scripted and recorded."""

    def __init__(self, seed: int, mode: str = "hash"):
        self.seed, self.mode, self.calls = seed, mode, []

    def urandom(self, n: int) -> bytes:
        k = len(self.calls)
        if self.mode == "zero":
            b = bytes(n)
        elif self.mode == "ff":
            b = b"\xff" * n
        else:
            b = b""
            i = 0
            while len(b) < n:
                b += hashlib.sha256(f"{self.seed}:{k}:{i}".encode()).digest()
                i += 1
            b = b[:n]
        self.calls.append(b)
        return b

    def __getattr__(self, a: str) -> Any:
        return getattr(_real_os, a)


class Impl:
    def __init__(self) -> None:
        from cryptography import _standin  # the stand-in (pyshims)
        from cryptography.exceptions import InvalidTag
        from llama_agents.control_plane.backup import archive, encryption
        import yaml

        self.archive, self.encryption, self.standin, self.InvalidTag, self.yaml = archive, encryption, _standin, InvalidTag, yaml
        notes: list[str] = []
        x = gen_archive.extract(notes)
        self.gen = x
        self.iterations = x["e"]["kdfIterations"]
        self.keylen = x["e"]["kdfLength"]
        self.dns = re.compile(x["dns"]) if x["dns"] != "<missing>" else re.compile(r"^[a-z]([a-z0-9-]{0,61}[a-z0-9])?$")

    def key(self, pw: str, salt: bytes) -> bytes:
        return self.standin.kdf(pw.encode("utf-8"), salt, self.iterations, self.keylen, "sha256")

    def blob(self, pw: str, salt: bytes, nonce: bytes, plain: bytes) -> bytes:
        """salt||nonce||seal, built without encryption.py"""
        return salt + nonce + self.standin.seal(self.key(pw, salt), nonce, plain, None)

    def open_ct(self, pw: str, salt: bytes, nonce: bytes, ct: bytes) -> bytes | None:
        try:
            return self.standin.open_(self.key(pw, salt), nonce, ct, None)
        except self.InvalidTag:
            return None

    def with_urandom(self, script: ScriptedOS, fn: Any) -> Any:
        old = self.encryption.os
        self.encryption.os = script
        try:
            return fn()
        finally:
            self.encryption.os = old

    def classify_exc(self, e: BaseException) -> str:
        import yaml

        if isinstance(e, self.InvalidTag):
            return "invalidTag"
        if isinstance(e, json.JSONDecodeError):
            return "badJson"
        if isinstance(e, yaml.YAMLError):
            return "badYaml"
        if isinstance(e, KeyError):
            return "missingField"
        if isinstance(e, UnicodeDecodeError):
            return "badJson"
        if isinstance(e, ValueError):
            msg = str(e)
            if "no password provided" in msg:
                return "noPassword"
            if "too short" in msg:
                return "tooShort"
            if "missing manifest.json" in msg:
                return "missingManifest"
            if "Unsupported archive version" in msg:
                return "badVersion"
        return "raise:" + type(e).__name__


# --------------------------------------------------------------------------
# symbolic encodings shared with the driver's tokenCodec / idealAead


def cps(s: str) -> str:
    return ",".join(str(ord(c)) for c in s)


def nats(l: Any) -> str:
    return ",".join(str(int(x)) for x in l)


def code_of(l: list[int]) -> int:
    acc = 0
    for b in l:
        acc = (acc * 257 + (b + 1)) % 2305843009213693951
    return acc


def ideal_tag(pw: bytes, salt: bytes, nonce: bytes, m: list[int]) -> list[int]:
    return [code_of(list(pw)), code_of(list(salt)), code_of(list(nonce)), code_of(m)] + [0] * (TAG - 4)


def sym_blob(pw: str, salt: bytes, nonce: bytes, m: list[int]) -> list[int]:
    return list(salt) + list(nonce) + m + ideal_tag(pw.encode("utf-8"), salt, nonce, m)


def enc_opt_int(v: Any) -> list[int]:
    return [0] if v is None else [1, 1 if v < 0 else 0, abs(v)]


def enc_opt_str(v: Any) -> list[int]:
    return [0] if v is None else [1, len(v)] + [ord(c) for c in v]


def enc_opt_bool(v: Any) -> list[int]:
    return [0] if v is None else [1, 1 if v else 0]


def sym_manifest(f: dict) -> list[int]:
    return [3] + enc_opt_int(f.get("version")) + enc_opt_str(f.get("timestamp")) + enc_opt_str(f.get("namespace")) \
        + enc_opt_int(f.get("deployment_count")) + enc_opt_bool(f.get("encrypted"))


def sym_meta(g: Any) -> list[int]:
    return [4] + enc_opt_int(g)


def _plain(o: Any) -> Any:
    """Values the code under test hands back are not always JSON-like (a damaged YAML file can load as a mapping with
    None / int / tuple keys, dates, bytes, sets): bring them to something json.dumps can sort, injectively enough, and
    leave JSON-like values (str keys) exactly as they are."""
    if isinstance(o, dict):
        if all(type(k) is str for k in o):
            return {k: _plain(v) for k, v in o.items()}
        return {"<mapping-with-non-str-keys>": sorted([[canon(k), _plain(v)] for k, v in o.items()], key=lambda kv: kv[0])}
    if isinstance(o, (list, tuple)):
        return [_plain(v) for v in o]
    if isinstance(o, (set, frozenset)):
        return {"<set>": sorted(canon(v) for v in o)}
    if o is None or isinstance(o, (str, int, float, bool)):
        return o
    return "<" + type(o).__name__ + ":" + repr(o) + ">"


def canon(o: Any) -> str:
    try:
        return json.dumps(_plain(o), sort_keys=True, ensure_ascii=True)
    except Exception as e:  # never let an odd value of the code under test take the harness down
        return "<uncanonical:" + type(e).__name__ + ":" + repr(o)[:500] + ">"


class Tokens:
    def __init__(self) -> None:
        self.ids: dict[str, int] = {}

    def tok(self, o: Any) -> int:
        return self.ids.setdefault(canon(o), len(self.ids) + 1)

    def find(self, o: Any) -> int:
        return self.ids.get(canon(o), 900000 + (int(hashlib.sha1(canon(o).encode()).hexdigest(), 16) % 99999))


def opt(s: str | None) -> str:
    return "-" if s is None else "=" + s


def pw_field(pw: str | None) -> str:
    return "-" if pw is None else "=" + nats(pw.encode("utf-8"))


def pw_class(pw: str | None) -> str:
    return "none" if pw is None else "empty" if pw == "" else "nonempty"


# --------------------------------------------------------------------------
# backups: real writer / reader versus the model


# ---- large values: described in the case by shape / size / seed, expanded here (a replay file stays a few hundred bytes)

KIB, MIB = 1024, 1024 * 1024
BIG_SHAPES = ["pem", "ascii", "latin", "cjk", "emoji", "words", "mixed", "map"]
_BIG_CACHE: dict[tuple, Any] = {}


def _cut_utf8(s: str, n: int) -> str:
    """longest prefix of s with at most n UTF-8 bytes"""
    b = s.encode("utf-8")
    if len(b) <= n:
        return s
    return b[:n].decode("utf-8", "ignore")


def big_text(shape: str, n: int, seed: int = 0) -> str:
    """Deterministic, cheap text of (at most, and within 3 bytes of) n UTF-8 bytes.
    pem: concatenated certificate-like blocks (64-character base64 lines, so many newlines); ascii: one unbroken token;
    latin / cjk / emoji: 2- / 3- / 4-byte characters only (yaml.dump without allow_unicode escapes every one of them);
    words: prose with spaces (yaml folds it); mixed: lines of all of the above."""
    key = (shape, n, seed)
    if key in _BIG_CACHE:
        return _BIG_CACHE[key]
    h = hashlib.sha256(f"big:{shape}:{seed}".encode()).hexdigest()
    if shape == "pem":
        import base64

        lines: list[str] = []
        i = 0
        total = 0
        while total < n:
            if i % 22 == 0:
                ln = "-----BEGIN CERTIFICATE-----"
            elif i % 22 == 21:
                ln = "-----END CERTIFICATE-----"
            else:
                ln = base64.b64encode(hashlib.sha384(f"{seed}:{i}".encode()).digest()).decode()
            lines.append(ln)
            total += len(ln) + 1
            i += 1
        t = "\n".join(lines) + "\n"
    elif shape == "ascii":
        t = h * (n // len(h) + 1)
    elif shape == "latin":
        blk = "éàüñøßçêîõåæðþÿĀ"[int(h[0], 16):] + "éàüñøßçêîõåæðþÿĀ"
        t = blk * (n // (2 * len(blk)) + 1)
    elif shape == "cjk":
        blk = "日本語の設定値と鍵証明書漢字"[int(h[0], 16) % 7:] + "日本語の設定値"
        t = blk * (n // (3 * len(blk)) + 1)
    elif shape == "emoji":
        blk = "".join(chr(0x1F600 + (int(h[i], 16) * 3 + i) % 64) for i in range(16))
        t = blk * (n // (4 * len(blk)) + 1)
    elif shape == "words":
        blk = "lorem ipsum dolor sit amet consectetur adipiscing elit " + h[:9] + " sed do eiusmod tempor. "
        t = blk * (n // len(blk) + 1)
    elif shape == "mixed":
        blk = (h[:40] + "\n  indented: line #not a comment\n- dash 'quote' \"dq\"\n\tTab\n" + "ünï©ødé 日本語 🚀\n" + "key: value\n\n")
        t = blk * (n // len(blk.encode()) + 1)
    else:
        raise ValueError("big shape " + shape)
    t = _cut_utf8(t, n)
    if t[-1:] in (" ", "\t"):  # keep the tail unambiguous for the eye; no influence on the rules
        t = t[:-1] + "."
    _BIG_CACHE.clear()  # one entry: the same value is asked for again by the decomposition and the replay only
    _BIG_CACHE[key] = t
    return t


def big_map(n: int, seed: int = 0) -> dict[str, str]:
    """many small entries (an .env file with thousands of lines) of about n bytes altogether"""
    m: dict[str, str] = {}
    i = 0
    total = 0
    while total < n:
        k, v = "ENV_%06d" % i, "value-%d-%d-abcdefghijklmnopqrstuvwxyz0123456789" % (seed, i)
        m[k] = v
        total += len(k) + len(v)
        i += 1
    return m


def apply_big(case: dict, deps: list[dict], secrets: dict) -> None:
    for b in case.get("big") or []:
        i = b["dep"]
        if not (0 <= i < len(deps)):
            continue
        shape, n, seed, key = b["shape"], int(b["bytes"]), int(b.get("seed", 0)), b.get("key", "BIG")
        val: Any = big_map(n, seed) if shape == "map" else big_text(shape, n, seed)
        if b["at"] == "secret":
            m = secrets.setdefault(eff_name(case["deps"][i]), {})
            if shape == "map":
                m.update(val)
            else:
                m[key] = val
        elif b["at"] == "spec":
            if not isinstance(deps[i].get("spec"), dict):
                deps[i]["spec"] = {}
            deps[i]["spec"][key] = val
        elif b["at"] in ("annotation", "label"):
            md = deps[i].setdefault("metadata", {"namespace": case["ns"]})
            md.setdefault("annotations" if b["at"] == "annotation" else "labels", {})[key] = val if shape != "map" else json.dumps(val)


def big_bytes(case: dict) -> int:
    return sum(int(b["bytes"]) for b in case.get("big") or [])


def size_class(n: int) -> str:
    return "<64KiB" if n < 64 * KIB else "64KiB..1MiB" if n <= MIB else "1MiB..2MiB" if n <= 2 * MIB else ">2MiB"


def build_inputs(case: dict) -> tuple[list[dict], dict, dict | None]:
    deps, secrets, gens = _build_small(case)
    apply_big(case, deps, secrets)
    return deps, secrets, gens


def _build_small(case: dict) -> tuple[list[dict], dict, dict | None]:
    deps = []
    for d in case["deps"]:
        cr: dict[str, Any] = {"apiVersion": "deploy.llamaindex.ai/v1", "kind": "LlamaDeployment"}
        if d.get("meta", True):
            cr["metadata"] = {"namespace": case["ns"]}
            if d["name"] is not None:
                cr["metadata"]["name"] = d["name"]
            if d.get("labels"):
                cr["metadata"]["labels"] = d["labels"]
            if d.get("annotations"):
                cr["metadata"]["annotations"] = d["annotations"]
        cr["spec"] = d["spec"]
        deps.append(cr)
    return deps, {k: dict(v) for k, v in case["secrets"].items()}, (None if case["gens"] is None else dict(case["gens"]))


def eff_name(d: dict) -> str:
    return d["name"] if (d["name"] is not None and d.get("meta", True)) else "unknown"


def untar(data: bytes) -> list[tuple[str, bytes]]:
    res = []
    with tarfile.open(fileobj=io.BytesIO(data), mode="r:gz") as t:
        for m in t.getmembers():
            if m.isfile():
                res.append((m.name, t.extractfile(m).read()))  # type: ignore[union-attr]
    return res


_LOAD_MEMO: dict[bytes, Any] = {}


def yload(I: Impl, b: bytes) -> Any:
    """yaml.safe_load for the harness's own look at a member; a large member is parsed once per scenario (the canonical
    form for the model and the stored-member diagnosis both need it), exceptions are not remembered"""
    if len(b) < 64 * KIB:
        return I.yaml.safe_load(b)
    k = hashlib.sha1(b).digest()
    if k not in _LOAD_MEMO:
        if len(_LOAD_MEMO) >= 4:
            _LOAD_MEMO.clear()
        _LOAD_MEMO[k] = I.yaml.safe_load(b)
    return _LOAD_MEMO[k]


def sym_of_real(I: Impl, data: bytes, pw: str | None, calls: list[bytes], toks: Tokens) -> list[int]:
    """Canonicalise one member of a *writer-produced* archive, by content, with the real json/yaml and the shim."""
    try:
        j = json.loads(data)
    except Exception:
        j = None
    if isinstance(j, dict) and j:
        if set(j) == {"generation"} and isinstance(j["generation"], int) and not isinstance(j["generation"], bool):
            return sym_meta(j["generation"])
        if "version" in j and set(j) <= set(MANIFEST_KEYS):
            ok = (all(isinstance(j.get(k, 0), int) and not isinstance(j.get(k, 0), bool) for k in ("version", "deployment_count"))
                  and all(isinstance(j.get(k, ""), str) for k in ("timestamp", "namespace"))
                  and isinstance(j.get("encrypted", False), bool))
            if ok:
                return sym_manifest(j)
    if pw is not None:
        for k in range(len(calls) // 2):
            salt, nonce = calls[2 * k], calls[2 * k + 1]
            if len(salt) + len(nonce) > 0 and data.startswith(salt + nonce):
                plain = I.open_ct(pw, salt, nonce, data[len(salt) + len(nonce):])
                if plain is not None:
                    try:
                        obj = yload(I, plain)
                    except Exception:
                        break
                    return sym_blob(pw, salt, nonce, [1, toks.find(obj)])
    try:
        obj = yload(I, data)
    except Exception:
        return [7] + list(data)
    return [1, toks.find(obj)]


def show_members(ms: list[tuple[str, list[int]]]) -> str:
    return " ".join(cps(n) + "=" + nats(b) for n, b in ms)


def show_contents(contents: Any, toks: Tokens) -> str:
    m = contents.manifest
    ents = []
    for e in contents.entries:
        ents.append(":".join([cps(e.name), str(toks.find(e.cr)), "-" if e.secret is None else str(toks.find(e.secret)),
                              "-" if e.generation is None else str(e.generation) if type(e.generation) is int else "?" + repr(e.generation)]))
    return (f"ok v={m.version} ts={cps(m.timestamp)} ns={cps(m.namespace)} n={m.deployment_count} "
            f"enc={'1' if m.encrypted else '0'} entries=" + ";".join(ents))


def names_wf(I: Impl, case: dict) -> bool:
    ns = [eff_name(d) for d in case["deps"]]
    return len(set(ns)) == len(ns) and all(I.dns.match(n) and not n.endswith("\n") for n in ns)


def run_backup(I: Impl, case: dict, out: Outcome, ops: list[str], impl: list[str], ctx: list[Any]) -> None:
    deps, secrets, gens = build_inputs(case)
    toks = Tokens()
    for cr in deps:
        toks.tok(cr)
    for k in sorted(secrets):
        toks.tok(secrets[k])
    pw = case["pw"]
    script = ScriptedOS(case.get("rnd_seed", 0), case.get("rnd_mode", "hash"))
    wf = names_wf(I, case)
    out.evaluations += 1
    out.count("backup:" + ("wf" if wf else "illformed"))
    out.count("pw:" + pw_class(pw))
    out.count(f"deps:{len(deps)}")
    for b in case.get("big") or []:
        out.count(f"big:{b['at']}:{b['shape']}:{size_class(int(b['bytes']))}")
    try:
        data = I.with_urandom(script, lambda: I.archive.create_backup_archive(
            [json.loads(json.dumps(c)) for c in deps], {k: dict(v) for k, v in secrets.items()}, case["ns"], case["ts"], pw,
            None if gens is None else dict(gens)))
        real_members = untar(data)
        err = None
    except Exception as e:  # the writer is not expected to raise
        data, real_members, err = b"", [], "raise:" + type(e).__name__
    calls = script.calls
    rnd = ";".join(nats(calls[2 * k]) + ":" + nats(calls[2 * k + 1]) for k in range(len(calls) // 2))
    dep_field = ";".join(opt(None if (d["name"] is None or not d.get("meta", True)) else cps(d["name"])) + ":" + str(toks.find(cr))
                         for d, cr in zip(case["deps"], deps))
    sec_field = ";".join(cps(k) + ":" + str(toks.find(v)) for k, v in secrets.items())
    gen_field = "-" if gens is None else "=" + ";".join(cps(k) + ":" + str(v) for k, v in gens.items())
    ops.append("|".join(["write", pw_field(pw), rnd, cps(case["ts"]), cps(case["ns"]), gen_field, sec_field, dep_field]))
    ctx.append(case)
    sym_members = [(n, sym_of_real(I, b, pw, calls, toks)) for n, b in real_members]
    if real_members:
        out.count("largest_member:" + size_class(max(len(b) for _n, b in real_members)))
    impl.append(err if err is not None else show_members(sym_members))
    if err is not None:
        out.violations.append(Violation(f"C33/writer_raises[{err}]", f"create_backup_archive raised {err}", case))
        return
    # ---- reads
    results: dict[str, Any] = {}
    for rpw in case["read_pws"]:
        ops.append("|".join(["read", pw_field(rpw), show_members(sym_members)]))
        ctx.append(case)
        try:
            r = I.archive.read_backup_archive(data, rpw)
            impl.append(show_contents(r, toks))
            results[repr(rpw)] = ("ok", r)
        except Exception as e:
            kind = I.classify_exc(e)
            impl.append("err " + kind)
            results[repr(rpw)] = ("err", kind)
        out.count("read:" + ("same" if rpw == pw else "other") + ":" + results[repr(rpw)][0])
    if len(deps) > 0 and (secrets or gens):
        out.nontrivial(("backup", canon(case)))
    # ---- monitors (S): the property stated on the real code's observable behaviour
    if wf:
        monitor_backup(I, case, deps, secrets, gens, data, real_members, results, out, calls)


def expected_entries(case: dict, deps: list[dict], secrets: dict, gens: dict | None) -> list[tuple]:
    res = []
    for d, cr in zip(case["deps"], deps):
        n = eff_name(d)
        res.append((n, canon(cr), None if n not in secrets else canon(secrets[n]), None if not gens or n not in gens else gens[n]))
    return res


def secret_markers(secrets: dict, used: set[str]) -> list[bytes]:
    ms = []
    for n, m in secrets.items():
        if n not in used:
            continue
        for v in m.values():
            if isinstance(v, str) and v.startswith("S3CR3T") and len(v) >= 12:
                ms.append(v.encode())
    return ms


def _serialisations(I: Impl, x: Any, fmt: str) -> list[bytes]:
    """faithful byte serialisations of x that a writer could plausibly have meant to store (only used to *classify* a
    stored member that does not hold x: is it the beginning of one of them?)"""
    res: list[bytes] = []
    try:
        if fmt == "yaml":
            for au in (False, True):
                for fs in (False, None):
                    t = I.yaml.dump(x, default_flow_style=fs, allow_unicode=au)
                    for enc in ("utf-8", "utf-16"):
                        res.append(t.encode(enc, "surrogatepass"))
        else:
            for ea in (True, False):
                for ind in (None, 2):
                    res.append(json.dumps(x, indent=ind, ensure_ascii=ea).encode("utf-8", "surrogatepass"))
    except Exception:
        pass
    return res


def stored_diagnosis(I: Impl, case: dict, deps: list[dict], secrets: dict, gens: dict | None,
                     real_members: list[tuple[str, bytes]], calls: list[bytes]) -> list[tuple[str, str, str, str]]:
    """Independent look at the archive itself (tarfile + PyYAML/json + the stand-in cipher called directly, not
    read_backup_archive): which stored member does not hold the piece of the input it is named after?
    -> [(member name, piece, verdict, human detail)], verdict in missing | unreadable | differs | truncated."""
    pw = case["pw"]
    by_name: dict[str, bytes] = {}
    for n, b in real_members:
        by_name.setdefault(n, b)
    bad: list[tuple[str, str, str, str]] = []

    def check(member: str, piece: str, b: bytes | None, x: Any, fmt: str) -> None:
        if b is None:
            bad.append((member, piece, "missing", f"no member {member!r} in the archive"))
            return
        try:
            obj = yload(I, b) if fmt == "yaml" else json.loads(b)
            verdict = "ok" if canon(obj) == canon(x) else "differs"
            shown = f"loads as {obj!r:.160}"
        except Exception as e:
            verdict, shown = "unreadable", f"does not load ({type(e).__name__})"
        if verdict == "ok":
            return
        cut = [len(s) - len(b) for s in _serialisations(I, x, fmt) if len(s) > len(b) and s.startswith(b)]
        if cut:
            verdict = "truncated"
            shown += f"; it is the first {len(b)} bytes of a {len(b) + min(cut)}-byte serialisation of the input ({min(cut)} bytes cut off)"
        bad.append((member, piece, verdict, f"member {member!r} holds {len(b)} bytes ending {b[-48:]!r} and {shown}; backed up: {x!r:.160}"))

    for d, cr in zip(case["deps"], deps):
        n = eff_name(d)
        check(n + ".yaml", "cr", by_name.get(n + ".yaml"), cr, "yaml")
        if n in secrets:
            if pw is None:
                check(n + ".secret.yaml", "secret", by_name.get(n + ".secret.yaml"), secrets[n], "yaml")
            else:
                blob = by_name.get(n + ".secret.enc")
                plain = None
                if blob is not None:
                    for k in range(len(calls) // 2):
                        salt, nonce = calls[2 * k], calls[2 * k + 1]
                        if len(salt) + len(nonce) > 0 and blob.startswith(salt + nonce):
                            plain = I.open_ct(pw, salt, nonce, blob[len(salt) + len(nonce):])
                            if plain is not None:
                                break
                if blob is not None and plain is None:
                    bad.append((n + ".secret.enc", "secret", "unreadable",
                                f"member {n + '.secret.enc'!r} ({len(blob)} bytes) does not open under the writer's password with any (salt, nonce) the writer drew"))
                else:
                    check(n + ".secret.enc", "secret", plain, secrets[n], "yaml")
        if gens and n in gens:
            check(n + ".meta.json", "generation", by_name.get(n + ".meta.json"), {"generation": gens[n]}, "json")
    return bad


def _brief(entry: tuple) -> tuple:
    return tuple(x if not isinstance(x, str) or len(x) <= 200 else x[:110] + f"...<{len(x)} characters>..." + x[-50:] for x in entry)


def monitor_backup(I: Impl, case: dict, deps: list[dict], secrets: dict, gens: dict | None, data: bytes,
                   real_members: list[tuple[str, bytes]], results: dict[str, Any], out: Outcome,
                   calls: list[bytes] | None = None) -> None:
    pw = case["pw"]
    pc = pw_class(pw)
    exp = expected_entries(case, deps, secrets, gens)
    used = {e[0] for e in exp}
    has_secret = any(e[2] is not None for e in exp)
    # what the archive itself holds (classifying facts for M1; not a rule of its own: the property is about what is restored)
    try:
        stored_bad = stored_diagnosis(I, case, deps, secrets, gens, real_members, calls or [])
    except Exception as e:
        stored_bad = [("?", "?", "undiagnosed", f"diagnosis failed: {type(e).__name__}: {e}")]
    for _m, piece, verdict, _d in stored_bad:
        out.count(f"stored:{piece}:{verdict}")

    def stored_fact(pieces: tuple[str, ...]) -> tuple[str, str]:
        for _m, piece, verdict, detail in stored_bad:
            if piece in pieces or piece == "?":
                return f",stored={piece}:{verdict}", " -- in the archive: " + detail
        return "", ""

    # M1 round trip under the writer's password
    kind, r = results.get(repr(pw), ("missing", None))
    if kind != "ok":
        fact, detail = stored_fact(("cr", "secret", "generation"))
        largest = max((len(b) for _n, b in real_members), default=0)
        if largest >= 64 * KIB:
            fact += f",member={size_class(largest)}"
            detail += f" (largest member: {largest} bytes)"
        out.violations.append(Violation(f"C33/roundtrip[read_fails:{r},pw={pc}{fact}]",
                                        f"archive written with password class {pc} cannot be read back with the same password: {r}{detail}", case))
    else:
        got = [(e.name, canon(e.cr), None if e.secret is None else canon(e.secret), canon(e.generation) if e.generation is not None else None)
               for e in r.entries]
        exp = [(a, b, c, canon(d) if d is not None else None) for a, b, c, d in exp]
        # "under the same names": the order of the entries is left to the correspondence, not enforced here
        got, exp = sorted(got, key=repr), sorted(exp, key=repr)
        if got != exp:
            what = ("entry_count" if len(got) != len(exp) else
                    "names" if [g[0] for g in got] != [x[0] for x in exp] else
                    "resource" if [g[1] for g in got] != [x[1] for x in exp] else
                    "secret" if [g[2] for g in got] != [x[2] for x in exp] else "generation")
            fact, detail = stored_fact({"resource": ("cr",), "secret": ("secret",), "generation": ("generation",)}.get(what, ("cr", "secret", "generation")))
            # classifying facts, all from the inputs and an independent look at the archive: which deployments are affected,
            # is the piece gone or different, how large are the members those deployments were stored in
            gd, xd = {g[0]: g for g in got}, {x[0]: x for x in exp}
            affected = sorted(n for n in set(gd) | set(xd) if gd.get(n) != xd.get(n))
            mine = [(m, len(b)) for m, b in real_members if any(m.startswith(n + ".") for n in affected)]
            largest = max((sz for _m, sz in mine), default=0)
            if not detail and not any(v[0] == "?" for v in stored_bad):
                fact += ",stored=intact"
                detail = (" -- the archive itself holds every backed-up piece intact (independent look with tarfile + PyYAML/json"
                          + ("" if pw is None else " + the stand-in cipher") + "); members of the affected deployment(s): "
                          + ", ".join(f"{m}={sz} bytes" for m, sz in mine[:8]))
            if what == "entry_count":
                fact += ",restored=" + ("fewer" if len(got) < len(exp) else "more")
            elif what in ("secret", "generation"):
                k = 2 if what == "secret" else 3
                if any(n in gd and n in xd and gd[n][k] is None and xd[n][k] is not None for n in affected):
                    fact += ",restored=none"
            if largest >= 64 * KIB:
                fact += f",member={size_class(largest)}"
            if len(got) != len(exp):
                diff = ([g[0] for g in got], [x[0] for x in exp])
            else:
                diff = next(((_brief(g), _brief(x)) for g, x in zip(got, exp) if g != x), (got, exp))
            out.violations.append(Violation(f"C33/roundtrip[{what},pw={pc}{fact}]",
                                            f"restored entries differ from what was backed up ({what}): got {diff[0]!r:.600} expected {diff[1]!r:.600}{detail}", case))
        m = r.manifest
        if (m.namespace, m.timestamp, m.deployment_count, m.version) != (case["ns"], case["ts"], len(deps), 1):
            out.violations.append(Violation(f"C33/roundtrip[manifest,pw={pc}]", f"manifest fields not restored: {m!r}", case))
    try:
        manifest = json.loads(dict(real_members)["manifest.json"])
    except Exception:
        manifest = {}
    flag = manifest.get("encrypted")
    # M2 a different password never yields a secret (of an archive that is, or claims to be, encrypted)
    if pw is not None:
        for rpw in case["read_pws"]:
            if rpw == pw:
                continue
            kind, r = results[repr(rpw)]
            rc = pw_class(rpw)
            if kind == "ok" and (pw != "" or flag is True):
                leaked = [e.name for e in r.entries if e.secret is not None]
                if leaked:
                    out.violations.append(Violation(
                        f"C33/wrong_password_reads_secret[pw={pc},reader={rc}]",
                        f"archive written with password {pw!r} restored secrets of {leaked} under password {rpw!r}", case))
    # M3 clear-text scan and manifest flag
    markers = secret_markers(secrets, used)
    clear = [mk for mk in markers if any(mk in b for _n, b in real_members)]
    if clear and flag is True:
        out.violations.append(Violation(f"C33/cleartext_secret_in_encrypted_archive[pw={pc}]",
                                        f"manifest says encrypted but secret value {clear[0]!r} is stored in clear", case))
    elif clear and pw:
        out.violations.append(Violation(f"C33/secret_not_encrypted[pw={pc}]",
                                        f"a password was given but secret value {clear[0]!r} is stored in clear", case))
    if markers and pw is None and not clear:
        out.violations.append(Violation("C33/monitor_self_check", "marker scan found no clear-text secret in an unencrypted archive", case))
    if (pw and has_secret and flag is not True) or (pw is None and flag is not False):
        out.violations.append(Violation(f"C33/manifest_flag[pw={pc},flag={flag}]",
                                        "manifest.encrypted does not say whether the stored secrets are encrypted", case))
    # M4 structure: nothing collides, nothing is dropped
    names = [n for n, _ in real_members]
    want = 1 + sum(1 + (e[2] is not None) + (e[3] is not None) for e in exp)
    if len(set(names)) != len(names) or len(names) != want:
        out.violations.append(Violation(f"C33/members[{'collision' if len(set(names)) != len(names) else 'count'}]",
                                        f"{len(names)} members {names!r:.200}, expected {want} distinct", case))
    # M5 randomness: one (salt, nonce) draw per encrypted member, used in archive order, never shared between members
    if calls is not None:
        enc = [(n, b) for n, b in real_members if n.endswith(".secret.enc")]
        n_sec = sum(1 for e in exp if e[2] is not None)
        want_calls = 2 * n_sec if pw is not None else 0
        if len(calls) != want_calls:
            out.violations.append(Violation(f"C33/draws[count,pw={pc}]",
                                            f"os.urandom was called {len(calls)} times for {n_sec} secrets (expected {want_calls})", case))
        else:
            heads = [b[:len(calls[2 * i]) + len(calls[2 * i + 1])] for i, (_n, b) in enumerate(enc)]
            if any(h != calls[2 * i] + calls[2 * i + 1] for i, h in enumerate(heads)):
                out.violations.append(Violation(f"C33/draws[order,pw={pc}]",
                                                "the i-th encrypted member does not start with the i-th (salt, nonce) drawn", case))
            elif case.get("rnd_mode", "hash") == "hash" and len(set(heads)) != len(heads):
                out.violations.append(Violation(f"C33/draws[shared,pw={pc}]",
                                                f"two encrypted members of one archive share salt and nonce: {[n for n, _ in enc]!r:.200}", case))
            out.count(f"draws:{len(enc)}")


def monitor_decomposition(I: Impl, case: dict, out: Outcome) -> None:
    """classification, observed on the real code only: each piece of one deployment, archived alone next to
    its resource, comes back as exactly that piece"""
    deps, secrets, gens = build_inputs(case)
    pw = case["pw"]
    for d, cr in zip(case["deps"], deps):
        n = eff_name(d)
        pieces = [("cr", {}, None)]
        if n in secrets:
            pieces.append(("secret", {n: secrets[n]}, None))
        if gens and n in gens:
            pieces.append(("generation", {}, {n: gens[n]}))
        for what, s, g in pieces:
            script = ScriptedOS(case.get("rnd_seed", 0) + 1)
            try:
                data = I.with_urandom(script, lambda: I.archive.create_backup_archive([json.loads(json.dumps(cr))], s, case["ns"], case["ts"], pw, g))
                r = I.archive.read_backup_archive(data, pw)
                got = [(e.name, canon(e.cr), None if e.secret is None else canon(e.secret), e.generation) for e in r.entries]
            except Exception as e:
                got = ["raise:" + type(e).__name__]
            exp = [(n, canon(cr), canon(s[n]) if s else None, g[n] if g else None)]
            out.evaluations += 1
            if got != exp:
                out.violations.append(Violation(f"C33/classification[{what},pw={pw_class(pw)}]",
                                                f"deployment {n!r} archived with only its {what}: restored {got!r:.200}, expected {exp!r:.200}", case))
                return


# --------------------------------------------------------------------------
# hostile archives: the reader alone


def payload_bytes(I: Impl, p: dict, toks: Tokens) -> tuple[bytes, list[int]]:
    t = p["t"]
    if t == "yaml":
        return I.yaml.dump(p["obj"], default_flow_style=False).encode(), [1, toks.tok(p["obj"])]
    if t == "rawyaml":  # YAML text that loads as something not JSON-like (None / int / date keys, dates, sets)
        return p["text"].encode(), [1, toks.tok(I.yaml.safe_load(p["text"]))]
    if t == "manifest":
        return json.dumps(p["fields"], indent=2).encode(), sym_manifest(p["fields"])
    if t == "meta":
        return json.dumps({} if p["gen"] is None else {"generation": p["gen"]}).encode(), sym_meta(p["gen"])
    if t == "junk":
        return b"{\x00\x01", [9, 0, 1]
    if t == "enc":
        salt, nonce = bytes(p["salt"]), bytes(p["nonce"])
        if p.get("plain") == "junk":
            plain, sym_plain = b"{\x00\x01", [9, 0, 1]
        else:
            plain, sym_plain = I.yaml.dump(p["obj"], default_flow_style=False).encode(), [1, toks.tok(p["obj"])]
        real = bytearray(I.blob(p["pw"], salt, nonce, plain))
        sym = sym_blob(p["pw"], salt, nonce, sym_plain)
        head = len(salt) + len(nonce)
        tam = p.get("tamper")
        if tam:
            if tam[0] == "flip_head" and head:
                i = tam[1] % head
                real[i] ^= 0xFF
                sym[i] = (sym[i] ^ 0xFF)
            elif tam[0] == "flip_ct":
                real[head + tam[1] % (len(real) - head)] ^= 0x01
                j = head + tam[1] % (len(sym) - head)
                sym[j] = sym[j] + 1
            elif tam[0] == "trunc_to":
                real, sym = real[:tam[1]], sym[:tam[1]]
            elif tam[0] == "trunc_by":
                real, sym = real[:len(real) - tam[1]], sym[:len(sym) - tam[1]]
        return bytes(real), list(sym)
    raise ValueError(t)


def run_hostile(I: Impl, case: dict, out: Outcome, ops: list[str], impl: list[str], ctx: list[Any]) -> None:
    toks = Tokens()
    buf = io.BytesIO()
    sym_members = []
    plain_members: list[tuple[str, dict]] = []
    with tarfile.open(fileobj=buf, mode="w:gz") as tar:
        for m in case["members"]:
            if m.get("dir"):
                info = tarfile.TarInfo(name=m["name"])
                info.type = tarfile.DIRTYPE
                tar.addfile(info)
                continue
            if m.get("link"):  # not a regular file: symbolic / hard link, fifo, character device -- the reader passes over it
                info = tarfile.TarInfo(name=m["name"])
                info.type = {"sym": tarfile.SYMTYPE, "hard": tarfile.LNKTYPE, "fifo": tarfile.FIFOTYPE, "chr": tarfile.CHRTYPE}[m["link"]]
                info.linkname = m.get("target", "manifest.json")
                tar.addfile(info)
                out.count("hostile:member:" + m["link"])
                continue
            real, sym = payload_bytes(I, m["payload"], toks)
            info = tarfile.TarInfo(name=m["name"])
            if m.get("type"):  # the two other type flags tarfile counts as regular files
                info.type = {"areg": tarfile.AREGTYPE, "cont": tarfile.CONTTYPE}[m["type"]]
                out.count("hostile:member:" + m["type"])
            info.size = len(real)
            tar.addfile(info, io.BytesIO(real))
            sym_members.append((m["name"], sym))
            plain_members.append((m["name"], m["payload"]))
    out.evaluations += 1
    out.count("hostile")
    ops.append("|".join(["read", pw_field(case["rpw"]), show_members(sym_members)]))
    ctx.append(case)
    try:
        r = I.archive.read_backup_archive(buf.getvalue(), case["rpw"])
        impl.append(show_contents(r, toks))
        out.count("hostile:ok")
        out.nontrivial(("hostile", canon(case)))
    except Exception as e:
        kind = I.classify_exc(e)
        impl.append("err " + kind)
        out.count("hostile:" + kind)
        r = None
    monitor_hostile(case, plain_members, r, out)


def _intact_enc(p: dict) -> bool:
    return p.get("t") == "enc" and not p.get("tamper") and len(p.get("salt", [])) == 16 and len(p.get("nonce", [])) == 12


def monitor_hostile(case: dict, members: list[tuple[str, dict]], r: Any, out: Outcome) -> None:
    """the reader on an archive nobody's writer produced, stated on the real reader's result alone (member names are looked at
    with str.endswith here, not with the model): an encrypted secret sealed under another password makes the read fail; a
    successful read has distinct entry names in order of first appearance, and every entry carries the LAST resource / secret /
    generation member of its name."""
    rpw = case["rpw"]
    sealed_other = [n for n, p in members if n.endswith(".secret.enc") and _intact_enc(p) and p["pw"] != rpw]
    if r is not None and sealed_other:
        out.violations.append(Violation(
            f"C33/any_archive_wrong_password_reads[reader={pw_class(rpw)}]",
            f"the archive holds {sealed_other[0]!r}, sealed under another password than the reader's {rpw!r}, and was read: "
            f"{[(e.name, e.secret) for e in r.entries]!r:.200}", case))
        return
    if r is None:
        return
    def kind_of(n: str) -> tuple[str, str] | None:
        if n == "manifest.json":
            return None
        for suf, k in ((".secret.enc", "secret"), (".meta.json", "generation"), (".secret.yaml", "secret"), (".yaml", "cr")):
            if n.endswith(suf):
                return k, n[:-len(suf)]
        return None
    order: list[str] = []
    last: dict[tuple[str, str], dict] = {}
    for n, p in members:
        kd = kind_of(n)
        if kd is None:
            continue
        if kd[0] == "cr" and kd[1] not in order:
            order.append(kd[1])
        last[kd] = p
    def val(p: dict | None, k: str) -> Any:
        if p is None:
            return None
        if p["t"] in ("yaml", "enc"):
            return p.get("obj")
        if p["t"] == "meta":
            return p["gen"]
        return ("?", p["t"])  # rawyaml / junk / manifest-as-yaml: not compared
    got_names = [e.name for e in r.entries]
    what = None
    if len(set(got_names)) != len(got_names):
        what, text = "duplicate_names", f"entry names {got_names!r:.200}"
    elif got_names != order:
        what, text = "names", f"entries {got_names!r:.200}, resource members name {order!r:.200} (first appearance)"
    else:
        for e in r.entries:
            for k, have in (("cr", e.cr), ("secret", e.secret), ("generation", e.generation)):
                want = val(last.get((k, e.name)), k)
                if isinstance(want, tuple):
                    continue
                if canon(have) != canon(want):
                    what, text = "last_" + k, f"entry {e.name!r} has {k} {have!r:.120}; the last {k} member of that name holds {want!r:.120}"
                    break
            if what:
                break
    out.count("hostile:spec:" + (what or "ok"))
    if what:
        out.violations.append(Violation(f"C33/reader_spec[{what}]", "reading a hand-made archive: " + text, case))


# --------------------------------------------------------------------------
# encryption.py framing alone


def run_blob(I: Impl, case: dict, out: Outcome, ops: list[str], impl: list[str], ctx: list[Any]) -> None:
    pw, m = case["pw"], bytes(case["m"])
    script = ScriptedOS(case.get("rnd_seed", 0), case.get("rnd_mode", "hash"))
    out.evaluations += 1
    out.count("blob:" + case["op"])
    # encrypt: real framing with scripted randomness, canonicalised through the shim called directly
    try:
        blob = I.with_urandom(script, lambda: I.encryption.encrypt(m, pw))
    except Exception as e:
        blob = None
        enc_out = "raise:" + type(e).__name__
    calls = script.calls
    salt = calls[0] if len(calls) > 0 else b""
    nonce = calls[1] if len(calls) > 1 else b""
    if blob is not None:
        if blob.startswith(salt + nonce) and (plain := I.open_ct(pw, salt, nonce, blob[len(salt) + len(nonce):])) is not None:
            enc_out = nats(sym_blob(pw, salt, nonce, list(plain)))
        else:
            enc_out = "raw " + nats(blob)
    ops.append("|".join(["enc", nats(pw.encode("utf-8")), nats(salt), nats(nonce), nats(m)]))
    ctx.append(case)
    impl.append(enc_out)
    if blob is None:
        return
    # monitor: decrypt(encrypt(m)) == m on the real framing
    try:
        back = I.encryption.decrypt(blob, pw)
    except Exception as e:
        back = "raise:" + type(e).__name__
    if back != m:
        out.violations.append(Violation("C33/framing_roundtrip", f"decrypt(encrypt(m, pw), pw) = {back!r:.80} for m = {m!r:.80}", case))
    # decrypt of an independently built, possibly damaged blob under a possibly different password
    real = bytearray(I.blob(pw, salt, nonce, m)) if case["op"] != "junk" else bytearray(case["junk"])
    sym = sym_blob(pw, salt, nonce, list(m)) if case["op"] != "junk" else list(case["junk"])
    rpw = case.get("rpw", pw)
    if case["op"] == "flip" and len(real):
        i = case["i"] % len(real)
        real[i] ^= (case.get("bit", 0xFF) or 1)
        sym[i] = sym[i] + 1 if i >= len(salt) + len(nonce) + len(m) else sym[i] ^ (case.get("bit", 0xFF) or 1)
    elif case["op"] == "trunc":
        real, sym = real[:case["k"]], sym[:case["k"]]
    ops.append("|".join(["dec", nats(rpw.encode("utf-8")), nats(sym)]))
    ctx.append(case)
    try:
        res = I.encryption.decrypt(bytes(real), rpw)
        impl.append("ok " + nats(res))
        ok = True
    except Exception as e:
        impl.append("err " + I.classify_exc(e))
        ok = False
    out.count("dec:" + ("ok" if ok else impl[-1][4:]))
    damaged = case["op"] in ("flip", "trunc", "junk") and bytes(real) != bytes(I.blob(pw, salt, nonce, m))
    if ok and (rpw != pw or damaged):
        out.violations.append(Violation(f"C33/decrypt_accepts[{'wrong_password' if rpw != pw else case['op']}]",
                                        f"decrypt returned {res!r:.60} for a blob that is not encrypt(m, that password)", case))
    if ok:
        out.nontrivial(("blob", canon(case)))


# --------------------------------------------------------------------------
# generators


NAME_POOL = ["web", "api", "db", "a", "z9", "app-1", "my-secret", "secret", "x-secret", "meta", "x-meta", "yaml", "x-yaml",
             "json", "enc", "manifest", "manifest-json", "unknown", "a" * 63, "a" + "-" * 61 + "b", "a" + "0" * 62, "x" * 62 + "y",
             "secret-yaml", "meta-json", "secret-enc", "x", "x-secret-enc", "x-meta-json", "n0-0n"]
BAD_NAMES = ["x.secret", "x.meta", "a.b", "App", "-a", "a-", "1a", "", "a" * 64, "x.secret.yaml", "manifest.json", "dir/app",
             "über", "a b", "x.yaml", "naïve-app", "a.meta.json", "x.secret.enc", "日本"]
STR_POOL = ["", "yes", "no", "null", "~", "123", "1e3", "0x1f", "2001-12-14", "a: b", "- x", "#c", "'q'", '"dq"', "multi\nline\n",
            " lead", "trail ", "tab\there", "ünï©ødé", "日本語", "🚀 rocket", "\x00\x01\x7f", "\x85  ", "﻿bom", "a" * 300,
            "=", "<<", "!!str x", "%TAG", "&anchor", "*alias", "? key", "|", ">", "@at", "`tick", "{x}", "[y]", ", comma"]
PW_POOL = [None, "", "pw", "correct horse battery staple", "pässwörd-日本-🚀", "p" * 5000, " ", "\x00", "0", "None", "False"]


def gen_str(rng: Any) -> str:
    m = rng.random()
    if m < 0.5:
        return rng.choice(STR_POOL)
    n = rng.randint(0, 12)
    return "".join(chr(rng.choice([rng.randint(0, 0x7f), rng.randint(0x80, 0x24f), rng.randint(0x370, 0x3ff), rng.randint(0x4e00, 0x4eff),
                                   rng.randint(0x1f600, 0x1f64f), rng.choice([0, 9, 10, 13, 0x85, 0x2028, 0xfeff, 0xfffe, 0xffff, 0x7f, 0xe000])]))
                   for _ in range(n))


def gen_value(rng: Any, depth: int = 0) -> Any:
    m = rng.random()
    if depth >= 3 or m < 0.45:
        k = rng.random()
        if k < 0.5:
            return gen_str(rng)
        if k < 0.7:
            return rng.choice([0, 1, -1, 7, 2 ** 31, -2 ** 63, 10 ** 20, 600000])
        if k < 0.8:
            return rng.choice([0.5, -1.25, 1e-7, 1e22, 3.14159, 0.0, -0.0, 100.0])
        if k < 0.92:
            return rng.choice([True, False])
        return None
    if m < 0.7:
        return [gen_value(rng, depth + 1) for _ in range(rng.randint(0, 3))]
    return {(gen_str(rng) if rng.random() < 0.3 else rng.choice(["image", "env", "replicas", "projectId", "repoUrl", "k", "on", "1"])):
            gen_value(rng, depth + 1) for _ in range(rng.randint(0, 4))}


def gen_secret_map(rng: Any, idx: int) -> dict:
    m: dict[str, str] = {}
    if rng.random() < 0.12:
        return m
    m["API_KEY"] = "S3CR3T%06dx%04d" % (rng.randrange(10 ** 6), idx)
    for _ in range(rng.randint(0, 3)):
        m[rng.choice(["TOKEN", "db.password", "cert_pem", "k-%d" % rng.randrange(9), gen_str(rng) or "e"])] = gen_str(rng)
    return m


def gen_backup(rng: Any, wf: bool = True) -> dict:
    n = rng.choice([0, 1, 1, 2, 2, 3, 3, 4, 5])
    names: list[Any] = []
    pool = list(NAME_POOL)
    rng.shuffle(pool)
    for i in range(n):
        r = rng.random()
        if not wf and r < 0.45:
            names.append(rng.choice(BAD_NAMES + ([names[0]] if names and names[0] is not None else [])))
        elif r < 0.08 and "unknown" not in names and None not in names:
            names.append(None)
        elif r < 0.3:
            k = rng.choice([1, 2, 3, 10, 30, 62, 63])
            s = rng.choice("abcxyz") + "".join(rng.choice("abcz09-") for _ in range(max(0, k - 2))) + (rng.choice("abz059") if k > 1 else "")
            names.append(s)
        else:
            names.append(pool.pop())
    if wf:  # distinct effective names
        seen: set[str] = set()
        uniq = []
        for x in names:
            e = "unknown" if x is None else x
            if e not in seen:
                seen.add(e)
                uniq.append(x)
        names = uniq
    deps = []
    for x in names:
        d: dict[str, Any] = {"name": x, "spec": gen_value(rng, 1) if rng.random() < 0.8 else {"image": "registry/%s:latest" % x}}
        if x is None and rng.random() < 0.5:
            d["meta"] = False
        if rng.random() < 0.2:
            d["labels"] = {"app": gen_str(rng)}
        if rng.random() < 0.2:  # free text a user typed: display name / description
            d["annotations"] = {rng.choice(["deploy.llamaindex.ai/display-name", "description"]): gen_str(rng)}
        deps.append(d)
    secrets = {}
    for i, d in enumerate(deps):
        if rng.random() < 0.6:
            secrets[eff_name(d)] = gen_secret_map(rng, i)
    if rng.random() < 0.25:
        secrets[rng.choice(["ghost", "web-secrets", "x"])] = gen_secret_map(rng, 99)
    gm = rng.random()
    gens: Any
    if gm < 0.2:
        gens = None
    elif gm < 0.3:
        gens = {}
    else:
        gens = {eff_name(d): rng.choice([0, 1, 2, 3, 4, 17, 2 ** 40, -1]) for d in deps if rng.random() < 0.6}
        if rng.random() < 0.2:
            gens["ghost"] = 9
    pw = rng.choice(PW_POOL) if rng.random() < 0.8 else gen_str(rng)
    others = [p for p in rng.sample(PW_POOL, 3) if p != pw]
    if pw:
        others.append(pw + "x" if rng.random() < 0.5 else pw[:-1])
    read_pws = [pw] + [p for i, p in enumerate(others) if p not in others[:i]][:3]
    return {"kind": "backup", "deps": deps, "secrets": secrets, "gens": gens, "ns": rng.choice(["default", "llama", gen_str(rng)]),
            "ts": rng.choice(["2025-01-01T00:00:00+00:00", gen_str(rng)]), "pw": pw, "read_pws": read_pws,
            "rnd_seed": rng.randrange(10 ** 6), "rnd_mode": rng.choice(["hash"] * 8 + ["zero", "ff"])}


# ---- large members

FIXED_SIZES = [64 * KIB, MIB, 2 * MIB]
MAX_BIG = 4 * MIB  # nothing larger is built (a size constant beyond this is noted, not chased)
NONASCII_BYTES = {"latin": 2, "cjk": 3, "emoji": 4}
INFLATING = ["latin", "cjk", "emoji", "mixed", "pem"]  # shapes whose YAML form is larger than their data


def member_overhead(I: Impl, shape: str, encrypted: bool) -> int:
    """bytes the stored member has beyond the data of a one-key secret {"BIG": <shape text>} for non-inflating shapes
    (measured with PyYAML on a short sample, not assumed), plus the framing of an encrypted member"""
    probe = big_text(shape, 4096, 0)
    over = len(I.yaml.dump({"BIG": probe}, default_flow_style=False).encode()) - len(probe.encode())
    if encrypted:
        e = I.gen["e"]
        over += e["saltLength"] + e["nonceLength"] + e["tagLength"]
    return over


def big_sizes(rng: Any, hints: list[int]) -> int:
    """one data size: around a fixed mark, around a size constant of the source, or a fraction of one (for inflating shapes)"""
    marks = FIXED_SIZES + [h for h in hints if h <= MAX_BIG] * 3
    c = rng.choice(marks)
    r = rng.random()
    if r < 0.3:
        return max(1, c + rng.choice([-1, 0, 1, 2, -2, 7, -44, 44, -45, 45]))
    if r < 0.65:
        return max(1, c + rng.randint(-c // 16, c // 16))
    if r < 0.85:
        return max(1, rng.randint(c // 4, c))  # below the mark: only the inflated YAML form can be above it
    return min(MAX_BIG, rng.randint(c, 2 * c))


def gen_big_backup(rng: Any, hints: list[int]) -> dict:
    c = gen_backup(rng, wf=True)
    while not c["deps"]:
        c = gen_backup(rng, wf=True)
    c["deps"] = c["deps"][:3]
    keep = {eff_name(d) for d in c["deps"]}
    c["secrets"] = {k: v for k, v in c["secrets"].items() if k in keep}
    c["read_pws"] = c["read_pws"][:2]
    big = []
    for _ in range(1 if rng.random() < 0.8 else 2):
        at = rng.choice(["secret"] * 5 + ["spec"] * 3 + ["annotation"])
        n = big_sizes(rng, hints)
        shape = rng.choice(BIG_SHAPES)
        if shape == "map" and n > MIB + MIB // 4:
            shape = "ascii"  # thousands of small YAML scalars are slow to load: keep that shape around 1 MiB and below
        if n < MIB // 2 and rng.random() < 0.5:
            shape = rng.choice(INFLATING)
        if shape in NONASCII_BYTES and any(b["shape"] in NONASCII_BYTES for b in big):
            shape = rng.choice(["pem", "ascii", "words"])
        if shape in NONASCII_BYTES:
            # PyYAML escapes / unescapes character by character (some microseconds each): at most ~300 000 such characters,
            # whose escaped form is 1.2 .. 3 MB -- the member is beyond every mark although the data is not
            n = min(n, 300_000 * NONASCII_BYTES[shape])
        if big and n > MIB:
            break
        big.append({"at": at, "dep": rng.randrange(len(c["deps"])), "key": rng.choice(["ca-bundle.crt", "NOTES", "config", "prompt", "BIG"]),
                    "shape": shape, "bytes": n, "seed": rng.randrange(1000)})
    c["big"] = big
    return c


def big_corpus(I: Impl, hints: list[int], notes: list[str]) -> list[dict]:
    """Large members that run on every run (quick tier included): the witness file, the fixed marks, and -- when the backup
    modules contain integers that could be size bounds -- members exactly at, one byte above and well above each of them."""
    def bk(deps: list[str], secrets: dict, pw: Any, read_pws: list, big: list, **kw: Any) -> dict:
        return dict({"kind": "backup", "deps": [{"name": n, "spec": {"image": f"registry/{n}:latest", "projectId": "proj-1"}} for n in deps],
                     "secrets": secrets, "gens": {n: 3 + i for i, n in enumerate(deps)}, "ns": "default", "ts": "2025-01-01T00:00:00+00:00",
                     "pw": pw, "read_pws": read_pws, "rnd_seed": 11, "big": big}, **kw)

    res = [json.load(open(_real_os.path.join(_real_os.path.dirname(_real_os.path.dirname(__file__)), "corpus", "c33_large_member.json")))["payload"]["case"]]
    res += [
        # a deployment set in which one secret holds 280 000 two-byte characters (560 KB; YAML escapes them to > 1 MiB), encrypted
        bk(["web", "gateway", "worker"], {"web": {"API_KEY": "S3CR3T000021x0000"}, "gateway": {"TOKEN": "S3CR3T000022x0001"}}, "correct horse",
           ["correct horse", "correct horsf"], [{"at": "secret", "dep": 2, "key": "NOTES", "shape": "latin", "bytes": 560000, "seed": 1}]),
        # a resource with a long prompt in its spec (1.2 MB of prose): the whole deployment must come back
        bk(["web", "agent"], {"agent": {"API_KEY": "S3CR3T000023x0001"}}, None, [None],
           [{"at": "spec", "dep": 1, "key": "systemPrompt", "shape": "words", "bytes": MIB + 150 * KIB, "seed": 2}]),
        # around 64 KiB: a secret of 64 KiB + 1 in one token, a 3-byte-character annotation of 70 KB, 200 KB of mixed
        # content (quotes, '#', tabs, blank lines, non-ASCII) in the spec, encrypted
        bk(["app"], {"app": {"API_KEY": "S3CR3T000024x0000"}}, "pw", ["pw"],
           [{"at": "secret", "dep": 0, "key": "BLOB", "shape": "ascii", "bytes": 64 * KIB + 1, "seed": 3},
            {"at": "annotation", "dep": 0, "key": "description", "shape": "cjk", "bytes": 70000, "seed": 3},
            {"at": "spec", "dep": 0, "key": "initScript", "shape": "mixed", "bytes": 200000, "seed": 3}]),
        # beyond 2 MiB: a certificate bundle of 2 MiB + 1, clear, next to a secret made of thousands of small entries (128 KiB)
        bk(["bulk", "envs"], {"bulk": {"API_KEY": "S3CR3T000025x0000"}}, None, [None],
           [{"at": "secret", "dep": 0, "key": "bundle.pem", "shape": "pem", "bytes": 2 * MIB + 1, "seed": 4},
            {"at": "secret", "dep": 1, "shape": "map", "bytes": 128 * KIB, "seed": 4}]),
    ]
    usable = [h for h in hints if h <= MAX_BIG]
    for h in hints:
        if h > MAX_BIG:
            notes.append(f"C33: size constant {h} in the backup modules is beyond the largest member this check builds ({MAX_BIG})")
    for h in usable[:3]:
        for enc in (False, True):
            over = member_overhead(I, "ascii", enc)
            for delta in ((0, 1) if not enc else (1,)):
                res.append(bk(["app"], {}, "pw" if enc else None, ["pw" if enc else None],
                              [{"at": "secret", "dep": 0, "key": "BIG", "shape": "ascii", "bytes": max(1, h + delta - over), "seed": 5}],
                              note=f"member of {h}{'+1' if delta else ''} bytes (size constant {h} found in the source)"))
        res.append(bk(["app"], {"app": {"API_KEY": "S3CR3T000026x0000"}}, None, [None],
                      [{"at": "spec", "dep": 0, "key": "config", "shape": "pem", "bytes": min(MAX_BIG, h + h // 8), "seed": 6}]))
    return res


def gen_hostile(rng: Any) -> dict:
    base = rng.choice(["web", "db", "x", "my-secret", "a.b", "dir/app", "X"])
    full_manifest = {"version": 1, "timestamp": "t", "namespace": "ns", "deployment_count": rng.randint(0, 3), "encrypted": rng.random() < 0.5}
    members = []
    mm = rng.random()
    if mm < 0.75:
        members.append({"name": "manifest.json", "payload": {"t": "manifest", "fields": full_manifest}})
    elif mm < 0.9:
        f = dict(full_manifest)
        r = rng.random()
        if r < 0.4:
            f.pop(rng.choice(MANIFEST_KEYS))
        elif r < 0.7:
            f["version"] = rng.choice([0, 2, -1, 100])
        else:
            f = {}
        members.append({"name": "manifest.json", "payload": {"t": "manifest", "fields": f}})
    elif mm < 0.95:
        members.append({"name": "manifest.json", "payload": {"t": "junk"}})
    pw = rng.choice(["pw", "", "other"])
    rpw = rng.choice([pw, pw, None, "", "zzz"])
    for _ in range(rng.randint(0, 6)):
        nm = rng.choice([base, base, "db", "web", base + "-2"])
        k = rng.random()
        junk = rng.random() < 0.08
        if k < 0.3:
            members.append({"name": nm + ".yaml", "payload": {"t": "junk"} if junk else {"t": "yaml", "obj": {"metadata": {"name": nm}, "i": rng.randint(0, 3)}}})
        elif k < 0.45:
            members.append({"name": nm + ".secret.yaml", "payload": {"t": "junk"} if junk else {"t": "yaml", "obj": {"K": "v%d" % rng.randint(0, 3)}}})
        elif k < 0.62:
            tam = rng.choice([None, None, None, ["flip_head", rng.randrange(28)], ["flip_ct", rng.randrange(64)],
                              ["trunc_to", rng.choice([0, 1, 27, 28, 43])], ["trunc_by", rng.choice([1, 2])]])
            members.append({"name": nm + ".secret.enc", "payload": {"t": "enc", "pw": pw, "obj": {"K": "e%d" % rng.randint(0, 3)},
                                                                     "salt": [rng.randrange(256) for _ in range(16)],
                                                                     "nonce": [rng.randrange(256) for _ in range(12)], "tamper": tam,
                                                                     "plain": "junk" if rng.random() < 0.06 else "yaml"}})
        elif k < 0.75:
            members.append({"name": nm + ".meta.json", "payload": {"t": "junk"} if junk else {"t": "meta", "gen": rng.choice([None, 0, 3, -2, 10 ** 12])}})
        elif k < 0.82:
            members.append({"name": rng.choice(["README.md", nm + ".yml", nm + ".json", "notes.txt", nm + ".yaml.bak", ".yaml", ".secret.yaml",
                                                 "manifest.json.bak", nm + ".secret", "sub/manifest.json"]),
                            "payload": {"t": "yaml", "obj": {"k": 1}} if rng.random() < 0.8 else {"t": "junk"}})
        elif k < 0.86:
            members.append({"name": rng.choice([nm + ".yaml", nm + ".secret.yaml", "manifest.json", "d"]), "dir": True})
        elif k < 0.88:
            members.append({"name": rng.choice([nm + ".yaml", nm + ".secret.yaml", nm + ".secret.enc", nm + ".meta.json", "manifest.json"]),
                            "link": rng.choice(["sym", "hard", "fifo", "chr"]), "target": rng.choice(["manifest.json", nm + ".yaml", "/etc/passwd"])})
        elif k < 0.94 and members:
            members.append(json.loads(json.dumps(rng.choice(members))))  # an exact duplicate member
        else:
            members.append({"name": "manifest.json", "payload": {"t": "manifest", "fields": dict(full_manifest, namespace="second")}})
    if rng.random() < 0.3:
        rng.shuffle(members)
    for m in members:
        if "payload" in m and rng.random() < 0.04:
            m["type"] = rng.choice(["areg", "cont"])
    return {"kind": "hostile", "members": members, "rpw": rpw}


def gen_blob(rng: Any) -> dict:
    pw = rng.choice([p for p in PW_POOL if p is not None])
    m = bytes(rng.randrange(256) for _ in range(rng.choice([0, 0, 1, 2, 15, 16, 17, 31, 64, 200])))
    op = rng.choice(["plain", "plain", "wrongpw", "flip", "flip", "trunc", "trunc", "junk"])
    c: dict[str, Any] = {"kind": "blob", "pw": pw, "m": list(m), "op": op, "rnd_seed": rng.randrange(10 ** 6),
                         "rnd_mode": rng.choice(["hash"] * 6 + ["zero", "ff"])}
    total = 28 + len(m) + 16
    if op == "wrongpw":
        c["rpw"] = rng.choice([p for p in PW_POOL if p is not None and p != pw] + [pw + "x"])
    elif op == "flip":
        c["i"] = rng.choice([0, 15, 16, 27, 28, total - 17, total - 16, total - 1, rng.randrange(total)])
        c["bit"] = rng.choice([1, 0x80, 0xFF])
    elif op == "trunc":
        c["k"] = rng.choice([0, 1, 16, 27, 28, 43, 44, 45, total - 1, max(0, total - 16), rng.randrange(total + 1)])
    elif op == "junk":
        c["junk"] = [rng.randrange(256) for _ in range(rng.choice([0, 1, 28, 43, 44, 45, 60, 100]))]
    return c


def corpus() -> list[dict]:
    def bk(deps: list, secrets: dict, gens: Any, pw: Any, read_pws: list, **kw: Any) -> dict:
        return dict({"kind": "backup", "deps": [{"name": n, "spec": {"image": f"r/{n}:1", "projectId": "p"}} for n in deps],
                     "secrets": secrets, "gens": gens, "ns": "default", "ts": "2025-01-01T00:00:00+00:00", "pw": pw,
                     "read_pws": read_pws, "rnd_seed": 1}, **kw)

    sec = {"API_KEY": "S3CR3T000001x0000", "multi": "line1\nline2\n", "empty": "", "uni": "ünï-日本-🚀", "bin": "\x00\x01\x7f"}
    def nonascii(pw: Any, read_pws: list, secrets: dict, ann: str | None = "Café Zürich ☕", spec: Any = None) -> dict:
        d: dict[str, Any] = {"name": "app", "spec": spec if spec is not None else
                             {"projectId": "p", "replicas": 3, "repoUrl": "https://github.com/acme/app.git"}}
        if ann is not None:
            d["annotations"] = {"deploy.llamaindex.ai/display-name": ann}
        return {"kind": "backup", "deps": [d], "secrets": secrets, "gens": {"app": 12}, "ns": "default",
                "ts": "2025-01-01T00:00:00+00:00", "pw": pw, "read_pws": read_pws, "rnd_seed": 7}

    return [
        # non-ASCII text in what is backed up (characters != UTF-8 bytes): a display name in the resource, with and without
        # encryption; an unencrypted secret whose last value / an earlier value is non-ASCII; non-ASCII in the last spec value
        nonascii(None, [None], {"app": {"API_KEY": "S3CR3T000007x0000"}}),
        nonascii("pw", ["pw", "pW"], {"app": {"API_KEY": "S3CR3T000007x0000"}}),
        nonascii(None, [None], {"app": {"API_KEY": "S3CR3T000008x0000", "PASSPHRASE": "contraseña-日本"}}, ann=None),
        nonascii(None, [None], {"app": {"A_NOTE": "日本語のメモ", "TOKEN": "S3CR3T000009x0000abcdef"}}, ann=None),
        nonascii("pw", ["pw", ""], {"app": {"A_NOTE": "日本語のメモ", "TOKEN": "S3CR3T000009x0000abcdef"}}, ann=None,
                 spec={"description": "Übersicht für Köln", "replicas": 12345}),
        # F24: the empty password
        bk(["app"], {"app": sec}, {"app": 3}, "", ["", None, "other", "pw"]),
        bk(["app"], {"app": sec}, {"app": 3}, None, [None, "", "pw"]),
        bk(["app"], {"app": sec}, {"app": 3}, "pw", ["pw", None, "", "pW", "pw "]),
        bk([], {}, None, "pw", ["pw", None, "x"]),
        bk(["web", "db"], {}, {}, "pw", ["pw", "x"]),
        # look-alike names: every suffix word as a name or a name tail
        bk(["x", "x-secret", "x-meta", "x-yaml", "secret", "meta", "yaml", "json", "enc", "manifest", "manifest-json", "unknown"],
           {n: {"API_KEY": "S3CR3T%06dx0000" % i} for i, n in enumerate(["x", "x-secret", "secret", "manifest", "unknown", "enc"])},
           {"x": 0, "x-meta": 1, "meta": 2, "json": 3, "unknown": 4}, "pässwörd-🚀", ["pässwörd-🚀", "passwörd-🚀", None]),
        bk(["a" * 63, "a" + "-" * 61 + "b"], {"a" * 63: sec}, {"a" * 63: 2 ** 40, "a" + "-" * 61 + "b": 0}, "p" * 5000, ["p" * 5000, "p" * 4999]),
        # a deployment without metadata.name is written as "unknown"
        {"kind": "backup", "deps": [{"name": None, "spec": {}, "meta": False}, {"name": "web", "spec": None}], "secrets": {"unknown": {"API_KEY": "S3CR3T999999x0001"}, "ghost": {}}, "gens": {"unknown": 1, "ghost": 2},
         "ns": "", "ts": "", "pw": "", "read_pws": ["", "a"], "rnd_seed": 2, "rnd_mode": "zero"},
        # outside the domain (correspondence only): dots, duplicates, slashes
        bk(["x", "x.secret"], {"x": {"API_KEY": "S3CR3T000002x0000"}}, {"x.secret": 1}, None, [None]),
        bk(["app", "app"], {"app": sec}, {"app": 1}, "pw", ["pw"]),
        bk(["dir/app", "a.meta.json", "manifest.json", "App", "über"], {"dir/app": sec}, {"über": 5}, "pw", ["pw", None]),
        {"kind": "hostile", "rpw": None, "members": []},
        {"kind": "hostile", "rpw": None, "members": [{"name": "manifest.json", "payload": {"t": "manifest", "fields":
                                                        {"version": 2, "timestamp": "t", "namespace": "n", "deployment_count": 0, "encrypted": False}}}]},
        {"kind": "hostile", "rpw": "pw", "members": [
            {"name": "web.secret.yaml", "payload": {"t": "yaml", "obj": {"K": "clear"}}},
            {"name": "web.yaml", "payload": {"t": "yaml", "obj": {"i": 1}}},
            {"name": "manifest.json", "payload": {"t": "manifest", "fields": {"version": 1, "timestamp": "t", "namespace": "n", "deployment_count": 1, "encrypted": True}}},
            {"name": "web.yaml", "payload": {"t": "yaml", "obj": {"i": 2}}},
            {"name": "db.yaml", "dir": True},
            {"name": "web.secret.enc", "payload": {"t": "enc", "pw": "pw", "obj": {"K": "enc"}, "salt": [1] * 16, "nonce": [2] * 12}},
            {"name": "web.meta.json", "payload": {"t": "meta", "gen": None}},
            {"name": "README.md", "payload": {"t": "junk"}}]},
        # members that load as values json.dumps cannot sort (what a cut-off YAML file looks like: "? " -> {None: None})
        {"kind": "hostile", "rpw": None, "members": [
            {"name": "manifest.json", "payload": {"t": "manifest", "fields": {"version": 1, "timestamp": "t", "namespace": "n", "deployment_count": 2, "encrypted": False}}},
            {"name": "web.yaml", "payload": {"t": "rawyaml", "text": "kind: X\nspec:\n  env: 1\n  ? "}},
            {"name": "web.secret.yaml", "payload": {"t": "rawyaml", "text": "1: a\n'1': b\n2001-12-14: c\n~: d\nwhen: 2001-12-14\nset: !!set {a, b}\n"}},
            {"name": "db.yaml", "payload": {"t": "rawyaml", "text": "- 1\n- ~: ~\n"}}]},
        # last member of a name wins, the first appearance of a name decides the order; links / devices are passed over;
        # AREGTYPE / CONTTYPE members count as regular files
        {"kind": "hostile", "rpw": "pw", "members": [
            {"name": "web.yaml", "payload": {"t": "yaml", "obj": {"i": 1}}},
            {"name": "db.yaml", "payload": {"t": "yaml", "obj": {"i": 9}}, "type": "areg"},
            {"name": "web.secret.yaml", "payload": {"t": "yaml", "obj": {"K": "clear"}}},
            {"name": "web.meta.json", "payload": {"t": "meta", "gen": 3}},
            {"name": "db.secret.yaml", "link": "sym", "target": "web.secret.yaml"},
            {"name": "db.yaml", "link": "hard", "target": "web.yaml"},
            {"name": "web.yaml", "payload": {"t": "yaml", "obj": {"i": 8}}, "type": "cont"},
            {"name": "web.secret.enc", "payload": {"t": "enc", "pw": "pw", "obj": {"K": "enc"}, "salt": [3] * 16, "nonce": [4] * 12}},
            {"name": "web.meta.json", "payload": {"t": "meta", "gen": 4}},
            {"name": "manifest.json", "link": "fifo"},
            {"name": "manifest.json", "payload": {"t": "manifest", "fields": {"version": 1, "timestamp": "t", "namespace": "n", "deployment_count": 2, "encrypted": True}}}]},
        # two clear secrets / two encrypted secrets / encrypted then clear for one name: the last one is restored
        {"kind": "hostile", "rpw": "pw", "members": [
            {"name": "manifest.json", "payload": {"t": "manifest", "fields": {"version": 1, "timestamp": "t", "namespace": "n", "deployment_count": 3, "encrypted": False}}},
            {"name": "a.secret.yaml", "payload": {"t": "yaml", "obj": {"K": "first"}}},
            {"name": "b.secret.enc", "payload": {"t": "enc", "pw": "pw", "obj": {"K": "first"}, "salt": [7] * 16, "nonce": [8] * 12}},
            {"name": "c.secret.enc", "payload": {"t": "enc", "pw": "pw", "obj": {"K": "first"}, "salt": [7] * 16, "nonce": [9] * 12}},
            {"name": "a.yaml", "payload": {"t": "yaml", "obj": {"i": 1}}},
            {"name": "b.yaml", "payload": {"t": "yaml", "obj": {"i": 2}}},
            {"name": "c.yaml", "payload": {"t": "yaml", "obj": {"i": 3}}},
            {"name": "a.secret.yaml", "payload": {"t": "yaml", "obj": {"K": "second"}}},
            {"name": "b.secret.enc", "payload": {"t": "enc", "pw": "pw", "obj": {"K": "second"}, "salt": [7] * 16, "nonce": [10] * 12}},
            {"name": "c.secret.yaml", "payload": {"t": "yaml", "obj": {"K": "second"}}}]},
        # the same kind of archive read under another password / none: the encrypted member stops the read wherever it stands
        {"kind": "hostile", "rpw": "pW", "members": [
            {"name": "manifest.json", "payload": {"t": "manifest", "fields": {"version": 1, "timestamp": "t", "namespace": "n", "deployment_count": 1, "encrypted": False}}},
            {"name": "web.yaml", "payload": {"t": "yaml", "obj": {"i": 1}}},
            {"name": "ghost.secret.enc", "payload": {"t": "enc", "pw": "pw", "obj": {"K": "enc"}, "salt": [5] * 16, "nonce": [6] * 12}}]},
        {"kind": "hostile", "rpw": None, "members": [
            {"name": ".secret.enc", "payload": {"t": "enc", "pw": "", "obj": {"K": "enc"}, "salt": [5] * 16, "nonce": [6] * 12}},
            {"name": "manifest.json", "payload": {"t": "manifest", "fields": {"version": 1, "timestamp": "t", "namespace": "n", "deployment_count": 0, "encrypted": True}}}]},
        {"kind": "blob", "pw": "pw", "m": [1, 2, 3], "op": "plain", "rnd_seed": 3},
        {"kind": "blob", "pw": "", "m": [], "op": "wrongpw", "rpw": " ", "rnd_seed": 4},
        {"kind": "blob", "pw": "pw", "m": [], "op": "trunc", "k": 43, "rnd_seed": 5},
        {"kind": "blob", "pw": "pw", "m": [9] * 20, "op": "flip", "i": 15, "bit": 1, "rnd_seed": 6},
    ]


# --------------------------------------------------------------------------


def run_case(I: Impl, case: dict, out: Outcome, ops: list[str], impl: list[str], ctx: list[Any]) -> None:
    k = case.get("kind")
    if k == "backup":
        run_backup(I, case, out, ops, impl, ctx)
    elif k == "hostile":
        run_hostile(I, case, out, ops, impl, ctx)
    elif k == "blob":
        run_blob(I, case, out, ops, impl, ctx)
    elif k == "decompose":
        monitor_decomposition(I, case["backup"], out)
    elif k == "clean":
        c33_clean.run_clean(I, case, out, ops, impl, ctx, Tokens, canon, Violation)
    elif k == "service":
        if _SERVICE and _SERVICE[0] is not None:
            c33_clean.run_service(I, _SERVICE[0], case, out, canon, Violation, pw_class)


_SERVICE: list[Any] = []


def run(env: Env) -> Outcome:
    out = Outcome()
    out.rule = ("backups: 0-5 deployments (name pools with suffix look-alikes, boundary lengths, random DNS-1035 labels; ill-formed "
                "names in a separate stream) x JSON-like resources (free-text labels / display-name / description annotations incl. non-ASCII) x secret maps (marker + Unicode/control/YAML-special strings) x "
                "generation maps x passwords (none, empty, ASCII, Unicode, 5000 chars) x reader passwords; large members (one or two "
                "values of 32 KiB..4 MiB per backup: around 64 KiB / 1 MiB / 2 MiB and around size constants of the source; shapes pem, "
                "ascii, latin, cjk, emoji, words, mixed, map; in secrets, spec, annotations; 8 on quick, 41 on thorough); hostile archives; "
                "encrypt/decrypt blobs (plain, wrong password, bit flips, truncations, junk); documents to clean (top-level keys incl. "
                "status / look-alikes, metadata absent or any subset of 21 keys, annotations absent / empty / system-only / mixed / "
                "user-only from 17 keys incl. prefix look-alikes; both cleaners); cluster states for the real BackupService on an "
                "in-memory cluster (0-6 deployments with cluster metadata, paired / stray secrets, generations, 5 passwords + none; "
                "backup, read, restore under another password, restore). non-trivial = backup with a secret or generation / "
                "hostile archive read successfully / blob decrypted / document changed by cleaning / cluster with a paired secret or "
                "generation; distinct by canonical case")
    I = Impl()
    ops: list[str] = []
    impl: list[str] = []
    ctx: list[Any] = []
    cases: list[dict] = []
    if env.replay is not None:
        cases.append(env.replay["payload"]["case"])
    cases += corpus()
    cases += c33_clean.clean_corpus()
    try:
        _SERVICE[:] = [c33_clean.get_service()]
        cases += c33_clean.service_corpus()
    except Exception as e:  # the service module moved / needs something new: said, not hidden; the archive layer is checked regardless
        _SERVICE[:] = [None]
        out.notes.append(f"C33: manage_api/backup_service.py could not be imported with stand-in collaborators ({type(e).__name__}: {e}); "
                         "the service path is not exercised on this run")
        out.count("service:unavailable")
    rng = env.rng
    # large members: sizes relative to whatever integers of the backup modules could be size bounds (re-read now) + fixed marks
    hints = gen_archive.size_hints(out.notes)
    out.count(f"size_hints:{len(hints)}")
    cases += big_corpus(I, hints, out.notes)
    n_big = 3 if env.tier == "quick" else 36
    _st = rng.getstate()
    brng = random.Random(rng.getrandbits(64))  # a stream of its own, derived from env.rng without advancing it
    rng.setstate(_st)
    for _ in range(n_big * (2 if env.deep else 1)):
        cases.append(gen_big_backup(brng, hints))
    for _ in range(env.budget(450, 9000)):
        cases.append(gen_backup(rng, wf=True))
    for _ in range(env.budget(120, 2400)):
        cases.append(gen_backup(rng, wf=False))
    for _ in range(env.budget(250, 5000)):
        cases.append(gen_hostile(rng))
    for _ in range(env.budget(300, 6000)):
        cases.append(gen_blob(rng))
    # streams of the extension draw from a generator of their own (the streams above stay what they were per seed)
    _st = rng.getstate()
    xrng = random.Random(rng.getrandbits(64) ^ 0xC33)
    rng.setstate(_st)
    for _ in range(env.budget(300, 6000)):
        cases.append(c33_clean.gen_clean_case(xrng, gen_value))
    if _SERVICE[0] is not None:
        for _ in range(env.budget(40, 800)):
            cases.append(c33_clean.gen_service_case(xrng, gen_value, gen_secret_map, PW_POOL))
    n_dec = env.budget(40, 800)
    dec_done = 0
    for ci, c in enumerate(cases):
        mark = (len(ops), len(impl), len(ctx))
        try:
            run_case(I, c, out, ops, impl, ctx)
            replayed = ci == 0 and env.replay is not None
            # (the per-piece decomposition repeats every dump / load: left out for members beyond 256 KiB, which M1 covers)
            if c.get("kind") == "backup" and (dec_done < n_dec or replayed) and c["deps"] and names_wf(I, c) \
                    and (big_bytes(c) <= 256 * KIB or replayed):
                monitor_decomposition(I, c, out)
                dec_done += 1
        except Exception as e:
            # Every call into the code under test is already wrapped where it is made; what arrives here is a value it handed
            # back that the harness could not digest. That is an observation about this scenario, not a reason to lose the run:
            # keep the op streams aligned, report the scenario with a replayable input, go on.
            del ops[mark[0]:], impl[mark[1]:], ctx[mark[2]:]
            fr = traceback.extract_tb(e.__traceback__)
            where = next((f.name for f in reversed(fr) if f.filename.endswith("c33.py")), "?")
            out.count("scenario_aborted")
            out.violations.append(Violation(
                f"C33/scenario_aborted[{c.get('kind')},{type(e).__name__}@{where}]",
                f"the scenario could not be observed to the end: {type(e).__name__}: {str(e)[:200]} in {where} "
                f"(the code under test returned something the harness cannot canonicalise or compare)", c))
            continue
        if c.get("kind") == "backup" and c["deps"]:
            out.sample({"names": [d["name"] for d in c["deps"]][:5], "pw": None if c["pw"] is None else c["pw"][:20],
                        "secrets": sorted(c["secrets"])[:5], "gens": c["gens"]})
    # names: validName against the real regex
    dns_names = NAME_POOL + BAD_NAMES + ["a" * k for k in (62, 63, 64, 65)] + ["a-", "a-b", "a--b", "0a", "a0", "A", "a_b", "a.b", "é", "a\t"]
    for _ in range(env.budget(300, 4000)):
        k = rng.choice([0, 1, 2, 3, 10, 61, 62, 63, 64, 65])
        dns_names.append("".join(rng.choice("abz09-" if rng.random() < 0.85 else "abz09-A_. é") for _ in range(k)))
    for s in dns_names:
        ops.append("dns|" + cps(s))
        ctx.append({"kind": "dns", "name": s})
        impl.append("true" if (I.dns.match(s) and not s.endswith("\n")) else "false")
        out.count("dns:" + impl[-1])
    # classification of member names: the real reader's verdict, observed through a one-member archive
    try:
        model_out = Driver("archive").run(ops)
    except Exception as e:  # model unavailable: correspondence cannot be established
        out.divergences.append(Divergence("archive", 0, "<driver>", repr(e), ""))
        return out
    out.traces_validated = len(ops)
    out.disagreements_checked = len(ops)
    d = diff_streams("archive", ops, model_out, impl)
    if d is not None:
        d.op = d.op[:2000]
        d.model_out, d.impl_out = d.model_out[:2000], d.impl_out[:2000]
        if d.index < len(ctx):
            d.context = ctx[d.index]
        out.divergences.append(d)
    return out
