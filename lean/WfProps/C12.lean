import WfProofs.SerialLemmas
import WfProofs.EngineIds
import WfProofs.SerialParked
import WfProofs.SerialOffCfg
import WfProofs.SerialCtx
import WfModel.GenSerialShape
/-!
# C12 — pausing to a serialised context and resuming

Model: `Serial` (`BrokerState.to_serialized` → JSON → `from_serialized`), tied to the real code by
the `serde` correspondence (two consecutive round trips on generated states).

* **stable after one round trip**: `roundtrip (roundtrip st) = roundtrip st`, for every state;
* **what is resumed**: every queued and every in-progress invocation is in the resumed queue
  (queued ones first, in order, then the in-progress ones), nothing is in progress (so the worker
  limit invariant holds trivially and `rewind_in_progress` starts them again), buffers and
  waiters (id, replay event, awaited type, resolved event, timed-out mark) are kept;
* **existing retry count and recovery budget**: kept for *queued* invocations
  (`C12_queued_keep_retry_state`); for invocations that were *in progress* the statement is
  refuted — they are written as bare events and restart with `attempts = 0` and empty recovery
  counts (`C12_refuted_inprogress_budget`, known finding F11); it holds for in-progress
  invocations that had not failed yet (`C12_inprogress_budget_partial`);
* **work that only exists as a timer** (a retry waiting out its delay) is not part of the
  serialised context at all (`C12_refuted_scheduled_retry`, known finding) — `C12_same_result` is
  therefore checked on the implementation for snapshot points with no pending retry timer.

Over whole resumed runs and over payloads (second half of this file):

* **the resumed run** (`Runner.init` on the round trip, every state, every clock, with or without a workflow
  timeout): per step, the first `min(num_workers, #pending)` of `queued ++ in-progress` are started — each with a
  running worker —, the rest stays queued in order, no slot stays free (`C12_resumed_run_restarts_pending`); the
  records they are started with are those of the queued invocations followed by *fresh* records for the ones that
  were in progress (`C12_resumed_run_retry_records`: the clause at run level; exactly what F11 loses);
* **pausing where nothing is in flight** (a run waiting for external input): for every later schedule, including
  events sent from outside, the run resumed from JSON and the uninterrupted run have the same state, outcome,
  workers, buffer, mailbox and timers, and publish / log the same things from the pause on
  (`C12_parked_resume_same_future`);
* **any number of round trips** equals one (`C12_roundtrip_iterate`); **every payload** `from_dict_auto` accepts —
  defaults, legacy `requirements`, legacy V0 format, wrong version — loads into a state that a further round trip
  does not change (`C12_payload_stable`); what `to_dict` writes is read back as the current format
  (`C12_todict_read_back`); what a V0 payload and a payload with a foreign version are resumed as
  (`C12_v0_resumed_step`, `C12_foreign_version_reads_nothing`);
* **source shape**: which fields `to_serialized` writes / `from_serialized` reads for queue entries, in-progress
  entries and waiters, the version marker on both sides, `from_v0`, `PreContext.__init__`, `from_dict`, `to_dict`
  are regenerated from the sources (`GenSerialShape`) and pinned next to the model equations (`C12_source_shape`).
-/
set_option linter.unusedVariables false
open Engine

/-- **the serialised form is stable after one round trip** -/
theorem C12_roundtrip_stable (cfg : Cfg) (st : State) :
    roundtrip cfg (roundtrip cfg st) = roundtrip cfg st := by
  have hw : (roundtrip cfg (roundtrip cfg st)).workers = (roundtrip cfg st).workers := by
    funext n
    rw [roundtrip_workers cfg (roundtrip cfg st) n, roundtrip_workers cfg st n]
    by_cases h : cfg.hasStep n = true
    · simp only [h, if_true]
      apply deser_ser_deserStep
      intro a ha
      simp only [serStep, List.mem_map] at ha
      obtain ⟨b, _, rfl⟩ := ha
      exact serAttempt_idem b
    · simp [h]
  have hr : (roundtrip cfg (roundtrip cfg st)).isRunning = (roundtrip cfg st).isRunning := rfl
  cases h1 : roundtrip cfg (roundtrip cfg st) with
  | mk r1 w1 =>
    cases h2 : roundtrip cfg st with
    | mk r2 w2 =>
      rw [h1, h2] at hw hr
      simp only at hw hr
      rw [hw, hr]

/-- **nothing is lost from the queues**: the resumed queue is the queued invocations followed by
the in-progress ones; nothing is in progress; buffers are kept -/
theorem C12_resumed_step (cfg : Cfg) (st : State) (n : Nat) (h : cfg.hasStep n = true) :
    let ss := st.workers n
    let rs := (roundtrip cfg st).workers n
    rs.queue.map (·.ev) = ss.queue.map (·.ev) ++ ss.inProg.map (·.ev) ∧
    rs.inProg = [] ∧ rs.collected = ss.collected ∧
    rs.waiters.map (fun w => (w.wid, w.ev, w.waitTy, w.resolved, w.timedOut)) =
      ss.waiters.map (fun w => (w.wid, w.ev, w.waitTy, w.resolved, w.timedOut)) := by
  simp only [roundtrip_workers, h, if_true, deserStep, serStep, List.map_append, List.map_map]
  refine ⟨?_, trivial, trivial, ?_⟩
  · congr 1 <;> (apply List.map_congr_left; intro a _; rfl)
  · apply List.map_congr_left; intro w _; rfl

/-- a resumed state has no in-progress entries, so the worker-slot invariant (C01) holds in it
and `rewind_in_progress` + the queue drain start the invocations again within the limits -/
theorem C12_resumed_slots_ok (cfg : Cfg) (st : State) : IdsInv cfg (roundtrip cfg st) := by
  intro c _
  rw [roundtrip_workers]
  split
  · simp [deserStep, IdsOk, usedIds]
  · exact idsOk_empty _

/-- **queued invocations keep their retry count and recovery budget** (and first-attempt time,
last exception, last failure time) -/
theorem C12_queued_keep_retry_state (cfg : Cfg) (st : State) (n : Nat) (h : cfg.hasStep n = true)
    (i : Nat) (a : Attempt) (ha : (st.workers n).queue[i]? = some a) :
    ∃ b, ((roundtrip cfg st).workers n).queue[i]? = some b ∧ b.ev = a.ev ∧
      orNat b.attempts 0 = orNat a.attempts 0 ∧ b.firstAt = a.firstAt ∧ b.lastExc = a.lastExc ∧
      b.lastFailedAt = a.lastFailedAt ∧ b.rc = a.rc := by
  refine ⟨serAttempt a, ?_, rfl, by simp [serAttempt, orNat_orNat], rfl, rfl, rfl, rfl⟩
  simp only [roundtrip_workers, h, if_true, deserStep, serStep]
  have hi : i < ((st.workers n).queue.map serAttempt).length := by
    have := (List.getElem?_eq_some_iff.mp ha).1
    simpa using this
  rw [List.getElem?_append_left hi]
  simp [ha]

/-- **invocations suspended in `wait_for_event` keep their retry count and recovery budget**: the
waiter comes back at the same position with the same id and replays the same attempt (event,
attempts, first-attempt time, last exception, last failure time, recovery counts) -/
theorem C12_waiting_keep_retry_state (cfg : Cfg) (st : State) (n : Nat) (h : cfg.hasStep n = true)
    (i : Nat) (w : Waiter) (hw : (st.workers n).waiters[i]? = some w) :
    ∃ v, ((roundtrip cfg st).workers n).waiters[i]? = some v ∧ v.wid = w.wid ∧ v.replay = w.replay ∧
      v.resolved = w.resolved ∧ v.timedOut = w.timedOut := by
  refine ⟨deserWaiter (serWaiter w), ?_, rfl, rfl, rfl, rfl⟩
  simp [roundtrip_workers, h, deserStep, serStep, hw]

/-- the full statement for in-progress invocations: each comes back with its retry count and
recovery counts -/
def C12_statement_inprogress_budget : Prop :=
  ∀ (ss : StepState) (ip : InProg), ip ∈ ss.inProg →
    ∃ a ∈ (deserStep (serStep ss)).queue, a.ev = ip.ev ∧ orNat a.attempts 0 = ip.attempts ∧ a.rc = ip.rc

/-- refuted (F11): an invocation on its third attempt, with one recovery spent, restarts from 0 -/
theorem C12_refuted_inprogress_budget : ¬ C12_statement_inprogress_budget := by
  intro h
  let ip : InProg := { ev := { ty := 5, kind := .plain, uid := 1 }, wid := 0, snapEvents := [], snapWaiters := [],
                       attempts := 2, firstAt := 10, rc := [(12, 1)] }
  obtain ⟨a, ha, _, h2, _⟩ := h { inProg := [ip] } ip (by simp)
  simp only [deserStep, serStep, List.map_nil, List.nil_append, List.map_cons, List.mem_singleton] at ha
  subst ha
  simp [orNat, ip] at h2

/-- it holds for in-progress invocations that had not failed yet and carry no recovery count -/
theorem C12_inprogress_budget_partial (ss : StepState) (ip : InProg) (hm : ip ∈ ss.inProg)
    (h0 : ip.attempts = 0) (hrc : ip.rc = []) :
    ∃ a ∈ (deserStep (serStep ss)).queue, a.ev = ip.ev ∧ orNat a.attempts 0 = ip.attempts ∧ a.rc = ip.rc := by
  refine ⟨{ ev := ip.ev, attempts := some 0, firstAt := none }, ?_, rfl, by simp [orNat, h0], by simp [hrc]⟩
  simp only [deserStep, serStep, List.mem_append, List.mem_map]
  exact Or.inr ⟨ip.ev, ⟨ip, hm, rfl⟩, rfl⟩

/-! ## work that exists only as a timer -/

/-- full statement: an event whose delivery is scheduled (a retry waiting out its delay) is part
of what `ctx.to_dict()` writes -/
def C12_statement_scheduled_retry (cfg : Cfg) (pol : Policy) (r : Runner) : Prop :=
  ∀ tm ∈ r.heap, ∀ att tgt, tm.tick = .addEvent att tgt →
    ∃ p ∈ (ser cfg r.st).workers, att.ev ∈ p.2.queue.map (·.ev) ∨ att.ev ∈ p.2.inProg

def C12.cfg : Cfg := { steps := [{ name := 0, accepted := [0], numWorkers := 1, hasRetry := true }] }
def C12.pol : Policy := fun _ _ _ _ => .retry 5
def C12.run : Runner :=
  Runner.run C12.cfg C12.pol (Runner.init C12.cfg initState 0 (some { ty := 0, kind := .start, uid := 1 }) none)
    [.drain, .workerDone 0 0 [.failed 7 0], .drain]

/-- refuted: after a failure with a 5 s retry delay the event sits in the timer heap only; the
serialised context has an empty queue and nothing in progress -/
theorem C12_refuted_scheduled_retry : ¬ C12_statement_scheduled_retry C12.cfg C12.pol C12.run := by
  intro h
  have hheap : C12.run.heap.map (·.tick) =
      [.addEvent { ev := { ty := 0, kind := .start, uid := 1 }, attempts := some 1, firstAt := some 0,
                   lastExc := some 7, lastFailedAt := some 0 } (some 0)] := by decide
  cases hh : C12.run.heap with
  | nil => rw [hh] at hheap; simp at hheap
  | cons tm rest =>
    rw [hh] at hheap
    simp only [List.map_cons, List.cons.injEq] at hheap
    obtain ⟨p, hp, hq⟩ := h tm (by rw [hh]; simp) _ _ hheap.1
    have hser : (ser C12.cfg C12.run.st).workers = [(0, { queue := [], inProg := [], collected := [], waiters := [] })] := by
      decide
    rw [hser] at hp
    simp only [List.mem_singleton] at hp
    subst hp
    simp at hq

/-! ## non-vacuity -/

example : (roundtrip C12.cfg
    { isRunning := true, workers := fun _ =>
        { queue := [{ ev := { ty := 0, kind := .start, uid := 3 }, attempts := some 2, rc := [(9, 1)] }],
          inProg := [{ ev := { ty := 0, kind := .start, uid := 4 }, wid := 0, snapEvents := [], snapWaiters := [],
                       attempts := 1, firstAt := 5 }] } }).workers 0 =
    { queue := [{ ev := { ty := 0, kind := .start, uid := 3 }, attempts := some 2, rc := [(9, 1)] },
                { ev := { ty := 0, kind := .start, uid := 4 }, attempts := some 0 }] } := by decide


/-! # whole resumed runs -/

/-- **every not-yet-completed invocation is restarted or queued again, in order, within the limits**: in the
runner resumed from the serialised context, each step has started the first `min(num_workers, #pending)` of
`queued ++ in-progress` with a running worker each, keeps the rest queued in order, and has its buffers and
waiters back -/
theorem C12_resumed_run_restarts_pending (cfg : Cfg) (hwf : cfg.WF) (st : State) (now : Int) (timeout : Option Nat)
    (c : StepCfg) (hc : c ∈ cfg.steps) :
    let R := Runner.init cfg (roundtrip cfg st) now none timeout
    let rs := R.st.workers c.name
    let pending := resumedPending (st.workers c.name)
    let k := min c.numWorkers pending.length
    rs.inProg.map (·.ev) = (pending.take k).map (·.ev) ∧
    rs.queue = pending.drop k ∧
    rs.inProg.length = k ∧
    rs.collected = (st.workers c.name).collected ∧
    rs.waiters = (st.workers c.name).waiters.map (fun w => deserWaiter (serWaiter w)) ∧
    (∀ ip ∈ rs.inProg, ({ step := c.name, wid := ip.wid, ev := ip.ev } : Worker) ∈ R.running) ∧
    R.outcome = none := by
  intro R rs pending k
  obtain ⟨h1, h2, h3, h4, h5, h6, h7⟩ := resumed_step cfg hwf st now timeout c hc
  refine ⟨?_, h2, h3, h4, h5, h6, h7⟩
  have := congrArg (List.map Started.ev) h1
  simpa [List.map_map, Function.comp_def, InProg.started, Attempt.startedAt] using this

/-- the record a restarted in-progress invocation gets: first attempt, clock of the resume, no exception, no
recovery spent -/
def C12.freshStart (now : Int) (e : Ev) : Started :=
  { ev := e, attempts := 0, firstAt := now, lastExc := none, lastFailedAt := none, rc := [] }

/-- **the retry count and recovery budget every pending invocation is re-executed under**: what the resumed run
starts its invocations with (`ctx.retry_info()`, recovery counts), followed by what the still queued ones will be
started with, is: the queued invocations' own records, then fresh records for the ones that were in progress -/
theorem C12_resumed_run_retry_records (cfg : Cfg) (hwf : cfg.WF) (st : State) (now : Int) (timeout : Option Nat)
    (c : StepCfg) (hc : c ∈ cfg.steps) :
    let rs := (Runner.init cfg (roundtrip cfg st) now none timeout).st.workers c.name
    rs.inProg.map InProg.started ++ rs.queue.map (Attempt.startedAt now)
      = (st.workers c.name).queue.map (Attempt.startedAt now)
        ++ (st.workers c.name).inProg.map (fun ip => C12.freshStart now ip.ev) := by
  intro rs
  obtain ⟨h1, h2, _⟩ := resumed_step cfg hwf st now timeout c hc
  show rs.inProg.map InProg.started ++ rs.queue.map (Attempt.startedAt now) = _
  rw [h1, h2, ← List.map_append, List.take_append_drop]
  simp only [resumedPending, List.map_append, List.map_map]
  congr 1
  apply List.map_congr_left
  intro a _
  simp [Function.comp, Attempt.startedAt, serAttempt, orNat_orNat]

/-- non-vacuity: one worker; an invocation on its third attempt in progress, one queued on its second attempt
with a recovery spent: the resumed run starts the queued one as attempt 1 (0-based) with its counts and keeps
the formerly running one queued as a fresh entry -/
example :
    let st : State := { isRunning := true, workers := fun n => if n = 0 then
        { queue := [{ ev := { ty := 0, kind := .start, uid := 3 }, attempts := some 1, firstAt := some 2, rc := [(9, 1)] }],
          inProg := [{ ev := { ty := 0, kind := .start, uid := 4 }, wid := 0, snapEvents := [], snapWaiters := [],
                       attempts := 2, firstAt := 1 }] } else {} }
    let R := Runner.init C12.cfg (roundtrip C12.cfg st) 7 none none
    (R.st.workers 0).inProg.map InProg.started =
      [{ ev := { ty := 0, kind := .start, uid := 3 }, attempts := 1, firstAt := 2, lastExc := none, lastFailedAt := none, rc := [(9, 1)] }] ∧
    (R.st.workers 0).queue = [{ ev := { ty := 0, kind := .start, uid := 4 }, attempts := some 0 }] ∧
    R.running = [{ step := 0, wid := 0, ev := { ty := 0, kind := .start, uid := 3 } }] := by decide

example : C12.cfg.WF := by simp [Cfg.WF, Cfg.names, C12.cfg]

/-! # pausing where nothing is in flight -/

/-- **a run paused while it waits for external input resumes into the same future**: for a parked runner (no
buffered tick, empty mailbox, no timer, no worker, nothing queued or in progress, waiters without requirements)
and every later schedule — worker results, external events, time — the run resumed from the serialised context
and the uninterrupted run agree on state, outcome, running workers, buffer, mailbox, clock and timers, and from
the pause on they publish and log the same -/
theorem C12_parked_resume_same_future (cfg : Cfg) (pol : Policy) (r : Runner) (h : Parked cfg r) (acts : List Act) :
    let live := Runner.run cfg pol r acts
    let resumed := Runner.run cfg pol (Runner.init cfg (roundtrip cfg r.st) r.now none none) acts
    live.st = resumed.st ∧ live.outcome = resumed.outcome ∧ live.running = resumed.running ∧
    live.buf = resumed.buf ∧ live.mailbox = resumed.mailbox ∧ live.now = resumed.now ∧
    live.idlePending = resumed.idlePending ∧
    live.heap = resumed.heap.map (Timer.shift r.seq) ∧
    live.stream = r.stream ++ resumed.stream ∧ live.log = r.log ++ resumed.log := by
  intro live resumed
  have e : live = resumed.lift r.seq r.stream r.log := by
    show Runner.run cfg pol r acts = _
    have h0 := parked_eq_lift cfg r h
    calc Runner.run cfg pol r acts
        = Runner.run cfg pol ((Runner.init cfg (roundtrip cfg r.st) r.now none none).lift r.seq r.stream r.log) acts :=
          congrArg (fun x => Runner.run cfg pol x acts) h0
      _ = _ := run_lift cfg pol r.seq r.stream r.log acts _
  rw [e]
  exact ⟨rfl, rfl, rfl, rfl, rfl, rfl, rfl, rfl, rfl, rfl⟩

def C12.waitCfg : Cfg := { steps := [{ name := 0, accepted := [0], numWorkers := 1, hasRetry := false }] }
def C12.askEv : Ev := { ty := 2, kind := .inputRequired, uid := 5 }
/-- a run that started, whose step asked a question (`wait_for_event` without requirements) and suspended -/
def C12.waitRun : Runner :=
  Runner.run C12.waitCfg C12.pol (Runner.init C12.waitCfg initState 0 (some { ty := 0, kind := .start, uid := 1 }) none)
    [.drain, .workerDone 0 0 [.addWaiter 7 (some C12.askEv) none none 3], .drain, .drain]

/-- non-vacuity: the waiting run is parked on the step it has (its waiter is there, the question was published,
three ticks were logged) ... -/
example :
    C12.waitRun.buf = [] ∧ C12.waitRun.mailbox = [] ∧ C12.waitRun.heap = [] ∧ C12.waitRun.running = [] ∧
    C12.waitRun.idlePending = false ∧ C12.waitRun.outcome = none ∧ C12.waitRun.st.isRunning = true ∧
    (C12.waitRun.st.workers 0).queue = [] ∧ (C12.waitRun.st.workers 0).inProg = [] ∧
    (C12.waitRun.st.workers 0).waiters.map (fun w => (w.wid, w.req, w.hasReq, w.waitTy)) = [(7, none, false, 3)] ∧
    Pub.event C12.askEv ∈ C12.waitRun.stream ∧ Pub.idle ∈ C12.waitRun.stream ∧ C12.waitRun.log.length = 3 := by decide

/-- ... and a runner of that shape satisfies `Parked`; the reply then completes both runs alike -/
example :
    let w : Waiter := { wid := 7, ev := { ty := 0, kind := .start, uid := 1 }, waitTy := 3, req := none, hasReq := false,
                        firstAt := some 0 }
    let r : Runner := { st := { isRunning := true, workers := fun n => if n = 0 then { waiters := [w] } else {} },
                        stream := [.event C12.askEv, .idle], seq := 2, now := 4 }
    Parked C12.waitCfg r := by
  intro w r
  refine ⟨rfl, rfl, rfl, rfl, rfl, rfl, ?_, ?_, ?_⟩
  · intro n hn
    have : n ≠ 0 := by
      intro e; subst e; revert hn; decide
    simp [r, this]
  · intro n _
    by_cases h0 : n = 0 <;> simp [r, h0]
  · intro n x hx
    by_cases h0 : n = 0
    · simp [r, h0] at hx
      subst hx
      exact ⟨rfl, rfl⟩
    · simp [r, h0] at hx

/-- what can be observed of a run that waits for external input with nothing in flight -/
structure C12.WaitingForInput (cfg : Cfg) (r : Runner) : Prop where
  buf : r.buf = []
  mailbox : r.mailbox = []
  heap : r.heap = []
  running : r.running = []
  idle : r.idlePending = false
  outcome : r.outcome = none
  steps : ∀ c ∈ cfg.steps, (r.st.workers c.name).queue = [] ∧ (r.st.workers c.name).inProg = [] ∧
    ∀ w ∈ (r.st.workers c.name).waiters, w.req = none ∧ w.hasReq = false

/-- **every pause point of every run at which the run only waits for input**: take any run — fresh, or itself
resumed from a loaded context — under any schedule `before`; if it then waits for input with nothing in flight,
serialise it there; under every schedule `after` the run resumed from the serialised context and the run that
was never interrupted agree on state, outcome, workers, buffer, mailbox, clock and timers, and publish / log the
same from the pause on.  (No name outside the workflow's steps ever gets state: `run_offCfg`.) -/
theorem C12_pause_while_waiting_same_future (cfg : Cfg) (pol : Policy) (st0 : State) (h0 : OffCfg cfg st0) (now0 : Int)
    (start : Option Ev) (timeout : Option Nat) (before after : List Act) :
    let r := Runner.run cfg pol (Runner.init cfg st0 now0 start timeout) before
    C12.WaitingForInput cfg r →
    let live := Runner.run cfg pol r after
    let resumed := Runner.run cfg pol (Runner.init cfg (roundtrip cfg r.st) r.now none none) after
    live.st = resumed.st ∧ live.outcome = resumed.outcome ∧ live.running = resumed.running ∧
    live.buf = resumed.buf ∧ live.mailbox = resumed.mailbox ∧ live.now = resumed.now ∧
    live.idlePending = resumed.idlePending ∧
    live.heap = resumed.heap.map (Timer.shift r.seq) ∧
    live.stream = r.stream ++ resumed.stream ∧ live.log = r.log ++ resumed.log := by
  intro r hw
  have hoff : OffCfg cfg r.st := run_offCfg cfg pol before _ (init_offCfg cfg st0 now0 start timeout h0)
  have hp : Parked cfg r := by
    refine ⟨hw.buf, hw.mailbox, hw.heap, hw.running, hw.idle, hw.outcome, hoff, ?_, ?_⟩
    · intro n hn
      obtain ⟨c, hc, rfl⟩ := List.mem_map.mp ((hasStep_iff_mem cfg n).mp hn)
      exact ⟨(hw.steps c hc).1, (hw.steps c hc).2.1⟩
    · intro n w hwm
      by_cases hn : cfg.hasStep n = true
      · obtain ⟨c, hc, rfl⟩ := List.mem_map.mp ((hasStep_iff_mem cfg n).mp hn)
        exact (hw.steps c hc).2.2 w hwm
      · have hn' : cfg.hasStep n = false := by simpa using hn
        rw [hoff n hn'] at hwm
        simp at hwm
  exact C12_parked_resume_same_future cfg pol r hp after

/-- non-vacuity: the run that asked its question (`C12.waitRun`, a fresh run) waits for input in this sense, and the
empty start state has no state outside the steps -/
example : C12.WaitingForInput C12.waitCfg
    (Runner.run C12.waitCfg C12.pol (Runner.init C12.waitCfg initState 0 (some { ty := 0, kind := .start, uid := 1 }) none)
      [.drain, .workerDone 0 0 [.addWaiter 7 (some C12.askEv) none none 3], .drain, .drain]) :=
  ⟨by decide, by decide, by decide, by decide, by decide, by decide, by decide⟩

example (cfg : Cfg) : OffCfg cfg initState := offCfg_init cfg
example (cfg : Cfg) (st : State) : OffCfg cfg (roundtrip cfg st) := offCfg_roundtrip cfg st

/-! # round trips and payloads -/

/-- **any number of consecutive round trips equals one** -/
theorem C12_roundtrip_iterate (cfg : Cfg) (k : Nat) (st : State) :
    Nat.repeat (roundtrip cfg) (k + 1) st = roundtrip cfg st := by
  induction k generalizing st with
  | zero => rfl
  | succ k ih =>
    show roundtrip cfg (Nat.repeat (roundtrip cfg) (k + 1) st) = roundtrip cfg st
    rw [ih, C12_roundtrip_stable]

/-- **the serialised form is stable for every payload**: whatever dict `Context.from_dict` accepts (current format
with omitted fields and legacy `requirements`, legacy V0 format, any version marker), the state it is loaded into
is not changed by serialising and loading it again -/
theorem C12_payload_stable (cfg : Cfg) (p : Payload) :
    roundtrip cfg (resumeState cfg p) = resumeState cfg p := resume_stable cfg p

/-- **`to_dict` output is read back as written**: the version marker `to_serialized` writes selects the current
format, and loading the payload is exactly the model's round trip -/
theorem C12_todict_read_back (cfg : Cfg) (st : State) :
    isCurrentVersion (some GenSerialShape.writtenVersion) = true ∧
    fromDictAuto (toDict cfg st) = ser cfg st ∧
    resumeState cfg (toDict cfg st) = roundtrip cfg st :=
  ⟨by decide, fromDictAuto_toDict cfg st, resume_toDict cfg st⟩

/-- a legacy (V0) payload, per step the workflow knows: a step named among the queues / in-flight lists / buffers
and not among the waiter ids gets every in-flight event and then every queued event as a fresh queue entry,
nothing in progress, no waiters, and one buffer `default` holding all buffered events; every other step is empty -/
theorem C12_v0_resumed_step (cfg : Cfg) (ver : Option Int) (hver : isCurrentVersion ver = false) (v : SerV0) (n : Nat)
    (hs : cfg.hasStep n = true) :
    let rs := (resumeState cfg (.legacy ver v)).workers n
    (n ∈ v0Names v ∧ n ∉ v.waitingIds →
      rs.queue = (v0Pending v n).map v0Attempt ∧ rs.inProg = [] ∧ rs.waiters = [] ∧
      rs.collected = if (v0Buffered v n).isEmpty then [] else [(0, v0Buffered v n)]) ∧
    (¬ (n ∈ v0Names v ∧ n ∉ v.waitingIds) → rs = {}) := by
  intro rs
  have h := resume_v0 cfg ver hver v n hs
  constructor
  · intro hn
    have : rs = deserStep (v0Step v n) := by
      show (resumeState cfg (.legacy ver v)).workers n = _
      rw [h, if_pos hn]
    rw [this]
    simp [deserStep, v0Step]
  · intro hn
    show (resumeState cfg (.legacy ver v)).workers n = _
    rw [h, if_neg hn]

/-- a current-format payload whose version marker is not the current one is read as the legacy format, which
knows none of its keys: no step has any work, buffer or waiter left (only the running flag survives) -/
theorem C12_foreign_version_reads_nothing (cfg : Cfg) (ver : Option Int) (hver : isCurrentVersion ver = false)
    (run : Bool) (ws : List (Nat × PStep)) (n : Nat) :
    (resumeState cfg (.current ver run ws)).workers n = {} ∧
    (resumeState cfg (.current ver run ws)).isRunning = run := by
  simp [resumeState, fromDictAuto, hver, deser, fromV0, v0Names]

def C12.v0 : SerV0 :=
  { isRunning := true,
    queues := [(0, [{ ty := 0, kind := .start, uid := 2 }]), (77, [{ ty := 3, kind := .plain, uid := 9 }])],
    inProgress := [(0, [{ ty := 0, kind := .start, uid := 1 }])],
    eventBuffers := [(0, [(5, [{ ty := 5, kind := .plain, uid := 6 }]), (6, [{ ty := 6, kind := .plain, uid := 7 }])])],
    waitingIds := [77] }

/-- non-vacuity: a V0 payload with an in-flight and a queued event, two per-type buffers and a waiter queue -/
example :
    (resumeState C12.cfg (.legacy none C12.v0)).workers 0 =
      { queue := [{ ev := { ty := 0, kind := .start, uid := 1 }, attempts := some 0 },
                  { ev := { ty := 0, kind := .start, uid := 2 }, attempts := some 0 }],
        collected := [(0, [{ ty := 5, kind := .plain, uid := 6 }, { ty := 6, kind := .plain, uid := 7 }])] } ∧
    0 ∈ v0Names C12.v0 ∧ 0 ∉ C12.v0.waitingIds ∧ isCurrentVersion none = false ∧ isCurrentVersion (some 2) = false := by
  decide

/-- non-vacuity: a current-format payload with omitted fields, a legacy `requirements` object and an in-progress
entry -/
example :
    (resumeState C12.cfg (.current (some 1) true
        [(0, { queue := [{ ev := { ty := 0, kind := .start, uid := 3 } }],
               inProg := [{ ty := 0, kind := .start, uid := 4 }],
               waiters := [{ w := { wid := 1, ev := { ty := 0, kind := .start, uid := 3 }, waitTy := 5, hasReq := false,
                                    resolved := none, timedOut := false, attempts := 2, firstAt := none, lastExc := none,
                                    lastFailedAt := none, rc := [] }, legacyReq := true }] })])).workers 0 =
      { queue := [{ ev := { ty := 0, kind := .start, uid := 3 }, attempts := some 0 },
                  { ev := { ty := 0, kind := .start, uid := 4 }, attempts := some 0 }],
        waiters := [{ wid := 1, ev := { ty := 0, kind := .start, uid := 3 }, waitTy := 5, req := none, hasReq := true,
                      attempts := 2 }] } := by decide

/-! # the sources the model was written against -/

/-- `to_serialized` / `from_serialized` / `from_dict_auto` / `from_v0` / `PreContext.__init__` / `from_dict` /
`to_dict` as they are in the tree (regenerated on every run into `WfModel/GenSerialShape.lean`), next to the model
equations they justify -/
theorem C12_source_shape :
    -- queue entries: every field of `EventAttempt` is written and read back; `attempts or 0`
    -- (in the generated strings the locals of each function are called v0, v1, ... in order of occurrence)
    GenSerialShape.eventAttemptFields = ["event", "attempts", "first_attempt_at", "last_exception", "last_failed_at",
      "recovery_counts"] ∧
    GenSerialShape.queueWrittenNames = GenSerialShape.eventAttemptFields ∧
    GenSerialShape.queueReadNames = GenSerialShape.eventAttemptFields ∧
    GenSerialShape.queueWritten = ["event=v0.serialize(v1.event)", "attempts=v1.attempts or 0",
      "first_attempt_at=v1.first_attempt_at", "last_exception=v1.last_exception",
      "last_failed_at=v1.last_failed_at", "recovery_counts=dict(v1.recovery_counts)"] ∧
    GenSerialShape.queueRead = ["event=v0.deserialize(v1.event)", "attempts=v1.attempts",
      "first_attempt_at=v1.first_attempt_at", "last_exception=v1.last_exception",
      "last_failed_at=v1.last_failed_at", "recovery_counts=dict(v1.recovery_counts)"] ∧
    (∀ a : Attempt, serAttempt a = { a with attempts := some (orNat a.attempts 0) }) ∧
    -- in-progress invocations: only the event is written; they come back appended to the queue as fresh entries
    GenSerialShape.inProgressWritten = "v0.serialize(x.event)" ∧
    GenSerialShape.inProgressWrittenOver = "v0.in_progress" ∧
    GenSerialShape.inProgressFields = ["event", "worker_id", "shared_state", "attempts", "first_attempt_at",
      "last_exception", "last_failed_at", "recovery_counts"] ∧
    GenSerialShape.inProgressDropped = ["worker_id", "shared_state", "attempts", "first_attempt_at", "last_exception",
      "last_failed_at", "recovery_counts"] ∧
    GenSerialShape.requeued = ["event=v0.deserialize(v1)", "attempts=0", "first_attempt_at=None"] ∧
    GenSerialShape.requeuedVia = "v1.queue.append" ∧
    GenSerialShape.requeuedOver = "v0.in_progress" ∧
    (∀ ss : StepState, (serStep ss).inProg = ss.inProg.map (·.ev)) ∧
    (∀ s : SerStep, (deserStep s).queue = s.queue ++ s.inProg.map freshAttempt ∧ (deserStep s).inProg = []) ∧
    -- waiters: everything but `requirements` is written; all fields are given back, `requirements` empty
    GenSerialShape.waiterFields = ["waiter_id", "event", "waiting_for_event", "requirements", "has_requirements",
      "resolved_event", "timed_out", "attempts", "first_attempt_at", "last_exception", "last_failed_at",
      "recovery_counts"] ∧
    GenSerialShape.waiterNotWritten = ["requirements"] ∧
    GenSerialShape.waiterReadNames = GenSerialShape.waiterFields ∧
    GenSerialShape.waiterWritten = ["waiter_id=v0.waiter_id", "event=v1.serialize(v0.event)",
      "waiting_for_event=f'{v0.waiting_for_event.__module__}.{v0.waiting_for_event.__name__}'",
      "has_requirements=bool(len(v0.requirements)) or v0.has_requirements",
      "resolved_event=v1.serialize(v0.resolved_event) if v0.resolved_event else None",
      "timed_out=v0.timed_out", "attempts=v0.attempts", "first_attempt_at=v0.first_attempt_at",
      "last_exception=v0.last_exception", "last_failed_at=v0.last_failed_at",
      "recovery_counts=dict(v0.recovery_counts)"] ∧
    GenSerialShape.waiterRead = ["waiter_id=v0.waiter_id", "event=v1.deserialize(v0.event)",
      "waiting_for_event=v2", "requirements={}", "has_requirements=v0.has_requirements",
      "resolved_event=v1.deserialize(v0.resolved_event) if v0.resolved_event else None",
      "timed_out=v0.timed_out", "attempts=v0.attempts", "first_attempt_at=v0.first_attempt_at",
      "last_exception=v0.last_exception", "last_failed_at=v0.last_failed_at",
      "recovery_counts=dict(v0.recovery_counts)"] ∧
    (∀ w : Waiter, (serWaiter w).hasReq = (w.req.isSome || w.hasReq)) ∧
    (∀ w : SerWaiter, (deserWaiter w).req = none ∧ (deserWaiter w).hasReq = w.hasReq) ∧
    -- the per-step record, the context record, which steps are written and which are restored
    GenSerialShape.stepWrittenNames = ["queue", "in_progress", "collected_events", "collected_waiters"] ∧
    GenSerialShape.contextWritten = ["version=1", "state={}", "is_running=self.is_running", "workers=v0"] ∧
    GenSerialShape.stepsWrittenOver = "self.workers.items()" ∧
    GenSerialShape.unknownStepSkipped = "v0 not in v1.workers" ∧
    GenSerialShape.runningRestored = "v0.is_running = v1.is_running" ∧
    GenSerialShape.workerAssigned = ["v0.collected_events", "v0.collected_waiters", "v0.queue"] ∧
    -- defaults of the serialised models
    GenSerialShape.serializedAttemptFields = ["event", "attempts=0", "first_attempt_at=None", "last_exception=None",
      "last_failed_at=None", "recovery_counts=Field(default_factory=dict)"] ∧
    GenSerialShape.serializedWaiterFields = ["waiter_id", "event", "waiting_for_event",
      "has_requirements=Field(default=False)", "resolved_event=None", "timed_out=Field(default=False)", "attempts=0",
      "first_attempt_at=None", "last_exception=None", "last_failed_at=None", "recovery_counts=Field(default_factory=dict)"] ∧
    GenSerialShape.serializedStepFields = ["queue=Field(default_factory=list)", "in_progress=Field(default_factory=list)",
      "collected_events=Field(default_factory=dict)", "collected_waiters=Field(default_factory=list)"] ∧
    GenSerialShape.serializedContextFields = ["version=Field(default=1)", "state=Field(default_factory=dict)",
      "is_running=Field(default=False)", "workers=Field(default_factory=dict)"] ∧
    (({ ev := C12.askEv } : PAttempt).validate = { ev := C12.askEv, attempts := some 0 }) ∧
    (({} : PStep).validate = { queue := [], inProg := [], collected := [], waiters := [] }) ∧
    -- the version marker: written = default = the one `from_dict_auto` accepts
    GenSerialShape.writtenVersion = 1 ∧ GenSerialShape.defaultVersion = 1 ∧ GenSerialShape.dispatchVersion = 1 ∧
    GenSerialShape.dispatchTest = "'version' in v0 and v0['version'] == 1" ∧
    GenSerialShape.dispatchSkeleton = ["if 'version' in v0 and v0['version'] == 1",
      "return SerializedContext.model_validate(v0)", "else", "v1 = SerializedContextV0.model_validate(v0)",
      "return SerializedContext.from_v0(v1)", "endif"] ∧
    (∀ v : Option Int, isCurrentVersion v = (v == some GenSerialShape.dispatchVersion)) ∧
    GenSerialShape.legacyRequirements = ["if 'requirements' in v0 and isinstance(v0['requirements'], dict) and (len(v0['requirements']) > 0)",
      "v0['has_requirements'] = True", "endif", "return v0"] ∧
    (∀ p : PWaiter, p.validate.hasReq = (p.legacyReq || p.w.hasReq)) ∧
    -- `from_v0`
    GenSerialShape.fromV0Facts = ["names:set(v0.queues.keys()) | set(v0.in_progress.keys()) | set(v0.event_buffers.keys())",
      "skip:v0 in v1.waiting_ids",
      "queue-from:v0 in v1.in_progress -> event=v3,attempts=0,first_attempt_at=None via v2.append",
      "queue-from:v0 in v1.queues -> event=v3,attempts=0,first_attempt_at=None via v2.append",
      "buffers-from:v0 in v1.event_buffers over v1.event_buffers[v0].values() if v2 key 'default'",
      "step:queue=<local>,in_progress=[],collected_events=<local>,collected_waiters=[]",
      "context:version=1,state=v0.state,is_running=v0.is_running,workers=v1"] ∧
    (∀ v n, (v0Step v n).queue = ((assocGet v.inProgress n).getD [] ++ (assocGet v.queues n).getD []).map v0Attempt) ∧
    -- `PreContext.__init__`, `Context._workflow_run`, `Context.from_dict`, `ExternalContext.to_dict`
    GenSerialShape.preContextParse = ["try", "v0 = SerializedContext.from_dict_auto(v1)",
      "BrokerState.from_serialized(v0, v2, self._serializer)", "except ValidationError",
      "raise ContextSerdeError(f'Context dict specified in an invalid format: {v3}') from v3", "endtry"] ∧
    GenSerialShape.runInitialState = "BrokerState.from_serialized(v0.init_snapshot, v1, v0._serializer)" ∧
    GenSerialShape.fromDictBody = ["try", "return cls(v0, previous_context=v1, serializer=v2)",
      "except KeyError", "v3 = 'Error creating a Context instance: the provided payload has a wrong or old format.'",
      "raise ContextSerdeError(v3) from v4", "endtry"] ∧
    GenSerialShape.toDictSerialized = ["v0 = v1.to_serialized(v2)", "v0.state = v3",
      "return v0.model_dump(mode='python')"] ∧
    (∀ cfg p, resumeState cfg p = deser cfg (fromDictAuto p)) := by
  refine ⟨rfl, rfl, rfl, rfl, rfl, fun _ => rfl, rfl, rfl, rfl, rfl, rfl, rfl, rfl, fun _ => rfl, fun _ => ⟨rfl, rfl⟩,
    rfl, rfl, rfl, rfl, rfl, fun _ => rfl, fun _ => ⟨rfl, rfl⟩, rfl, rfl, rfl, rfl, rfl, rfl, rfl, rfl, rfl, rfl, rfl, rfl,
    rfl, rfl, rfl, rfl, rfl, fun _ => rfl, rfl, ?_, rfl, fun _ _ => rfl, rfl, rfl, rfl, rfl, fun _ _ => rfl⟩
  intro p
  cases p with
  | mk w l => cases l <;> simp [PWaiter.validate]
